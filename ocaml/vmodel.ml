(* vmodel — I/O shell around the extracted model (gen/model.ml).
   All parsing, evaluation and printing happens in extracted Gallina
   (Run.run_line / Run.check_line); this file only moves bytes.
   usage: vmodel run   < requests      > one model output per line
          vmodel check < "<req> => <impl>" lines > MISMATCH lines + DONE summary *)

let rec pos_of_int i = if i = 1 then Model.XH else if i land 1 = 0 then Model.XO (pos_of_int (i lsr 1)) else Model.XI (pos_of_int (i lsr 1))
let n_of_int i = if i = 0 then Model.N0 else Model.Npos (pos_of_int i)
let rec int_of_pos = function Model.XH -> 1 | Model.XO p -> 2 * int_of_pos p | Model.XI p -> 2 * int_of_pos p + 1
let int_of_n = function Model.N0 -> 0 | Model.Npos p -> int_of_pos p

let tbl = Array.init 256 (fun i -> match Model.of_N (n_of_int i) with Some b -> b | None -> failwith "byte table")

let to_bytes (s : string) : Model.byte list =
  let r = ref [] in
  for i = String.length s - 1 downto 0 do r := tbl.(Char.code (String.unsafe_get s i)) :: !r done;
  !r

let of_bytes (l : Model.byte list) : string =
  let b = Buffer.create 256 in
  List.iter (fun x -> Buffer.add_char b (Char.chr (int_of_n (Model.to_N x)))) l;
  Buffer.contents b

let () =
  let mode = if Array.length Sys.argv > 1 then Sys.argv.(1) else "run" in
  let n = ref 0 and bad = ref 0 in
  (try
     while true do
       let line = input_line stdin in
       if String.length line > 0 && line.[0] <> '#' then begin
         (match mode with
          | "run" -> print_string (of_bytes (Model.run_line (to_bytes line))); print_char '\n'
          | _ ->
            (match Model.check_line (to_bytes line) with
             | None -> ()
             | Some m -> incr bad; Printf.printf "MISMATCH %d %s\n" !n (of_bytes m)));
         incr n
       end
     done
   with End_of_file -> ());
  if mode <> "run" then Printf.printf "DONE %d %d\n" !n !bad
