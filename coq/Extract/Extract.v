(* Extraction of the executable model: ExtrOcamlBasic only, no Extract Constant of our own. *)
From Coq Require Import Extraction ExtrOcamlBasic.
From OAP Require Import Model.Run.
Set Extraction KeepSingleton.
Extraction Language OCaml.
Extraction "model.ml" Run.run_line Run.check_line.
