(* C04 — Decoders are total and resource-safe on arbitrary bytes.  In the model every Go index/slice
   expression is a checked primitive that yields Panic when out of range, and every loop runs on fuel:
   "<> Panic" is "never reads outside the supplied bytes", "<> OutOfFuel" is termination. *)
From Coq Require Import List NArith ZArith.
From OAP Require Import Base.Bytes Base.Res Gen.Consts Model.Handshake Model.Metadata Model.Header Model.Frame Model.Stream
  Proofs.HandshakeP Proofs.MetadataP Proofs.GzipP Proofs.StreamP Proofs.TotalP.
Import ListNotations.
Local Open Scope N_scope.

Theorem C04_oneshot_total : forall gz v codec stale bs,
  unpack_bytes gz v codec stale bs <> Panic /\ unpack_bytes gz v codec stale bs <> OutOfFuel.
Proof. exact unpack_bytes_total. Qed.

(* streaming decode, every reachable state (any chunk history), any ring geometry: total; a step that
   reports a packet consumed at least one byte; nothing is un-consumed *)
Theorem C04_streaming_total_and_progress : forall gz v codec k stale s,
  wf_pending v s ->
  fst (stream_unpack gz v codec k stale s) <> Panic /\ fst (stream_unpack gz v codec k stale s) <> OutOfFuel /\
  (forall p, fst (stream_unpack gz v codec k stale s) = Ok (SPkt p) ->
             (length (s_q (snd (stream_unpack gz v codec k stale s))) < length (s_q s))%nat) /\
  (length (s_q (snd (stream_unpack gz v codec k stale s))) <= length (s_q s))%nat.
Proof. exact stream_unpack_total. Qed.

Theorem C04_metadata_total : forall data,
  unmarshal_values data <> Panic /\ unmarshal_values data <> OutOfFuel.
Proof. exact unmarshal_values_total. Qed.

Theorem C04_handshake_total : forall bs, hs_unpack bs <> Panic /\ hs_unpack bs <> OutOfFuel.
Proof.
  intros bs. destruct (N.eq_dec (N.of_nat (length bs)) c_HandshakeLength) as [E|N].
  - destruct (hs_len_accept bs E) as [h ->]. split; discriminate.
  - rewrite (hs_len_gate bs N). split; discriminate.
Qed.

Theorem C04_gzip_total : forall gz inp, decompress gz inp <> Panic /\ decompress gz inp <> OutOfFuel.
Proof. exact decompress_total. Qed.

(* memory: the streaming decoder's own buffers are bounded by the bytes already received ... *)
Theorem C04_streaming_alloc_bounded : forall v k stale s,
  wf_pending v s -> (fold_left Nat.add (stream_allocs v k stale s) 0 <= length (s_q s))%nat.
Proof. exact stream_alloc_bounded. Qed.
(* ... and the gzip output buffer request by the input length times the format's expansion ratio,
   whatever the size trailer claims *)
Theorem C04_gzip_alloc_bounded : forall gz inp,
  (0 <= decompress_alloc gz inp <= Z.of_nat (length inp) * c_maxExpansion + Z.of_N c_bytes_MinRead)%Z.
Proof. exact decompress_alloc_bounded. Qed.

Print Assumptions C04_oneshot_total.
Print Assumptions C04_streaming_total_and_progress.
Print Assumptions C04_metadata_total.
Print Assumptions C04_handshake_total.
Print Assumptions C04_gzip_total.
Print Assumptions C04_streaming_alloc_bounded.
Print Assumptions C04_gzip_alloc_bounded.
