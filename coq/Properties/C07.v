(* C07 — A response that arrives in time is never lost. *)
From Coq Require Import List NArith.
From OAP Require Import Base.Bytes Base.Res Gen.Consts Model.Metadata Model.Header Model.Waiters Proofs.WaitersP.
Import ListNotations.
Local Open Scope N_scope.

(* in every interleaving of any number of calls with arbitrary incoming traffic (on a live connection: no
   sweep), a request that has been handed to the transport has its waiter registered ... *)
Theorem C07_written_is_registered : forall pe acts k id,
  N.of_nat (starts acts) + 1 < 4294967296 -> no_sweep acts ->
  nth_error (ws_calls (run pe acts)) k = Some (mkCall id CWritten) ->
  exists slot, tlookup id (ws_table (run pe acts)) = Some (k, slot).
Proof. exact written_is_registered. Qed.
(* ... so the matching response, whenever it is dispatched after that — even immediately — is stored for the
   caller (no "no receiver", no "duplicate"), and the caller returns exactly it when it takes it *)
Theorem C07_timely_response_returned : forall pe s k id p,
  nth_error (ws_calls s) k = Some (mkCall id CWritten) -> tlookup id (ws_table s) = Some (k, None) ->
  route_of p = RToWaiter -> w_rid p = id ->
  let s1 := step pe s (ADispatch p) in
  tlookup id (ws_table s1) = Some (k, Some p) /\ (ws_log s1 = ws_log s) /\
  (nth_error (ws_calls (step pe s1 (AFinish k FTake))) k = Some (mkCall id (CDone (result_of pe p)))).
Proof. exact timely_response_returned. Qed.

(* non-vacuity and the order that matters: response dispatched right after the write, before the caller waits *)
Example C07_example :
  let p := mkWpkt PTResponse 9 1 0 [] in
  map wc_st (ws_calls (run (fun _ => None) [AStart; ARegister 0; AWrite 0 true; ADispatch p; AFinish 0 FTake]))
  = [CDone (WResp p)].
Proof. vm_compute. reflexivity. Qed.
(* the order the code had before the repair (write, then register) loses it: the model refuses a write
   before registration, so that history is not even expressible; the old behaviour is the witness below *)
Example C07_old_order_witness :
  let p := mkWpkt PTResponse 9 1 0 [] in
  ws_log (run (fun _ => None) [AStart; ADispatch p; ARegister 0; AWrite 0 true; AFinish 0 FDeadline]) = [LNoReceiver 1].
Proof. vm_compute. reflexivity. Qed.

Print Assumptions C07_written_is_registered.
Print Assumptions C07_timely_response_returned.
