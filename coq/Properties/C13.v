(* C13 — Push dispatch: right handlers, exactly once, in order.  Reader and dispatcher of one connection
   around the bounded receive queue (Model/Dispatch.v), for every interleaving of their steps. *)
From Coq Require Import List NArith.
From OAP Require Import Base.Bytes Base.Res Gen.Consts Model.Metadata Model.Header Model.Waiters Model.Dispatch Proofs.DispatchP.
Import ListNotations.
Local Open Scope N_scope.

(* handler invocations are exactly: the frames taken so far, in arrival order, each push once to every handler
   of its command in subscription order *)
Theorem C13_push_delivery : forall sb cap acts,
  let s := drun sb cap acts in d_calls s = flat_map (deliver sb) (d_taken s).
Proof. exact push_delivery. Qed.
Theorem C13_push_delivery_quiescent : forall sb cap acts,
  let s := drun sb cap acts in d_queue s = [] -> d_calls s = flat_map (deliver sb) (d_accepted s).
Proof. exact push_delivery_quiescent. Qed.
(* the only loss is the overflow of the receive queue, and each lost frame is one log line *)
Theorem C13_only_logged_overflow_is_lost : forall sb cap acts,
  let s := drun sb cap acts in subseq (d_accepted s) (d_received s) /\
  (length (d_received s) = length (d_accepted s) + d_drops s)%nat.
Proof. exact accepted_subsequence. Qed.
Theorem C13_drop_only_when_full : forall sb s p,
  d_drops (dstep sb s (DRecv p)) = S (d_drops s) -> d_chan s = false \/ (d_cap s <= length (d_queue s))%nat.
Proof. exact drop_only_when_full. Qed.
Theorem C13_control_never_to_subscribers : forall sb p, w_cmd p <= c_CMD_RECONNECT -> deliver sb p = [].
Proof. exact control_never_to_subscribers. Qed.
Theorem C13_push_to_own_handlers_only : forall sb p h q,
  In (h, q) (deliver sb p) -> q = p /\ In h (sb (w_cmd p)) /\ w_ty p = PTPush.
Proof. exact push_to_own_handlers. Qed.

Print Assumptions C13_push_delivery.
Print Assumptions C13_push_delivery_quiescent.
Print Assumptions C13_only_logged_overflow_is_lost.
Print Assumptions C13_drop_only_when_full.
Print Assumptions C13_control_never_to_subscribers.
Print Assumptions C13_push_to_own_handlers_only.
