(* C13 — Push dispatch: right handlers, exactly once, in order.  Reader and dispatcher of one connection
   around the bounded receive queue (Model/Dispatch.v), for every interleaving of their steps. *)
From Coq Require Import List NArith.
From Coq.Strings Require Import Byte.
From OAP Require Import Base.Bytes Base.Res Gen.Consts Model.Metadata Model.Header Model.Waiters Model.Dispatch Proofs.DispatchP.
From OAP Require Import Model.ChanForms Gen.Chans Proofs.ChanFormsP.
Import ListNotations.
Local Open Scope N_scope.

(* handler invocations are exactly: the frames taken so far, in arrival order, each push once to every handler
   of its command in subscription order *)
Theorem C13_push_delivery : forall sb cap acts,
  let s := drun sb cap acts in d_calls s = flat_map (deliver sb) (d_taken s).
Proof. exact push_delivery. Qed.
Theorem C13_push_delivery_quiescent : forall sb cap acts,
  let s := drun sb cap acts in d_queue s = [] -> d_calls s = flat_map (deliver sb) (d_accepted s).
Proof. exact push_delivery_quiescent. Qed.
(* the only loss is the overflow of the receive queue, and each lost frame is one log line *)
Theorem C13_only_logged_overflow_is_lost : forall sb cap acts,
  let s := drun sb cap acts in subseq (d_accepted s) (d_received s) /\
  (length (d_received s) = length (d_accepted s) + d_drops s)%nat.
Proof. exact accepted_subsequence. Qed.
Theorem C13_drop_only_when_full : forall sb s p,
  d_drops (dstep sb s (DRecv p)) = S (d_drops s) -> d_chan s = false \/ (d_cap s <= length (d_queue s))%nat.
Proof. exact drop_only_when_full. Qed.
Theorem C13_control_never_to_subscribers : forall sb p, w_cmd p <= c_CMD_RECONNECT -> deliver sb p = [].
Proof. exact control_never_to_subscribers. Qed.
Theorem C13_push_to_own_handlers_only : forall sb p h q,
  In (h, q) (deliver sb p) -> q = p /\ In h (sb (w_cmd p)) /\ w_ty p = PTPush.
Proof. exact push_to_own_handlers. Qed.

(* the dispatcher's lifecycle.  Its last iteration (the one that sees the connection closed) hands over everything
   still queued, and the connection is reported gone exactly once, after that *)
Theorem C13_close_drains_the_queue : forall sb s, DInv sb s -> d_phase s = DPRunning -> d_closed s = true ->
  let s' := dstep sb s DTake in
  d_phase s' = DPExited /\ d_queue s' = [] /\ d_taken s' = d_accepted s /\
  d_calls s' = flat_map (deliver sb) (d_accepted s) /\ d_gone s' = S (d_gone s).
Proof. exact exit_drains. Qed.
Theorem C13_invariant_in_every_reachable_state : forall sb cap acts, DInv sb (drun_u sb cap acts).
Proof. exact dinv_run_u. Qed.
Theorem C13_gone_reported_once : forall sb cap acts, gone_ok (drun_u sb cap acts).
Proof. exact gone_reported_once. Qed.
(* when the client registers its packet callback does not matter: whatever the reader queued (and even a close)
   before the registration is treated as if the callback had been there from the start *)
Theorem C13_late_registration_unobservable : forall sb cap rs ks, forallb reader_side rs = true ->
  drun_u sb cap (rs ++ DStart :: ks) = drun sb cap (rs ++ ks).
Proof. exact late_registration_unobservable. Qed.
Theorem C13_closed_before_registration_delivers_all : forall sb cap rs, forallb reader_side rs = true -> In DClose rs ->
  let s := drun_u sb cap (rs ++ [DStart; DTake]) in
  d_calls s = flat_map (deliver sb) (d_accepted s) /\ d_queue s = [] /\ d_gone s = 1%nat /\ d_phase s = DPExited.
Proof. exact closed_before_registration_delivers_all. Qed.
(* non-vacuity: three pushes and a close before the registration, two handlers *)
Example C13_late_example :
  let p n := mkWpkt PTPush 50 0 0 [n] in
  let s := drun_u (fun c => if c =? 50 then [0; 1]%nat else []) 8 [DRecv (p "1"%byte); DRecv (p "2"%byte); DRecv (p "3"%byte); DClose; DStart; DTake] in
  length (d_calls s) = 6%nat /\ d_gone s = 1%nat /\ d_queue s = [].
Proof. vm_compute. repeat split. Qed.

(* DRecv is one total step (enqueue or logged drop, the reader never waits for the dispatcher) because the only sends
   on a packetCh in the source are the two addPacket functions, both select-with-default (Gen/Chans.v) *)
Theorem C13_reader_never_blocks_in_source :
  all_nonblocking packetCh_sends = true /\ funcs_of packetCh_sends = [f_tcp_add; f_ws_add].
Proof. exact reader_never_blocks. Qed.

Print Assumptions C13_push_delivery.
Print Assumptions C13_close_drains_the_queue.
Print Assumptions C13_invariant_in_every_reachable_state.
Print Assumptions C13_gone_reported_once.
Print Assumptions C13_late_registration_unobservable.
Print Assumptions C13_closed_before_registration_delivers_all.
Print Assumptions C13_push_delivery_quiescent.
Print Assumptions C13_only_logged_overflow_is_lost.
Print Assumptions C13_drop_only_when_full.
Print Assumptions C13_control_never_to_subscribers.
Print Assumptions C13_push_to_own_handlers_only.
Print Assumptions C13_reader_never_blocks_in_source.
