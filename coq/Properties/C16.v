(* C16 — Closed and replaced connections release their resources. *)
From Coq Require Import List NArith.
From OAP Require Import Base.Bytes Base.Res Model.Life Proofs.LifeP.
From OAP Require Import Model.ChanForms Gen.Chans Proofs.ChanFormsP.
Import ListNotations.
Local Open Scope N_scope.

(* never more than one open connection, for every history *)
Theorem C16_at_most_one_open_connection : forall max acts s, lrun (l0 max) acts = Ok s -> (open_conns s <= 1)%nat.
Proof. exact at_most_one_open_connection. Qed.
(* at quiescence (no goroutine of a closed connection left to exit) the library goroutines serving connections are
   exactly three per open connection: at most 3 whatever the number of connect/drop/reconnect cycles, 0 after Close *)
Theorem C16_quiescent_released : forall max acts s, lrun (l0 max) acts = Ok s ->
  forallb (fun c => negb (lingering c)) (l_conns s) = true ->
  live_goroutines s = (3 * open_conns s)%nat /\ (live_goroutines s <= 3)%nat /\ (l_closed s = true -> live_goroutines s = 0%nat).
Proof. exact quiescent_released. Qed.
(* quiescence is reachable: every goroutine of a closed connection has an exit step (they all watch closeCh) *)
Theorem C16_lingering_goroutine_can_exit : forall c, lingering c = true ->
  exists g, alive (hd c (exit_g 0 g [c])) = (alive c - 1)%nat.
Proof. exact lingering_can_exit. Qed.

(* the goroutines of a connection cannot sleep through its close: in the source (Gen/Chans.v) every receive of a
   dispatcher or writer is a select that also lists the connection's close signal or a ticker, except the one plain
   receive per dispatcher that drains the packets counted with len() beforehand *)
Theorem C16_conn_goroutines_wake_on_close_in_source :
  conn_goroutines_wake chan_ops = true /\ dispatcher_shape f_tcp_disp chan_ops = true /\
  dispatcher_shape f_ws_disp chan_ops = true.
Proof. exact idle_conn_goroutines_wake. Qed.

Print Assumptions C16_at_most_one_open_connection.
Print Assumptions C16_quiescent_released.
Print Assumptions C16_lingering_goroutine_can_exit.
Print Assumptions C16_conn_goroutines_wake_on_close_in_source.
