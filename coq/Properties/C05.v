(* C05 — Responses are matched to the right request.  The waiter mechanism of the client
   (Model/Waiters.v) against an environment that dispatches arbitrary packets at any time:
   permuted, duplicated, late, unknown-id and stale-id responses, pushes and requests. *)
From Coq Require Import List NArith.
From OAP Require Import Base.Bytes Base.Res Gen.Consts Model.Metadata Model.Header Model.Waiters Proofs.WaitersP.
From OAP Require Import Model.ChanForms Gen.Chans Proofs.ChanFormsP.
Import ListNotations.
Local Open Scope N_scope.

(* whatever a finished call holds came from a packet with the call's own id that was routed to waiters,
   or is a timeout / lost-connection / write error *)
Theorem C05_returns_own_id : forall pe acts k id r,
  N.of_nat (starts acts) + 1 < 4294967296 ->
  nth_error (ws_calls (run pe acts)) k = Some (mkCall id (CDone r)) -> own_result pe id r.
Proof. exact returns_own_id. Qed.
Theorem C05_returned_packet_has_own_id : forall pe acts k id p,
  N.of_nat (starts acts) + 1 < 4294967296 ->
  nth_error (ws_calls (run pe acts)) k = Some (mkCall id (CDone (WResp p))) -> w_rid p = id.
Proof. exact returned_packet_has_own_id. Qed.
(* a call takes at most one packet: once finished nothing changes its result *)
Theorem C05_done_is_final : forall pe s a k id r,
  nth_error (ws_calls s) k = Some (mkCall id (CDone r)) -> nth_error (ws_calls (step pe s a)) k = Some (mkCall id (CDone r)).
Proof. exact done_is_final. Qed.
(* unsolicited / unknown / stale ids and duplicates leave a log line and nothing else *)
Theorem C05_unsolicited_dropped : forall pe s p,
  route_of p = RToWaiter -> tlookup (w_rid p) (ws_table s) = None ->
  step pe s (ADispatch p) = mkWs (ws_counter s) (ws_calls s) (ws_table s) (ws_log s ++ [LNoReceiver (w_rid p)]).
Proof. exact unsolicited_dropped. Qed.
Theorem C05_duplicate_dropped : forall pe s p k q,
  route_of p = RToWaiter -> tlookup (w_rid p) (ws_table s) = Some (k, Some q) ->
  step pe s (ADispatch p) = mkWs (ws_counter s) (ws_calls s) (ws_table s) (ws_log s ++ [LDuplicate (w_rid p)]).
Proof. exact duplicate_dropped. Qed.
(* status zero is success; every other status is a typed error with the body's code/message or the 500 fallback *)
Theorem C05_error_mapping : forall pe p, w_ty p = PTResponse ->
  (w_status p = c_StatusSuccess -> result_of pe p = WResp p) /\
  (w_status p <> c_StatusSuccess ->
     result_of pe p = match pe (w_body p) with Some (code, msg) => WLBErr (w_status p) code msg
                                             | None => WLBErr (w_status p) 500 fallback_msg end).
Proof. exact error_mapping. Qed.

(* the packet a call returns is a response frame with status success carrying the call's id (every other frame that
   reaches the matcher - including request or push frames with the AUTH / RECONNECT command - is ignored or surfaced
   as an error, never returned) *)
Theorem C05_returned_packet_is_a_response : forall pe acts k id p,
  N.of_nat (starts acts) + 1 < 4294967296 ->
  nth_error (ws_calls (run pe acts)) k = Some (mkCall id (CDone (WResp p))) ->
  w_ty p = PTResponse /\ w_status p = c_StatusSuccess /\ w_rid p = id.
Proof. exact returned_packet_is_response. Qed.

(* the dispatcher hands a response to its waiter without ever waiting for it: the one send in handleResponse is a
   case of a select with a default clause (Gen/Chans.v) - a slow or departed caller cannot hold up other calls *)
Theorem C05_dispatcher_never_blocked_by_a_waiter_in_source :
  all_nonblocking waiter_sends = true /\ List.length waiter_sends = 1%nat.
Proof. exact dispatcher_never_blocked_by_a_waiter. Qed.

Print Assumptions C05_returns_own_id.
Print Assumptions C05_returned_packet_has_own_id.
Print Assumptions C05_done_is_final.
Print Assumptions C05_unsolicited_dropped.
Print Assumptions C05_duplicate_dropped.
Print Assumptions C05_error_mapping.
Print Assumptions C05_returned_packet_is_a_response.
Print Assumptions C05_dispatcher_never_blocked_by_a_waiter_in_source.
