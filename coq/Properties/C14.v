(* C14 — Close is final and safe.  Lifecycle model (Model/Life.v) of the repaired client; every interleaving of user
   Close, connection losses, the steps of the recovery loop (loop head, dial done, auth done), request writes and
   goroutine exits. *)
From Coq Require Import List NArith.
From OAP Require Import Base.Bytes Base.Res Model.Life Proofs.LifeP Model.CloseLock Proofs.CloseLockP.
Import ListNotations.
Local Open Scope N_scope.

(* no interleaving reaches a panic (close of a closed channel by a second Close / give-up after Close, nil conn) *)
Theorem C14_never_panics : forall max acts, lrun (l0 max) acts <> Panic.
Proof. intros max acts. exact (proj1 (lrun_safe max acts)). Qed.
(* the close callback runs exactly once, whether Close is the user's, the give-up path's, or both *)
Theorem C14_close_callback_exactly_once : forall max acts s,
  lrun (l0 max) acts = Ok s -> l_cb s = if l_closed s then 1%nat else 0%nat.
Proof. exact close_callback_once. Qed.
(* after Close: no dial is begun, no frame is written, no reconnect is reported, every connection is closed -
   wherever the recovery loop was (pending, dialling, authenticating, backing off, about to give up) *)
Theorem C14_close_is_final : forall max acts s, lrun (l0 max) acts = Ok s ->
  l_late_dials s = 0%nat /\ l_late_frames s = 0%nat /\ l_late_recon_cb s = 0%nat /\
  (l_closed s = true -> forallb closedb (l_conns s) = true).
Proof. exact close_is_final. Qed.
(* Close itself is one step with no wait: prompt *)
Theorem C14_close_is_one_step : forall s, LInv s -> exists s', lstep s LUserClose = Ok s' /\ l_closed s' = true.
Proof.
  intros s I. destruct (linv_step s LUserClose I) as [NP St]. destruct (lstep s LUserClose) as [s'| | |] eqn:E; try congruence.
  - exists s'. split; [reflexivity|]. cbn [lstep] in E. now destruct (do_close_inv s s' I E) as (_ & C & _).
  - cbn [lstep] in E. unfold do_close, close_chan in E. destruct (l_once s); [discriminate|]. destruct (l_closed s); discriminate.
  - cbn [lstep] in E. unfold do_close, close_chan in E. destruct (l_once s); [discriminate|]. destruct (l_closed s); discriminate.
Qed.

Example C14_close_during_dial :
  lrun (l0 0) [LConnLost; LRetryBegin; LUserClose; LDialDone true; LRetryBegin] =
  Ok (mkL true true 1 0 false PhIdle [mkConn false true true true; mkConn false true true true] 1 0 0 0 0 false).
Proof. vm_compute. reflexivity. Qed.

Print Assumptions C14_never_panics.
Print Assumptions C14_close_callback_exactly_once.
Print Assumptions C14_close_is_final.
Print Assumptions C14_close_is_one_step.

(* Close against another closer of the same connection (Model/CloseLock.v): client.Close holds the client's read lock
   while conn.Close may wait for the connection's once, whose body - run by the reader that saw the peer go away -
   ends in the close callback that takes the client's WRITE lock unless the client is closed.  For any number of
   other read-lock holders and every interleaving: some thread can always move until all are done, every step
   decreases a measure (so Close returns), and the cycle user-waits-for-once / reader-waits-for-write-lock is
   unreachable.  Without the closed test in the callback the same schedule is a deadlock (witness). *)
Theorem C14_close_never_deadlocks_with_a_closing_reader : forall n s,
  reachable n s -> CloseLock.final s = false -> CloseLock.enabled s = true.
Proof. exact no_deadlock. Qed.
Theorem C14_close_lock_steps_terminate : forall s w s', CloseLock.step s w = Some s' -> (measure s' < measure s)%nat.
Proof. exact step_decreases. Qed.
Theorem C14_no_close_cycle : forall n s, reachable n s -> (u s = U3 \/ u s = U3body) -> r_wants_w (r s) = false.
Proof. exact no_close_cycle. Qed.
Theorem C14_write_lock_excludes_readers : forall n s, reachable n s -> wr s = true -> u_holds_r (u s) = false /\ env s = 0%nat.
Proof. exact writer_excludes_readers. Qed.
Print Assumptions C14_close_never_deadlocks_with_a_closing_reader.
Print Assumptions C14_close_lock_steps_terminate.
Print Assumptions C14_no_close_cycle.
Print Assumptions C14_write_lock_excludes_readers.
