(* C02 — Wire-format conformance to the published frame layout (Model/Spec.v). *)
From Coq Require Import List NArith ZArith.
From Coq.Strings Require Import Byte.
From OAP Require Import Base.Bytes Base.Res Gen.Consts Model.Metadata Model.Header Model.Frame Model.Spec Proofs.BitsP Proofs.FrameP.
Import ListNotations.
Local Open Scope N_scope.

(* encoder direction: for every representable packet, every threshold, every pooled-header state,
   the bytes are exactly those the layout prescribes for its fields *)
Theorem C02_encoder_is_layout : forall gz v thr stale p,
  m_type (p_md p) <> PTNone ->
  N.of_nat (length (wire_body gz thr (p_body p))) <= c_MaxBodyLength ->
  pack gz v thr stale p = Ok (spec_frame v (fields_of gz v thr p), mkPacket (wire_md thr p) (wire_body gz thr (p_body p))).
Proof. exact pack_is_spec. Qed.

(* decoder direction: every frame of the layout (all three types, every flag combination, reserve bits,
   field extremes) is accepted and reported with exactly the layout's field values *)
Theorem C02_decoder_reads_layout : forall gz v codec stale f vals body,
  wf_fields v f = true ->
  (if v =? 2 then unmarshal_values (f_meta f) = Ok vals else vals = []) ->
  (if f_gzip f then decompress gz (f_body f) = Ok body else body = f_body f) ->
  unpack_bytes gz v codec stale (spec_frame v f) = Ok (packet_of codec f vals body).
Proof. exact unpack_spec. Qed.

Theorem C02_unknown_type_rejected : forall gz v codec stale b rest,
  let ty := bN b mod 16 in ty <> 1 -> ty <> 2 -> ty <> 3 ->
  unpack_bytes gz v codec stale (b :: rest) = Err EUnknownPacket.
Proof. exact unpack_rejects_unknown_type. Qed.

Theorem C02_header_lengths_follow_layout : forall v ty,
  (ty = 1 \/ ty = 2 \/ ty = 3) -> hdr_len v ty = spec_header_len v ty.
Proof. exact hdr_len_spec. Qed.

(* byte 0 of the layout, both directions, all 256 values *)
Theorem C02_byte0_decode : forall b,
  b0_ty (bN b) = bN b mod 16 /\ b0_verify (bN b) = (bN b / 16) mod 2 /\
  b0_gzip (bN b) = (bN b / 32) mod 2 /\ b0_reserve (bN b) = bN b / 64.
Proof. exact b0_decode. Qed.

(* non-vacuity: a concrete v2 request with verify, metadata and reserve bits *)
Example C02_example :
  let f := mkFields 1 true false 2 7 258 5 0 [x01; x6b; x01; x76] [x68; x69] 9 (repeat x73 16) in
  wf_fields 2 f = true /\
  spec_frame 2 f = [x91; x07; x00; x00; x01; x02; x00; x05; x00; x04; x00; x00; x02; x01; x6b; x01; x76; x68; x69;
                    x00; x00; x00; x00; x00; x00; x00; x09] ++ repeat x73 16.
Proof. vm_compute. split; reflexivity. Qed.

Print Assumptions C02_encoder_is_layout.
Print Assumptions C02_decoder_reads_layout.
Print Assumptions C02_unknown_type_rejected.
Print Assumptions C02_header_lengths_follow_layout.
Print Assumptions C02_byte0_decode.
