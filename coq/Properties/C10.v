(* C10 — Gzip transparency and integrity. compress/gzip is the oracle [gz] (trusted base);
   these theorems are about what the repository's code does around it. *)
From Coq Require Import List NArith ZArith Bool.
From OAP Require Import Base.Bytes Base.Res Gen.Consts Model.Metadata Model.Header Model.Frame Model.Spec Proofs.FrameP Proofs.GzipP.
Local Open Scope N_scope.

Theorem C10_decompress_compress : forall gz x, gz_contract gz -> decompress gz (gz_compress gz x) = Ok x.
Proof. exact decompress_compress. Qed.
Theorem C10_success_only_for_complete_valid_stream : forall gz inp out,
  decompress gz inp = Ok out -> gz_read gz inp = GzStream out GzEOF.
Proof. exact decompress_sound. Qed.
Theorem C10_complete_valid_stream_succeeds_with_full_content : forall gz inp out,
  gz_read gz inp = GzStream out GzEOF -> decompress gz inp = Ok out.
Proof. exact decompress_complete. Qed.
Theorem C10_anything_else_is_an_error : forall gz inp,
  (forall out, gz_read gz inp <> GzStream out GzEOF) -> decompress gz inp = Err EGzip.
Proof. exact decompress_else_error. Qed.
(* frame level *)
Theorem C10_compressed_iff_threshold : forall thr body,
  pack_compresses thr body = true <-> (thr <> 0 /\ Z.of_nat (length body) >= thr)%Z.
Proof. exact pack_compresses_iff. Qed.
Theorem C10_flag_tells_receiver : forall gz v thr stale p fr p',
  pack gz v thr stale p = Ok (fr, p') ->
  p_body p' = (if pack_compresses thr (p_body p) then gz_compress gz (p_body p) else p_body p) /\
  m_gzip (p_md p') = (m_gzip (p_md p) || pack_compresses thr (p_body p)).
Proof. exact gzip_rule. Qed.
(* the receiver sees the original body: C01_roundtrip_oneshot (p_body q = p_body p, m_gzip q = pack_compresses) *)
Theorem C10_receiver_sees_original : forall gz v codec thr stale stale' p fr p',
  gz_contract gz -> wf_packet v p = true -> pack gz v thr stale p = Ok (fr, p') ->
  exists q, unpack_bytes gz v codec stale' fr = Ok q /\ p_body q = p_body p.
Proof.
  intros gz v codec thr stale stale' p fr p' C W H.
  destruct (roundtrip_oneshot gz v codec thr stale stale' p fr p' C W H) as (q & Hq & Hb & _). eauto.
Qed.

Print Assumptions C10_decompress_compress.
Print Assumptions C10_success_only_for_complete_valid_stream.
Print Assumptions C10_complete_valid_stream_succeeds_with_full_content.
Print Assumptions C10_anything_else_is_an_error.
Print Assumptions C10_compressed_iff_threshold.
Print Assumptions C10_flag_tells_receiver.
Print Assumptions C10_receiver_sees_original.
