(* C08 — Connection recovery re-establishes an authenticated session.  The recovery loop of the client
   (Model/Recovery.v) against every sequence of per-attempt outcomes the environment can produce. *)
From Coq Require Import List NArith.
From OAP Require Import Base.Bytes Base.Res Gen.Consts Model.Recovery Proofs.RecoveryP Model.Life Proofs.LifeP.
Import ListNotations.
Local Open Scope N_scope.

Theorem C08_resume_iff_unexpired : forall cfg s a sid ok s' evs,
  reconnect_once cfg s a = Some (ok, s', evs) -> at_dial_ok a = true -> rs_session s = Some sid ->
  (at_expired a = false -> exists tail, evs = pre_events s a ++ EvFrameReconnect (rs_conn s + 1) sid :: tail) /\
  (at_expired a = true -> (forall g x, ~ In (EvFrameReconnect g x) evs) /\
                          (rc_getter cfg = true -> at_token_ok a = true -> evs = pre_events s a ++ [EvFrameAuth (rs_conn s + 1)])).
Proof. exact resume_iff_unexpired. Qed.
Theorem C08_unauthenticated_falls_back_to_auth : forall cfg s a sid rest ok s' evs,
  reconnect_once cfg s a = Some (ok, s', evs) -> at_dial_ok a = true -> rs_session s = Some sid ->
  at_expired a = false -> at_answers a = AnsUnauth :: rest -> rc_getter cfg = true -> at_token_ok a = true ->
  evs = pre_events s a ++ [EvFrameReconnect (rs_conn s + 1) sid; EvFrameAuth (rs_conn s + 1)] /\
  (ok = true <-> exists n tl, rest = AnsOk n :: tl).
Proof. exact unauth_falls_back. Qed.
(* retry until success or until the budget is spent; then exactly one give-up report; the after-reconnect callback
   exactly once, last, only after a success; counters reset by every success *)
Theorem C08_recover_outcomes : forall cfg atts s r s' evs,
  recover cfg s atts = (r, s', evs) ->
  match r with
  | RRecovered => count_ev is_recovered evs = 1%nat /\ count_ev is_giveup evs = O /\ (exists l, evs = l ++ [EvRecovered]) /\
                  rs_count s' = 0 /\ rs_last_ka s' = 0
  | RGaveUp => count_ev is_recovered evs = O /\ count_ev is_giveup evs = 1%nat /\ (exists l, evs = l ++ [EvGiveUp]) /\
               budget_spent cfg s' = true
  | RStillTrying => count_ev is_recovered evs = O /\ count_ev is_giveup evs = O /\ budget_spent cfg s' = false
  end.
Proof. exact recover_outcomes. Qed.
Theorem C08_attempts_bounded_by_budget : forall cfg atts s r s' evs,
  recover cfg s atts = (r, s', evs) -> 0 < rc_max cfg -> rs_count s <= rc_max cfg ->
  N.of_nat (count_ev is_dial evs) <= rc_max cfg - rs_count s.
Proof. exact dials_bounded. Qed.
(* never two connections at once: the current one is closed before the dial, and frames travel only on the new one *)
Theorem C08_old_connection_closed_first : forall cfg s a ok s' evs,
  reconnect_once cfg s a = Some (ok, s', evs) ->
  exists tail, evs = EvCloseOld (rs_conn s) :: EvSweep :: EvDial (at_dial_ok a) :: tail /\
               forall e g, In e tail -> frame_gen e = Some g -> g = rs_conn s + 1 /\ at_dial_ok a = true.
Proof. exact attempt_closes_before_dial. Qed.

Example C08_example :
  recover (mkRcfg 3 true) (mkRs (Some 7) 0 0 1)
    [mkAttempt false false true []; mkAttempt true false true [AnsUnauth; AnsOk 9]] =
  (RRecovered, mkRs (Some 9) 0 0 2,
   [EvCloseOld 1; EvSweep; EvDial false; EvSleep; EvCloseOld 1; EvSweep; EvDial true; EvFrameReconnect 2 7; EvFrameAuth 2; EvRecovered]).
Proof. vm_compute. reflexivity. Qed.

(* EVERY loss is recovered (lifecycle model, every interleaving of losses, recovery steps, Close, writes and goroutine
   exits): in every reachable state of a client that is not closed, either a connection is open or a recovery is
   running - also when the connection that died is the one a recovery had just installed and that recovery is still
   finishing (authenticating, or inside the after-reconnect callback with the single-flight flag set): the loss is
   recorded (l_pending) and the loop starts over.  And a running recovery at its loop head always has a next step. *)
Theorem C08_every_loss_is_recovered : forall max acts s, lrun (l0 max) acts = Ok s ->
  l_closed s = false -> none_open s = true -> l_recovering s = true.
Proof. exact loss_is_covered. Qed.
Theorem C08_recovery_progresses : forall s, LInv s -> l_recovering s = true -> l_phase s = PhIdle -> l_closed s = false ->
  exists s', lstep s LRetryBegin = Ok s' /\ (l_phase s' = PhDialing \/ l_closed s' = true).
Proof. exact recovering_idle_progresses. Qed.
(* the window itself: the new connection dies while the after-reconnect callback runs; the client recovers again *)
Example C08_loss_while_finishing :
  match lrun (l0 0) [LConnLost; LRetryBegin; LDialDone true; LAuthDone true; LConnLost; LFinish] with
  | Ok s => l_recovering s = true /\ l_phase s = PhIdle /\ l_pending s = false /\ none_open s = true
  | _ => False
  end.
Proof. vm_compute. repeat split. Qed.

Print Assumptions C08_resume_iff_unexpired.
Print Assumptions C08_unauthenticated_falls_back_to_auth.
Print Assumptions C08_recover_outcomes.
Print Assumptions C08_attempts_bounded_by_budget.
Print Assumptions C08_old_connection_closed_first.
Print Assumptions C08_every_loss_is_recovered.
Print Assumptions C08_recovery_progresses.
