(* C20 — TCP and WebSocket transports are behaviourally equivalent: for every peer script expressible on both,
   the client core receives the same packets (type, command, status, body, and request id except for the id a
   surfaced WebSocket ping draws from the connection's generator), hence routes and handles them identically. *)
From Coq Require Import List NArith.
From OAP Require Import Base.Bytes Base.Res Gen.Consts Model.Metadata Model.Header Model.Waiters Model.WsBridge Proofs.WsBridgeP.
Import ListNotations.
Local Open Scope N_scope.

Theorem C20_transport_equiv : forall parse_hb script,
  Forall (pong_consistent parse_hb) script ->
  Forall2 sp_equiv (map tcp_surface script) (map (ws_surface parse_hb) script).
Proof. exact transport_equiv. Qed.
Theorem C20_same_routing : forall parse_hb i,
  route_of (mkWpkt (sp_ty (tcp_surface i)) (sp_cmd (tcp_surface i)) 0 (sp_status (tcp_surface i)) (sp_body (tcp_surface i))) =
  route_of (mkWpkt (sp_ty (ws_surface parse_hb i)) (sp_cmd (ws_surface parse_hb i)) 0 (sp_status (ws_surface parse_hb i)) (sp_body (ws_surface parse_hb i))).
Proof. exact same_routing. Qed.
Theorem C20_ws_ping_surfaced_as_heartbeat_request : forall parse_hb rid body,
  sp_ty (ws_surface parse_hb (IPing rid body)) = PTRequest /\ sp_cmd (ws_surface parse_hb (IPing rid body)) = c_CMD_HEARTBEAT /\
  sp_body (ws_surface parse_hb (IPing rid body)) = body.
Proof. exact ws_ping_is_heartbeat_request. Qed.
Theorem C20_ws_pong_surfaced_with_heartbeat_id : forall parse_hb hb body h, parse_hb body = Some h ->
  ws_surface parse_hb (IPong hb body) = mkSp PTResponse c_CMD_HEARTBEAT (Some h) 0 body.
Proof. exact ws_pong_is_heartbeat_response_with_hb_id. Qed.
Theorem C20_ws_close_surfaced_as_close_packet : forall parse_hb body,
  ws_surface parse_hb (IClose body) = mkSp PTPush c_CMD_CLOSE (Some 0) 0 body.
Proof. exact ws_close_is_close_push. Qed.
Theorem C20_heartbeat_request_sent_as_ping : forall body, ws_outbound PTRequest c_CMD_HEARTBEAT body = WPing body.
Proof. exact ws_heartbeat_request_is_ping. Qed.
Theorem C20_close_packet_sent_as_close_frame : forall ty body, ws_outbound ty c_CMD_CLOSE body = WCloseFrame body.
Proof. exact ws_close_packet_is_close_frame. Qed.

Print Assumptions C20_transport_equiv.
Print Assumptions C20_same_routing.
Print Assumptions C20_ws_ping_surfaced_as_heartbeat_request.
Print Assumptions C20_ws_pong_surfaced_with_heartbeat_id.
Print Assumptions C20_ws_close_surfaced_as_close_packet.
Print Assumptions C20_heartbeat_request_sent_as_ping.
Print Assumptions C20_close_packet_sent_as_close_frame.
