(* C17 — No data races under documented concurrent use.
   Gen/Access.v is regenerated from /repo/go/client on every run by harness/cmd/vaccess: every access to a field of the
   client's and the connections' structs (and to the single-writer / single-reader state of a gorilla connection) with the
   locks held there.  The lockset theorem (Proofs/RacesP.v) turns the checked discipline into the absence of data
   races for every interleaving, of any length, of any number of threads that take the locks the inventory says. *)
From Coq Require Import List NArith Bool.
From OAP Require Import Model.Races Gen.Access Proofs.RacesP.
Import ListNotations.

(* the current source is disciplined: every two conflicting accesses outside the set-up phase share a lock, not both
   in read mode (decided by computation on the regenerated inventory) *)
Theorem C17_inventory_disciplined : disciplined inventory = true.
Proof. vm_compute. reflexivity. Qed.
Print Assumptions C17_inventory_disciplined.

(* hence: in every execution that follows the inventory, any two conflicting accesses by different threads are ordered
   by a release of a common lock by the first thread and a later acquisition by the second (happens-before) *)
Theorem C17_no_data_race : forall mid tr t1 t2 s1 s2,
  wf (Acc t2 s2 :: mid ++ Acc t1 s1 :: tr) -> follows inventory (Acc t2 s2 :: mid ++ Acc t1 s1 :: tr) ->
  t1 <> t2 -> conflicting s1 s2 = true ->
  ordered_between mid t1 t2.
Proof. exact (disciplined_no_race inventory C17_inventory_disciplined). Qed.
Print Assumptions C17_no_data_race.

(* the lockset argument itself, for any lock and any two holders *)
Theorem C17_common_lock_orders : forall mid tr t1 t2 s1 l m1 m2,
  wf (mid ++ Acc t1 s1 :: tr) -> t1 <> t2 ->
  holds tr t1 l = Some m1 -> holds (mid ++ Acc t1 s1 :: tr) t2 l = Some m2 -> both_read m1 m2 = false ->
  ordered_between mid t1 t2.
Proof. exact common_lock_orders. Qed.
Print Assumptions C17_common_lock_orders.

(* mutual exclusion is what wf means: two holders of one lock are both readers *)
Theorem C17_lock_semantics : forall tr, wf tr -> forall t1 t2 l m1 m2, t1 <> t2 ->
  holds tr t1 l = Some m1 -> holds tr t2 l = Some m2 -> m1 = MR /\ m2 = MR.
Proof. exact exclusion. Qed.
Print Assumptions C17_lock_semantics.

(* non-vacuity: a writer and a reader of one location under a RWMutex-like lock 0, in a well-formed trace that follows
   a two-site inventory; and the discipline rejects the same pair without the lock *)
Definition sw := mkSite 0 7 true false false [(0, MW)].
Definition sr := mkSite 1 7 false false false [(0, MR)].
Example C17_example_trace :
  let tr := [Rel 2 0; Acc 2 sr; Acq 2 0 MR; Rel 1 0; Acc 1 sw; Acq 1 0 MW] in
  wf tr /\ follows [sw; sr] tr /\ disciplined [sw; sr] = true /\
  disciplined [mkSite 0 7 true false false []; sr] = false /\
  disciplined [mkSite 0 7 true false false [(0, MR)]; sr] = false.
Proof.
  cbn zeta. split; [|split; [|repeat split; vm_compute; reflexivity]].
  - repeat (first [apply wf_nil | apply wf_acc | apply wf_rel; [|vm_compute; discriminate]
                   | apply wf_acq; [|vm_compute; reflexivity| intros t' D; vm_compute;
                       repeat (destruct t' as [|t']; try exact I; try (exfalso; apply D; reflexivity))]]).
  - cbn [follows]. repeat split; try (now left); try (right; now left).
    + intros l m [E|[]]. injection E as <- <-. exists MR. vm_compute. split; reflexivity.
    + intros l m [E|[]]. injection E as <- <-. exists MW. vm_compute. split; reflexivity.
Qed.
