(* C15 — Keepalive detects dead peers, and only dead peers.  Timing assumptions are explicit premises. *)
From Coq Require Import List NArith.
From OAP Require Import Base.Bytes Base.Res Gen.Consts Model.Keepalive Proofs.KeepaliveP.
Import ListNotations.
Local Open Scope N_scope.

Theorem C15_ping_schedule : forall timeout s now,
  k_reconnecting s = false -> (k_last_ka s = 0 \/ now - k_last_pong s <= timeout) -> k_counter s + 1 < 4294967296 ->
  kstep timeout s (KTick now true) =
    (mkK (k_counter s + 1) (k_last_pong s) (k_counter s + 1) false, [KPing (k_counter s + 1) (k_counter s + 1)]).
Proof. exact ping_schedule. Qed.
Theorem C15_peer_ping_echoed : forall timeout s id body, kstep timeout s (KPeerPing id body) = (s, [KEcho id body]).
Proof. exact peer_ping_echoed. Qed.
Theorem C15_detects_dead_within_interval_plus_timeout : forall timeout interval s t ok,
  k_last_ka s <> 0 -> k_last_pong s + timeout < t -> t <= k_last_pong s + timeout + interval ->
  snd (kstep timeout s (KTick t ok)) = [KRecycle] /\ t - k_last_pong s <= interval + timeout.
Proof. exact detection_latency. Qed.
(* a peer that answers every heartbeat before the next tick is never declared dead, from any state in which no
   heartbeat is awaited or the last pong is recent — in particular after any recovery (KRecovered may occur anywhere) *)
Theorem C15_no_false_positive : forall timeout interval, interval <= timeout ->
  forall acts s last_tick,
  healthy interval last_tick acts -> k_reconnecting s = false ->
  (k_last_ka s = 0 \/ last_tick <= k_last_pong s) ->
  N.of_nat (length acts) + k_counter s + 1 < 4294967296 ->
  no_recycle (snd (krun timeout s acts)).
Proof. exact no_false_positive. Qed.

Example C15_healthy_example :
  healthy 100 0 [KTick 100 true; KPong 130; KRecovered 150; KTick 200 true; KPong 290; KTick 300 true] /\
  snd (krun 250 (k0 0) [KTick 100 true; KPong 130; KRecovered 150; KTick 200 true; KPong 290; KTick 300 true]) = [KPing 1 1; KPing 1 1; KPing 2 2].
Proof. split; [cbn; repeat split; discriminate || (intros H; discriminate H) || reflexivity || auto|vm_compute; reflexivity]. Qed.

(* "including after an earlier recovery": a recovery leaves the keepalive exactly where Dial leaves it, so whatever
   holds of a freshly dialled client from that moment on holds of the recovered one (finding F27: the implementation
   used to keep the replaced connection's last-answer time; witness C15_old_rule_refuted, replayed on the real client) *)
Theorem C15_recovered_like_fresh : forall timeout s now acts,
  snd (krun timeout s (KRecovered now :: acts)) = snd (krun timeout (k0 now) acts).
Proof. exact recovered_like_fresh. Qed.
Example C15_slow_peer_fine_after_dial : no_recycle (snd (krun 250 (k0 0) (slow_peer_schedule 0))).
Proof. exact slow_peer_fine_after_dial. Qed.
Example C15_slow_peer_fine_after_recovery :
  no_recycle (snd (krun 250 (mkK 3 0 3 false) (KRecovered 400 :: slow_peer_schedule 400))).
Proof. exact slow_peer_fine_after_recovery. Qed.
Example C15_old_rule_refuted : In KRecycle (snd (krun 250 (old_recovered (mkK 3 0 3 false)) (slow_peer_schedule 400))).
Proof. exact old_rule_refuted. Qed.

(* the property at full strength.  [answering interval lat lt pending acts]: ticks at most [interval] apart, every
   heartbeat answered (in order) no later than [lat] after it was sent, any number of recoveries anywhere.  With
   lat + interval <= timeout such a peer is never declared dead - C15_no_false_positive above is the special case
   "answered before the next tick".  Holds only since 0c8c1ad (C15_old_rule_refuted). *)
Theorem C15_answering_peer_never_declared_dead : forall timeout interval lat, lat + interval <= timeout ->
  forall acts s lt pending,
  answering interval lat lt pending acts -> kinv interval lt pending s ->
  N.of_nat (length acts) + k_counter s + 1 < 4294967296 ->
  no_recycle (snd (krun timeout s acts)).
Proof. exact answering_peer_never_declared_dead. Qed.
Theorem C15_answering_peer_after_dial : forall timeout interval lat start acts, lat + interval <= timeout ->
  answering interval lat start [] acts -> N.of_nat (length acts) + 1 < 4294967296 ->
  no_recycle (snd (krun timeout (k0 start) acts)).
Proof. exact answering_peer_after_dial. Qed.
Example C15_slow_peer_is_answering :
  answering 100 150 0 [] (slow_peer_schedule 0) /\ answering 100 150 400 [] (KRecovered 400 :: slow_peer_schedule 400).
Proof. split; [exact slow_peer_is_answering|exact slow_peer_is_answering_after_recovery]. Qed.

Print Assumptions C15_ping_schedule.
Print Assumptions C15_answering_peer_never_declared_dead.
Print Assumptions C15_answering_peer_after_dial.
Print Assumptions C15_recovered_like_fresh.
Print Assumptions C15_peer_ping_echoed.
Print Assumptions C15_detects_dead_within_interval_plus_timeout.
Print Assumptions C15_no_false_positive.
