(* C19 — Request ids are unique and increasing per connection context.
   Concurrency: atomic.AddUint32 makes each id draw one indivisible step, so a concurrent execution of
   any number of goroutines is a linear history of calls (the assumption, stated); the theorems hold
   for every such history, i.e. for every schedule. *)
From Coq Require Import List NArith.
From OAP Require Import Base.Bytes Base.Res Gen.Consts Model.Metadata Model.Header Model.Ids Proofs.IdsP.
Import ListNotations.
Local Open Scope N_scope.

(* in any history over any contexts, with any mix of constructors and options, the request ids handed
   out on context x are, in issue order, the successive draws from x's counter ... *)
Theorem C19_ids_linearised : forall codec cs counters x cnt,
  (forall c, In c cs -> (c_ctx c < length counters)%nat) -> nth_error counters x = Some cnt ->
  request_ids_on x cs (run_calls codec counters cs) = draws cnt (length (filter (is_request_on x) cs)).
Proof. exact ids_linearised. Qed.
(* ... which from a fresh context are exactly 1, 2, ..., n (n < 2^32): increasing from 1, pairwise distinct *)
Theorem C19_fresh_context_counts_from_one : forall n,
  N.of_nat n < 4294967296 -> draws 0 n = map (fun i => 1 + N.of_nat i) (seq 0 n).
Proof. exact draws_from_one. Qed.
Theorem C19_ids_pairwise_distinct : forall n, N.of_nat n < 4294967296 -> NoDup (draws 0 n).
Proof. exact draws_distinct. Qed.
(* caller-supplied options cannot override the id a request constructor stamps *)
Theorem C19_request_id_not_overridable : forall counter codec ct cmd opts,
  ct = CRequest \/ ct = CMustRequest ->
  m_rid (snd (construct counter codec ct cmd opts)) = snd (next_id counter) /\
  fst (construct counter codec ct cmd opts) = fst (next_id counter) /\
  m_type (snd (construct counter codec ct cmd opts)) = PTRequest.
Proof. exact request_id_not_overridable. Qed.
(* response and push constructors leave the id to the caller (last WithRequestId, else 0) and draw nothing *)
Theorem C19_response_push_keep_caller_id : forall counter codec ct cmd opts,
  ct <> CRequest -> ct <> CMustRequest ->
  fst (construct counter codec ct cmd opts) = counter /\
  m_rid (snd (construct counter codec ct cmd opts)) = last_rid opts 0.
Proof. exact response_push_keep_caller_id. Qed.

Example C19_example :
  map m_rid (run_calls 1 [0; 0]
    [mkCall 0 CRequest 5 [ORid 77]; mkCall 1 CMustRequest 5 []; mkCall 0 (CResponse 3) 5 [ORid 9]; mkCall 0 CRequest 6 []])
  = [1; 1; 9; 2].
Proof. vm_compute. reflexivity. Qed.

(* builds that fail after their id was drawn (a body the codec cannot marshal): whatever calls fail, the ids of the
   successful requests of a fresh context are a sublist of 1, 2, 3, ... in issue order, hence pairwise distinct *)
Theorem C19_successful_ids_in_issue_order : forall codec cs fl counters x,
  (forall c, In c cs -> (c_ctx c < length counters)%nat) -> nth_error counters x = Some 0 ->
  sublist (successful_request_ids x cs fl (run_calls codec counters cs)) (draws 0 (length (filter (is_request_on x) cs))).
Proof. exact successful_ids_sublist. Qed.
Theorem C19_successful_ids_distinct : forall codec cs fl counters x,
  (forall c, In c cs -> (c_ctx c < length counters)%nat) -> nth_error counters x = Some 0 ->
  N.of_nat (length (filter (is_request_on x) cs)) < 4294967296 ->
  NoDup (successful_request_ids x cs fl (run_calls codec counters cs)).
Proof. exact successful_ids_distinct. Qed.

Print Assumptions C19_ids_linearised.
Print Assumptions C19_fresh_context_counts_from_one.
Print Assumptions C19_ids_pairwise_distinct.
Print Assumptions C19_request_id_not_overridable.
Print Assumptions C19_response_push_keep_caller_id.
Print Assumptions C19_successful_ids_in_issue_order.
Print Assumptions C19_successful_ids_distinct.
