(* C12 — Outbound byte stream is handshake + whole frames, in order.  Every write(data) is one step of the
   model, so any number of concurrent writers is an interleaving of such steps with the writer goroutine's
   steps and the socket's behaviour (how many bytes each socket write takes). *)
From Coq Require Import List NArith Arith Bool.
From OAP Require Import Base.Bytes Base.Res Model.WritePath Proofs.WritePathP.
From OAP Require Import Model.ChanForms Gen.Chans Proofs.ChanFormsP.
Import ListNotations.

(* in every reachable state: socket bytes ++ remainder ++ queued = handshake ++ accepted frames, in acceptance order *)
Theorem C12_tcp_stream_invariant : forall cap acts, forallb tcp_act acts = true -> TcpInv (wprun cap acts).
Proof. exact tcp_stream_invariant. Qed.
(* hence the peer always holds a prefix of that stream: frames are never interleaved, torn, duplicated or lost *)
Theorem C12_tcp_socket_is_prefix : forall cap acts, forallb tcp_act acts = true ->
  exists rest, concat (wp_accepted (wprun cap acts)) = wp_sock (wprun cap acts) ++ rest.
Proof. exact tcp_socket_is_prefix. Qed.
Theorem C12_tcp_everything_transmitted_once : forall cap acts, forallb tcp_act acts = true ->
  let s := wprun cap acts in wp_queue s = [] -> wp_rem s = [] -> wp_sock s = concat (wp_accepted s).
Proof. exact tcp_quiescent. Qed.
(* the handshake is the first accepted item (dialTCPConn enqueues it before returning the connection) *)
Theorem C12_handshake_first : forall cap hs acts, (0 < cap)%nat ->
  exists r, wp_accepted (wprun cap (PEnq hs :: acts)) = hs :: r.
Proof. exact handshake_first. Qed.
(* an enqueue never blocks: it is one step with a verdict; a full queue (or a closed connection) is an error
   and changes nothing *)
Theorem C12_enqueue_verdict : forall s d,
  wp_verdicts (wpstep s (PEnq d)) = wp_verdicts s ++ [negb (wp_closed s) && Nat.ltb (length (wp_queue s)) (wp_cap s)].
Proof. exact enqueue_verdict. Qed.
Theorem C12_rejected_enqueue_changes_nothing : forall s d,
  (wp_closed s = true \/ (wp_cap s <= length (wp_queue s))%nat) ->
  let s' := wpstep s (PEnq d) in wp_queue s' = wp_queue s /\ wp_accepted s' = wp_accepted s /\ wp_sock s' = wp_sock s.
Proof. exact rejected_enqueue_changes_nothing. Qed.
(* WebSocket: exactly one binary message per accepted frame, in order *)
Theorem C12_ws_one_message_per_frame : forall cap acts, forallb ws_act acts = true -> WsInv (wprun cap acts).
Proof. exact ws_message_invariant. Qed.

(* "a full write queue is reported as an error instead of blocking the caller": PEnq above is one total step because,
   in the source as it is now (Gen/Chans.v, regenerated on every run), the only sends on a writeCh are the two in
   tcpConn.write / wsConn.write and both are cases of a select with a default clause *)
Theorem C12_enqueue_never_blocks_in_source :
  all_nonblocking writeCh_sends = true /\ funcs_of writeCh_sends = [f_tcp_write; f_ws_write].
Proof. exact writes_never_block. Qed.

Print Assumptions C12_tcp_stream_invariant.
Print Assumptions C12_tcp_socket_is_prefix.
Print Assumptions C12_tcp_everything_transmitted_once.
Print Assumptions C12_handshake_first.
Print Assumptions C12_enqueue_verdict.
Print Assumptions C12_rejected_enqueue_changes_nothing.
Print Assumptions C12_ws_one_message_per_frame.
Print Assumptions C12_enqueue_never_blocks_in_source.
