(* C11 — Encoding/decoding depends only on the frame: no state leaks. *)
From Coq Require Import List NArith ZArith.
From OAP Require Import Base.Bytes Base.Res Gen.Consts Model.Metadata Model.Header Model.Frame Model.Stream Model.World Proofs.WorldP.
Import ListNotations.
Local Open Scope N_scope.

Theorem C11_pool_reset_complete : forall v stale, pool_get v stale = hdr0.
Proof. exact pool_reset_complete. Qed.
(* an operation's result and effect do not depend on what the pooled header object held before *)
Theorem C11_pool_contents_irrelevant : forall gz codec s1 s2 vs o,
  step_ctx gz codec s1 vs o = step_ctx gz codec s2 vs o.
Proof. exact step_ctx_stale_irrelevant. Qed.
Theorem C11_other_contexts_untouched : forall gz codec w o w' r c,
  step gz codec w o = Some (w', r) -> c <> op_ctx o -> nth_error (w_ctx w') c = nth_error (w_ctx w) c.
Proof. exact step_other_contexts. Qed.
(* every interleaved history over any contexts, incl. failed and incomplete decodes: each context
   observes exactly what it observes running alone on a fresh pool *)
Theorem C11_isolation : forall gz codec ops w w' rs c vs stale',
  run gz codec w ops = Some (w', rs) -> nth_error (w_ctx w) c = Some vs ->
  exists w1, run gz codec (mkW [vs] stale') (proj_ops c ops) = Some (w1, proj_results c ops rs) /\
             nth_error (w_ctx w') c = nth_error (w_ctx w1) 0.
Proof. exact isolation. Qed.

Print Assumptions C11_pool_reset_complete.
Print Assumptions C11_pool_contents_irrelevant.
Print Assumptions C11_other_contexts_untouched.
Print Assumptions C11_isolation.
