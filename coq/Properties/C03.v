(* C03 — Stream reassembly is independent of segmentation and buffer geometry.
   The ring buffer is represented by its content; the only place the decoder sees the ring's
   geometry — the (first, end) split of Peek(3) — is the adversarial argument k. *)
From Coq Require Import List NArith ZArith.
From OAP Require Import Base.Bytes Base.Res Gen.Consts Model.Metadata Model.Header Model.Frame Model.Stream Model.Chunks Proofs.StreamP Proofs.ChunksP Model.Ring Proofs.RingP Proofs.RingWriteP Model.RingFast Proofs.RingFastP.
Import ListNotations.
Local Open Scope N_scope.

(* buffer geometry: for every state and every pair of splits the call behaves identically *)
Theorem C03_geometry_irrelevant : forall gz v codec k k' stale s,
  stream_unpack gz v codec k stale s = stream_unpack gz v codec k' stale s.
Proof. exact split_irrelevant. Qed.

(* segmentation (1): while a frame is incomplete the call reports 'need more data' without error, and
   when more bytes x arrive the decoder behaves exactly as if it had been called on all bytes at once *)
Theorem C03_need_then_more : forall gz v codec k k' stale s s' x,
  wf_pending v s ->
  stream_unpack gz v codec k stale s = (Ok SNeed, s') ->
  stream_unpack gz v codec k' stale (feed s x) = stream_unpack gz v codec k' stale (feed s' x).
Proof. exact need_then_more. Qed.

(* segmentation (2): a call that produced a packet (or rejected the frame) produces the same packet with
   any later bytes behind it, and leaves exactly those later bytes (plus what it left before) buffered *)
Theorem C03_decided_then_more : forall gz v codec k k' stale s r s' x,
  wf_pending v s ->
  stream_unpack gz v codec k stale s = (r, s') -> r <> Ok SNeed ->
  stream_unpack gz v codec k' stale (feed s x) = (r, feed s' x).
Proof. exact decided_then_more. Qed.

(* the invariant under which (1),(2) are stated holds initially and is preserved by every call and feed *)
Theorem C03_invariant_init : forall v q, wf_pending v (mkS None q).
Proof. exact wf_pending_init. Qed.
Theorem C03_invariant_step : forall gz v codec k stale s r s',
  wf_pending v s -> stream_unpack gz v codec k stale s = (r, s') -> wf_pending v s'.
Proof. exact wf_pending_step. Qed.
Theorem C03_invariant_feed : forall v s x, wf_pending v s -> wf_pending v (feed s x).
Proof. exact wf_pending_feed. Qed.

(* a completed frame consumes exactly its own bytes (header bytes + metadata + body + trailer) *)
Theorem C03_consumes_exactly_body : forall gz v codec h1 q1, mlen_ok v h1 ->
  forall p, fst (after_header gz v codec h1 q1) = Ok (SPkt p) ->
  (length (s_q (snd (after_header gz v codec h1 q1))) + frame_rest v h1 = length q1)%nat.
Proof. intros gz v codec h1 q1 M. exact (proj1 (proj2 (proj2 (after_header_spec gz v codec h1 q1 M)))). Qed.

(* WHOLE RUNS.  The TCP read loop (Model/Chunks.v: append each socket read, call Unpack until it asks for more, stop at
   an error) delivers, for every byte string, every way of cutting it into socket reads and every buffer geometry
   during every read, the same packets in the same order and ends the same way as when the bytes arrive in one
   piece; when it ends waiting for more data even the state left behind is the same. *)
Theorem C03_chunking_and_geometry_irrelevant : forall gz v codec chunks kss kss' j j' s, wf_pending v s -> chunks <> [] ->
  let '(ps, e, sf) := run_chunks gz v codec kss j s chunks in
  let '(ps1, e1, sf1) := run_chunks gz v codec kss' j' s [concat chunks] in
  ps = ps1 /\ e = e1 /\ (e = ENeed -> sf = sf1).
Proof. exact chunking_irrelevant. Qed.

(* in particular on a fresh connection *)
Corollary C03_fresh_connection : forall gz v codec chunks kss kss', chunks <> [] ->
  let '(ps, e, sf) := run_chunks gz v codec kss 0 (mkS None []) chunks in
  let '(ps1, e1, sf1) := run_chunks gz v codec kss' 0 (mkS None []) [concat chunks] in
  ps = ps1 /\ e = e1 /\ (e = ENeed -> sf = sf1).
Proof. intros gz v codec chunks kss kss' NE. apply chunking_irrelevant; [exact I|exact NE]. Qed.

(* and no run ever panics or needs more than length+1 calls per read *)
Theorem C03_run_total : forall gz v codec chunks kss j s, wf_pending v s ->
  let '(ps, e, sf) := run_chunks gz v codec kss j s chunks in e <> EPanic /\ e <> EFuel /\ wf_pending v sf.
Proof. exact run_chunks_total. Qed.

Print Assumptions C03_chunking_and_geometry_irrelevant.
Print Assumptions C03_fresh_connection.
Print Assumptions C03_run_total.

Print Assumptions C03_geometry_irrelevant.
Print Assumptions C03_need_then_more.
Print Assumptions C03_decided_then_more.
Print Assumptions C03_invariant_init.
Print Assumptions C03_invariant_step.
Print Assumptions C03_invariant_feed.
Print Assumptions C03_consumes_exactly_body.

(* THE CONCRETE RING (Model/Ring.v: the read side of the third-party ring buffer with its array, indices and empty
   flag, following the Go text).  In every state satisfying the library's representation invariant, whatever the
   geometry (plain, wrapped, full): Length is the content's length; Peek(n) returns exactly the first n content bytes,
   cut into (first, end) at a point fixed by the geometry alone - the k that the theorems above quantify over;
   Retrieve(n) drops exactly n content bytes and keeps the invariant. *)
Theorem C03_ring_length_is_content_length : forall (g : ring Byte.byte), ring_wf g -> ring_length g = length (ring_content g).
Proof. exact ring_length_refines. Qed.
Theorem C03_ring_peek_is_content_prefix : forall (g : ring Byte.byte) n, ring_wf g ->
  fst (ring_peek g n) ++ snd (ring_peek g n) = firstn n (ring_content g).
Proof. exact ring_peek_refines. Qed.
Theorem C03_ring_peek_split_is_geometry : forall (g : ring Byte.byte) n, ring_wf g ->
  length (fst (ring_peek g n)) = Nat.min (Nat.min n (length (ring_content g))) (rb_size g - rb_r g).
Proof. exact ring_peek_split. Qed.
Theorem C03_ring_retrieve_drops_content : forall (g : ring Byte.byte) n, ring_wf g ->
  ring_content (ring_retrieve g n) = skipn n (ring_content g) /\ ring_wf (ring_retrieve g n).
Proof. exact ring_retrieve_refines. Qed.
(* the write side: Write(p), with or without growth through makeSpace, appends p to the content and keeps the invariant *)
Theorem C03_ring_write_appends : forall (g : ring Byte.byte) p, ring_wf g ->
  ring_content (ring_write Byte.x00 g p) = ring_content g ++ p /\ ring_wf (ring_write Byte.x00 g p).
Proof. exact (ring_write_refines Byte.x00). Qed.
(* whole histories: any sequence of Write / Length / Peek / Retrieve on a well-formed ring shows what the same sequence
   shows on the content alone (a byte queue: append, length, firstn, skipn), and ends well-formed with the content the
   abstract history ends with; a new ring is well-formed and empty.  So the content-level theorems above speak about
   the real buffer in every state the read loop can bring it into. *)
Theorem C03_ring_history_refines : forall (ops : list (rop Byte.byte)) (g : ring Byte.byte), ring_wf g ->
  snd (run_ops (ring_step Byte.x00) g ops) = snd (run_ops content_step (ring_content g) ops) /\
  ring_content (fst (run_ops (ring_step Byte.x00) g ops)) = fst (run_ops content_step (ring_content g) ops) /\
  ring_wf (fst (run_ops (ring_step Byte.x00) g ops)).
Proof. exact (ring_history_refines Byte.x00). Qed.
Theorem C03_ring_new_wf : forall size, (0 < size)%nat ->
  ring_wf (mkRing (repeat Byte.x00 size) size 0 0 true) /\ ring_content (mkRing (repeat Byte.x00 size) size 0 0 true) = [].
Proof. intros size H. unfold ring_wf; cbn. rewrite repeat_length. auto. Qed.
(* THE TCP READ LOOP'S FAST PATH (go/client/tcp_conn.go, reading): n > 0 fresh bytes are wrapped with NewWithData, the
   decoders run on that ring (any sequence of Length / Peek / Retrieve), and the left-over is copied with
   "first, _ := buffer.PeekAll(); readBuf.Write(first)" - the second slice is dropped.  Nothing is lost: on such a ring
   the second slice is always empty, the first is exactly what the byte-queue history leaves, and the decoders saw
   exactly what they would have seen on the queue.  (With a Write in between this fails: fast_path_needs_read_only.) *)
Theorem C03_fast_path_leftover_complete : forall (d : list Byte.byte) (ops : list (rop Byte.byte)), d <> [] -> forallb is_read_op ops = true ->
  let g := fst (run_ops (ring_step Byte.x00) (ring_with_data d) ops) in
  snd (ring_peek_all g) = [] /\ fst (ring_peek_all g) = fst (run_ops content_step d ops) /\
  snd (run_ops (ring_step Byte.x00) (ring_with_data d) ops) = snd (run_ops content_step d ops).
Proof. exact (fast_path_leftover_complete Byte.x00). Qed.
Theorem C03_ring_peek_all_is_content : forall (g : ring Byte.byte), ring_wf g ->
  fst (ring_peek_all g) ++ snd (ring_peek_all g) = ring_content g.
Proof. exact ring_peek_all_refines. Qed.
(* not vacuous: a wrapped ring of 5 cells holding 4 bytes, Peek(3) really is split 2 + 1 *)
Example C03_ring_wrapped_example :
  let g := mkRing [Byte.x03; Byte.x04; Byte.x00; Byte.x01; Byte.x02] 5 3 2 false in
  ring_wf g /\ ring_content g = [Byte.x01; Byte.x02; Byte.x03; Byte.x04] /\
  ring_peek g 3 = ([Byte.x01; Byte.x02], [Byte.x03]) /\ ring_content (ring_retrieve g 3) = [Byte.x04].
Proof. cbv. repeat split; try reflexivity; try discriminate; repeat constructor. Qed.

Print Assumptions C03_ring_length_is_content_length.
Print Assumptions C03_ring_peek_is_content_prefix.
Print Assumptions C03_ring_peek_split_is_geometry.
Print Assumptions C03_ring_retrieve_drops_content.
Print Assumptions C03_ring_history_refines.
Print Assumptions C03_ring_new_wf.
Print Assumptions C03_ring_write_appends.
Print Assumptions C03_fast_path_leftover_complete.
Print Assumptions C03_ring_peek_all_is_content.
