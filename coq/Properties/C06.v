(* C06 — Request calls always terminate and never crash the process.
   Three mechanism models carry the logic: Waiters.v (a waiting call always has its deadline exit and is woken by
   the waiter sweep), Life.v (no interleaving of Close / loss / recovery steps / writes reaches a panic state),
   Recovery.v (every attempt ends; the loop's waits are the dial, the auth request with its timeout and the 1 s
   back-off).  The numeric bound (request + dial + auth timeouts) is measured by the scenarios, not proved. *)
From Coq Require Import List NArith.
From OAP Require Import Base.Bytes Base.Res Gen.Consts Model.Metadata Model.Header Model.Waiters Model.Life Proofs.WaitersP Proofs.LifeP.
From OAP Require Import Model.ChanForms Gen.Chans Proofs.ChanFormsP.
Import ListNotations.
Local Open Scope N_scope.

(* a call that has written its request is never stuck: the deadline branch of its select is always enabled and
   finishes it, whatever the peer does (silence, unknown ids, garbage) *)
Theorem C06_waiting_call_can_always_return : forall pe s k id,
  nth_error (ws_calls s) k = Some (mkCall id CWritten) ->
  exists r, nth_error (ws_calls (step pe s (AFinish k FDeadline))) k = Some (mkCall id (CDone r)).
Proof.
  intros pe s k id H. cbn [step]. rewrite H.
  destruct (tlookup id (ws_table s)) as [[k' [p|]]|]; [destruct (Nat.eqb k' k)|destruct (Nat.eqb k' k)|];
    eexists; cbn [ws_calls]; eapply nth_set_call_same; eauto.
Qed.
(* a call waiting while the connection is recycled (waiter sweep) returns an error when it looks: no panic, no hang *)
Theorem C06_swept_call_returns_lost : forall pe s k id,
  nth_error (ws_calls s) k = Some (mkCall id CWritten) ->
  nth_error (ws_calls (step pe (step pe s ASweep) (AFinish k FTake))) k = Some (mkCall id (CDone WLost)).
Proof.
  intros pe s k id H. cbn [step ws_calls ws_table]. rewrite H. cbn [tlookup ws_calls]. eapply nth_set_call_same; eauto.
Qed.
(* the lifecycle never panics: user Close at any point, losses, failed and successful recovery steps, writes on a
   closed or replaced connection (the conn slot is never nil after the first dial) *)
Theorem C06_lifecycle_never_panics : forall max acts, lrun (l0 max) acts <> Panic.
Proof. intros max acts. exact (proj1 (lrun_safe max acts)). Qed.
(* a request on a closed connection is an immediate error, not a wait *)
Theorem C06_write_on_closed_connection_returns : forall s, LInv s -> exists s', lstep s LDo = Ok s'.
Proof.
  intros s I. destruct (linv_step s LDo I) as [NP _]. cbn [lstep] in *.
  destruct (rev (l_conns s)) as [|c r]; [congruence|]. destruct (cn_open c); eexists; reflexivity.
Qed.

(* the wait of a request call is a select over the waiter channel and the call's own context (which carries the
   request timeout): in the source (Gen/Chans.v) (client).recv has no other receive *)
Theorem C06_call_wait_watches_its_context_in_source : call_wait_bounded chan_ops = true.
Proof. exact call_wait_watches_its_context. Qed.

Print Assumptions C06_waiting_call_can_always_return.
Print Assumptions C06_swept_call_returns_lost.
Print Assumptions C06_lifecycle_never_panics.
Print Assumptions C06_write_on_closed_connection_returns.
Print Assumptions C06_call_wait_watches_its_context_in_source.
