(* C18 — Handshake codec is a bijection; only registered versions are accepted. *)
From Coq Require Import List NArith.
From Coq.Strings Require Import Byte.
From OAP Require Import Base.Bytes Base.Res Gen.Consts Model.Handshake Proofs.HandshakeP.
Import ListNotations.
Local Open Scope N_scope.

Theorem C18_decode_encode : forall h, hs_dom h = true -> hs_unpack (hs_pack h) = Ok h.
Proof. exact hs_unpack_pack. Qed.
Theorem C18_encode_decode : forall a b,
  exists h, hs_unpack [a; b] = Ok h /\ hs_dom h = true /\ hs_pack h = [a; b].
Proof. exact hs_pack_unpack. Qed.
Theorem C18_only_two_bytes : forall bs,
  N.of_nat (length bs) <> c_HandshakeLength -> hs_unpack bs = Err EHandshakeLen.
Proof. exact hs_len_gate. Qed.
Theorem C18_two_bytes_accepted : forall bs,
  N.of_nat (length bs) = c_HandshakeLength -> exists h, hs_unpack bs = Ok h.
Proof. exact hs_len_accept. Qed.
Theorem C18_lookup_iff_registered : forall v,
  (exists p, get_protocol v = Ok p) <-> In v c_registered_versions.
Proof. exact get_protocol_iff. Qed.
Theorem C18_lookup_unregistered_fails : forall v,
  ~ In v c_registered_versions -> get_protocol v = Err EInvalidVersion.
Proof. exact get_protocol_unregistered. Qed.
Theorem C18_registry : c_registered_versions = [1; 2] /\ c_protocol_versions = [(1, 1); (2, 2)].
Proof. exact registry_is_v1_v2. Qed.
Theorem C18_context_adopts : forall c h,
  In (hs_version h) c_registered_versions ->
  ctx_handshake c h = Ok {| cx_version := hs_version h; cx_codec := hs_codec h;
                            cx_platform := hs_platform h; cx_handshaked := true |}.
Proof. exact ctx_handshake_adopts. Qed.
Theorem C18_context_rejects : forall c h,
  ~ In (hs_version h) c_registered_versions -> ctx_handshake c h = Err EInvalidVersion.
Proof. exact ctx_handshake_rejects. Qed.

(* any registry: the exported Register lets an application register an implementation under further numbers.  A
   handshake is accepted exactly for the numbers in the registry, and the context adopts the handshake's number,
   whatever the implementation calls itself; on the built-in registry this is the model the exhaustive sweep uses *)
Theorem C18_any_registry_adopts : forall r c h impl, reg_lookup r (hs_version h) = Some impl ->
  ctx_handshake_in r c h = Ok {| cx_version := hs_version h; cx_codec := hs_codec h; cx_platform := hs_platform h; cx_handshaked := true |}.
Proof. exact ctx_handshake_in_adopts. Qed.
Theorem C18_any_registry_rejects : forall r c h, reg_lookup r (hs_version h) = None -> ctx_handshake_in r c h = Err EInvalidVersion.
Proof. exact ctx_handshake_in_rejects. Qed.
Theorem C18_builtin_registry_is_the_swept_model : forall c h, ctx_handshake_in c_protocol_versions c h = ctx_handshake c h.
Proof. exact ctx_handshake_in_builtin. Qed.
Theorem C18_alias_adopts_its_number : forall r k impl c h, hs_version h = k ->
  ctx_handshake_in (reg_register r k impl) c h =
  Ok {| cx_version := k; cx_codec := hs_codec h; cx_platform := hs_platform h; cx_handshaked := true |}.
Proof. exact alias_adopts_its_number. Qed.

Print Assumptions C18_decode_encode.
Print Assumptions C18_encode_decode.
Print Assumptions C18_only_two_bytes.
Print Assumptions C18_two_bytes_accepted.
Print Assumptions C18_lookup_iff_registered.
Print Assumptions C18_lookup_unregistered_fails.
Print Assumptions C18_registry.
Print Assumptions C18_context_adopts.
Print Assumptions C18_context_rejects.
Print Assumptions C18_any_registry_adopts.
Print Assumptions C18_any_registry_rejects.
Print Assumptions C18_builtin_registry_is_the_swept_model.
Print Assumptions C18_alias_adopts_its_number.
