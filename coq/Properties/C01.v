(* C01 — Frame round-trip fidelity (v1 and v2). compress/gzip is the oracle [gz] with the
   contract gz_contract (reading what was compressed yields the input and EOF). *)
From Coq Require Import List NArith ZArith.
From Coq.Strings Require Import Byte.
From OAP Require Import Base.Bytes Base.Res Gen.Consts Model.Metadata Model.Header Model.Frame Model.Spec Proofs.MetadataP Proofs.FrameP.
Import ListNotations.
Local Open Scope N_scope.

Theorem C01_roundtrip_oneshot : forall gz v codec thr stale stale' p fr p',
  gz_contract gz -> wf_packet v p = true ->
  pack gz v thr stale p = Ok (fr, p') ->
  exists q, unpack_bytes gz v codec stale' fr = Ok q /\
            p_body q = p_body p /\
            m_type (p_md q) = m_type (p_md p) /\ m_cmd (p_md q) = m_cmd (p_md p) /\
            m_rid (p_md q) = m_rid (p_md (received v codec p)) /\
            m_timeout (p_md q) = m_timeout (p_md (received v codec p)) /\
            m_status (p_md q) = m_status (p_md (received v codec p)) /\
            m_verify (p_md q) = m_verify (p_md p) /\
            m_nonce (p_md q) = m_nonce (p_md (received v codec p)) /\
            m_sig (p_md q) = m_sig (p_md (received v codec p)) /\
            m_values (p_md q) = m_values (p_md p) /\
            m_gzip (p_md q) = pack_compresses thr (p_body p).
Proof. exact roundtrip_oneshot. Qed.

(* a packet that cannot be represented yields an error, never bytes *)
Theorem C01_unknown_type_is_error : forall gz v thr stale p,
  m_type (p_md p) = PTNone -> N.of_nat (length (wire_body gz thr (p_body p))) <= c_MaxBodyLength ->
  pack gz v thr stale p = Err EUnknownPacket.
Proof. exact pack_unknown_type. Qed.
Theorem C01_body_over_limit_is_error : forall gz v thr stale p,
  c_MaxBodyLength < N.of_nat (length (wire_body gz thr (p_body p))) -> pack gz v thr stale p = Err EBodyLimit.
Proof. exact pack_body_limit. Qed.

(* non-vacuity: a v2 response with metadata and signature is in the domain *)
Example C01_example :
  wf_packet 2 (mkPacket (mkMeta 7 9 200 true false 0 1 3 PTResponse (repeat "s"%byte 16)
                                [(["k"%byte], ["v"%byte])]) ["b"%byte]) = true.
Proof. vm_compute. reflexivity. Qed.

Print Assumptions C01_roundtrip_oneshot.
Print Assumptions C01_unknown_type_is_error.
Print Assumptions C01_body_over_limit_is_error.
