(* C01 — Frame round-trip fidelity (v1 and v2). compress/gzip is the oracle [gz] with the
   contract gz_contract (reading what was compressed yields the input and EOF). *)
From Coq Require Import List NArith ZArith.
From Coq.Strings Require Import Byte.
From OAP Require Import Base.Bytes Base.Res Gen.Consts Model.Metadata Model.Header Model.Frame Model.Spec Model.Stream Model.Chunks Proofs.MetadataP Proofs.FrameP Proofs.StreamSpecP.
Import ListNotations.
Local Open Scope N_scope.

Theorem C01_roundtrip_oneshot : forall gz v codec thr stale stale' p fr p',
  gz_contract gz -> wf_packet v p = true ->
  pack gz v thr stale p = Ok (fr, p') ->
  exists q, unpack_bytes gz v codec stale' fr = Ok q /\
            p_body q = p_body p /\
            m_type (p_md q) = m_type (p_md p) /\ m_cmd (p_md q) = m_cmd (p_md p) /\
            m_rid (p_md q) = m_rid (p_md (received v codec p)) /\
            m_timeout (p_md q) = m_timeout (p_md (received v codec p)) /\
            m_status (p_md q) = m_status (p_md (received v codec p)) /\
            m_verify (p_md q) = m_verify (p_md p) /\
            m_nonce (p_md q) = m_nonce (p_md (received v codec p)) /\
            m_sig (p_md q) = m_sig (p_md (received v codec p)) /\
            m_values (p_md q) = m_values (p_md p) /\
            m_gzip (p_md q) = pack_compresses thr (p_body p).
Proof. exact roundtrip_oneshot. Qed.

(* STREAMING ROUND TRIP (the receive path of a TCP connection, Model/Chunks.v run_chunks): whatever packets are encoded
   onto a connection, however the byte stream is cut into socket reads and wherever the ring buffer wraps during each
   read, the read loop delivers, in order, exactly one packet per encoded packet - the packet the one-shot round trip
   describes - asks for more data at the end and is left with an empty buffer. *)
Theorem C01_roundtrip_streaming : forall gz v codec thr, gz_contract gz ->
  forall ps frs chunks kss,
    Forall2 (fun p fr => wf_packet v p = true /\ exists stale p', pack gz v thr stale p = Ok (fr, p')) ps frs ->
    chunks <> [] -> concat chunks = concat frs ->
    let '(out, e, sf) := run_chunks gz v codec kss 0 (mkS None []) chunks in
    out = map (received_packet gz v codec thr) ps /\ e = ENeed /\ s_q sf = [].
Proof. exact roundtrip_streaming. Qed.

(* ... and the delivered packet carries the caller's fields *)
Theorem C01_received_packet_fields : forall gz v codec thr p, wf_packet v p = true ->
  let q := received_packet gz v codec thr p in
  p_body q = p_body p /\ m_type (p_md q) = m_type (p_md p) /\ m_cmd (p_md q) = m_cmd (p_md p) /\
  m_rid (p_md q) = m_rid (p_md (received v codec p)) /\ m_timeout (p_md q) = m_timeout (p_md (received v codec p)) /\
  m_status (p_md q) = m_status (p_md (received v codec p)) /\ m_verify (p_md q) = m_verify (p_md p) /\
  m_nonce (p_md q) = m_nonce (p_md (received v codec p)) /\ m_sig (p_md q) = m_sig (p_md (received v codec p)) /\
  m_values (p_md q) = m_values (p_md p) /\ m_gzip (p_md q) = pack_compresses thr (p_body p).
Proof. exact received_packet_fields. Qed.

(* one Unpack call on a frame of the published layout followed by any bytes: the packet of the layout, the rest untouched *)
Theorem C01_stream_decodes_layout : forall gz v codec k stale f vals body rest,
  wf_fields v f = true ->
  (if v =? 2 then unmarshal_values (f_meta f) = Ok vals else vals = []) ->
  (if f_gzip f then decompress gz (f_body f) = Ok body else body = f_body f) ->
  stream_unpack gz v codec k stale (mkS None (spec_frame v f ++ rest)) = (Ok (SPkt (packet_of codec f vals body)), mkS None rest).
Proof. exact stream_spec. Qed.

(* a packet that cannot be represented yields an error, never bytes *)
Theorem C01_unknown_type_is_error : forall gz v thr stale p,
  m_type (p_md p) = PTNone -> N.of_nat (length (wire_body gz thr (p_body p))) <= c_MaxBodyLength ->
  pack gz v thr stale p = Err EUnknownPacket.
Proof. exact pack_unknown_type. Qed.
Theorem C01_body_over_limit_is_error : forall gz v thr stale p,
  c_MaxBodyLength < N.of_nat (length (wire_body gz thr (p_body p))) -> pack gz v thr stale p = Err EBodyLimit.
Proof. exact pack_body_limit. Qed.

(* non-vacuity: a v2 response with metadata and signature is in the domain *)
Example C01_example :
  wf_packet 2 (mkPacket (mkMeta 7 9 200 true false 0 1 3 PTResponse (repeat "s"%byte 16)
                                [(["k"%byte], ["v"%byte])]) ["b"%byte]) = true.
Proof. vm_compute. reflexivity. Qed.

Print Assumptions C01_roundtrip_oneshot.
Print Assumptions C01_roundtrip_streaming.
Print Assumptions C01_received_packet_fields.
Print Assumptions C01_stream_decodes_layout.
Print Assumptions C01_unknown_type_is_error.
Print Assumptions C01_body_over_limit_is_error.
