(* C09 — Metadata block codec: canonical, bounded, all-or-nothing pairs. *)
From Coq Require Import List NArith ZArith Permutation.
From Coq.Strings Require Import Byte.
From OAP Require Import Base.Bytes Base.Res Gen.Consts Model.Metadata Proofs.MetadataP.
Import ListNotations.
Local Open Scope N_scope.

(* canonical length prefix, for every string (hence every length 0..32768 and above) *)
Theorem C09_prefix_canonical : forall s,
  marshal_string s = option_map (fun p => p ++ s) (spec_prefix (N.of_nat (length s))).
Proof. exact marshal_string_canonical. Qed.
Theorem C09_overlong_refused : forall s, 32767 < N.of_nat (length s) <-> marshal_string s = None.
Proof. exact marshal_string_too_long. Qed.
(* decoder side: what the encoder writes is read back, whatever follows *)
Theorem C09_string_roundtrip : forall s b r, marshal_string s = Some b -> get_string (b ++ r) = Ok (s, r).
Proof. exact get_string_marshal. Qed.
(* the decoder accepts ONLY canonical, untruncated strings/blocks *)
Theorem C09_decoder_accepts_only_canonical : forall data s r,
  get_string data = Ok (s, r) -> exists b, marshal_string s = Some b /\ data = b ++ r.
Proof. exact get_string_canonical. Qed.
Theorem C09_block_accepted_iff_canonical : forall fuel data ps,
  parse_pairs fuel data = Ok ps -> marshal_pairs ps = Some data.
Proof. exact parse_canonical. Qed.
Theorem C09_canonical_block_accepted : forall ps data fuel,
  marshal_pairs ps = Some data -> (length data <= fuel)%nat -> parse_pairs fuel data = Ok ps.
Proof. exact parse_marshal. Qed.
Theorem C09_noncanonical_two_byte_rejected : forall hi lo rest,
  128 <= bN hi -> (bN hi - 128) * 256 + bN lo <= 127 -> unmarshal_len (hi :: lo :: rest) = Err EInvalidMetadata.
Proof. exact noncanonical_rejected. Qed.
Theorem C09_truncated_rejected : forall data ps,
  unmarshal_values data = Ok ps -> data = [] \/ exists qs, marshal_pairs qs = Some data.
Proof. exact truncated_rejected. Qed.
(* totality on all byte strings (shared with C04) *)
Theorem C09_decoder_total : forall data,
  unmarshal_values data <> Panic /\ unmarshal_values data <> OutOfFuel.
Proof. exact unmarshal_values_total. Qed.
(* encoder: budget, whole pairs *)
Theorem C09_budget : forall m max, (Z.of_nat (length (marshal_values m max)) <= Z.max 0 max)%Z.
Proof. exact marshal_budget. Qed.
Theorem C09_whole_pairs : forall m max, marshal_pairs (selected m max 0) = Some (marshal_values m max).
Proof. exact marshal_whole_pairs. Qed.
Theorem C09_selected_are_eligible_inputs : forall m max used, incl (selected m max used) (filter eligible m).
Proof. exact selected_sub. Qed.
(* round trip *)
Theorem C09_roundtrip : forall m max,
  wf_md m = true -> (Z.of_nat (pairs_size m) <= max)%Z -> unmarshal_values (marshal_values m max) = Ok m.
Proof. exact roundtrip. Qed.
(* Set *)
Theorem C09_set_refuses : forall k v m,
  (32767 < N.of_nat (length k) -> md_set k v m = Err EKeyTooLong) /\
  (N.of_nat (length k) <= 32767 -> 32767 < N.of_nat (length v) -> md_set k v m = Err EValTooLong) /\
  (N.of_nat (length k) <= 32767 -> N.of_nat (length v) <= 32767 -> md_set k v m = Ok (md_insert (lower k) v m)).
Proof. exact set_refuses. Qed.
(* determinism: independent of insertion/iteration order *)
Theorem C09_deterministic : forall l1 l2 max,
  Permutation l1 l2 -> keys_nodup l1 -> marshal_values (md_of_list l1) max = marshal_values (md_of_list l2) max.
Proof. exact marshal_deterministic. Qed.

Print Assumptions C09_prefix_canonical.
Print Assumptions C09_overlong_refused.
Print Assumptions C09_string_roundtrip.
Print Assumptions C09_decoder_accepts_only_canonical.
Print Assumptions C09_block_accepted_iff_canonical.
Print Assumptions C09_canonical_block_accepted.
Print Assumptions C09_noncanonical_two_byte_rejected.
Print Assumptions C09_truncated_rejected.
Print Assumptions C09_decoder_total.
Print Assumptions C09_budget.
Print Assumptions C09_whole_pairs.
Print Assumptions C09_selected_are_eligible_inputs.
Print Assumptions C09_roundtrip.
Print Assumptions C09_set_refuses.
Print Assumptions C09_deterministic.
