(* Lock discipline and data races (C17).
   A site is one syntactic access to a shared location, with the locks the translator (harness/cmd/vaccess) found held
   there.  A trace is an interleaving of lock operations and accesses by threads; [wf] is the semantics of Go's
   sync.Mutex / sync.RWMutex (a writer excludes everybody, readers exclude writers).  Goroutine-confinement
   ("only the single keepalive goroutine of this client runs this code") is expressed as a pseudo-lock held in
   write mode for the whole life of that goroutine. *)
From Coq Require Import List NArith Bool Arith.
Import ListNotations.

Inductive mode := MR | MW.
Definition mode_eqb (a b : mode) : bool := match a, b with MR, MR | MW, MW => true | _, _ => false end.
Definition both_read (a b : mode) : bool := match a, b with MR, MR => true | _, _ => false end.
(* held mode m' is at least the required mode m *)
Definition covers (m' m : mode) : bool := match m', m with MR, MW => false | _, _ => true end.

Record site := mkSite {
  s_id : nat;
  s_loc : nat;                      (* location: struct field or pseudo-location (index into Gen.Access.loc_names) *)
  s_write : bool;
  s_atomic : bool;                  (* through sync/atomic *)
  s_init : bool;                    (* construction / set-up phase: before the object is shared (documented use) *)
  s_locks : list (nat * mode) }.    (* locks held at the site: lexical + at every call site of the enclosing function *)

Definition protects (a b : site) : bool :=
  existsb (fun lm1 => existsb (fun lm2 => Nat.eqb (fst lm1) (fst lm2) && negb (both_read (snd lm1) (snd lm2))) (s_locks b)) (s_locks a).
Definition conflicting (a b : site) : bool :=
  Nat.eqb (s_loc a) (s_loc b) && (s_write a || s_write b) && negb (s_atomic a && s_atomic b) && negb (s_init a) && negb (s_init b).
Definition pair_ok (a b : site) : bool := negb (conflicting a b) || protects a b.
Definition disciplined (inv : list site) : bool := forallb (fun a => forallb (pair_ok a) inv) inv.
Definition unprotected_pairs (inv : list site) : list (nat * nat) :=
  flat_map (fun a => flat_map (fun b => if pair_ok a b then [] else if Nat.leb (s_id a) (s_id b) then [(s_id a, s_id b)] else []) inv) inv.

(* ---- traces ---- *)
Inductive ev :=
| Acq (t l : nat) (m : mode)
| Rel (t l : nat)
| Acc (t : nat) (s : site).

(* the mode in which thread t holds lock l after the trace (most recent event last) *)
Fixpoint holds (tr : list ev) (t l : nat) : option mode :=
  match tr with
  | [] => None
  | e :: tr' =>
      match holds tr' t l with
      | cur =>
        match e with
        | Acq t' l' m => if Nat.eqb t t' && Nat.eqb l l' then Some m else cur
        | Rel t' l' => if Nat.eqb t t' && Nat.eqb l l' then None else cur
        | Acc _ _ => cur
        end
      end
  end.
(* NB: traces are stored newest-first: [e :: tr] is "tr, then e". *)

Definition compatible (m : mode) (o : option mode) : Prop := match o with None => True | Some m' => m = MR /\ m' = MR end.

Inductive wf : list ev -> Prop :=
| wf_nil : wf []
| wf_acq tr t l m : wf tr -> holds tr t l = None -> (forall t', t' <> t -> compatible m (holds tr t' l)) -> wf (Acq t l m :: tr)
| wf_rel tr t l : wf tr -> holds tr t l <> None -> wf (Rel t l :: tr)
| wf_acc tr t s : wf tr -> wf (Acc t s :: tr).

(* every access happens with the locks of its site held (what the translator claims about the code) *)
Definition site_locks_held (tr : list ev) (t : nat) (s : site) : Prop :=
  forall l m, In (l, m) (s_locks s) -> exists m', holds tr t l = Some m' /\ covers m' m = true.
Fixpoint follows (inv : list site) (tr : list ev) : Prop :=
  match tr with
  | [] => True
  | Acc t s :: tr' => In s inv /\ site_locks_held tr' t s /\ follows inv tr'
  | _ :: tr' => follows inv tr'
  end.

(* two accesses are ordered by synchronisation when the first thread released a lock after its access and the second
   acquired that lock before its own: the happens-before edge of the Go memory model for Mutex/RWMutex *)
Definition ordered_between (mid : list ev) (t1 t2 : nat) : Prop :=
  exists l m a b c, mid = c ++ Acq t2 l m :: b ++ Rel t1 l :: a.
