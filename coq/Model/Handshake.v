(* Model/Handshake.v — mirrors go/protocol.go (Handshake.Pack/Unpack, Register/
   GetProtocol) and go/context.go (Context.Handshake). Fields are Go uint8. *)
From Coq Require Import List NArith Bool.
From Coq.Strings Require Import Byte.
From OAP Require Import Base.Bytes Base.Res Gen.Consts.
Import ListNotations.
Local Open Scope N_scope.

Record hs := { hs_version : N; hs_codec : N; hs_platform : N; hs_reserve : N }.

Definition u8 (n : N) : N := n mod 256.

(* fb := h.Version | uint8(h.Codec<<4) ; sb := uint8(h.Platform) | (h.Reserve << 4)
   (no masking of the low nibbles: exactly as written) *)
Definition hs_pack (h : hs) : bytes :=
  [ b8 (N.lor (u8 (hs_version h)) (u8 (N.shiftl (u8 (hs_codec h)) 4)));
    b8 (N.lor (u8 (hs_platform h)) (u8 (N.shiftl (u8 (hs_reserve h)) 4))) ].

Definition hs_unpack (data : bytes) : res hs :=
  if negb (N.of_nat (length data) =? c_HandshakeLength) then Err EHandshakeLen
  else
    d0 <- go_index 0 data ;;
    d1 <- go_index 1 data ;;
    Ok {| hs_version := N.land c_VersionMask (bN d0);
          hs_codec := N.shiftr (N.land c_CodecMask (bN d0)) 4;
          hs_platform := N.land c_PlatformMask (bN d1);
          hs_reserve := N.shiftr (N.land c_ReserveMask (bN d1)) 4 |}.

(* the registry as the init functions of v1 and v2 leave it *)
Definition registered (v : N) : bool := existsb (N.eqb v) c_registered_versions.
Definition get_protocol (v : N) : res N :=
  if registered v then Ok v else Err EInvalidVersion.

(* the part of protocol.Context the handshake touches *)
Record hctx := { cx_version : N; cx_codec : N; cx_platform : N; cx_handshaked : bool }.
Definition ctx_handshake (c : hctx) (h : hs) : res hctx :=
  _ <- get_protocol (hs_version h) ;;
  Ok {| cx_version := hs_version h; cx_codec := hs_codec h;
        cx_platform := hs_platform h; cx_handshaked := true |}.

Definition hs_dom (h : hs) : bool :=
  (hs_version h <? 16) && (hs_codec h <? 16) && (hs_platform h <? 16) && (hs_reserve h <? 16).

(* the registry as an application may extend it through the exported Register *)
Definition registry := list (N * N).        (* number it is registered under -> the implementation's own Version() *)
Definition reg_register (r : registry) (k impl : N) : registry := (k, impl) :: r.     (* manager[k] = p: the newest entry wins *)
Definition reg_lookup (r : registry) (k : N) : option N := option_map snd (find (fun e => fst e =? k) r).
Definition get_protocol_in (r : registry) (v : N) : res N :=
  match reg_lookup r v with Some impl => Ok impl | None => Err EInvalidVersion end.
Definition ctx_handshake_in (r : registry) (c : hctx) (h : hs) : res hctx :=
  _ <- get_protocol_in r (hs_version h) ;;
  Ok {| cx_version := hs_version h; cx_codec := hs_codec h; cx_platform := hs_platform h; cx_handshaked := true |}.

