(* Model/WritePath.v — mirrors tcpConn.Write/write/writing and dialTCPConn's handshake enqueue, and
   wsConn.write/writing (go/client/tcp_conn.go, ws_conn.go).  The frame bytes themselves are Pack's (C02);
   here they are opaque byte strings.  The peer/socket is the environment: it decides how many bytes each
   socket write takes (short writes are modelled although real sockets report an error with them). *)
From Coq Require Import List NArith Bool.
From OAP Require Import Base.Bytes Base.Res.
Import ListNotations.

Record wpstate := mkWP {
  wp_closed : bool;
  wp_cap : nat;                       (* WriteQueueSize *)
  wp_queue : list bytes;              (* writeCh *)
  wp_rem : bytes;                     (* the writer's remainder ring (bytes a short write left over) *)
  wp_socks : list bytes;              (* the chunks handed to the socket so far, in order *)
  wp_msgs : list bytes;               (* WebSocket: one binary message per item *)
  wp_accepted : list bytes;           (* data accepted by write(), in acceptance order (handshake first on TCP) *)
  wp_verdicts : list bool }.          (* the result of every enqueue attempt: true = nil error *)

Definition wp0 (cap : nat) : wpstate := mkWP false cap [] [] [] [] [] [].

(* everything the socket has received, as one byte string *)
Definition wp_sock (s : wpstate) : bytes := concat (wp_socks s).

Inductive wpact :=
| PEnq (data : bytes)     (* conn.write(data): closed -> error; queue full -> error; else enqueued. Never blocks. *)
| PWrite (n : nat)        (* TCP writer: take the next item, prepend the remainder, socket takes n bytes *)
| PTick (n : nat)         (* TCP writer's ticker: flush the remainder, socket takes n bytes *)
| PWsWrite                (* WebSocket writer: take the next item, send it as one binary message *)
| PClose.

Definition wpstep (s : wpstate) (a : wpact) : wpstate :=
  match a with
  | PEnq data =>
      if wp_closed s then mkWP true (wp_cap s) (wp_queue s) (wp_rem s) (wp_socks s) (wp_msgs s) (wp_accepted s) (wp_verdicts s ++ [false])
      else if Nat.ltb (length (wp_queue s)) (wp_cap s)
      then mkWP false (wp_cap s) (wp_queue s ++ [data]) (wp_rem s) (wp_socks s) (wp_msgs s) (wp_accepted s ++ [data]) (wp_verdicts s ++ [true])
      else mkWP false (wp_cap s) (wp_queue s) (wp_rem s) (wp_socks s) (wp_msgs s) (wp_accepted s) (wp_verdicts s ++ [false])
  | PWrite n =>
      match wp_queue s with
      | [] => s
      | d :: q => let b := wp_rem s ++ d in
                  mkWP (wp_closed s) (wp_cap s) q (skipn n b) (wp_socks s ++ [firstn n b]) (wp_msgs s) (wp_accepted s) (wp_verdicts s)
      end
  | PTick n =>
      let b := wp_rem s in
      mkWP (wp_closed s) (wp_cap s) (wp_queue s) (skipn n b) (wp_socks s ++ [firstn n b]) (wp_msgs s) (wp_accepted s) (wp_verdicts s)
  | PWsWrite =>
      match wp_queue s with
      | [] => s
      | d :: q => mkWP (wp_closed s) (wp_cap s) q (wp_rem s) (wp_socks s) (wp_msgs s ++ [d]) (wp_accepted s) (wp_verdicts s)
      end
  | PClose => mkWP true (wp_cap s) (wp_queue s) (wp_rem s) (wp_socks s) (wp_msgs s) (wp_accepted s) (wp_verdicts s)
  end.

Definition wprun (cap : nat) (acts : list wpact) : wpstate := fold_left wpstep acts (wp0 cap).

(* TCP actions only / WebSocket actions only *)
Definition tcp_act (a : wpact) : bool := match a with PWsWrite => false | _ => true end.
Definition ws_act (a : wpact) : bool := match a with PWrite _ | PTick _ => false | _ => true end.
