(* Model/Life.v — the client's lifecycle after the repairs: user Close / give-up (closeOnce), connection loss
   (close callback), the recovery loop of reconnecting() iteration by iteration (closeCh observed at the loop
   head, during the back-off, after the dial and before the after-reconnect callback), request writes, and the
   three goroutines serving each connection (reader, writer, dispatcher) which all watch the connection's
   closeCh.  Go primitives that can panic are explicit: closing a closed channel, dereferencing a nil conn. *)
From Coq Require Import List NArith Bool.
From OAP Require Import Base.Bytes Base.Res.
Import ListNotations.
Local Open Scope N_scope.

Record conn := mkConn { cn_open : bool; cn_reader : bool; cn_writer : bool; cn_disp : bool }.

Inductive phase := PhIdle | PhDialing | PhAuthing | PhFinishing.   (* finishing: success, the after-reconnect callback runs,
                                                                       the single-flight flag is still set *)

Record lstate := mkL {
  l_closed : bool;                (* client closeCh is closed *)
  l_once : bool;                  (* closeOnce already used *)
  l_cb : nat;                     (* close callbacks run *)
  l_recon_cb : nat;               (* after-reconnect callbacks run *)
  l_recovering : bool;            (* the retry loop is running *)
  l_phase : phase;                (* where the current attempt is *)
  l_conns : list conn;            (* every connection ever dialled; the last one is the current one (nil if none) *)
  l_count : N;                    (* reconnectCount *)
  l_max : N;
  l_late_dials : nat;             (* ghost: dials begun while the client was closed *)
  l_late_frames : nat;            (* ghost: frames written on a connection after Close *)
  l_late_recon_cb : nat;          (* ghost: after-reconnect callbacks after Close *)
  l_pending : bool }.             (* a loss of the current connection was reported while the single-flight flag was set *)

Definition l0 (max : N) : lstate := mkL false false 0 0 false PhIdle [mkConn true true true true] 0 max 0 0 0 false.

Inductive which := GReader | GWriter | GDisp.

Inductive lact :=
| LUserClose
| LConnLost                       (* the current connection fails: conn.Close(err) -> close callback *)
| LRetryBegin                     (* loop head of the retry loop: closed? budget? else close old conn, sweep, start dialling *)
| LDialDone (ok : bool)           (* the dial returns *)
| LAuthDone (ok : bool)           (* auth / session resume on the new connection returns; on success the callback runs *)
| LFinish                         (* the loop's goroutine has ended: reconnecting() clears the flag, or starts over when a
                                     loss of the new connection was reported meanwhile *)
| LDo                             (* a request is written on the current connection *)
| LExit (i : nat) (g : which).    (* a goroutine of connection i notices closeCh and exits *)

(* Go: close(ch) panics when ch is already closed *)
Definition close_chan (already : bool) : res bool := if already then Panic else Ok true.

Fixpoint close_last (l : list conn) : list conn :=
  match l with
  | [] => []
  | [c] => [mkConn false (cn_reader c) (cn_writer c) (cn_disp c)]
  | c :: r => c :: close_last r
  end.

Definition upd (s : lstate) (closed once : bool) (cb rcb : nat) (rec : bool) (ph : phase) (cs : list conn) (cnt : N)
               (ld lf lr : nat) : lstate :=
  mkL closed once cb rcb rec ph cs cnt (l_max s) ld lf lr (l_pending s).

Definition set_conns (s : lstate) (cs : list conn) : lstate :=
  upd s (l_closed s) (l_once s) (l_cb s) (l_recon_cb s) (l_recovering s) (l_phase s) cs (l_count s) (l_late_dials s) (l_late_frames s) (l_late_recon_cb s).
Definition set_rec (s : lstate) (rec : bool) (ph : phase) : lstate :=
  upd s (l_closed s) (l_once s) (l_cb s) (l_recon_cb s) rec ph (l_conns s) (l_count s) (l_late_dials s) (l_late_frames s) (l_late_recon_cb s).

Definition set_pending (s : lstate) (p : bool) : lstate :=
  mkL (l_closed s) (l_once s) (l_cb s) (l_recon_cb s) (l_recovering s) (l_phase s) (l_conns s) (l_count s) (l_max s)
      (l_late_dials s) (l_late_frames s) (l_late_recon_cb s) p.
Definition closedb (c : conn) : bool := negb (cn_open c).
Definition none_open (s : lstate) : bool := forallb closedb (l_conns s).

(* client.Close(err): closeOnce.Do { close(closeCh); conn.Close; onClose(err) } *)
Definition do_close (s : lstate) : res lstate :=
  if l_once s then Ok s
  else
    _ <- close_chan (l_closed s) ;;
    Ok (upd s true true (S (l_cb s)) (l_recon_cb s) (l_recovering s) (l_phase s) (close_last (l_conns s)) (l_count s)
            (l_late_dials s) (l_late_frames s) (l_late_recon_cb s)).

Fixpoint exit_g (i : nat) (g : which) (l : list conn) : list conn :=
  match l, i with
  | [], _ => []
  | c :: r, O => (if cn_open c then c
                  else match g with
                       | GReader => mkConn false false (cn_writer c) (cn_disp c)
                       | GWriter => mkConn false (cn_reader c) false (cn_disp c)
                       | GDisp => mkConn false (cn_reader c) (cn_writer c) false
                       end) :: r
  | c :: r, S j => c :: exit_g j g r
  end.

Definition lstep (s : lstate) (a : lact) : res lstate :=
  match a with
  | LUserClose => do_close s
  | LConnLost =>
      (* tcpConn/wsConn.Close (once per conn); close callback -> onConnClose: returns when the client is closed,
         otherwise reconnecting(): starts the loop unless one is running *)
      (* a connection notifies its close once: nothing happens when the current connection is closed already.
         reconnecting() with the flag set only records the loss (it concerns the connection installed by the running
         recovery, or one whose replacement is about to be dialled - the record is dropped at the next install) *)
      let s1 := set_conns s (close_last (l_conns s)) in
      if none_open s then Ok s
      else if l_closed s then Ok s1
      else if l_recovering s then Ok (set_pending s1 true)
      else Ok (set_rec s1 true (l_phase s1))
  | LRetryBegin =>
      match l_recovering s, l_phase s with
      | true, PhIdle =>
          if l_closed s then Ok (set_rec s false PhIdle)
          else if (0 <? l_max s) && (l_max s <=? l_count s) then
            s1 <- do_close s ;; Ok (set_rec s1 false PhIdle)               (* hit max: Close(ErrHitMaxReconnect) *)
          else
            Ok (upd s false (l_once s) (l_cb s) (l_recon_cb s) true PhDialing (close_last (l_conns s)) (l_count s + 1)
                    (if l_closed s then S (l_late_dials s) else l_late_dials s) (l_late_frames s) (l_late_recon_cb s))
      | _, _ => Ok s
      end
  | LDialDone ok =>
      match l_phase s with
      | PhDialing =>
          if negb ok then Ok (set_rec s true PhIdle)                         (* back-off, next iteration *)
          else
            let cs := l_conns s ++ [mkConn true true true true] in
            if l_closed s then Ok (set_rec (set_conns s (close_last cs)) true PhIdle)   (* closed meanwhile: give the new conn up *)
            else Ok (set_pending (set_rec (set_conns s cs) true PhAuthing) false)   (* install: earlier loss reports are void *)
      | _ => Ok s
      end
  | LAuthDone ok =>
      match l_phase s with
      | PhAuthing =>
          if negb ok then Ok (set_rec s true PhIdle)
          else if l_closed s then Ok (set_rec (set_conns s (close_last (l_conns s))) false PhIdle)
          else Ok (upd s false (l_once s) (l_cb s) (S (l_recon_cb s)) true PhFinishing (l_conns s) 0
                       (l_late_dials s) (l_late_frames s) (if l_closed s then S (l_late_recon_cb s) else l_late_recon_cb s))
      | _ => Ok s
      end
  | LFinish =>
      match l_phase s with
      | PhFinishing =>
          if l_pending s && negb (l_closed s) then Ok (set_pending (set_rec s true PhIdle) false)   (* start over *)
          else Ok (set_pending (set_rec s false PhIdle) false)
      | _ => Ok s
      end
  | LDo =>
      match rev (l_conns s) with
      | [] => Panic                                   (* c.conn.Context() on a nil conn *)
      | c :: _ =>
          if cn_open c then
            Ok (upd s (l_closed s) (l_once s) (l_cb s) (l_recon_cb s) (l_recovering s) (l_phase s) (l_conns s) (l_count s)
                    (l_late_dials s) (if l_closed s then S (l_late_frames s) else l_late_frames s) (l_late_recon_cb s))
          else Ok s                                   (* errConnClosed *)
      end
  | LExit i g => Ok (set_conns s (exit_g i g (l_conns s)))
  end.

Fixpoint lrun (s : lstate) (acts : list lact) : res lstate :=
  match acts with
  | [] => Ok s
  | a :: r => s1 <- lstep s a ;; lrun s1 r
  end.

(* goroutines serving connections *)
Definition alive (c : conn) : nat :=
  ((if cn_reader c then 1 else 0) + (if cn_writer c then 1 else 0) + (if cn_disp c then 1 else 0))%nat.
Definition open_conns (s : lstate) : nat := length (filter cn_open (l_conns s)).
Definition live_goroutines (s : lstate) : nat := fold_left (fun a c => (a + alive c)%nat) (l_conns s) 0%nat.
Definition lingering (c : conn) : bool := negb (cn_open c) && (cn_reader c || cn_writer c || cn_disp c).
