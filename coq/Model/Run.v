(* Model/Run.v — the model's side of the correspondence check: one request line
   in, one canonical result line out. Used unchanged by the extracted OCaml
   runner and by vm_compute inside Coq (Cases_*.v). *)
From Coq Require Import List NArith ZArith Bool String.
From Coq.Strings Require Import Byte.
From OAP Require Import Base.Bytes Base.Res Base.Text Gen.Consts Model.Handshake Model.Metadata.
Import ListNotations.
Local Open Scope N_scope.

Definition err_s (e : err) : bytes :=
  str match e with
      | EHandshakeLen => "EHandshakeLen" | EInvalidVersion => "EInvalidVersion"
      | EInvalidFrame => "EInvalidFrame" | EUnknownPacket => "EUnknownPacket"
      | EBodyLimit => "EBodyLimit" | EInvalidMetadata => "EInvalidMetadata"
      | EKeyTooLong => "EKeyTooLong" | EValTooLong => "EValTooLong"
      | EGzip => "EGzip" | ERingEmpty => "ERingEmpty" | EOther => "EOther"
      end.

Definition res_s {A} (pr : A -> bytes) (r : res A) : bytes :=
  match r with
  | Ok a => str "OK " ++ pr a
  | Err e => str "ERR " ++ err_s e
  | Panic => str "PANIC"
  | OutOfFuel => str "OUTOFFUEL"
  end.

Definition bad : bytes := str "BADCASE".

Definition nums (l : list N) : bytes := join sp (map dec l).

Definition run_hs (op : bytes) (args : list bytes) : bytes :=
  if bytes_eqb op (str "hs.pack") then
    match omap_all undec args with
    | Some [v; c; p; r] =>
        hex (hs_pack {| hs_version := v; hs_codec := c; hs_platform := p; hs_reserve := r |})
    | _ => bad
    end
  else if bytes_eqb op (str "hs.unpack") then
    match args with
    | [h] => match unhex h with
             | Some d => res_s (fun h => nums [hs_version h; hs_codec h; hs_platform h; hs_reserve h]) (hs_unpack d)
             | None => bad
             end
    | _ => bad
    end
  else if bytes_eqb op (str "hs.get") then
    match omap_all undec args with
    | Some [v] => res_s dec (get_protocol v)
    | _ => bad
    end
  else if bytes_eqb op (str "hs.ctx") then
    match omap_all undec args with
    | Some [v; c; p; r] =>
        res_s (fun x => nums [cx_version x; cx_codec x; cx_platform x] ++ sp ++ bool_s (cx_handshaked x))
              (ctx_handshake {| cx_version := 0; cx_codec := 0; cx_platform := 0; cx_handshaked := false |}
                             {| hs_version := v; hs_codec := c; hs_platform := p; hs_reserve := r |})
    | _ => bad
    end
  else bad.

(* ---- metadata ---- *)
Definition pair_s (kv : bytes * bytes) : bytes := hex (fst kv) ++ str ":" ++ hex (snd kv).
Definition map_s (m : list (bytes * bytes)) : bytes :=
  match m with [] => str "-" | _ => join (str ",") (map pair_s m) end.
Definition parse_pair (b : bytes) : option (bytes * bytes) :=
  match split_on ":"%byte b with
  | [k; v] => obind (unhex k) (fun k' => obind (unhex v) (fun v' => Some (k', v')))
  | _ => None
  end.
Definition parse_map (b : bytes) : option (list (bytes * bytes)) :=
  if bytes_eqb b (str "-") then Some [] else omap_all parse_pair (split_on ","%byte b).

Definition sum_len (l : list bytes) : nat := fold_left (fun a x => (a + List.length x)%nat) l O.

Definition run_md (op : bytes) (args : list bytes) : bytes :=
  if bytes_eqb op (str "md.mstr") then
    match args with
    | [h] => match unhex h with
             | Some s => match marshal_string s with Some b => str "OK " ++ hex b | None => str "TOOLONG" end
             | None => bad end
    | _ => bad end
  else if bytes_eqb op (str "md.mlen") then
    match omap_all undec args with
    | Some [n] =>
        match marshal_string (repeat "A"%byte (N.to_nat n)) with
        | Some b => str "OK " ++ hex (firstn (if n <=? 127 then 1 else 2) b) ++ sp ++ decn (List.length b)
        | None => str "TOOLONG" end
    | _ => bad end
  else if bytes_eqb op (str "md.ulen") then
    match args with
    | [h] => match unhex h with
             | Some d => res_s (fun x => decn (fst x) ++ sp ++ dec (snd x)) (unmarshal_len d)
             | None => bad end
    | _ => bad end
  else if bytes_eqb op (str "md.unm") then
    match args with
    | [h] => match unhex h with
             | Some d => res_s map_s (unmarshal_values d)
             | None => bad end
    | _ => bad end
  else if bytes_eqb op (str "md.unmn") then
    (* block = [hi;lo] ++ n x 'a' ++ [0] : one key with the given 2-byte prefix, empty value *)
    match omap_all undec args with
    | Some [hi; lo; n] =>
        res_s (fun m => decn (List.length m) ++ sp ++ decn (sum_len (map fst m)) ++ sp ++ decn (sum_len (map snd m)))
              (unmarshal_values (b8 hi :: b8 lo :: repeat "a"%byte (N.to_nat n) ++ ["000"%byte]))
    | _ => bad end
  else if bytes_eqb op (str "md.mar") then
    match args with
    | [mx; m] => match undecz mx, parse_map m with
                 | Some mx', Some l => hex (marshal_values (md_of_list l) mx')
                 | _, _ => bad end
    | _ => bad end
  else if bytes_eqb op (str "md.set") then
    match args with
    | [k; v; m] => match unhex k, unhex v, parse_map m with
                   | Some k', Some v', Some l => res_s map_s (md_set k' v' (md_of_list l))
                   | _, _, _ => bad end
    | _ => bad end
  else if bytes_eqb op (str "md.get") then
    match args with
    | [k; m] => match unhex k, parse_map m with
                | Some k', Some l => hex (md_get k' (md_of_list l))
                | _, _ => bad end
    | _ => bad end
  else bad.

Definition starts_with (p l : bytes) : bool := bytes_eqb p (firstn (List.length p) l).

Definition run_line (line : bytes) : bytes :=
  match words line with
  | op :: args =>
      if starts_with (str "hs.") op then run_hs op args
      else if starts_with (str "md.") op then run_md op args
      else bad
  | [] => bad
  end.

(* a case file line is "<request> => <implementation output>" ; the model's
   verdict is whether its own output equals the implementation's *)
Fixpoint split_arrow (l cur : bytes) : option (bytes * bytes) :=
  match l with
  | " "%byte :: "="%byte :: ">"%byte :: " "%byte :: r => Some (rev_append cur [], r)
  | b :: r => split_arrow r (b :: cur)
  | [] => None
  end.

Definition check_line (line : bytes) : option bytes :=   (* None = agree; Some m = model output *)
  match split_arrow line [] with
  | Some (req, impl) => let m := run_line req in if bytes_eqb m impl then None else Some m
  | None => Some bad
  end.

Definition mismatches (cases : list string) : list (nat * string) :=
  let fix go (i : nat) (l : list string) :=
    match l with
    | [] => []
    | c :: r => match check_line (str c) with
                | None => go (S i) r
                | Some m => (i, string_of_list_byte m) :: go (S i) r
                end
    end in go O cases.
