(* Model/Run.v — the model's side of the correspondence check: one request line
   in, one canonical result line out. Used unchanged by the extracted OCaml
   runner and by vm_compute inside Coq (Cases_*.v). *)
From Coq Require Import List NArith ZArith Bool String.
From Coq.Strings Require Import Byte.
From OAP Require Import Base.Bytes Base.Res Base.Text Gen.Consts Model.Handshake Model.Metadata Model.Header Model.Frame Model.Stream Model.Chunks Model.World Model.Ids Model.Waiters Model.Dispatch Model.WritePath Model.Recovery Model.Keepalive Model.WsBridge Model.Life Model.CloseLock Model.Ring Model.RingFast.
Import ListNotations.
Local Open Scope N_scope.

Definition err_s (e : err) : bytes :=
  str match e with
      | EHandshakeLen => "EHandshakeLen" | EInvalidVersion => "EInvalidVersion"
      | EInvalidFrame => "EInvalidFrame" | EUnknownPacket => "EUnknownPacket"
      | EBodyLimit => "EBodyLimit" | EInvalidMetadata => "EInvalidMetadata"
      | EKeyTooLong => "EKeyTooLong" | EValTooLong => "EValTooLong"
      | EGzip => "EGzip" | ERingEmpty => "ERingEmpty" | EOther => "EOther"
      end.

Definition res_s {A} (pr : A -> bytes) (r : res A) : bytes :=
  match r with
  | Ok a => str "OK " ++ pr a
  | Err e => str "ERR " ++ err_s e
  | Panic => str "PANIC"
  | OutOfFuel => str "OUTOFFUEL"
  end.

Definition bad : bytes := str "BADCASE".

Definition nums (l : list N) : bytes := join sp (map dec l).

Definition run_hs (op : bytes) (args : list bytes) : bytes :=
  if bytes_eqb op (str "hs.pack") then
    match omap_all undec args with
    | Some [v; c; p; r] =>
        hex (hs_pack {| hs_version := v; hs_codec := c; hs_platform := p; hs_reserve := r |})
    | _ => bad
    end
  else if bytes_eqb op (str "hs.unpack") then
    match args with
    | [h] => match unhex h with
             | Some d => res_s (fun h => nums [hs_version h; hs_codec h; hs_platform h; hs_reserve h]) (hs_unpack d)
             | None => bad
             end
    | _ => bad
    end
  else if bytes_eqb op (str "hs.get") then
    match omap_all undec args with
    | Some [v] => res_s dec (get_protocol v)
    | _ => bad
    end
  else if bytes_eqb op (str "hs.ctx") then
    match omap_all undec args with
    | Some [v; c; p; r] =>
        res_s (fun x => nums [cx_version x; cx_codec x; cx_platform x] ++ sp ++ bool_s (cx_handshaked x))
              (ctx_handshake {| cx_version := 0; cx_codec := 0; cx_platform := 0; cx_handshaked := false |}
                             {| hs_version := v; hs_codec := c; hs_platform := p; hs_reserve := r |})
    | _ => bad
    end
  else bad.

Definition starts_with (p l : bytes) : bool := bytes_eqb p (firstn (List.length p) l).

(* ---- metadata ---- *)
Definition pair_s (kv : bytes * bytes) : bytes := hex (fst kv) ++ str ":" ++ hex (snd kv).
Definition map_s (m : list (bytes * bytes)) : bytes :=
  match m with [] => str "-" | _ => join (str ",") (map pair_s m) end.
Definition parse_pair (b : bytes) : option (bytes * bytes) :=
  match split_on ":"%byte b with
  | [k; v] => obind (unhex k) (fun k' => obind (unhex v) (fun v' => Some (k', v')))
  | _ => None
  end.
Definition parse_map (b : bytes) : option (list (bytes * bytes)) :=
  if bytes_eqb b (str "-") then Some [] else omap_all parse_pair (split_on ","%byte b).

Definition sum_len (l : list bytes) : nat := fold_left (fun a x => (a + List.length x)%nat) l O.

Definition run_md (op : bytes) (args : list bytes) : bytes :=
  if bytes_eqb op (str "md.mstr") then
    match args with
    | [h] => match unhex h with
             | Some s => match marshal_string s with Some b => str "OK " ++ hex b | None => str "TOOLONG" end
             | None => bad end
    | _ => bad end
  else if bytes_eqb op (str "md.mlen") then
    match omap_all undec args with
    | Some [n] =>
        match marshal_string (repeat "A"%byte (N.to_nat n)) with
        | Some b => str "OK " ++ hex (firstn (if n <=? 127 then 1 else 2) b) ++ sp ++ decn (List.length b)
        | None => str "TOOLONG" end
    | _ => bad end
  else if bytes_eqb op (str "md.ulen") then
    match args with
    | [h] => match unhex h with
             | Some d => res_s (fun x => decn (fst x) ++ sp ++ dec (snd x)) (unmarshal_len d)
             | None => bad end
    | _ => bad end
  else if bytes_eqb op (str "md.unm") then
    match args with
    | [h] => match unhex h with
             | Some d => res_s map_s (unmarshal_values d)
             | None => bad end
    | _ => bad end
  else if bytes_eqb op (str "md.unmn") then
    (* block = [hi;lo] ++ n x 'a' ++ [0] : one key with the given 2-byte prefix, empty value *)
    match omap_all undec args with
    | Some [hi; lo; n] =>
        res_s (fun m => decn (List.length m) ++ sp ++ decn (sum_len (map fst m)) ++ sp ++ decn (sum_len (map snd m)))
              (unmarshal_values (b8 hi :: b8 lo :: repeat "a"%byte (N.to_nat n) ++ ["000"%byte]))
    | _ => bad end
  else if bytes_eqb op (str "md.mar") then
    match args with
    | [mx; m] => match undecz mx, parse_map m with
                 | Some mx', Some l => hex (marshal_values (md_of_list l) mx')
                 | _, _ => bad end
    | _ => bad end
  else if bytes_eqb op (str "md.set") then
    match args with
    | [k; v; m] => match unhex k, unhex v, parse_map m with
                   | Some k', Some v', Some l => res_s map_s (md_set k' v' (md_of_list l))
                   | _, _, _ => bad end
    | _ => bad end
  else if bytes_eqb op (str "md.get") then
    match args with
    | [k; m] => match unhex k, parse_map m with
                | Some k', Some l => hex (md_get k' (md_of_list l))
                | _, _ => bad end
    | _ => bad end
  else bad.

(* ---- frames ---- *)
(* byte strings in case lines: hex, "-" for empty, or rep:<2 hex digits>:<n> for n copies of one byte *)
Definition unhexx1 (b : bytes) : option bytes :=
  match split_on ":"%byte b with
  | [r; x; n] => if bytes_eqb r (str "rep") then
                   match unhex x, undec n with
                   | Some [c], Some k => Some (repeat c (N.to_nat k))
                   | _, _ => None end
                 else None
  | _ => unhex b
  end.
(* a+b+c : concatenation of parts *)
Definition unhexx (b : bytes) : option bytes :=
  option_map (fun l : list bytes => List.concat l) (omap_all unhexx1 (split_on "+"%byte b)).

(* long outputs are summarised: length, first/last 48 bytes, byte sum and running-sum (position sensitive) *)
Definition bsum (l : bytes) : N * N :=
  fold_left (fun acc b => let s1 := fst acc + bN b in (s1, snd acc + s1)) l (0, 0).
Definition hexsum (l : bytes) : bytes :=
  if 8192 <? N.of_nat (List.length l) then
    let '(s1, s2) := bsum l in
    str "big:" ++ decn (List.length l) ++ str ":" ++ hex (firstn 48 l) ++ str ":" ++
    hex (skipn (List.length l - 48) l) ++ str ":" ++ dec s1 ++ str ":" ++ dec (s2 mod 18446744073709551616)
  else hex l.

Definition ptype_n (t : ptype) : N := match t with PTNone => 0 | PTRequest => 1 | PTResponse => 2 | PTPush => 3 end.
Definition ptype_of_n (n : N) : ptype := if n =? 1 then PTRequest else if n =? 2 then PTResponse else if n =? 3 then PTPush else PTNone.

(* pkt <type> <cmd> <rid> <timeout> <status> <verify> <gzip> <nonce> <sig> <codec> <map> <body> *)
Definition pkt_s (p : packet) : bytes :=
  let m := p_md p in
  join sp [dec (ptype_n (m_type m)); dec (m_cmd m); dec (m_rid m); dec (m_timeout m); dec (m_status m);
           bool_s (m_verify m); bool_s (m_gzip m); dec (m_nonce m); hex (m_sig m); dec (m_codec m);
           map_s (m_values m); hexsum (p_body p)].
Definition parse_pkt (a : list bytes) : option packet :=
  match a with
  | [ty; cmd; rid; tmo; st; ve; gzf; nonce; sg; codec; mp; body] =>
      match undec ty, undec cmd, undec rid, undec tmo, undec st, unbool ve, unbool gzf with
      | Some ty, Some cmd, Some rid, Some tmo, Some st, Some ve, Some gzf =>
          match undec nonce, unhex sg, undec codec, parse_map mp, unhexx body with
          | Some nonce, Some sg, Some codec, Some mp, Some body =>
              Some (mkPacket (mkMeta nonce rid cmd ve gzf tmo codec st (ptype_of_n ty) sg (md_of_list mp)) body)
          | _, _, _, _, _ => None end
      | _, _, _, _, _, _, _ => None end
  | _ => None
  end.

(* gzip oracle entries: gzc:<in>=<out>   gzr:<in>=<out>:<E|X|H> *)
Definition is_oracle (w : bytes) : bool := starts_with (str "gzc:") w || starts_with (str "gzr:") w.
Definition split_eq (b : bytes) : option (bytes * bytes) :=
  match split_on "="%byte b with [a; c] => Some (a, c) | _ => None end.
Definition parse_gzc (w : bytes) : option (bytes * bytes) :=
  if starts_with (str "gzc:") w then
    obind (split_eq (skipn 4 w)) (fun ac => obind (unhexx (fst ac)) (fun i => obind (unhexx (snd ac)) (fun o => Some (i, o))))
  else None.
Definition parse_gzr (w : bytes) : option (bytes * gzread) :=
  if starts_with (str "gzr:") w then
    obind (split_eq (skipn 4 w)) (fun ac =>
      obind (unhexx (fst ac)) (fun i =>
        match split_on "/"%byte (snd ac) with
        | [o; f] => obind (unhexx o) (fun o' =>
                      if bytes_eqb f (str "E") then Some (i, GzStream o' GzEOF)
                      else if bytes_eqb f (str "X") then Some (i, GzStream o' GzErr)
                      else if bytes_eqb f (str "H") then Some (i, GzHeaderErr) else None)
        | _ => None end))
  else None.
Fixpoint assoc_bytes {A} (k : bytes) (l : list (bytes * A)) : option A :=
  match l with [] => None | (k', a) :: r => if bytes_eqb k k' then Some a else assoc_bytes k r end.
Fixpoint filter_map {A B} (f : A -> option B) (l : list A) : list B :=
  match l with [] => [] | a :: r => match f a with Some b => b :: filter_map f r | None => filter_map f r end end.
(* an input the table does not list: compress gives a marker no reader accepts; read gives a header error *)
Definition mk_oracle (ws : list bytes) : gzoracle :=
  let cs := filter_map parse_gzc ws in
  let rs := filter_map parse_gzr ws in
  {| gz_compress := fun i => match assoc_bytes i cs with Some o => o | None => str "?unlisted-gzc?" end;
     gz_read := fun i => match assoc_bytes i rs with Some r => r | None => GzHeaderErr end |}.

Definition run_fr (op : bytes) (args0 : list bytes) : bytes :=
  let gz := mk_oracle (filter is_oracle args0) in
  let args := filter (fun w => negb (is_oracle w)) args0 in
  if bytes_eqb op (str "fr.pack") then
    match args with
    | v :: thr :: pa =>
        match undec v, undecz thr, parse_pkt pa with
        | Some v, Some thr, Some p =>
            res_s (fun r => hexsum (fst r) ++ sp ++ bool_s (m_gzip (p_md (snd r)))) (pack gz v thr hdr0 p)
        | _, _, _ => bad end
    | _ => bad end
  else if bytes_eqb op (str "fr.unpack") then
    match args with
    | [v; codec; fr] =>
        match undec v, undec codec, unhexx fr with
        | Some v, Some codec, Some fr => res_s pkt_s (unpack_bytes gz v codec hdr0 fr)
        | _, _, _ => bad end
    | _ => bad end
  else if bytes_eqb op (str "fr.rt") then      (* decode(encode p): one-shot and streaming (whole frame, then need) *)
    match args with
    | v :: thr :: codec :: pa =>
        match undec v, undecz thr, undec codec, parse_pkt pa with
        | Some v, Some thr, Some codec, Some p =>
            match pack gz v thr hdr0 p with
            | Ok (fr, _) =>
                str "OK " ++ res_s pkt_s (unpack_bytes gz v codec hdr0 fr) ++ str " | " ++
                (match stream_unpack gz v codec 3 hdr0 (mkS None fr) with
                 | (Ok (SPkt q), s') => str "OK " ++ pkt_s q ++ str " left=" ++ decn (List.length (s_q s'))
                 | (Ok SNeed, _) => str "NEED"
                 | (r, _) => res_s (fun _ => []) r
                 end)
            | r => res_s (fun _ => []) r
            end
        | _, _, _, _ => bad end
    | _ => bad end
  else if bytes_eqb op (str "gz.dec") then     (* Decompress: verdict, content, requested capacity *)
    match args with
    | [i] => match unhexx i with
             | Some i => res_s hexsum (decompress gz i)
             | None => bad end
    | _ => bad end
  else if bytes_eqb op (str "gz.cap") then     (* the capacity Decompress asks for up front *)
    match args with
    | [i] => match unhexx i with
             | Some i => decz (decompress_alloc gz i)
             | None => bad end
    | _ => bad end
  else bad.

(* ---- streaming histories over several contexts ----
   st.hist <codec> <versions of ctx 0..n-1, e.g. 1,2,1> <op> <op> ... [oracle entries]
   ops: f<c>!<hex>          append bytes to ctx c's receive buffer
        u<c>                one Unpack call on ctx c
        a<c>                Unpack until not done (readPacket)
        b<c>!<hex>          UnpackBytes on ctx c
        p<c>!<thr>!<12 packet fields joined by ~>   Pack on ctx c
   output: one result per op joined by " ; " *)
Definition sout_s (r : res sout * sstate) : bytes :=
  match r with
  | (Ok SNeed, s) => str "NEED q=" ++ decn (List.length (s_q s))
  | (Ok (SPkt p), s) => str "PKT " ++ pkt_s p ++ str " q=" ++ decn (List.length (s_q s))
  | (r', s) => res_s (fun _ => []) r' ++ str " q=" ++ decn (List.length (s_q s))
  end.

(* the operations are World.v's; this file only parses and prints *)
Definition parse_op (o : bytes) : option op :=
  match o with
  | kind :: rest =>
      match split_on "!"%byte rest with
      | cs :: ps =>
          obind (undec cs) (fun c =>
            let c := N.to_nat c in
            if byte_eqb kind "f"%byte then
              match ps with [h] => obind (unhexx h) (fun d => Some (OFeed c d)) | _ => None end
            else if byte_eqb kind "u"%byte then Some (OUnpack c)
            else if byte_eqb kind "a"%byte then Some (OAll c)
            else if byte_eqb kind "b"%byte then
              match ps with [h] => obind (unhexx h) (fun d => Some (OBytes c d)) | _ => None end
            else if byte_eqb kind "p"%byte then
              match ps with
              | [thr; pk] => obind (undecz thr) (fun thr => obind (parse_pkt (split_on "~"%byte pk)) (fun p => Some (OPack c thr p)))
              | _ => None end
            else None)
      | _ => None
      end
  | [] => None
  end.

Definition result_s (r : result) : bytes :=
  match r with
  | RFed => str "FED"
  | RStream (Ok SNeed) n => str "NEED q=" ++ decn n
  | RStream (Ok (SPkt p)) n => str "PKT " ++ pkt_s p ++ str " q=" ++ decn n
  | RStream r' n => res_s (fun _ => []) r' ++ str " q=" ++ decn n
  | RAll r' n => res_s (fun ps => decn (List.length ps) ++ str " [" ++ join (str " / ") (map pkt_s ps) ++ str "]") r'
                 ++ str " q=" ++ decn n
  | RBytes r' => res_s pkt_s r'
  | RPack r' => res_s (fun x => hexsum (fst x) ++ sp ++ bool_s (m_gzip (p_md (snd x)))) r'
  end.

Definition run_st (op : bytes) (args0 : list bytes) : bytes :=
  let gz := mk_oracle (filter is_oracle args0) in
  let args := filter (fun w => negb (is_oracle w)) args0 in
  if bytes_eqb op (str "st.hist") then
    match args with
    | codec :: vers :: ops =>
        match undec codec, omap_all undec (split_on ","%byte vers), omap_all parse_op ops with
        | Some codec, Some vs, Some ops =>
            let w0 := mkW (map (fun v => (v, mkS None [])) vs) hdr0 in
            match World.run gz codec w0 ops with
            | Some (_, rs) => join (str " ; ") (map result_s rs)
            | None => bad
            end
        | _, _, _ => bad end
    | _ => bad end
  else if bytes_eqb op (str "st.chunks") then
    (* st.chunks <codec> <v> <chunk> <chunk> ... : a whole run of the TCP read loop on a fresh connection (Chunks.v)
       output: <n> [<packets>] NEED|ERR <code>|PANIC|FUEL q=<bytes left> *)
    match args with
    | codec :: ver :: chunks =>
        match undec codec, undec ver, omap_all unhexx chunks with
        | Some codec, Some ver, Some cs =>
            match run_chunks gz ver codec (fun _ _ => 0%nat) 0 (mkS None []) cs with
            | (ps, e, sf) =>
                decn (List.length ps) ++ str " [" ++ join (str " / ") (map pkt_s ps) ++ str "] " ++
                match e with
                | ENeed => str "NEED"
                | EErr e => res_s (fun _ : unit => []) (Err e)
                | EPanic => str "PANIC"
                | EFuel => str "FUEL"
                end ++ str " q=" ++ decn (List.length (s_q sf))
            end
        | _, _, _ => bad end
    | _ => bad end
  else bad.

(* ---- request ids / constructors ----
   id.hist <codec> <nctx> <call> <call> ...   call = <ctx>~<ctor>~<cmd>~<opts>
   ctor: q NewRequest, Q MustNewRequest, p<code> NewResponse, P<code> MustNewResponse, u NewPush, U MustNewPush,
         f NewRequest whose body cannot be marshalled (the id is drawn, then the call fails: prints ERR)
   opts: - or comma-joined: v<nonce>.<sighex>  r<id>  s<code>
   output per call: <type> <cmd> <rid> <status> <verify> <nonce> <sig> joined by " ; " *)
Definition parse_opt (o : bytes) : option popt :=
  match o with
  | k :: rest =>
      if byte_eqb k "v"%byte then
        match split_on "."%byte rest with
        | [n; sg] => obind (undec n) (fun n => obind (unhex sg) (fun sg => Some (OVerify n sg)))
        | _ => None end
      else if byte_eqb k "r"%byte then option_map ORid (undec rest)
      else if byte_eqb k "s"%byte then option_map OStatus (undec rest)
      else None
  | [] => None
  end.
Definition parse_opts (b : bytes) : option (list popt) :=
  if bytes_eqb b (str "-") then Some [] else omap_all parse_opt (split_on ","%byte b).
Definition parse_ctor (b : bytes) : option ctor :=
  match b with
  | k :: rest =>
      if byte_eqb k "q"%byte || byte_eqb k "f"%byte then Some CRequest else if byte_eqb k "Q"%byte then Some CMustRequest
      else if byte_eqb k "u"%byte then Some CPush else if byte_eqb k "U"%byte then Some CMustPush
      else if byte_eqb k "p"%byte then option_map CResponse (undec rest)
      else if byte_eqb k "P"%byte then option_map CMustResponse (undec rest)
      else None
  | [] => None
  end.
Definition parse_call (b : bytes) : option call :=
  match split_on "~"%byte b with
  | [c; ct; cmd; opts] =>
      obind (undec c) (fun c => obind (parse_ctor ct) (fun ct => obind (undec cmd) (fun cmd =>
        obind (parse_opts opts) (fun opts => Some (Ids.mkCall (N.to_nat c) ct cmd opts)))))
  | _ => None
  end.
Definition call_fails (b : bytes) : bool :=
  match split_on "~"%byte b with [_; ct; _; _] => bytes_eqb ct (str "f") | _ => false end.
Definition meta_id_s (m : meta) : bytes :=
  join sp [dec (ptype_n (m_type m)); dec (m_cmd m); dec (m_rid m); dec (m_status m); bool_s (m_verify m); dec (m_nonce m); hex (m_sig m)].
Definition run_id (op : bytes) (args : list bytes) : bytes :=
  if bytes_eqb op (str "id.hist") then
    match args with
    | codec :: nctx :: calls =>
        match undec codec, undec nctx, omap_all parse_call calls with
        | Some codec, Some n, Some cs =>
            join (str " ; ") (map (fun fm : bool * meta => if fst fm then str "ERR" else meta_id_s (snd fm))
                                  (combine (map call_fails calls) (run_calls codec (repeat 0 (N.to_nat n)) cs)))
        | _, _, _ => bad end
    | _ => bad end
  else bad.

(* ---- waiters (C05/C07) ----
   wt.run <event> ... [perr:<bodyhex>=<code>.<msghex> | perr:<bodyhex>=-]
   events: S start | R<k> register | W<k>.<0|1> write | F<k> take | T<k> deadline | X sweep
           D.<type>.<cmd>.<rid>.<status>.<bodyhex> dispatch
   output: one result per call joined by " ; " then " | nr=<n> dup=<n> unsup=<n>" *)
Definition parse_perr (w : bytes) : option (bytes * option (N * bytes)) :=
  if starts_with (str "perr:") w then
    obind (split_eq (skipn 5 w)) (fun ac =>
      obind (unhex (fst ac)) (fun body =>
        if bytes_eqb (snd ac) (str "-") then Some (body, None)
        else match split_on "."%byte (snd ac) with
             | [c; m] => obind (undec c) (fun c => obind (unhex m) (fun m => Some (body, Some (c, m))))
             | _ => None end))
  else None.
Definition mk_perr (ws : list bytes) : perr_oracle :=
  let tbl := filter_map parse_perr ws in
  fun body => match assoc_bytes body tbl with Some r => r | None => None end.

Definition parse_wact (e : bytes) : option wact :=
  match e with
  | k :: rest =>
      if byte_eqb k "S"%byte then Some AStart
      else if byte_eqb k "X"%byte then Some ASweep
      else if byte_eqb k "R"%byte then option_map (fun n => ARegister (N.to_nat n)) (undec rest)
      else if byte_eqb k "F"%byte then option_map (fun n => AFinish (N.to_nat n) FTake) (undec rest)
      else if byte_eqb k "T"%byte then option_map (fun n => AFinish (N.to_nat n) FDeadline) (undec rest)
      else if byte_eqb k "W"%byte then
        match split_on "."%byte rest with
        | [n; ok] => obind (undec n) (fun n => obind (unbool ok) (fun ok => Some (AWrite (N.to_nat n) ok)))
        | _ => None end
      else if byte_eqb k "D"%byte then
        match split_on "."%byte rest with
        | [_; _; ty; cmd; rid; st; body] =>
            match undec ty, undec cmd, undec rid, undec st, unhex body with
            | Some ty, Some cmd, Some rid, Some st, Some body => Some (ADispatch (mkWpkt (ptype_of_n ty) cmd rid st body))
            | _, _, _, _, _ => None end
        | _ => None end
      else None
  | [] => None
  end.

Definition wres_s (c : wcall) : bytes :=
  match wc_st c with
  | CDone (WResp p) => str "RESP " ++ dec (w_rid p) ++ sp ++ dec (w_status p) ++ sp ++ hex (w_body p)
  | CDone (WLBErr st code msg) => str "LBERR " ++ dec st ++ sp ++ dec code ++ sp ++ hex msg
  | CDone WTimeout => str "TIMEOUT"
  | CDone WLost => str "ERR"
  | CDone WWriteErr => str "ERR"
  | _ => str "PENDING"
  end.

Definition is_perr (w : bytes) : bool := starts_with (str "perr:") w.
Definition run_wt (op : bytes) (args0 : list bytes) : bytes :=
  let pe := mk_perr (filter is_perr args0) in
  let args := filter (fun w => negb (is_perr w)) args0 in
  if bytes_eqb op (str "wt.run") then
    match omap_all parse_wact args with
    | Some acts =>
        let s := Waiters.run pe acts in
        let cnt f := decn (List.length (filter f (ws_log s))) in
        join (str " ; ") (map wres_s (ws_calls s)) ++ str " | nr=" ++
          cnt (fun l => match l with LNoReceiver _ => true | _ => false end) ++ str " dup=" ++
          cnt (fun l => match l with LDuplicate _ => true | _ => false end) ++ str " unsup=" ++
          cnt (fun l => match l with LUnsupportedRequest _ => true | _ => false end)
    | None => bad
    end
  else bad.

(* ---- dispatch (C13) ----
   dp.run <cap> <subs> <event> ...      subs: - or cmd:h.h.h,cmd:h     events: K dispatcher iteration | R.<n>.<type>.<cmd>.<rid>.<status>.<bodyhex>
                                        | C connection closed | S packet callback registered (OnPacket)
   dp.late ...                          the same, starting from a connection whose callback is not registered yet; output + gone=<n>
   output: calls=<h:cmd:bodyhex,...|-> drops=<n> taken=<n> *)
Definition parse_sub (b : bytes) : option (N * list nat) :=
  match split_on ":"%byte b with
  | [c; hs] => obind (undec c) (fun c => obind (omap_all undec (split_on "."%byte hs)) (fun hs => Some (c, map N.to_nat hs)))
  | _ => None end.
Definition mk_subs (l : list (N * list nat)) : subs :=
  fun c => match find (fun e => fst e =? c) l with Some e => snd e | None => [] end.
Definition parse_dact (e : bytes) : option dact :=
  match e with
  | k :: rest =>
      if byte_eqb k "K"%byte then Some DTake
      else if byte_eqb k "S"%byte then (match rest with [] => Some DStart | _ => None end)
      else if byte_eqb k "C"%byte then (match rest with [] => Some DClose | _ => None end)
      else if byte_eqb k "R"%byte then
        match split_on "."%byte rest with
        | [_; _; ty; cmd; rid; st; body] =>
            match undec ty, undec cmd, undec rid, undec st, unhex body with
            | Some ty, Some cmd, Some rid, Some st, Some body => Some (DRecv (mkWpkt (ptype_of_n ty) cmd rid st body))
            | _, _, _, _, _ => None end
        | _ => None end
      else None
  | [] => None
  end.
Definition run_dp (op : bytes) (args : list bytes) : bytes :=
  let late := bytes_eqb op (str "dp.late") in
  if bytes_eqb op (str "dp.run") || late then
    match args with
    | cap :: sb :: evs =>
        match undec cap, (if bytes_eqb sb (str "-") then Some [] else omap_all parse_sub (split_on ","%byte sb)), omap_all parse_dact evs with
        | Some cap, Some sl, Some acts =>
            let s := (if late then drun_u else drun) (mk_subs sl) (N.to_nat cap) acts in
            str "calls=" ++
            (match d_calls s with [] => str "-" | cs => join (str ",") (map (fun hc => decn (fst hc) ++ str ":" ++ dec (w_cmd (snd hc)) ++ str ":" ++ hex (w_body (snd hc))) cs) end)
            ++ str " drops=" ++ decn (d_drops s) ++ str " taken=" ++ decn (List.length (d_taken s))
            ++ (if late then str " gone=" ++ decn (d_gone s) else [])
        | _, _, _ => bad end
    | _ => bad end
  else bad.

(* ---- write path (C12) ----
   wp.run <cap> <event> ...   events: E.<data> enqueue | W write (socket takes all) | W.<n> write, socket takes n bytes
                                      T tick flush | T.<n> | M websocket write | C close
   output: verdicts=<0/1...> sock=<hexsum> msgs=<count>:<hexsum of concatenation> *)
Definition wp_event (s : wpstate) (e : bytes) : option wpstate :=
  match e with
  | k :: rest =>
      let arg := match rest with "."%byte :: r => Some r | _ => None end in
      if byte_eqb k "E"%byte then obind arg (fun a => obind (unhexx a) (fun d => Some (wpstep s (PEnq d))))
      else if byte_eqb k "W"%byte then
        match arg with
        | Some a => obind (undec a) (fun n => Some (wpstep s (PWrite (N.to_nat n))))
        | None => Some (wpstep s (PWrite (List.length (wp_rem s ++ match wp_queue s with d :: _ => d | [] => [] end))))
        end
      else if byte_eqb k "T"%byte then
        match arg with
        | Some a => obind (undec a) (fun n => Some (wpstep s (PTick (N.to_nat n))))
        | None => Some (wpstep s (PTick (List.length (wp_rem s))))
        end
      else if byte_eqb k "M"%byte then Some (wpstep s PWsWrite)
      else if byte_eqb k "C"%byte then Some (wpstep s PClose)
      else None
  | [] => None
  end.
Definition run_wp (op : bytes) (args : list bytes) : bytes :=
  if bytes_eqb op (str "wp.run") then
    match args with
    | cap :: evs =>
        match undec cap with
        | Some cap =>
            match fold_left (fun os e => obind os (fun s => wp_event s e)) evs (Some (wp0 (N.to_nat cap))) with
            | Some s => str "verdicts=" ++ flat_map bool_s (wp_verdicts s) ++ str " sock=" ++ hexsum (wp_sock s)
                        ++ str " msgs=" ++ decn (List.length (wp_msgs s)) ++ str ":" ++ hexsum (List.concat (wp_msgs s))
            | None => bad end
        | None => bad end
    | _ => bad end
  else bad.

(* ---- recovery (C08) ----
   rc.run <max> <getter 0|1> <session n|-> <count> <attempt> ...
   attempt: d<0|1>x<0|1>t<0|1>:<answers joined by .>   answers: k<sid> | u | o | d | s  ("-" = none)
   output: events joined by space, then " | " result count session *)
Definition parse_answer (b : bytes) : option answer :=
  match b with
  | k :: rest =>
      if byte_eqb k "k"%byte then option_map AnsOk (undec rest)
      else if byte_eqb k "u"%byte then Some AnsUnauth else if byte_eqb k "o"%byte then Some AnsOtherStatus
      else if byte_eqb k "d"%byte then Some AnsDropped else if byte_eqb k "s"%byte then Some AnsSilence else None
  | [] => None
  end.
Definition parse_attempt (b : bytes) : option attempt :=
  match split_on ":"%byte b with
  | [fl; ans] =>
      match fl with
      | [_; d; _; x; _; t] =>
          obind (unbool [d]) (fun d => obind (unbool [x]) (fun x => obind (unbool [t]) (fun t =>
            obind (if bytes_eqb ans (str "-") then Some [] else omap_all parse_answer (split_on "."%byte ans)) (fun al =>
              Some (mkAttempt d x t al)))))
      | _ => None end
  | _ => None end.
Definition revent_s (e : revent) : bytes :=
  match e with
  | EvCloseOld g => [] | EvSweep => [] | EvDial ok => str "D" ++ bool_s ok
  | EvFrameReconnect g sid => str "R" ++ dec g ++ str ":" ++ dec sid | EvFrameAuth g => str "A" ++ dec g
  | EvRecovered => str "OK" | EvSleep => str "Z" | EvGiveUp => str "GU"
  end.
Definition run_rc (op : bytes) (args : list bytes) : bytes :=
  if bytes_eqb op (str "rc.run") then
    match args with
    | mx :: gt :: sess :: cnt :: atts =>
        match undec mx, unbool gt, (if bytes_eqb sess (str "-") then Some None else option_map Some (undec sess)), undec cnt, omap_all parse_attempt atts with
        | Some mx, Some gt, Some sess, Some cnt, Some atts =>
            let '(r, s', evs) := recover (mkRcfg mx gt) (mkRs sess cnt 0 1) atts in
            (* the observable projection: dials, frames with their connection, back-offs, the two callbacks *)
            join sp (filter (fun b => negb (bytes_eqb b [])) (map revent_s evs)) ++ str " | " ++
            (match r with RRecovered => str "recovered" | RGaveUp => str "gaveup" | RStillTrying => str "trying" end)
        | _, _, _, _, _ => bad end
    | _ => bad end
  else bad.

(* ---- keepalive (C15) ----
   ka.run <timeout ms> <start ms> <event> ...   events: T.<ms>.<ok> tick | P.<ms> pong | R.<ms> recovered | Q.<id>.<bodyhex> peer ping
   output: p<id> (ping, heartbeat id = id) | r (recycle) | s (skip) | e<id>:<bodyhex> (echo) joined by space *)
Definition parse_kact (e : bytes) : option kact :=
  match e with
  | k :: rest =>
      let parts := match rest with "."%byte :: r => split_on "."%byte r | _ => [] end in
      if byte_eqb k "T"%byte then
        match parts with [t; ok] => obind (undec t) (fun t => obind (unbool ok) (fun ok => Some (KTick t ok))) | _ => None end
      else if byte_eqb k "P"%byte then match parts with [t] => option_map KPong (undec t) | _ => None end
      else if byte_eqb k "R"%byte then match parts with [t] => option_map KRecovered (undec t) | _ => None end
      else if byte_eqb k "Q"%byte then
        match parts with [i; b] => obind (undec i) (fun i => obind (unhex b) (fun b => Some (KPeerPing i b))) | _ => None end
      else None
  | [] => None
  end.
Definition kevent_s (e : kevent) : bytes :=
  match e with
  | KPing id hb => if id =? hb then str "p" ++ dec id else str "p" ++ dec id ++ str "!" ++ dec hb
  | KRecycle => str "r" | KSkip => str "s" | KEcho id body => str "e" ++ dec id ++ str ":" ++ hex body
  end.
Definition run_ka (op : bytes) (args : list bytes) : bytes :=
  if bytes_eqb op (str "ka.run") then
    match args with
    | tmo :: start :: evs =>
        match undec tmo, undec start, omap_all parse_kact evs with
        | Some tmo, Some start, Some acts => join sp (map kevent_s (snd (krun tmo (k0 start) acts)))
        | _, _, _ => bad end
    | _ => bad end
  else bad.

(* ---- transports (C20) ----
   wb.tcp / wb.ws <item> ... [hb:<bodyhex>=<id|->]
   items: r.<cmd>.<rid>.<status>.<body> | u.<cmd>.<body> | i.<rid>.<body> ping | o.<hb>.<body> pong | c.<body> close
   output: surfaced packets "<type>:<cmd>:<rid|*>:<status>" joined by space (the client's own log line; rid of a surfaced ping masked) *)
Definition parse_hb_entry (w : bytes) : option (bytes * option N) :=
  if starts_with (str "hb:") w then
    obind (split_eq (skipn 3 w)) (fun ac => obind (unhex (fst ac)) (fun body =>
      if bytes_eqb (snd ac) (str "-") then Some (body, None) else option_map (fun n => (body, Some n)) (undec (snd ac))))
  else None.
Definition parse_item (b : bytes) : option item :=
  match b with
  | k :: rest =>
      let parts := match rest with "."%byte :: r => split_on "."%byte r | _ => [] end in
      if byte_eqb k "r"%byte then
        match parts with [c; i; st; body] => obind (undec c) (fun c => obind (undec i) (fun i => obind (undec st) (fun st => obind (unhex body) (fun body => Some (IResp c i st body))))) | _ => None end
      else if byte_eqb k "u"%byte then
        match parts with [c; body] => obind (undec c) (fun c => obind (unhex body) (fun body => Some (IPush c body))) | _ => None end
      else if byte_eqb k "i"%byte then
        match parts with [i; body] => obind (undec i) (fun i => obind (unhex body) (fun body => Some (IPing i body))) | _ => None end
      else if byte_eqb k "o"%byte then
        match parts with [h; body] => obind (undec h) (fun h => obind (unhex body) (fun body => Some (IPong h body))) | _ => None end
      else if byte_eqb k "c"%byte then
        match parts with [body] => option_map IClose (unhex body) | _ => None end
      else None
  | [] => None
  end.
Definition surfaced_s (x : surfaced) : bytes :=
  dec (ptype_n (sp_ty x)) ++ str ":" ++ dec (sp_cmd x) ++ str ":" ++
  (match sp_ty x, sp_rid x with PTRequest, _ => str "*" | _, Some r => dec r | _, None => str "*" end) ++ str ":" ++
  dec (sp_status x).
Definition is_hb (w : bytes) : bool := starts_with (str "hb:") w.
Definition run_wb (op : bytes) (args0 : list bytes) : bytes :=
  let tbl := filter_map parse_hb_entry (filter is_hb args0) in
  let parse_hb := fun body => match assoc_bytes body tbl with Some r => r | None => None end in
  let args := filter (fun w => negb (is_hb w)) args0 in
  match omap_all parse_item args with
  | Some script =>
      if bytes_eqb op (str "wb.tcp") then join sp (map (fun i => surfaced_s (tcp_surface i)) script)
      else if bytes_eqb op (str "wb.ws") then join sp (map (fun i => surfaced_s (ws_surface parse_hb i)) script)
      else bad
  | None => bad
  end.

(* ---- lifecycle (C06/C14/C16) ----
   lf.run <max> <action> ...   UC user close | CL current conn lost | RB retry loop head | DD.<0|1> dial done |
                               AD.<0|1> auth done (1: the callback runs) | FN reconnecting() returns | DO request write | X.<i>.<r|w|d> goroutine of conn i exits
   output: closed=<b> cb=<n> recon=<n> conns=<n> open=<n> live=<n>   or PANIC
   lf.rnw: the same without open= (WebSocket peer: half-open sockets are not probed) *)
Definition parse_lact (e : bytes) : option lact :=
  if bytes_eqb e (str "UC") then Some LUserClose
  else if bytes_eqb e (str "CL") then Some LConnLost
  else if bytes_eqb e (str "RB") then Some LRetryBegin
  else if bytes_eqb e (str "DO") then Some LDo
  else if bytes_eqb e (str "FN") then Some LFinish
  else match split_on "."%byte e with
       | [k; a] => if bytes_eqb k (str "DD") then option_map LDialDone (unbool a)
                   else if bytes_eqb k (str "AD") then option_map LAuthDone (unbool a) else None
       | [k; i; g] => if bytes_eqb k (str "X") then
                        obind (undec i) (fun i =>
                          if bytes_eqb g (str "r") then Some (LExit (N.to_nat i) GReader)
                          else if bytes_eqb g (str "w") then Some (LExit (N.to_nat i) GWriter)
                          else if bytes_eqb g (str "d") then Some (LExit (N.to_nat i) GDisp) else None)
                      else None
       | _ => None
       end.
Definition run_lf (op : bytes) (args : list bytes) : bytes :=
  if bytes_eqb op (str "lf.run") || bytes_eqb op (str "lf.rnw") then
    match args with
    | mx :: evs =>
        match undec mx, omap_all parse_lact evs with
        | Some mx, Some acts =>
            match lrun (l0 mx) acts with
            | Ok s => str "closed=" ++ bool_s (l_closed s) ++ str " cb=" ++ decn (l_cb s) ++ str " recon=" ++ decn (l_recon_cb s)
                      ++ str " conns=" ++ decn (List.length (l_conns s))
                      ++ (if bytes_eqb op (str "lf.run") then str " open=" ++ decn (open_conns s) else [])
                      ++ str " live=" ++ decn (live_goroutines s)
            | _ => str "PANIC"
            end
        | _, _ => bad end
    | _ => bad end
  else bad.

(* ---- Close vs a closing reader (C14/C06) ----
   cl.run <n other readers> <thread> ...   thread: U user Close | R the other closer | E another read-lock holder finishes
   (a blocked thread does not move); output: final=<b> blockedU=<b> blockedR=<b> *)
Definition run_cl (args : list bytes) : bytes :=
  match args with
  | n :: ws =>
      match undec n, omap_all (fun w => if bytes_eqb w (str "U") then Some TU else if bytes_eqb w (str "R") then Some TR
                                        else if bytes_eqb w (str "E") then Some TEnv else None) ws with
      | Some n, Some ws =>
          let s := CloseLock.run (CloseLock.init (N.to_nat n)) ws in
          str "final=" ++ bool_s (CloseLock.final s)
          ++ str " blockedU=" ++ bool_s (match CloseLock.step s TU with None => negb (match u s with U5 => true | _ => false end) | _ => false end)
          ++ str " blockedR=" ++ bool_s (match CloseLock.step s TR with None => negb (match r s with R6 => true | _ => false end) | _ => false end)
      | _, _ => bad end
  | _ => bad end.

(* ---- concrete ring (Model/Ring.v) ----
   rg.ops <size> <backing array, hex> <r> <w> <empty 0|1> <op> ...   with op = l | a | p<n> | r<n> | w<hex>
   output: one item per op ("L <len>", "P <first>|<end>", "R", "W") joined by " ; ", then " ; S <size> <r> <w> <empty> <content>" *)
Definition run_rg (op : bytes) (args : list bytes) : bytes :=
  match args with
  | size :: buf :: r :: w :: e :: ops =>
      match undec size, unhexx buf, undec r, undec w, undec e with
      | Some size, Some buf, Some r, Some w, Some e =>
          let g0 := mkRing buf (N.to_nat size) (N.to_nat r) (N.to_nat w) (N.eqb e 1) in
          let step (acc : option (ring byte * list bytes)) (o : bytes) :=
            match acc, o with
            | Some (g, out), k :: n =>
                if byte_eqb k "l"%byte then Some (g, out ++ [str "L " ++ decn (ring_length g)])
                else if byte_eqb k "a"%byte then
                  let fe := ring_peek_all g in Some (g, out ++ [str "A " ++ hex (fst fe) ++ str "|" ++ hex (snd fe)])
                else if byte_eqb k "w"%byte then
                  match unhexx n with Some d => Some (ring_write x00 g d, out ++ [str "W"]) | None => None end
                else match undec n with
                     | Some n =>
                         if byte_eqb k "p"%byte then
                           let fe := ring_peek g (N.to_nat n) in
                           Some (g, out ++ [str "P " ++ hex (fst fe) ++ str "|" ++ hex (snd fe)])
                         else if byte_eqb k "r"%byte then Some (ring_retrieve g (N.to_nat n), out ++ [str "R"])
                         else None
                     | None => None end
            | _, _ => None
            end in
          match fold_left step ops (Some (g0, [])) with
          | Some (g, out) =>
              join (str " ; ") (out ++ [str "S " ++ decn (rb_size g) ++ sp ++ decn (rb_r g) ++ sp ++ decn (rb_w g) ++ sp ++
                                       (if rb_empty g then str "1" else str "0") ++ sp ++ hex (ring_content g)])
          | None => bad
          end
      | _, _, _, _, _ => bad end
  | _ => bad end.

Definition run_line (line : bytes) : bytes :=
  match words line with
  | op :: args =>
      if starts_with (str "hs.") op then run_hs op args
      else if starts_with (str "md.") op then run_md op args
      else if starts_with (str "fr.") op || starts_with (str "gz.") op then run_fr op args
      else if starts_with (str "st.") op then run_st op args
      else if starts_with (str "id.") op then run_id op args
      else if starts_with (str "wt.") op then run_wt op args
      else if starts_with (str "dp.") op then run_dp op args
      else if starts_with (str "wp.") op then run_wp op args
      else if starts_with (str "rc.") op then run_rc op args
      else if starts_with (str "ka.") op then run_ka op args
      else if starts_with (str "wb.") op then run_wb op args
      else if starts_with (str "lf.") op then run_lf op args
      else if bytes_eqb op (str "cl.run") then run_cl args
      else if starts_with (str "rg.") op then run_rg op args
      else bad
  | [] => bad
  end.

(* a case file line is "<request> => <implementation output>" ; the model's
   verdict is whether its own output equals the implementation's *)
Fixpoint split_arrow (l cur : bytes) : option (bytes * bytes) :=
  match l with
  | " "%byte :: "="%byte :: ">"%byte :: " "%byte :: r => Some (rev_append cur [], r)
  | b :: r => split_arrow r (b :: cur)
  | [] => None
  end.

Definition check_line (line : bytes) : option bytes :=   (* None = agree; Some m = model output *)
  match split_arrow line [] with
  | Some (req, impl) => let m := run_line req in if bytes_eqb m impl then None else Some m
  | None => Some bad
  end.

Definition mismatches (cases : list string) : list (nat * string) :=
  let fix go (i : nat) (l : list string) :=
    match l with
    | [] => []
    | c :: r => match check_line (str c) with
                | None => go (S i) r
                | Some m => (i, string_of_list_byte m) :: go (S i) r
                end
    end in go O cases.
