(* Model/Run.v — the model's side of the correspondence check: one request line
   in, one canonical result line out. Used unchanged by the extracted OCaml
   runner and by vm_compute inside Coq (Cases_*.v). *)
From Coq Require Import List NArith ZArith Bool String.
From Coq.Strings Require Import Byte.
From OAP Require Import Base.Bytes Base.Res Base.Text Gen.Consts Model.Handshake.
Import ListNotations.
Local Open Scope N_scope.

Definition err_s (e : err) : bytes :=
  str match e with
      | EHandshakeLen => "EHandshakeLen" | EInvalidVersion => "EInvalidVersion"
      | EInvalidFrame => "EInvalidFrame" | EUnknownPacket => "EUnknownPacket"
      | EBodyLimit => "EBodyLimit" | EInvalidMetadata => "EInvalidMetadata"
      | EKeyTooLong => "EKeyTooLong" | EValTooLong => "EValTooLong"
      | EGzip => "EGzip" | ERingEmpty => "ERingEmpty" | EOther => "EOther"
      end.

Definition res_s {A} (pr : A -> bytes) (r : res A) : bytes :=
  match r with
  | Ok a => str "OK " ++ pr a
  | Err e => str "ERR " ++ err_s e
  | Panic => str "PANIC"
  | OutOfFuel => str "OUTOFFUEL"
  end.

Definition bad : bytes := str "BADCASE".

Definition nums (l : list N) : bytes := join sp (map dec l).

Definition run_hs (op : bytes) (args : list bytes) : bytes :=
  if bytes_eqb op (str "hs.pack") then
    match omap_all undec args with
    | Some [v; c; p; r] =>
        hex (hs_pack {| hs_version := v; hs_codec := c; hs_platform := p; hs_reserve := r |})
    | _ => bad
    end
  else if bytes_eqb op (str "hs.unpack") then
    match args with
    | [h] => match unhex h with
             | Some d => res_s (fun h => nums [hs_version h; hs_codec h; hs_platform h; hs_reserve h]) (hs_unpack d)
             | None => bad
             end
    | _ => bad
    end
  else if bytes_eqb op (str "hs.get") then
    match omap_all undec args with
    | Some [v] => res_s dec (get_protocol v)
    | _ => bad
    end
  else if bytes_eqb op (str "hs.ctx") then
    match omap_all undec args with
    | Some [v; c; p; r] =>
        res_s (fun x => nums [cx_version x; cx_codec x; cx_platform x] ++ sp ++ bool_s (cx_handshaked x))
              (ctx_handshake {| cx_version := 0; cx_codec := 0; cx_platform := 0; cx_handshaked := false |}
                             {| hs_version := v; hs_codec := c; hs_platform := p; hs_reserve := r |})
    | _ => bad
    end
  else bad.

Definition starts_with (p l : bytes) : bool := bytes_eqb p (firstn (List.length p) l).

Definition run_line (line : bytes) : bytes :=
  match words line with
  | op :: args =>
      if starts_with (str "hs.") op then run_hs op args
      else bad
  | [] => bad
  end.

(* a case file line is "<request> => <implementation output>" ; the model's
   verdict is whether its own output equals the implementation's *)
Fixpoint split_arrow (l cur : bytes) : option (bytes * bytes) :=
  match l with
  | " "%byte :: "="%byte :: ">"%byte :: " "%byte :: r => Some (rev_append cur [], r)
  | b :: r => split_arrow r (b :: cur)
  | [] => None
  end.

Definition check_line (line : bytes) : option bytes :=   (* None = agree; Some m = model output *)
  match split_arrow line [] with
  | Some (req, impl) => let m := run_line req in if bytes_eqb m impl then None else Some m
  | None => Some bad
  end.

Definition mismatches (cases : list string) : list (nat * string) :=
  let fix go (i : nat) (l : list string) :=
    match l with
    | [] => []
    | c :: r => match check_line (str c) with
                | None => go (S i) r
                | Some m => (i, string_of_list_byte m) :: go (S i) r
                end
    end in go O cases.
