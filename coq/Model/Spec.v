(* Model/Spec.v — the published frame layout, written from the layout text only
   (C02): arithmetic on field values, no bit operations, nothing shared with
   Header.v/Frame.v except the byte vocabulary of Base/.

   byte 0 = type:4 (low nibble) | verify:1 | gzip:1 | reserve:2 ; cmd:8 ;
   request_id:32 big-endian (request/response) ; timeout:16 big-endian (request) or
   status:8 (response) ; [v2: metadata_len:16 big-endian] ; body_len:24 big-endian ;
   [v2 metadata block] ; body ; nonce:64 big-endian and signature:128 when verify is set *)
From Coq Require Import List NArith Bool.
From Coq.Strings Require Import Byte.
From OAP Require Import Base.Bytes.
Import ListNotations.
Local Open Scope N_scope.

Record fields := mkFields {
  f_ty : N; f_verify : bool; f_gzip : bool; f_reserve : N; f_cmd : N; f_rid : N; f_timeout : N; f_status : N;
  f_meta : bytes; f_body : bytes; f_nonce : N; f_sig : bytes }.

Definition b2n (b : bool) : N := if b then 1 else 0.

Definition spec_b0 (f : fields) : N :=
  f_ty f + 16 * b2n (f_verify f) + 32 * b2n (f_gzip f) + 64 * f_reserve f.

Definition spec_header (v : N) (f : fields) : bytes :=
  [b8 (spec_b0 f); b8 (f_cmd f)]
  ++ (if (f_ty f =? 1) || (f_ty f =? 2) then be 4 (f_rid f) else [])
  ++ (if f_ty f =? 1 then be 2 (f_timeout f) else [])
  ++ (if f_ty f =? 2 then [b8 (f_status f)] else [])
  ++ (if v =? 2 then be 2 (N.of_nat (length (f_meta f))) else [])
  ++ be 3 (N.of_nat (length (f_body f))).

Definition spec_trailer (f : fields) : bytes :=
  if f_verify f then be 8 (f_nonce f) ++ f_sig f else [].

Definition spec_frame (v : N) (f : fields) : bytes :=
  spec_header v f ++ (if v =? 2 then f_meta f else []) ++ f_body f ++ spec_trailer f.

(* the frames the layout describes *)
Definition wf_fields (v : N) (f : fields) : bool :=
  ((f_ty f =? 1) || (f_ty f =? 2) || (f_ty f =? 3))
  && (f_reserve f <? 4) && (f_cmd f <? 256) && (f_rid f <? 4294967296) && (f_timeout f <? 65536)
  && (f_status f <? 256) && (N.of_nat (length (f_meta f)) <? 65536) && (N.of_nat (length (f_body f)) <? 16777216)
  && (f_nonce f <? 18446744073709551616)
  && (if f_verify f then Nat.eqb (length (f_sig f)) 16 else true)
  && (if v =? 2 then true else Nat.eqb (length (f_meta f)) 0).

(* header lengths that follow from the layout *)
Definition spec_header_len (v ty : N) : N :=
  2 + (if (ty =? 1) || (ty =? 2) then 4 else 0) + (if ty =? 1 then 2 else 0) + (if ty =? 2 then 1 else 0)
  + (if v =? 2 then 2 else 0) + 3.
