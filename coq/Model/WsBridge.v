(* Model/WsBridge.v — mirrors wsConn.onPing/onPong/onClose/reading/Write routing (go/client/ws_conn.go)
   next to the TCP path, on a transport-independent script alphabet.  gorilla/websocket is a parameter with
   the contract: control-frame handlers run inside the read; a data message is handed to UnpackBytes. *)
From Coq Require Import List NArith Bool.
From OAP Require Import Base.Bytes Base.Res Gen.Consts Model.Metadata Model.Header Model.Waiters.
Import ListNotations.
Local Open Scope N_scope.

(* what a peer can do, expressible on both transports *)
Inductive item :=
| IResp (cmd rid status : N) (body : bytes)
| IPush (cmd : N) (body : bytes)
| IPing (rid : N) (body : bytes)          (* TCP: heartbeat request frame with this id; WS: ping control frame *)
| IPong (hb_id : N) (body : bytes)        (* answer to the client's heartbeat; body carries heartbeat id hb_id *)
| IClose (body : bytes).                  (* TCP: close push with this body; WS: close control frame (code, reason) marshalled to this body *)

(* the packet that reaches client.onPacket; [sp_fresh] marks a request id drawn from the connection's generator *)
Record surfaced := mkSp { sp_ty : ptype; sp_cmd : N; sp_rid : option N; sp_status : N; sp_body : bytes }.

Definition tcp_surface (i : item) : surfaced :=
  match i with
  | IResp cmd rid st body => mkSp PTResponse cmd (Some rid) st body
  | IPush cmd body => mkSp PTPush cmd (Some 0) 0 body
  | IPing rid body => mkSp PTRequest c_CMD_HEARTBEAT (Some rid) 0 body
  | IPong hb body => mkSp PTResponse c_CMD_HEARTBEAT (Some hb) 0 body      (* the peer echoes the request id = heartbeat id *)
  | IClose body => mkSp PTPush c_CMD_CLOSE (Some 0) 0 body
  end.

(* wsConn: data messages go through UnpackBytes (same packet as TCP); control frames are synthesised *)
Definition ws_surface (parse_hb : bytes -> option N) (i : item) : surfaced :=
  match i with
  | IResp cmd rid st body => mkSp PTResponse cmd (Some rid) st body
  | IPush cmd body => mkSp PTPush cmd (Some 0) 0 body
  | IPing _ body => mkSp PTRequest c_CMD_HEARTBEAT None 0 body              (* MustNewRequest: a fresh id of the connection *)
  | IPong _ body => mkSp PTResponse c_CMD_HEARTBEAT (Some (match parse_hb body with Some h => h | None => 0 end)) 0 body
  | IClose body => mkSp PTPush c_CMD_CLOSE (Some 0) 0 body
  end.

(* equality of what the client core sees, ignoring only the request id of a surfaced ping *)
Definition sp_equiv (a b : surfaced) : Prop :=
  sp_ty a = sp_ty b /\ sp_cmd a = sp_cmd b /\ sp_status a = sp_status b /\ sp_body a = sp_body b /\
  (match sp_ty a, sp_cmd a with PTRequest, _ => True | _, _ => sp_rid a = sp_rid b end).

(* outbound: which wire unit carries a packet the client writes *)
Inductive wire := WBinary (frame_of : unit) | WPing (body : bytes) | WCloseFrame (body : bytes) | WFrame.
Definition ws_outbound (ty : ptype) (cmd : N) (body : bytes) : wire :=
  if (cmd =? c_CMD_HEARTBEAT) && (match ty with PTRequest => true | _ => false end) then WPing body
  else if cmd =? c_CMD_CLOSE then WCloseFrame body
  else WBinary tt.
Definition tcp_outbound (ty : ptype) (cmd : N) (body : bytes) : wire := WFrame.
