(* Model/Stream.v — mirrors Header.Unpack (v1, v2), protocolV1/V2.Unpack and
   tcpConn.readPacket/reading.  The ring buffer is represented by its content
   (a byte queue, oldest first); the one place where the decoder depends on the
   ring's geometry — the (first, end) split returned by Peek(3) — is an explicit
   argument [k] = len(first), chosen adversarially: theorems quantify over it. *)
From Coq Require Import List NArith ZArith Bool.
From Coq.Strings Require Import Byte.
From OAP Require Import Base.Bytes Base.Res Gen.Consts Model.Metadata Model.Header Model.Frame.
Import ListNotations.
Local Open Scope N_scope.

(* ---- ring buffer operations on the content ---- *)
Definition rb_peek_uint (n : nat) (q : bytes) : N :=         (* PeekUint8/16/32/64: 0 when Length() < n *)
  if (length q <? n)%nat then 0 else de (firstn n q).
Definition rb_retrieve (n : nat) (q : bytes) : bytes := skipn n q.      (* Retrieve(n); n >= Length() empties *)
(* Read(p) with len(p) = n: nothing for n = 0; ErrIsEmpty on an empty ring; otherwise
   min(n, Length()) bytes are copied into the zero-initialised p, no error when short *)
Definition rb_read (n : nat) (q : bytes) : res (bytes * bytes) :=
  match n with
  | O => Ok ([], q)
  | _ => match q with
         | [] => Err ERingEmpty
         | _ => Ok (firstn n q ++ zeros (n - length q), skipn n q)
         end
  end.
(* Peek(3): (first, end) with len(first) = min k (available) *)
Definition rb_peek3 (k : nat) (q : bytes) : bytes * bytes :=
  let a := firstn 3 q in (firstn k a, skipn k a).

(* ---- Header.Unpack(ctx, buffer): (done, header, queue) ; on error the queue as left ----
   [hdr_stream_tail] is the part after byte 0 has been absorbed (BeginUnpack = true). *)
Definition bytes3_of (f e : bytes) : res (byte * byte * byte) :=
  match length f with
  | 0%nat => a <- go_index 0 e ;; b <- go_index 1 e ;; c <- go_index 2 e ;; Ok (a, b, c)
  | 1%nat => a <- go_index 0 f ;; b <- go_index 0 e ;; c <- go_index 1 e ;; Ok (a, b, c)
  | 2%nat => a <- go_index 0 f ;; b <- go_index 1 f ;; c <- go_index 0 e ;; Ok (a, b, c)
  | _ => a <- go_index 0 f ;; b <- go_index 1 f ;; c <- go_index 2 f ;; Ok (a, b, c)
  end.

Definition hdr_stream_tail (v : N) (k : nat) (h1 : hdr) (q1 : bytes) : res (bool * hdr) * bytes :=
  let ty := h_ty h1 in
  if is_unknown ty then (Err EUnknownPacket, q1)
  else
    let remain := (N.to_nat (hdr_len v ty) - 1)%nat in
    if (length q1 <? remain)%nat then (Ok (false, h1), q1)
    else
      let cmd := rb_peek_uint 1 q1 in
      let q2 := rb_retrieve 1 q1 in
      let rr := is_req ty || is_resp ty in
      let rid := if rr then rb_peek_uint 4 q2 else h_rid h1 in
      let q3 := if rr then rb_retrieve 4 q2 else q2 in
      let tmo := if is_req ty then rb_peek_uint 2 q3 else h_timeout h1 in
      let q4 := if is_req ty then rb_retrieve 2 q3 else q3 in
      let st := if is_resp ty then rb_peek_uint 1 q4 else h_status h1 in
      let q5 := if is_resp ty then rb_retrieve 1 q4 else q4 in
      let ml := if v =? 2 then rb_peek_uint 2 q5 else h_mlen h1 in
      let q6 := if v =? 2 then rb_retrieve 2 q5 else q5 in
      let '(f, e) := rb_peek3 k q6 in
      let q7 := rb_retrieve 3 q6 in
      match bytes3_of f e with
      | Ok (fb, sb, tb) =>
          let blen := N.lor (N.lor (N.shiftl (bN fb) 16) (N.shiftl (bN sb) 8)) (bN tb) in
          (Ok (true, with_rest h1 cmd rid tmo st ml blen true), q7)
      | Err e => (Err e, q7)
      | Panic => (Panic, q7)
      | OutOfFuel => (OutOfFuel, q7)
      end.

Definition hdr_stream_unpack (v : N) (k : nat) (h : hdr) (q : bytes) : res (bool * hdr) * bytes :=
  if (length q =? 0)%nat then (Ok (false, h), q)
  else if h_unpacked h then (Ok (true, h), q)
  else
    if h_begin h then hdr_stream_tail v k h q
    else let b := rb_peek_uint 1 q in
         hdr_stream_tail v k (with_b0 h (b0_ty b) (b0_verify b) (b0_gzip b) (b0_reserve b) true) (rb_retrieve 1 q).

(* ---- protocolV1/V2.Unpack(ctx, buf) ---- *)
Record sstate := mkS { s_pend : option hdr; s_q : bytes }.
Inductive sout := SNeed | SPkt (p : packet).

Definition trailer_len (h : hdr) : nat :=
  if h_verify h =? 1 then (N.to_nat c_NonceLength + N.to_nat c_SignatureLength)%nat else 0%nat.
Definition need_len (h : hdr) : N := h_blen h + h_mlen h + N.of_nat (trailer_len h).

(* the body phase, once the header is complete and all bytes are there *)
Definition stream_body (gz : gzoracle) (v codec : N) (h : hdr) (q : bytes) : res packet * bytes :=
  match rb_read (if v =? 2 then N.to_nat (h_mlen h) else 0%nat) q with
  | Ok (mdb, q1) =>
      match rb_read (N.to_nat (h_blen h)) q1 with
      | Ok (body, q2) =>
          let md := hdr_metadata h codec in
          match (if v =? 2 then vals <- unmarshal_values mdb ;; Ok (with_values md vals) else Ok md) with
          | Ok md =>
              let r :=
                if h_verify h =? 1 then
                  let nonce := rb_peek_uint (N.to_nat c_NonceLength) q2 in
                  let q3 := rb_retrieve (N.to_nat c_NonceLength) q2 in
                  match rb_read (N.to_nat c_SignatureLength) q3 with
                  | Ok (sg, q4) => (Ok (with_sig md nonce sg), q4)
                  | Err e => (Err e, q3) | Panic => (Panic, q3) | OutOfFuel => (OutOfFuel, q3)
                  end
                else (Ok md, q2) in
              match r with
              | (Ok md, q5) =>
                  match (if h_gzip h =? 1 then decompress gz body else Ok body) with
                  | Ok body => (Ok (mkPacket md body), q5)
                  | Err e => (Err e, q5) | Panic => (Panic, q5) | OutOfFuel => (OutOfFuel, q5)
                  end
              | (Err e, q5) => (Err e, q5) | (Panic, q5) => (Panic, q5) | (OutOfFuel, q5) => (OutOfFuel, q5)
              end
          | Err e => (Err e, q2) | Panic => (Panic, q2) | OutOfFuel => (OutOfFuel, q2)
          end
      | Err e => (Err e, q1) | Panic => (Panic, q1) | OutOfFuel => (OutOfFuel, q1)
      end
  | Err e => (Err e, q) | Panic => (Panic, q) | OutOfFuel => (OutOfFuel, q)
  end.

(* one call of Unpack; the header is released (pending := None) iff done or an error *)
Definition stream_unpack (gz : gzoracle) (v codec : N) (k : nat) (stale : hdr) (s : sstate) : res sout * sstate :=
  let h := match s_pend s with Some h => h | None => pool_get v stale end in
  let q := s_q s in
  let hp := if h_unpacked h then (Ok (true, h), q) else hdr_stream_unpack v k h q in
  match hp with
  | (Ok (false, h1), q1) => (Ok SNeed, mkS (Some h1) q1)
  | (Ok (true, h1), q1) =>
      if N.of_nat (length q1) <? need_len h1 then (Ok SNeed, mkS (Some h1) q1)
      else match stream_body gz v codec h1 q1 with
           | (Ok p, q2) => (Ok (SPkt p), mkS None q2)
           | (Err e, q2) => (Err e, mkS None q2)
           | (Panic, q2) => (Panic, mkS None q2)
           | (OutOfFuel, q2) => (OutOfFuel, mkS None q2)
           end
  | (Err e, q1) => (Err e, mkS None q1)
  | (Panic, q1) => (Panic, mkS None q1)
  | (OutOfFuel, q1) => (OutOfFuel, mkS None q1)
  end.

(* the sizes passed to make() by one Unpack call (C04's memory clause) *)
Definition stream_allocs (v : N) (k : nat) (stale : hdr) (s : sstate) : list nat :=
  let h := match s_pend s with Some h => h | None => pool_get v stale end in
  let hp := if h_unpacked h then (Ok (true, h), s_q s) else hdr_stream_unpack v k h (s_q s) in
  match hp with
  | (Ok (true, h1), q1) =>
      if N.of_nat (length q1) <? need_len h1 then []
      else (if v =? 2 then [N.to_nat (h_mlen h1)] else []) ++ [N.to_nat (h_blen h1)]
           ++ (if h_verify h1 =? 1 then [N.to_nat c_SignatureLength] else [])
  | _ => []
  end.

(* tcpConn.readPacket: call Unpack until it is not done; [ks] supplies the Peek split of each call *)
Fixpoint read_packets (gz : gzoracle) (v codec : N) (fuel : nat) (ks : nat -> nat) (i : nat) (s : sstate)
  : res (list packet) * sstate :=
  match fuel with
  | O => (OutOfFuel, s)
  | S f =>
      match stream_unpack gz v codec (ks i) hdr0 s with
      | (Ok SNeed, s') => (Ok [], s')
      | (Ok (SPkt p), s') =>
          match read_packets gz v codec f ks (S i) s' with
          | (Ok ps, s'') => (Ok (p :: ps), s'')
          | r => r
          end
      | (Err e, s') => (Err e, s')
      | (Panic, s') => (Panic, s')
      | (OutOfFuel, s') => (OutOfFuel, s')
      end
  end.

(* tcpConn.reading: every chunk read from the socket is appended, then readPacket runs.
   (fast path NewWithData(buf[:n]) + left-over copy, and slow path through readBuf, have the
   same content semantics; they differ in geometry only, which [ks] abstracts) *)
Definition feed (s : sstate) (chunk : bytes) : sstate := mkS (s_pend s) (s_q s ++ chunk).
