(* Model/Metadata.v — mirrors go/metadata.go (unmarshalStringLength, getString,
   UnmarshalValues, marshalString, MarshalValues, Set, Get).
   Strings are byte lists. A Go map[string]string is an association list kept
   strictly sorted by key (bytewise order = Go string order), so equal maps are
   equal terms. MarshalValues iterates keys in sorted order (as the code does
   since the "fix: deterministic metadata order" commit). Keys are lower-cased
   bytewise (exact for pure-ASCII keys; see DESIGN.md for non-ASCII keys). *)
From Coq Require Import List NArith ZArith Bool.
From Coq.Strings Require Import Byte.
From OAP Require Import Base.Bytes Base.Res Gen.Consts.
Import ListNotations.
Local Open Scope N_scope.

Definition mdmap := list (bytes * bytes).

Fixpoint md_insert (k v : bytes) (m : mdmap) : mdmap :=
  match m with
  | [] => [(k, v)]
  | (k', v') :: r =>
      if bytes_ltb k k' then (k, v) :: m
      else if bytes_eqb k k' then (k, v) :: r
      else (k', v') :: md_insert k v r
  end.

Fixpoint md_lookup (k : bytes) (m : mdmap) : option bytes :=
  match m with
  | [] => None
  | (k', v') :: r => if bytes_eqb k k' then Some v' else md_lookup k r
  end.

Definition md_of_list (l : list (bytes * bytes)) : mdmap :=
  fold_left (fun acc kv => md_insert (fst kv) (snd kv) acc) l [].

(* unmarshalStringLength: (l, bitSize) *)
Definition unmarshal_len (data : bytes) : res (nat * N) :=
  match data with
  | [] => Ok (O, c_md_length7Bit)
  | d0 :: _ =>
      let bitSize := N.land (bN d0) c_md_lengthMask in
      let low := N.land (bN d0) (255 - c_md_lengthMask) in      (* uint8(data[0]) & ^lengthMask *)
      if bitSize =? c_md_length7Bit then Ok (N.to_nat low, bitSize)
      else if bitSize =? c_md_length15Bit then
        if (length data <? 2)%nat then Err EInvalidMetadata
        else
          d1 <- go_index 1 data ;;
          let l := N.shiftl low 8 + bN d1 in
          if l <=? c_md_max7BitLength then Err EInvalidMetadata else Ok (N.to_nat l, bitSize)
      else Ok (O, bitSize)
  end.

(* the getString closure: returns the string and the remaining data *)
Definition get_string (data : bytes) : res (bytes * bytes) :=
  let l := Z.of_nat (length data) in
  '(sl, bitSize) <- unmarshal_len data ;;
  if bitSize =? c_md_length7Bit then
    if (Z.of_nat sl >? l - 1)%Z then Err EInvalidMetadata
    else
      s <- go_slice 1 (sl + 1) data ;;
      r <- go_slice_from (sl + 1) data ;;
      Ok (s, r)
  else if bitSize =? c_md_length15Bit then
    if (Z.of_nat sl >? l - 2)%Z then Err EInvalidMetadata
    else
      s <- go_slice 2 (sl + 2) data ;;
      r <- go_slice_from (sl + 2) data ;;
      Ok (s, r)
  else Err EInvalidMetadata.

(* the for-loop of UnmarshalValues; returns the pairs in wire order *)
Fixpoint parse_pairs (fuel : nat) (data : bytes) : res (list (bytes * bytes)) :=
  match data with
  | [] => Ok []
  | _ =>
      match fuel with
      | O => OutOfFuel
      | S f =>
          '(k, d1) <- get_string data ;;
          '(v, d2) <- get_string d1 ;;
          ps <- parse_pairs f d2 ;;
          Ok ((k, v) :: ps)
      end
  end.

Definition lower_pairs (ps : list (bytes * bytes)) : mdmap :=
  md_of_list (map (fun kv => (lower (fst kv), snd kv)) ps).

Definition unmarshal_values (data : bytes) : res mdmap :=
  match data with
  | [] => Ok []
  | _ =>
      if (length data <? 2)%nat then Err EInvalidMetadata
      else ps <- parse_pairs (length data) data ;; Ok (lower_pairs ps)
  end.

(* marshalString: None = tooLong *)
Definition marshal_string (s : bytes) : option bytes :=
  let l := N.of_nat (length s) in
  if l <=? c_md_max7BitLength then Some (b8 l :: s)
  else if l <=? c_md_max15BitLength then
    Some (b8 (N.lor (N.shiftr l 8 mod 256) c_md_length15Bit) :: b8 (N.land l 255) :: s)
  else None.

(* the range loop of MarshalValues over the (sorted) entries; [data] is the
   block built so far; Go breaks at the first pair that does not fit *)
Fixpoint marshal_loop (m : mdmap) (max : Z) (data : bytes) : bytes :=
  match m with
  | [] => data
  | (k, v) :: r =>
      match k with
      | [] => marshal_loop r max data
      | _ =>
          match marshal_string k with
          | None => marshal_loop r max data
          | Some kb =>
              match marshal_string v with
              | None => marshal_loop r max data
              | Some vb =>
                  if (Z.of_nat (length kb + length vb + length data) >? max)%Z then data
                  else marshal_loop r max (data ++ kb ++ vb)
              end
          end
      end
  end.

Definition marshal_values (m : mdmap) (max : Z) : bytes := marshal_loop m max [].

Definition md_set (k v : bytes) (m : mdmap) : res mdmap :=
  if c_md_maxStringLength <? N.of_nat (length k) then Err EKeyTooLong
  else if c_md_maxStringLength <? N.of_nat (length v) then Err EValTooLong
  else Ok (md_insert (lower k) v m).

Definition md_get (k : bytes) (m : mdmap) : bytes :=
  match md_lookup (lower k) m with Some v => v | None => [] end.
