(* Model/Ring.v — the read side of github.com/Allenxuxu/ringbuffer v0.0.11 (ring_buffer.go: Length, Peek,
   Retrieve, RetrieveAll) with its concrete geometry: a backing array [rb_buf] of [rb_size] cells, a read
   index, a write index and the empty flag.  Model/Stream.v represents the ring by its content and lets the
   (first, end) split of Peek be an adversarial argument k; this file says where that content and that k come
   from.  The functions follow the Go text branch by branch.  Elements are abstract ([A] is [byte] in use). *)
From Coq Require Import List Arith Bool.
Import ListNotations.

Section Ring.
Context {A : Type}.

Record ring := mkRing { rb_buf : list A; rb_size : nat; rb_r : nat; rb_w : nat; rb_empty : bool }.

(* func (r *RingBuffer) Length() int *)
Definition ring_length (g : ring) : nat :=
  if Nat.eqb (rb_w g) (rb_r g) then (if rb_empty g then 0 else rb_size g)
  else if Nat.ltb (rb_r g) (rb_w g) then rb_w g - rb_r g
  else rb_size g - rb_r g + rb_w g.

Definition slice (l : list A) (a b : nat) : list A := firstn (b - a) (skipn a l).   (* l[a:b] *)

(* func (r *RingBuffer) Peek(len int) (first []byte, end []byte) *)
Definition ring_peek (g : ring) (n : nat) : list A * list A :=
  if rb_empty g || Nat.eqb n 0 then ([], [])
  else if Nat.ltb (rb_r g) (rb_w g) then
    let n := if Nat.ltb (rb_w g - rb_r g) n then rb_w g - rb_r g else n in
    (slice (rb_buf g) (rb_r g) (rb_r g + n), [])
  else
    let n := if Nat.ltb (rb_size g - rb_r g + rb_w g) n then rb_size g - rb_r g + rb_w g else n in
    if Nat.leb (rb_r g + n) (rb_size g) then (slice (rb_buf g) (rb_r g) (rb_r g + n), [])
    else (slice (rb_buf g) (rb_r g) (rb_size g), slice (rb_buf g) 0 (n + rb_r g - rb_size g))  (* len-size+r over int; written so that nat subtraction does not truncate *).

(* func (r *RingBuffer) RetrieveAll() *)
Definition ring_retrieve_all (g : ring) : ring := mkRing (rb_buf g) (rb_size g) 0 0 true.

(* func (r *RingBuffer) Retrieve(len int) *)
Definition ring_retrieve (g : ring) (n : nat) : ring :=
  if rb_empty g || Nat.eqb n 0 then g
  else if Nat.ltb n (ring_length g) then
    let r' := (rb_r g + n) mod rb_size g in
    mkRing (rb_buf g) (rb_size g) r' (rb_w g) (Nat.eqb (rb_w g) r')
  else ring_retrieve_all g.

(* the abstraction: what the ring holds, oldest first *)
Definition ring_content (g : ring) : list A :=
  if rb_empty g then []
  else if Nat.ltb (rb_r g) (rb_w g) then slice (rb_buf g) (rb_r g) (rb_w g)
  else skipn (rb_r g) (rb_buf g) ++ firstn (rb_w g) (rb_buf g).

(* the representation invariant of the library *)
Definition ring_wf (g : ring) : Prop :=
  length (rb_buf g) = rb_size g /\ rb_r g < rb_size g /\ rb_w g < rb_size g /\
  (rb_empty g = true -> rb_w g = rb_r g).

(* ---- the write side: free, makeSpace, Write ---- *)
Variable z : A.   (* what make() fills a new array with *)

(* func (r *RingBuffer) free() int *)
Definition ring_free (g : ring) : nat :=
  if Nat.eqb (rb_w g) (rb_r g) then (if rb_empty g then rb_size g else 0)
  else if Nat.ltb (rb_w g) (rb_r g) then rb_r g - rb_w g
  else rb_size g - rb_w g + rb_r g.

(* copy(l[at:], d) with at + len d <= len l *)
Definition splice (l : list A) (at_ : nat) (d : list A) : list A := firstn at_ l ++ d ++ skipn (at_ + length d) l.

(* func (r *RingBuffer) makeSpace(len int): a new array of size+len cells, the content read into its front
   (Read(newBuf) delivers the content in order, head part then tail part), r = 0, w = old length *)
Definition ring_make_space (g : ring) (k : nat) : ring :=
  let c := ring_content g in
  mkRing (c ++ repeat z (rb_size g + k - length c)) (rb_size g + k) 0 (ring_length g) (rb_empty g).

(* func (r *RingBuffer) Write(p []byte) (n int, err error) *)
Definition ring_write (g : ring) (p : list A) : ring :=
  let n := length p in
  if Nat.eqb n 0 then g else
  let g := if Nat.ltb (ring_free g) n then ring_make_space g (n - ring_free g) else g in
  let '(buf, w) :=
    if Nat.leb (rb_r g) (rb_w g) then
      if Nat.leb n (rb_size g - rb_w g) then (splice (rb_buf g) (rb_w g) p, rb_w g + n)
      else (splice (splice (rb_buf g) (rb_w g) (firstn (rb_size g - rb_w g) p)) 0 (skipn (rb_size g - rb_w g) p),
            rb_w g + n - rb_size g)
    else (splice (rb_buf g) (rb_w g) p, rb_w g + n) in
  mkRing buf (rb_size g) (rb_r g) (if Nat.eqb w (rb_size g) then 0 else w) false.

(* whole histories: the operations the read loop and the decoders use, their observable results, and the same
   history on the content alone (the representation Model/Stream.v works with) *)
Inductive rop := RLen | RPeek (n : nat) | RRetr (n : nat) | RWrite (p : list A).
Inductive robs := OLen (n : nat) | OPeek (l : list A) | ORetr | OWrite.

Definition ring_step (g : ring) (o : rop) : ring * robs :=
  match o with
  | RLen => (g, OLen (ring_length g))
  | RPeek n => (g, OPeek (fst (ring_peek g n) ++ snd (ring_peek g n)))
  | RRetr n => (ring_retrieve g n, ORetr)
  | RWrite p => (ring_write g p, OWrite)
  end.
Definition content_step (c : list A) (o : rop) : list A * robs :=
  match o with
  | RLen => (c, OLen (length c))
  | RPeek n => (c, OPeek (firstn n c))
  | RRetr n => (skipn n c, ORetr)
  | RWrite p => (c ++ p, OWrite)
  end.
Fixpoint run_ops {S} (step : S -> rop -> S * robs) (s : S) (ops : list rop) : S * list robs :=
  match ops with
  | [] => (s, [])
  | o :: r => let '(s1, b) := step s o in let '(s2, bs) := run_ops step s1 r in (s2, b :: bs)
  end.

End Ring.
Arguments ring : clear implicits.
Arguments robs : clear implicits.
Arguments rop : clear implicits.
