(* Model/CloseLock.v — the one place where a holder of the client's RWMutex waits for something that is not a timer:
   client.Close holds the read lock while it calls conn.Close, and conn.Close may have to wait for the connection's
   sync.Once, whose body is being run by another closer of the same connection (the reader that saw the peer go away);
   that body ends in the close callback -> onConnClose -> recoverLoss, which takes the client's WRITE lock unless the
   client is closed.  A cycle (user: holds R, waits for the once; reader: runs the once, waits for W) would be a
   deadlock; it is excluded by the order of two flags: Close closes the client's closeCh BEFORE taking the read lock,
   the once body closes the connection's closeCh BEFORE dispatching, conn.Close returns at once when the connection's
   closeCh is closed, and onConnClose returns at once when the client's closeCh is closed.

   Threads: U (client.Close), R (the other closer, inside conn.Close), and any number n of other read-lock holders
   (request calls, keepalive pings) which wait only for timers and therefore can always finish ("env" step).
   Go's RWMutex: a waiting writer blocks new readers.

   Since repair c1f53c8 (finding F32) client.Close no longer takes the read lock at all (it reads the connection
   through the state mutex), so its thread U has one blocking step fewer than modelled here: every schedule of the
   code is a schedule of this model in which U's lock request is granted at once and released before conn.Close,
   and the absence of a deadlock proved for the model holds of the code a fortiori.  The model is kept as it is:
   it is the protocol the pinned tree had, and the stronger statement. *)
From Coq Require Import List Arith Bool Lia.
Import ListNotations.

Inductive upc :=
| U0        (* before close(c.closeCh) *)
| U1        (* client closeCh closed; about to RLock *)
| U2        (* holds R; about to call conn.Close: tests the connection's closeCh *)
| U3        (* holds R; inside once.Do: runs the body itself (once idle) or waits for the running body *)
| U3body    (* holds R; running the once body itself: close conn closeCh, dispatch: onConnClose sees the client closed *)
| U4        (* holds R; conn.Close returned; about to RUnlock *)
| U5.       (* done *)

Inductive rpc :=
| R0        (* before conn.Close *)
| R1        (* inside once.Do, running the body: before close(conn.closeCh) (the log line) *)
| R2        (* conn closeCh closed; dispatching: onConnClose tests the client's closeCh *)
| R3        (* client was not closed: recoverLoss, about to Lock *)
| R3w       (* announced as waiting writer *)
| R4        (* holds W: tests / sets the flag *)
| R5        (* released W; the recovery itself runs elsewhere; body returns *)
| R6.       (* left conn.Close *)

Inductive once_st := OIdle | ORunU | ORunR | ODone.

Record st := mkSt {
  u : upc; r : rpc;
  cc : bool;            (* client closeCh closed *)
  kc : bool;            (* connection closeCh closed *)
  once : once_st;
  env : nat;            (* other holders of the read lock *)
  wr : bool }.          (* the write lock is held (by R) *)

Definition init (n : nat) : st := mkSt U0 R0 false false OIdle n false.

Definition u_holds_r (p : upc) : bool := match p with U2 | U3 | U3body | U4 => true | _ => false end.
Definition writer_waiting (s : st) : bool := match r s with R3w => true | _ => false end.

Inductive who := TU | TR | TEnv.

(* one step of the chosen thread; None = that thread is blocked (or finished) in this state *)
Definition step (s : st) (w : who) : option st :=
  match w with
  | TEnv => match env s with O => None | S n => Some (mkSt (u s) (r s) (cc s) (kc s) (once s) n (wr s)) end
  | TU =>
      match u s with
      | U0 => Some (mkSt U1 (r s) true (kc s) (once s) (env s) (wr s))
      | U1 => if wr s || writer_waiting s then None                       (* RLock: blocked by a writer, held or waiting *)
              else Some (mkSt U2 (r s) (cc s) (kc s) (once s) (env s) (wr s))
      | U2 => if kc s then Some (mkSt U4 (r s) (cc s) (kc s) (once s) (env s) (wr s))      (* conn.closed(): return *)
              else Some (mkSt U3 (r s) (cc s) (kc s) (once s) (env s) (wr s))
      | U3 => match once s with
              | OIdle => Some (mkSt U3body (r s) (cc s) (kc s) ORunU (env s) (wr s))
              | ODone => Some (mkSt U4 (r s) (cc s) (kc s) (once s) (env s) (wr s))
              | _ => None                                                   (* waits for the running body *)
              end
      | U3body => (* close conn closeCh, socket, dispatch: onConnClose returns at once (cc is true); body done *)
                  Some (mkSt U4 (r s) (cc s) true ODone (env s) (wr s))
      | U4 => Some (mkSt U5 (r s) (cc s) (kc s) (once s) (env s) (wr s))
      | U5 => None
      end
  | TR =>
      match r s with
      | R0 => if kc s then Some (mkSt (u s) R6 (cc s) (kc s) (once s) (env s) (wr s))      (* conn.closed(): return *)
              else match once s with
                   | OIdle => Some (mkSt (u s) R1 (cc s) (kc s) ORunR (env s) (wr s))
                   | ODone => Some (mkSt (u s) R6 (cc s) (kc s) (once s) (env s) (wr s))
                   | _ => None                                              (* waits for U's body *)
                   end
      | R1 => Some (mkSt (u s) R2 (cc s) true (once s) (env s) (wr s))
      | R2 => if cc s then Some (mkSt (u s) R5 (cc s) (kc s) (once s) (env s) (wr s))      (* client closed: return *)
              else Some (mkSt (u s) R3 (cc s) (kc s) (once s) (env s) (wr s))
      | R3 => Some (mkSt (u s) R3w (cc s) (kc s) (once s) (env s) (wr s))
      | R3w => if u_holds_r (u s) || negb (Nat.eqb (env s) 0) then None      (* Lock: waits for the readers *)
               else Some (mkSt (u s) R4 (cc s) (kc s) (once s) (env s) true)
      | R4 => Some (mkSt (u s) R5 (cc s) (kc s) (once s) (env s) false)
      | R5 => Some (mkSt (u s) R6 (cc s) (kc s) ODone (env s) (wr s))
      | R6 => None
      end
  end.

Fixpoint run (s : st) (ws : list who) : st :=
  match ws with
  | [] => s
  | w :: rest => match step s w with Some s' => run s' rest | None => run s rest end   (* a blocked thread just does not move *)
  end.

Definition final (s : st) : bool :=
  match u s, r s with U5, R6 => Nat.eqb (env s) 0 | _, _ => false end.
Definition enabled (s : st) : bool :=
  match step s TU, step s TR, step s TEnv with None, None, None => false | _, _, _ => true end.
