(* Model/Waiters.v — mirrors client.Do / register / recv / handleResponse / onPacket routing /
   Packet.Err / the waiter sweep of reconnect() (go/client/client.go, go/packet.go).
   One call = the steps  Start (id drawn from the connection context) ; Register ; Write ;
   Finish (the select in recv: take the packet, or give up at the deadline) — each between two
   synchronisation points of the Go code.  The environment dispatches ARBITRARY packets at any time. *)
From Coq Require Import List NArith Bool String.
From Coq.Strings Require Import Byte.
From OAP Require Import Base.Bytes Base.Res Gen.Consts Model.Metadata Model.Header.
Import ListNotations.
Local Open Scope N_scope.

(* the fields of an incoming packet that routing, matching and Err() look at *)
Record wpkt := mkWpkt { w_ty : ptype; w_cmd : N; w_rid : N; w_status : N; w_body : bytes }.

(* control.Error parsed from a body: None = unmarshal failed *)
Definition perr_oracle := bytes -> option (N * bytes).

Inductive wres :=
| WResp (p : wpkt)                              (* returned to the caller, err = nil *)
| WLBErr (status code : N) (msg : bytes)        (* *LBError *)
| WTimeout                                      (* "wait for %d response timeout" *)
| WLost                                         (* waiter closed by reconnect(): connection recycled *)
| WWriteErr.                                    (* the transport refused the request *)

Definition fallback_msg : bytes :=
  list_byte_of_string "unknown error, cant unmarshal body"%string.

(* Packet.Err(): only responses with a non-zero status are errors *)
Definition result_of (pe : perr_oracle) (p : wpkt) : wres :=
  match w_ty p with
  | PTResponse =>
      if w_status p =? c_StatusSuccess then WResp p
      else match pe (w_body p) with
           | Some (code, msg) => WLBErr (w_status p) code msg
           | None => WLBErr (w_status p) 500 fallback_msg
           end
  | _ => WResp p
  end.

Inductive cstate := CStart | CRegistered | CWritten | CDone (r : wres).
Record wcall := mkCall { wc_id : N; wc_st : cstate }.

Inductive wlog := LNoReceiver (rid : N) | LDuplicate (rid : N) | LUnsupportedRequest (cmd : N).

(* the routing decision of onPacket/handleControl *)
Inductive route := RPing | RPong | RClose | RToWaiter | RPush | RUnsupported | RIgnored.
Definition route_of (p : wpkt) : route :=
  if w_cmd p <=? c_CMD_RECONNECT then                       (* IsControl *)
    if (w_cmd p =? c_CMD_HEARTBEAT) && (match w_ty p with PTRequest => true | _ => false end) then RPing
    else if (w_cmd p =? c_CMD_HEARTBEAT) && (match w_ty p with PTResponse => true | _ => false end) then RPong
    else if w_cmd p =? c_CMD_CLOSE then RClose
    else if (w_cmd p =? c_CMD_AUTH) || (w_cmd p =? c_CMD_RECONNECT) then
      match w_ty p with PTResponse => RToWaiter | _ => RIgnored end      (* only a response answers auth / reconnect *)
    else RIgnored                                            (* heartbeat push: falls through handleControl *)
  else match w_ty p with
       | PTPush => RPush
       | PTResponse => RToWaiter
       | _ => RUnsupported
       end.

(* the waiter table: request id -> (owning call, 1-slot channel) *)
Definition wtable := list (N * (nat * option wpkt)).

Record wstate := mkWs {
  ws_counter : N;
  ws_calls : list wcall;          (* call k is the k-th element *)
  ws_table : wtable;
  ws_log : list wlog }.

Definition ws0 : wstate := mkWs 0 [] [] [].

Fixpoint tlookup (rid : N) (t : wtable) : option (nat * option wpkt) :=
  match t with [] => None | (r, e) :: rest => if r =? rid then Some e else tlookup rid rest end.
Fixpoint tremove (rid : N) (t : wtable) : wtable :=
  match t with [] => [] | (r, e) :: rest => if r =? rid then tremove rid rest else (r, e) :: tremove rid rest end.
Definition tset (rid : N) (e : nat * option wpkt) (t : wtable) : wtable := (rid, e) :: tremove rid t.

Fixpoint set_call (k : nat) (c : wcall) (l : list wcall) : list wcall :=
  match l, k with
  | [], _ => []
  | _ :: r, O => c :: r
  | x :: r, S m => x :: set_call m c r
  end.

Inductive fin_choice := FTake | FDeadline.

Inductive wact :=
| AStart                       (* a new call: NewRequest draws the id *)
| ARegister (k : nat)
| AWrite (k : nat) (ok : bool) (* conn.Write accepted / refused the request *)
| AFinish (k : nat) (c : fin_choice)
| ADispatch (p : wpkt)         (* a packet reaches onPacket *)
| ASweep.                      (* reconnect(): close every waiter, fresh table *)

Definition step (pe : perr_oracle) (s : wstate) (a : wact) : wstate :=
  match a with
  | AStart =>
      let id := (ws_counter s + 1) mod 4294967296 in
      mkWs id (ws_calls s ++ [mkCall id CStart]) (ws_table s) (ws_log s)
  | ARegister k =>
      match nth_error (ws_calls s) k with
      | Some (mkCall id CStart) =>
          mkWs (ws_counter s) (set_call k (mkCall id CRegistered) (ws_calls s)) (tset id (k, None) (ws_table s)) (ws_log s)
      | _ => s
      end
  | AWrite k ok =>
      match nth_error (ws_calls s) k with
      | Some (mkCall id CRegistered) =>
          if ok then mkWs (ws_counter s) (set_call k (mkCall id CWritten) (ws_calls s)) (ws_table s) (ws_log s)
          else (* write error: Do returns, the deferred unregister removes the waiter if still its own *)
            let t := match tlookup id (ws_table s) with Some (k', _) => if Nat.eqb k' k then tremove id (ws_table s) else ws_table s | None => ws_table s end in
            mkWs (ws_counter s) (set_call k (mkCall id (CDone WWriteErr)) (ws_calls s)) t (ws_log s)
      | _ => s
      end
  | AFinish k c =>
      match nth_error (ws_calls s) k with
      | Some (mkCall id CWritten) =>
          match tlookup id (ws_table s) with
          | Some (k', slot) =>
              if Nat.eqb k' k then
                match slot, c with
                | Some p, FTake => mkWs (ws_counter s) (set_call k (mkCall id (CDone (result_of pe p))) (ws_calls s)) (tremove id (ws_table s)) (ws_log s)
                | _, FDeadline => mkWs (ws_counter s) (set_call k (mkCall id (CDone WTimeout)) (ws_calls s)) (tremove id (ws_table s)) (ws_log s)
                | None, FTake => s                      (* nothing to take yet: still blocked *)
                end
              else (* the entry now belongs to another call: ours was swept *)
                mkWs (ws_counter s) (set_call k (mkCall id (CDone (match c with FTake => WLost | FDeadline => WTimeout end))) (ws_calls s)) (ws_table s) (ws_log s)
          | None => (* swept: the closed channel yields nil *)
              mkWs (ws_counter s) (set_call k (mkCall id (CDone (match c with FTake => WLost | FDeadline => WTimeout end))) (ws_calls s)) (ws_table s) (ws_log s)
          end
      | _ => s
      end
  | ADispatch p =>
      match route_of p with
      | RToWaiter =>
          match tlookup (w_rid p) (ws_table s) with
          | Some (k, None) => mkWs (ws_counter s) (ws_calls s) (tset (w_rid p) (k, Some p) (ws_table s)) (ws_log s)
          | Some (k, Some _) => mkWs (ws_counter s) (ws_calls s) (ws_table s) (ws_log s ++ [LDuplicate (w_rid p)])
          | None => mkWs (ws_counter s) (ws_calls s) (ws_table s) (ws_log s ++ [LNoReceiver (w_rid p)])
          end
      | RUnsupported => mkWs (ws_counter s) (ws_calls s) (ws_table s) (ws_log s ++ [LUnsupportedRequest (w_cmd p)])
      | _ => s
      end
  | ASweep => mkWs (ws_counter s) (ws_calls s) [] (ws_log s)
  end.

Definition run (pe : perr_oracle) (acts : list wact) : wstate := fold_left (step pe) acts ws0.
