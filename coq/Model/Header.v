(* Model/Header.v — mirrors go/v1/header.go and go/v2/v2_header.go:
   Header struct, headerPool.Get, IsUnknownPacket, length, Pack, UnpackBytes,
   Metadata, headerFromMetadata.  One record serves both versions (v1 has no
   MetadataLength: it stays 0).  Bit operations are written as in the Go. *)
From Coq Require Import List NArith ZArith Bool.
From Coq.Strings Require Import Byte.
From OAP Require Import Base.Bytes Base.Res Gen.Consts Model.Metadata.
Import ListNotations.
Local Open Scope N_scope.

Record hdr := mkHdr {
  h_rid : N; h_blen : N; h_timeout : N; h_ty : N; h_verify : N; h_gzip : N; h_reserve : N;
  h_cmd : N; h_status : N; h_mlen : N; h_begin : bool; h_unpacked : bool }.

Definition hdr0 : hdr := mkHdr 0 0 0 0 0 0 0 0 0 0 false false.

(* headerPool.Get(): the recycled object's fields are reset one by one
   (Type, Verify, Gzip, Reserve, CmdCode, Timeout, RequestId, StatusCode, BodyLength,
   [v2: MetadataLength], BeginUnpack, IsUnpacked).  [stale] is what the pool hands out. *)
Definition pool_get (v : N) (stale : hdr) : hdr :=
  mkHdr 0 0 0 0 0 0 0 0 0 0 false false.

Definition with_b0 (h : hdr) (ty ve gz rs : N) (bg : bool) : hdr :=
  mkHdr (h_rid h) (h_blen h) (h_timeout h) ty ve gz rs (h_cmd h) (h_status h) (h_mlen h) bg (h_unpacked h).
Definition with_rest (h : hdr) (cmd rid timeout status mlen blen : N) (un : bool) : hdr :=
  mkHdr rid blen timeout (h_ty h) (h_verify h) (h_gzip h) (h_reserve h) cmd status mlen (h_begin h) un.
Definition with_lens (h : hdr) (mlen blen : N) : hdr :=
  mkHdr (h_rid h) blen (h_timeout h) (h_ty h) (h_verify h) (h_gzip h) (h_reserve h) (h_cmd h) (h_status h) mlen
        (h_begin h) (h_unpacked h).

Definition is_req (ty : N) : bool := ty =? c_T_Request.
Definition is_resp (ty : N) : bool := ty =? c_T_Response.
Definition is_push (ty : N) : bool := ty =? c_T_Push.
Definition is_unknown (ty : N) : bool := negb (is_req ty || is_resp ty || is_push ty).

(* Header.length(): request / response / default push *)
Definition hdr_len (v ty : N) : N :=
  if is_req ty then (if v =? 2 then c_v2_RequestHeaderLen else c_v1_RequestHeaderLen)
  else if is_resp ty then (if v =? 2 then c_v2_ResponseHeaderLen else c_v1_ResponseHeaderLen)
  else (if v =? 2 then c_v2_PushHeaderLen else c_v1_PushHeaderLen).

(* byte 0: h.Type = HeaderTypeMask & b; Verify = b>>4&1; Gzip = b>>5&1; Reserve = b>>6&3 *)
Definition b0_ty (b : N) : N := N.land c_HeaderTypeMask b.
Definition b0_verify (b : N) : N := N.land (N.shiftr b 4) 1.
Definition b0_gzip (b : N) : N := N.land (N.shiftr b 5) 1.
Definition b0_reserve (b : N) : N := N.land (N.shiftr b 6) 3.

(* (h.Type & 0xf) | ((h.Verify & 1) << 4) | ((h.Gzip & 1) << 5) | ((h.Reserve & 3) << 6) *)
Definition pack_b0 (h : hdr) : N :=
  N.lor (N.lor (N.lor (N.land (h_ty h) 15) (N.shiftl (N.land (h_verify h) 1) 4))
               (N.shiftl (N.land (h_gzip h) 1) 5))
        (N.shiftl (N.land (h_reserve h) 3) 6).

(* Header.Pack(): data := make([]byte, h.length()) filled by index; a layout that
   does not fill exactly h.length() bytes would be an index panic in Go *)
Definition hdr_pack (v : N) (h : hdr) : res bytes :=
  if is_unknown (h_ty h) then Err EUnknownPacket
  else if c_MaxBodyLength <? h_blen h then Err EBodyLimit
  else
    let ty := h_ty h in
    let data :=
      [b8 (pack_b0 h); b8 (h_cmd h)]
      ++ (if is_req ty || is_resp ty then
            be 4 (h_rid h) ++ (if is_req ty then be 2 (h_timeout h) else []) ++ (if is_resp ty then [b8 (h_status h)] else [])
          else [])
      ++ (if v =? 2 then be 2 (h_mlen h) else [])
      ++ [b8 (N.shiftr (h_blen h) 16); b8 (N.shiftr (h_blen h) 8); b8 (h_blen h)] in
    if N.of_nat (length data) =? hdr_len v ty then Ok data else Panic.

(* Header.UnpackBytes(frame): returns the header and frame[idx:].
   [hdr_unpack_bytes_tail] is everything after byte 0 has been taken apart. *)
Definition hdr_unpack_bytes_tail (v : N) (h1 : hdr) (frame : bytes) : res (hdr * bytes) :=
  let ty := h_ty h1 in
  if is_unknown ty then Err EUnknownPacket
  else
    let remain := (N.to_nat (hdr_len v ty) - 1)%nat in
    if (length frame <? remain + 1)%nat then Err EInvalidFrame
    else
      cmd <- go_index 1 frame ;;
      let idx := 2%nat in
      ridb <- (if is_req ty || is_resp ty then go_slice idx (idx + 4) frame else Ok []) ;;
      let idx := if is_req ty || is_resp ty then (idx + 4)%nat else idx in
      tob <- (if is_req ty then go_slice idx (idx + 2) frame else Ok []) ;;
      let idx := if is_req ty then (idx + 2)%nat else idx in
      stb <- (if is_resp ty then go_slice idx (idx + 1) frame else Ok []) ;;
      let idx := if is_resp ty then (idx + 1)%nat else idx in
      mlb <- (if v =? 2 then go_slice idx (idx + 2) frame else Ok []) ;;
      let idx := if v =? 2 then (idx + 2)%nat else idx in
      f <- go_index idx frame ;;
      s <- go_index (idx + 1) frame ;;
      t <- go_index (idx + 2) frame ;;
      rest <- go_slice_from (idx + 3) frame ;;
      let blen := N.lor (N.lor (N.shiftl (bN f) 16) (N.shiftl (bN s) 8)) (bN t) in
      Ok (with_rest h1 (bN cmd)
            (if is_req ty || is_resp ty then de ridb else h_rid h1)
            (if is_req ty then de tob else h_timeout h1)
            (if is_resp ty then de stb else h_status h1)
            (if v =? 2 then de mlb else h_mlen h1)
            blen (h_unpacked h1), rest).

Definition hdr_unpack_bytes (v : N) (h : hdr) (frame : bytes) : res (hdr * bytes) :=
  match frame with
  | [] => Err EInvalidFrame
  | fb0 :: _ =>
      let b := bN fb0 in
      hdr_unpack_bytes_tail v (with_b0 h (b0_ty b) (b0_verify b) (b0_gzip b) (b0_reserve b) (h_begin h)) frame
  end.

(* protocol.Metadata / protocol.Packet *)
Inductive ptype := PTNone | PTRequest | PTResponse | PTPush.   (* PTNone: "" or any other string *)

Record meta := mkMeta {
  m_nonce : N; m_rid : N; m_cmd : N; m_verify : bool; m_gzip : bool; m_timeout : N; m_codec : N;
  m_status : N; m_type : ptype; m_sig : bytes; m_values : mdmap }.
Record packet := mkPacket { p_md : meta; p_body : bytes }.

Definition ptype_of (ty : N) : ptype :=
  if is_req ty then PTRequest else if is_resp ty then PTResponse else if is_push ty then PTPush else PTNone.
Definition ty_of (t : ptype) : N :=
  match t with PTRequest => c_T_Request | PTResponse => c_T_Response | PTPush => c_T_Push | PTNone => 0 end.

(* Header.Metadata(ctx) *)
Definition hdr_metadata (h : hdr) (codec : N) : meta :=
  mkMeta 0 (h_rid h) (h_cmd h) (h_verify h =? 1) (h_gzip h =? 1) (h_timeout h) codec (h_status h)
         (ptype_of (h_ty h)) [] [].

(* headerFromMetadata(md): Get() then copy; CmdCode = uint8(md.CmdCode & 0xff) *)
Definition hdr_from_md (v : N) (stale : hdr) (md : meta) : hdr :=
  let h := pool_get v stale in
  mkHdr (m_rid md) (h_blen h) (m_timeout md) (ty_of (m_type md))
        (if m_verify md then 1 else h_verify h) (if m_gzip md then 1 else h_gzip h) (h_reserve h)
        (N.land (m_cmd md) 255 mod 256) (m_status md) (h_mlen h) (h_begin h) (h_unpacked h).
