(* The TCP read loop at the level of whole runs (C03): every chunk read from the socket is appended to the buffer and
   Unpack is called until it asks for more data; an error ends the run (the connection is closed).
   [ks] supplies, for each call, the split point of the ring's Peek (buffer geometry). *)
From Coq Require Import List NArith.
From OAP Require Import Base.Bytes Base.Res Gen.Consts Model.Metadata Model.Header Model.Frame Model.Stream.
Import ListNotations.

Inductive endst := ENeed | EErr (e : err) | EPanic | EFuel.

(* tcpConn.readPacket: packets delivered before the loop stops, why it stopped, the state left *)
Fixpoint drain (gz : gzoracle) (v codec : N) (fuel : nat) (ks : nat -> nat) (i : nat) (s : sstate)
  : list packet * endst * sstate :=
  match fuel with
  | O => ([], EFuel, s)
  | S f =>
      match stream_unpack gz v codec (ks i) hdr0 s with
      | (Ok SNeed, s') => ([], ENeed, s')
      | (Ok (SPkt p), s') => let '(ps, e, s'') := drain gz v codec f ks (S i) s' in (p :: ps, e, s'')
      | (Err e, s') => ([], EErr e, s')
      | (Panic, s') => ([], EPanic, s')
      | (OutOfFuel, s') => ([], EFuel, s')
      end
  end.

(* every completed frame consumes at least one byte: length+1 calls always suffice *)
Definition drain_all gz v codec ks s := drain gz v codec (S (length (s_q s))) ks 0 s.

(* tcpConn.reading over a sequence of socket reads; [kss j] is the geometry during the j-th read *)
Fixpoint run_chunks (gz : gzoracle) (v codec : N) (kss : nat -> nat -> nat) (j : nat) (s : sstate) (chunks : list bytes)
  : list packet * endst * sstate :=
  match chunks with
  | [] => ([], ENeed, s)
  | c :: cs =>
      let '(ps, e, s') := drain_all gz v codec (kss j) (feed s c) in
      match e with
      | ENeed => let '(ps2, e2, s2) := run_chunks gz v codec kss (S j) s' cs in (ps ++ ps2, e2, s2)
      | _ => (ps, e, s')
      end
  end.

(* nothing left to do without new bytes: the state a connection is in between reads *)
Definition quiet gz v codec (s : sstate) : Prop := forall k, stream_unpack gz v codec k hdr0 s = (Ok SNeed, s).
