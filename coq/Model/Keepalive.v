(* Model/Keepalive.v — mirrors client.keepalive (check, ping), handlePong, handlePing and the reset done by a
   successful recovery (go/client/client.go).  Time is a number of milliseconds supplied by the environment. *)
From Coq Require Import List NArith Bool.
From OAP Require Import Base.Bytes Base.Res Gen.Consts.
Import ListNotations.
Local Open Scope N_scope.

Record kstate := mkK {
  k_last_ka : N;            (* lastKeepaliveId: 0 = no heartbeat awaited yet *)
  k_last_pong : N;          (* lastPongAt (ms) *)
  k_counter : N;            (* the connection context's request id counter *)
  k_reconnecting : bool }.  (* doReconnectting *)

Inductive kevent :=
| KPing (id hb_id : N)      (* heartbeat request written: request id and the heartbeat id in its body *)
| KRecycle                  (* reconnecting() called by keepalive *)
| KSkip                     (* tick during a recovery: no ping *)
| KEcho (id : N) (body : bytes).   (* TCP: heartbeat response to the peer's heartbeat request *)

Inductive kact :=
| KTick (now : N) (write_ok : bool)
| KPong (now : N)
| KRecovered (now : N)       (* a recovery succeeded: fresh connection context, awaited heartbeat forgotten, and the
                                peer gets the whole timeout for its first answer (lastPongAt := now), as after Dial *)
| KReconnecting (b : bool)
| KPeerPing (id : N) (body : bytes).

Definition kstep (timeout : N) (s : kstate) (a : kact) : kstate * list kevent :=
  match a with
  | KTick now ok =>
      if negb (k_last_ka s =? 0) && (timeout <? now - k_last_pong s) then (s, [KRecycle])      (* check() fails: ping skipped *)
      else if k_reconnecting s then (s, [KSkip])
      else
        let id := (k_counter s + 1) mod 4294967296 in
        if ok then (mkK id (k_last_pong s) id (k_reconnecting s), [KPing id id])
        else (mkK (k_last_ka s) (k_last_pong s) id (k_reconnecting s), [KRecycle])
  | KPong now => (mkK (k_last_ka s) now (k_counter s) (k_reconnecting s), [])
  | KRecovered now => (mkK 0 now 0 false, [])
  | KReconnecting b => (mkK (k_last_ka s) (k_last_pong s) (k_counter s) b, [])
  | KPeerPing id body => (s, [KEcho id body])
  end.

Fixpoint krun (timeout : N) (s : kstate) (acts : list kact) : kstate * list kevent :=
  match acts with
  | [] => (s, [])
  | a :: r => let '(s1, e1) := kstep timeout s a in let '(s2, e2) := krun timeout s1 r in (s2, e1 ++ e2)
  end.

Definition k0 (start : N) : kstate := mkK 0 start 0 false.
