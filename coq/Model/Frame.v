(* Model/Frame.v — mirrors go/v1/v1.go and go/v2/v2.go (Pack, UnpackBytes) and
   go/gzip/gzip.go (Compress, Decompress, DecompressedSize).
   compress/gzip itself is not modelled: it is the oracle [gz] (see DESIGN.md,
   trusted base); when the model is run the oracle is a table computed with the
   standard library for exactly the inputs of that case. *)
From Coq Require Import List NArith ZArith Bool.
From Coq.Strings Require Import Byte.
From OAP Require Import Base.Bytes Base.Res Gen.Consts Model.Metadata Model.Header.
Import ListNotations.
Local Open Scope N_scope.

(* what the standard library's gzip reader yields on an input: a header error
   (NewReader/Reset fails), or a sequence of bytes ended by io.EOF or an error *)
Inductive gzfinal := GzEOF | GzErr.
Inductive gzread := GzHeaderErr | GzStream (out : bytes) (fin : gzfinal).
Record gzoracle := { gz_compress : bytes -> bytes; gz_read : bytes -> gzread }.

(* DecompressedSize: little-endian uint32 of the last four bytes, -1 if shorter *)
Definition decompressed_size (inp : bytes) : Z :=
  if (length inp <? 4)%nat then (-1)%Z
  else Z.of_N (de_le (skipn (length inp - 4) inp)).

(* Decompress: header error -> error; otherwise buf.ReadFrom(reader) to EOF *)
Definition decompress (gz : gzoracle) (inp : bytes) : res bytes :=
  match gz_read gz inp with
  | GzHeaderErr => Err EGzip
  | GzStream out GzEOF => Ok out
  | GzStream _ GzErr => Err EGzip
  end.

(* the capacity Decompress asks for up front: min(ISIZE, len(in)*maxExpansion) clamped at 0, + bytes.MinRead;
   nothing is allocated when the header is rejected *)
Definition c_maxExpansion : Z := 1032.
Definition decompress_alloc (gz : gzoracle) (inp : bytes) : Z :=
  match gz_read gz inp with
  | GzHeaderErr => 0%Z
  | _ => (Z.max 0 (Z.min (decompressed_size inp) (Z.of_nat (length inp) * c_maxExpansion)) + Z.of_N c_bytes_MinRead)%Z
  end.

(* Go's copy(dst[off:], src) on a slice of fixed length; dst[off:] panics if off > len(dst) *)
Definition copy_at (dst : bytes) (off : nat) (src : bytes) : res bytes :=
  if (off <=? length dst)%nat then
    let n := Nat.min (length src) (length dst - off) in
    Ok (firstn off dst ++ firstn n src ++ skipn (off + n) dst)
  else Panic.

Definition zeros (n : nat) : bytes := repeat x00 n.

Definition set_gzip (md : meta) : meta :=
  mkMeta (m_nonce md) (m_rid md) (m_cmd md) (m_verify md) true (m_timeout md) (m_codec md) (m_status md)
         (m_type md) (m_sig md) (m_values md).

(* protocolV1/V2.Pack(ctx, packet, GzipSize(thr)); returns the bytes and the packet as Pack leaves it
   (Pack replaces packet.Body and sets Metadata.Gzip when it compresses) *)
Definition pack (gz : gzoracle) (v : N) (thr : Z) (stale : hdr) (p : packet) : res (bytes * packet) :=
  let bl0 := Z.of_nat (length (p_body p)) in
  let compress := negb (thr =? 0)%Z && (bl0 >=? thr)%Z in
  let body := if compress then gz_compress gz (p_body p) else p_body p in
  let md := if compress then set_gzip (p_md p) else p_md p in
  let bl := length body in
  if c_MaxBodyLength <? N.of_nat bl then Err EBodyLimit
  else
    let h := hdr_from_md v stale md in
    let mdb := if v =? 2 then marshal_values (m_values md) (Z.of_N c_MaxMetadataLength) else [] in
    let h := with_lens h (N.of_nat (length mdb) mod 65536) (N.of_nat bl mod 4294967296) in
    hd <- hdr_pack v h ;;
    let ty := h_ty h in
    let hl := N.to_nat (if is_req ty then hdr_len v ty else if is_resp ty then hdr_len v ty
                        else if is_push ty then hdr_len v ty else 0) in
    let l := (hl + bl + length mdb + (if m_verify md then N.to_nat c_NonceLength + N.to_nat c_SignatureLength else 0))%nat in
    d <- copy_at (zeros l) 0 hd ;;
    d <- copy_at d (length hd) mdb ;;
    d <- copy_at d (length hd + length mdb) body ;;
    d <- (if m_verify md then
            let idx := (hl + length mdb + bl)%nat in
            _ <- go_slice idx (idx + N.to_nat c_NonceLength) d ;;
            d <- copy_at d idx (be (N.to_nat c_NonceLength) (m_nonce md)) ;;
            copy_at d (idx + N.to_nat c_NonceLength) (m_sig md)
          else Ok d) ;;
    Ok (d, mkPacket md body).

Definition with_values (md : meta) (vals : mdmap) : meta :=
  mkMeta (m_nonce md) (m_rid md) (m_cmd md) (m_verify md) (m_gzip md) (m_timeout md) (m_codec md) (m_status md)
         (m_type md) (m_sig md) vals.
Definition with_sig (md : meta) (nonce : N) (sig : bytes) : meta :=
  mkMeta nonce (m_rid md) (m_cmd md) (m_verify md) (m_gzip md) (m_timeout md) (m_codec md) (m_status md)
         (m_type md) sig (m_values md).

(* protocolV1/V2.UnpackBytes(ctx, bs): own pooled header, context untouched *)
Definition unpack_bytes (gz : gzoracle) (v codec : N) (stale : hdr) (bs : bytes) : res packet :=
  let h0 := pool_get v stale in
  '(h, data) <- hdr_unpack_bytes v h0 bs ;;
  (* len(data) < int(BodyLength)+int(MetadataLength): compared in N, so that an untrusted
     24-bit length is converted to a list index only after it is known to be in range *)
  if N.of_nat (length data) <? h_blen h + h_mlen h then Err EInvalidFrame
  else
    let ml := N.to_nat (h_mlen h) in
    let bl := N.to_nat (h_blen h) in
    mdb <- go_slice 0 ml data ;;
    body <- go_slice ml (bl + ml) data ;;
    let md := hdr_metadata h codec in
    md <- (if v =? 2 then vals <- unmarshal_values mdb ;; Ok (with_values md vals) else Ok md) ;;
    md <- (if h_verify h =? 1 then
             let idx := (bl + ml)%nat in
             if (length data <? idx + N.to_nat c_NonceLength + N.to_nat c_SignatureLength)%nat then Err EInvalidFrame
             else
               nb <- go_slice idx (idx + N.to_nat c_NonceLength) data ;;
               sg <- go_slice_from (idx + N.to_nat c_NonceLength) data ;;
               Ok (with_sig md (de nb) sg)
           else Ok md) ;;
    body <- (if h_gzip h =? 1 then decompress gz body else Ok body) ;;
    Ok (mkPacket md body).
