(* Model/Dispatch.v — mirrors tcpConn/wsConn.OnPacket (the dispatcher goroutine and its bounded
   packetCh), addPacket (non-blocking send, drop + log when full), Close (closeCh) and
   client.onPacket/handlePush/Subscribe (go/client/*.go).  Routing is Waiters.route_of.

   Lifecycle of the dispatcher (tcp_conn.go / ws_conn.go, OnPacket):
     not registered  --OnPacket (once)-->  running  --sees closed(): drains len(packetCh) packets,
                                                        reports (nil, errConnClosed)-->  exited
   The queue exists from the constructor on (d_chan = true), so the reader can fill it before the client has
   registered its callback (client.dial registers after the dialer has returned) and the connection can even be
   closed by then. *)
From Coq Require Import List NArith Bool.
From OAP Require Import Base.Bytes Base.Res Gen.Consts Model.Metadata Model.Header Model.Waiters.
Import ListNotations.
Local Open Scope N_scope.

(* subscriptions: command -> handler ids in registration order (Subscribe appends) *)
Definition subs := N -> list nat.

Inductive dphase := DPUnreg | DPRunning | DPExited.

Record dstate := mkD {
  d_chan : bool;                       (* packetCh exists *)
  d_cap : nat;                         (* ReadQueueSize *)
  d_queue : list wpkt;
  d_received : list wpkt;              (* every frame the reader decoded, in order *)
  d_accepted : list wpkt;              (* those that entered the queue *)
  d_taken : list wpkt;                 (* those the dispatcher took, in order *)
  d_calls : list (nat * wpkt);         (* handler invocations, in order *)
  d_drops : nat;                       (* "drop packet for channel full" log lines *)
  d_phase : dphase;                    (* dispatcher goroutine *)
  d_closed : bool;                     (* closeCh closed *)
  d_gone : nat }.                      (* (nil, errConnClosed) notifications to the client *)

Definition d0 (cap : nat) : dstate := mkD true cap [] [] [] [] [] 0 DPRunning false 0.   (* callback registered at once *)
Definition d0u (cap : nat) : dstate := mkD true cap [] [] [] [] [] 0 DPUnreg false 0.    (* fresh from the dialer *)

Inductive dact := DRecv (p : wpkt) | DTake | DStart | DClose.

Definition deliver (sb : subs) (p : wpkt) : list (nat * wpkt) :=
  match route_of p with
  | RPush => map (fun h => (h, p)) (sb (w_cmd p))
  | _ => []
  end.

Definition dphase_eqb (a b : dphase) : bool :=
  match a, b with DPUnreg, DPUnreg | DPRunning, DPRunning | DPExited, DPExited => true | _, _ => false end.

Definition dstep (sb : subs) (s : dstate) (a : dact) : dstate :=
  match a with
  | DRecv p =>
      if d_chan s && Nat.ltb (length (d_queue s)) (d_cap s)
      then mkD (d_chan s) (d_cap s) (d_queue s ++ [p]) (d_received s ++ [p]) (d_accepted s ++ [p]) (d_taken s) (d_calls s) (d_drops s)
               (d_phase s) (d_closed s) (d_gone s)
      else mkD (d_chan s) (d_cap s) (d_queue s) (d_received s ++ [p]) (d_accepted s) (d_taken s) (d_calls s) (S (d_drops s))
               (d_phase s) (d_closed s) (d_gone s)
  | DTake =>                                                    (* one iteration of the dispatcher's loop *)
      match d_phase s with
      | DPRunning =>
          if d_closed s
          then mkD (d_chan s) (d_cap s) [] (d_received s) (d_accepted s) (d_taken s ++ d_queue s)
                   (d_calls s ++ flat_map (deliver sb) (d_queue s)) (d_drops s) DPExited true (S (d_gone s))
          else match d_queue s with
               | [] => s                                        (* blocked on an empty queue *)
               | p :: q => mkD (d_chan s) (d_cap s) q (d_received s) (d_accepted s) (d_taken s ++ [p]) (d_calls s ++ deliver sb p) (d_drops s)
                               DPRunning (d_closed s) (d_gone s)
               end
      | _ => s                                                  (* no dispatcher (yet / any more) *)
      end
  | DStart =>
      match d_phase s with
      | DPUnreg => mkD (d_chan s) (d_cap s) (d_queue s) (d_received s) (d_accepted s) (d_taken s) (d_calls s) (d_drops s)
                       DPRunning (d_closed s) (d_gone s)
      | _ => s                                                  (* onPacketOnce *)
      end
  | DClose => mkD (d_chan s) (d_cap s) (d_queue s) (d_received s) (d_accepted s) (d_taken s) (d_calls s) (d_drops s)
                  (d_phase s) true (d_gone s)
  end.

Definition drun (sb : subs) (cap : nat) (acts : list dact) : dstate := fold_left (dstep sb) acts (d0 cap).
Definition drun_u (sb : subs) (cap : nat) (acts : list dact) : dstate := fold_left (dstep sb) acts (d0u cap).

(* the reader's and the closer's actions (everything except the dispatcher's own steps) *)
Definition reader_side (a : dact) : bool := match a with DRecv _ | DClose => true | _ => false end.
