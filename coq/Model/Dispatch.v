(* Model/Dispatch.v — mirrors tcpConn/wsConn.OnPacket (the dispatcher goroutine and its bounded
   packetCh), addPacket (non-blocking send, drop + log when full or not yet created),
   client.onPacket/handlePush/Subscribe (go/client/*.go).  Routing is Waiters.route_of. *)
From Coq Require Import List NArith Bool.
From OAP Require Import Base.Bytes Base.Res Gen.Consts Model.Metadata Model.Header Model.Waiters.
Import ListNotations.
Local Open Scope N_scope.

(* subscriptions: command -> handler ids in registration order (Subscribe appends) *)
Definition subs := N -> list nat.

Record dstate := mkD {
  d_chan : bool;                       (* packetCh exists (OnPacket ran) *)
  d_cap : nat;                         (* ReadQueueSize *)
  d_queue : list wpkt;
  d_received : list wpkt;              (* every frame the reader decoded, in order *)
  d_accepted : list wpkt;              (* those that entered the queue *)
  d_taken : list wpkt;                 (* those the dispatcher took, in order *)
  d_calls : list (nat * wpkt);         (* handler invocations, in order *)
  d_drops : nat }.                     (* "drop packet for channel full" log lines *)

Definition d0 (cap : nat) : dstate := mkD true cap [] [] [] [] [] 0.

Inductive dact := DRecv (p : wpkt) | DTake.

Definition deliver (sb : subs) (p : wpkt) : list (nat * wpkt) :=
  match route_of p with
  | RPush => map (fun h => (h, p)) (sb (w_cmd p))
  | _ => []
  end.

Definition dstep (sb : subs) (s : dstate) (a : dact) : dstate :=
  match a with
  | DRecv p =>
      if d_chan s && Nat.ltb (length (d_queue s)) (d_cap s)
      then mkD (d_chan s) (d_cap s) (d_queue s ++ [p]) (d_received s ++ [p]) (d_accepted s ++ [p]) (d_taken s) (d_calls s) (d_drops s)
      else mkD (d_chan s) (d_cap s) (d_queue s) (d_received s ++ [p]) (d_accepted s) (d_taken s) (d_calls s) (S (d_drops s))
  | DTake =>
      match d_queue s with
      | [] => s                                                  (* blocked on an empty queue *)
      | p :: q => mkD (d_chan s) (d_cap s) q (d_received s) (d_accepted s) (d_taken s ++ [p]) (d_calls s ++ deliver sb p) (d_drops s)
      end
  end.

Definition drun (sb : subs) (cap : nat) (acts : list dact) : dstate := fold_left (dstep sb) acts (d0 cap).
