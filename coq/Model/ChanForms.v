(* Model/ChanForms.v — the vocabulary of Gen/Chans.v (written by harness/cmd/vaccess from the client package's
   source on every run): every channel send and receive of the package with the form it is written in, and the
   checks the models rely on.  A Go select with a default clause never blocks; one without blocks until one of its
   communications is ready; a plain operation blocks until its own channel is ready. *)
From Coq Require Import List String Bool Arith.
Import ListNotations.
Local Open Scope string_scope.

Inductive cform := CFPlain | CFSelectDefault | CFSelectOthers.
Record chanop := mkChanOp {
  co_func : string;          (* "(receiver).function" *)
  co_chan : string;          (* "Type.field" for a field, else the expression *)
  co_send : bool;
  co_form : cform;
  co_alts : list string }.   (* the other communications of the same select *)

Definition cform_eqb (a b : cform) : bool :=
  match a, b with CFPlain, CFPlain | CFSelectDefault, CFSelectDefault | CFSelectOthers, CFSelectOthers => true | _, _ => false end.

Definition ends_with (suffix s : string) : bool :=
  let n := String.length suffix in let m := String.length s in
  Nat.leb n m && String.eqb (substring (m - n) n s) suffix.

(* all sends on a channel field (any receiver type) are select-with-default, and there is at least one per listed function *)
Definition sends_on (field : string) (ops : list chanop) : list chanop :=
  filter (fun o => co_send o && ends_with field (co_chan o)) ops.
Definition all_nonblocking (ops : list chanop) : bool := forallb (fun o => cform_eqb (co_form o) CFSelectDefault) ops.
Definition funcs_of (ops : list chanop) : list string := map co_func ops.

(* receives in the connection goroutines (dispatcher, writer): a select without default must list the connection's
   close signal or a ticker among its communications; a plain receive may only be the dispatcher's bounded drain *)
Definition conn_goroutine (o : chanop) : bool := ends_with ".OnPacket" (co_func o) || ends_with ".writing" (co_func o).
Definition wakes_up (o : chanop) : bool :=
  match co_form o with
  | CFSelectDefault => true
  | CFSelectOthers => ends_with ".closeCh" (co_chan o) || String.eqb (co_chan o) "Ticker.C" ||
                      existsb (fun a => ends_with ".closeCh" a || String.eqb a "Ticker.C") (co_alts o)
  | CFPlain => ends_with ".OnPacket" (co_func o) && ends_with ".packetCh" (co_chan o)
  end.
Definition conn_goroutines_wake (ops : list chanop) : bool :=
  forallb (fun o => negb (conn_goroutine o) || co_send o || wakes_up o) ops.

(* the dispatcher of a connection: one select that waits for a packet or the close signal, and exactly one plain
   receive (the drain of the packets already queued, counted with len() before) *)
Definition dispatcher_shape (f : string) (ops : list chanop) : bool :=
  let rs := filter (fun o => String.eqb (co_func o) f && negb (co_send o) && ends_with ".packetCh" (co_chan o)) ops in
  Nat.eqb (List.length (filter (fun o => cform_eqb (co_form o) CFPlain) rs)) 1 &&
  Nat.eqb (List.length (filter (fun o => cform_eqb (co_form o) CFSelectOthers && existsb (ends_with ".closeCh") (co_alts o)) rs)) 1 &&
  Nat.eqb (List.length rs) 2.

(* the wait of a request call: every receive in (client).recv is a select that also watches the call's context *)
Definition call_wait_bounded (ops : list chanop) : bool :=
  let rs := filter (fun o => String.eqb (co_func o) "(client).recv" && negb (co_send o)) ops in
  negb (Nat.eqb (List.length rs) 0) &&
  forallb (fun o => cform_eqb (co_form o) CFSelectOthers &&
                    (String.eqb (co_chan o) "ctx.Done()" || existsb (String.eqb "ctx.Done()") (co_alts o))) rs.
