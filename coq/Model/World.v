(* Model/World.v — several connection contexts sharing the process-wide header pools
   (C11).  A context is its protocol version, its pending streaming header and its receive
   buffer; the pools are represented by the stale contents [w_stale] of the object the next
   Get() hands out (whatever the previous user left in it). *)
From Coq Require Import List NArith ZArith Bool.
From Coq.Strings Require Import Byte.
From OAP Require Import Base.Bytes Base.Res Gen.Consts Model.Metadata Model.Header Model.Frame Model.Stream.
Import ListNotations.
Local Open Scope N_scope.

Inductive op :=
| OFeed (c : nat) (d : bytes)            (* bytes arrive on connection c *)
| OUnpack (c : nat)                      (* one streaming Unpack call *)
| OAll (c : nat)                         (* Unpack until not done (readPacket) *)
| OBytes (c : nat) (d : bytes)           (* one-shot UnpackBytes on c's context *)
| OPack (c : nat) (thr : Z) (p : packet). (* Pack on the context of c *)

Inductive result :=
| RFed
| RStream (r : res sout) (left : nat)
| RAll (r : res (list packet)) (left : nat)
| RBytes (r : res packet)
| RPack (r : res (bytes * packet)).

Record world := mkW { w_ctx : list (N * sstate); w_stale : hdr }.

Fixpoint upd_nth {A} (n : nat) (a : A) (l : list A) : list A :=
  match l, n with
  | [], _ => []
  | _ :: r, O => a :: r
  | x :: r, S m => x :: upd_nth m a r
  end.

Definition op_ctx (o : op) : nat :=
  match o with OFeed c _ | OUnpack c | OAll c | OBytes c _ | OPack c _ _ => c end.

(* the effect of an operation on its own context, given whatever the pool hands out *)
Definition step_ctx (gz : gzoracle) (codec : N) (stale : hdr) (vs : N * sstate) (o : op) : (N * sstate) * result :=
  let '(v, s) := vs in
  match o with
  | OFeed _ d => ((v, feed s d), RFed)
  | OUnpack _ => let r := stream_unpack gz v codec 3 stale s in ((v, snd r), RStream (fst r) (length (s_q (snd r))))
  | OAll _ => let r := read_packets gz v codec (S (length (s_q s))) (fun _ => 3%nat) O s in
              ((v, snd r), RAll (fst r) (length (s_q (snd r))))
  | OBytes _ d => ((v, s), RBytes (unpack_bytes gz v codec stale d))
  | OPack _ thr p => ((v, s), RPack (pack gz v thr stale p))
  end.

Definition step (gz : gzoracle) (codec : N) (w : world) (o : op) : option (world * result) :=
  match nth_error (w_ctx w) (op_ctx o) with
  | Some vs => let '(vs', r) := step_ctx gz codec (w_stale w) vs o in
               Some (mkW (upd_nth (op_ctx o) vs' (w_ctx w)) (w_stale w), r)
  | None => None
  end.

Fixpoint run (gz : gzoracle) (codec : N) (w : world) (ops : list op) : option (world * list result) :=
  match ops with
  | [] => Some (w, [])
  | o :: r => match step gz codec w o with
              | Some (w', x) => match run gz codec w' r with
                                | Some (w'', xs) => Some (w'', x :: xs)
                                | None => None
                                end
              | None => None
              end
  end.
