(* Model/Recovery.v — mirrors client.reconnecting (the retry loop), reconnect, reconnectDial, auth,
   isAuthExpired, and the give-up path through Close (go/client/client.go), at the granularity of one
   recovery ATTEMPT.  The environment supplies, per attempt, whether the dial succeeds and how the peer
   answers each request of that attempt; "expired" is the clock's verdict (now >= expires - 10 s). *)
From Coq Require Import List NArith Bool.
From OAP Require Import Base.Bytes Base.Res Gen.Consts.
Import ListNotations.
Local Open Scope N_scope.

(* how the peer treats one request of the attempt *)
Inductive answer := AnsOk (session : N) | AnsUnauth | AnsOtherStatus | AnsDropped | AnsSilence.

Record attempt := mkAttempt {
  at_dial_ok : bool;            (* the re-dial succeeds *)
  at_expired : bool;            (* isAuthExpired() at that moment *)
  at_token_ok : bool;           (* the token getter returns a token *)
  at_answers : list answer }.   (* answers to the requests of this attempt, in order *)

Record rcfg := mkRcfg { rc_max : N; rc_getter : bool }.

Record rstate := mkRs {
  rs_session : option N;        (* authInfo: None = the server needs no auth / never authenticated *)
  rs_count : N;                 (* reconnectCount *)
  rs_last_ka : N;               (* lastKeepaliveId *)
  rs_conn : N }.                (* generation of the current connection *)

Inductive revent :=
| EvCloseOld (gen : N)          (* the previous connection is closed before the dial *)
| EvSweep                       (* every waiter is closed *)
| EvDial (ok : bool)
| EvFrameReconnect (gen session : N)
| EvFrameAuth (gen : N)
| EvRecovered                   (* "reconnect success": counters reset, AfterReconnected callback *)
| EvSleep                       (* 1 s back-off after a failed attempt *)
| EvGiveUp.                     (* hit max: Close(ErrHitMaxReconnect) -> close callback *)

(* auth(): nil without a token getter; otherwise one AUTH request *)
Definition do_auth (cfg : rcfg) (gen : N) (a : attempt) (ans : list answer) : bool * option N * list revent :=
  if negb (rc_getter cfg) then (true, None, [])
  else if negb (at_token_ok a) then (false, None, [])
  else match ans with
       | AnsOk s :: _ => (true, Some s, [EvFrameAuth gen])
       | _ => (false, None, [EvFrameAuth gen])
       end.

(* one call of reconnect(): (succeeded, new state, events) ; None = hit max before trying *)
Definition reconnect_once (cfg : rcfg) (s : rstate) (a : attempt) : option (bool * rstate * list revent) :=
  if (0 <? rc_max cfg) && (rc_max cfg <=? rs_count s) then None
  else
    let cnt := rs_count s + 1 in
    let pre := [EvCloseOld (rs_conn s); EvSweep; EvDial (at_dial_ok a)] in
    if negb (at_dial_ok a) then Some (false, mkRs (rs_session s) cnt (rs_last_ka s) (rs_conn s), pre)
    else
      let gen := rs_conn s + 1 in
      match rs_session s with
      | None => Some (true, mkRs None cnt (rs_last_ka s) gen, pre)
      | Some sid =>
          if at_expired a then
            let '(ok, ns, evs) := do_auth cfg gen a (at_answers a) in
            Some (ok, mkRs (match ns with Some n => Some n | None => Some sid end) cnt (rs_last_ka s) gen, pre ++ evs)
          else
            match at_answers a with
            | AnsOk n :: _ => Some (true, mkRs (Some n) cnt (rs_last_ka s) gen, pre ++ [EvFrameReconnect gen sid])
            | AnsUnauth :: rest =>
                let '(ok, ns, evs) := do_auth cfg gen a rest in
                Some (ok, mkRs (match ns with Some n => Some n | None => Some sid end) cnt (rs_last_ka s) gen,
                      pre ++ [EvFrameReconnect gen sid] ++ evs)
            | _ => Some (false, mkRs (Some sid) cnt (rs_last_ka s) gen, pre ++ [EvFrameReconnect gen sid])
            end
      end.

(* the loop of reconnecting(): attempts until one succeeds or the budget is spent; the environment's list
   of attempts may end first (then the loop is still sleeping/retrying: returned as unfinished) *)
Inductive rresult := RRecovered | RGaveUp | RStillTrying.

Fixpoint recover (cfg : rcfg) (s : rstate) (atts : list attempt) : rresult * rstate * list revent :=
  match atts with
  | [] => match (if (0 <? rc_max cfg) && (rc_max cfg <=? rs_count s) then true else false) with
          | true => (RGaveUp, s, [EvGiveUp])
          | false => (RStillTrying, s, [])
          end
  | a :: rest =>
      match reconnect_once cfg s a with
      | None => (RGaveUp, s, [EvGiveUp])
      | Some (true, s', evs) => (RRecovered, mkRs (rs_session s') 0 0 (rs_conn s'), evs ++ [EvRecovered])
      | Some (false, s', evs) =>
          let '(r, s'', evs') := recover cfg s' rest in (r, s'', evs ++ [EvSleep] ++ evs')
      end
  end.
