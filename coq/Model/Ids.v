(* Model/Ids.v — mirrors go/context.go GetRequestIDGen (atomic.AddUint32 on a per-context counter)
   and go/packet.go NewPacket / NewRequest / MustNewRequest / NewResponse / MustNewResponse /
   NewPush / MustNewPush with the With* options (applied left to right). *)
From Coq Require Import List NArith Bool.
From Coq.Strings Require Import Byte.
From OAP Require Import Base.Bytes Base.Res Gen.Consts Model.Metadata Model.Header.
Import ListNotations.
Local Open Scope N_scope.

Inductive popt := OVerify (nonce : N) (sig : bytes) | ORid (id : N) | OStatus (code : N).

Definition apply_opt (md : meta) (o : popt) : meta :=
  match o with
  | OVerify n s => mkMeta n (m_rid md) (m_cmd md) true (m_gzip md) (m_timeout md) (m_codec md) (m_status md) (m_type md) s (m_values md)
  | ORid i => mkMeta (m_nonce md) i (m_cmd md) (m_verify md) (m_gzip md) (m_timeout md) (m_codec md) (m_status md) (m_type md) (m_sig md) (m_values md)
  | OStatus c => mkMeta (m_nonce md) (m_rid md) (m_cmd md) (m_verify md) (m_gzip md) (m_timeout md) (m_codec md) c (m_type md) (m_sig md) (m_values md)
  end.

(* NewPacket(ctx, t, cmd, body, opts...) — the metadata part *)
Definition new_packet (codec : N) (ty : ptype) (cmd : N) (opts : list popt) : meta :=
  fold_left apply_opt opts (mkMeta 0 0 cmd false false 0 codec 0 ty [] []).

(* atomic.AddUint32(&id, 1): one indivisible step; uint32 wraps *)
Definition next_id (counter : N) : N * N := let c := (counter + 1) mod 4294967296 in (c, c).

Inductive ctor := CRequest | CMustRequest | CResponse (code : N) | CMustResponse (code : N) | CPush | CMustPush | CPacket (ty : ptype).

Definition construct (counter codec : N) (ct : ctor) (cmd : N) (opts : list popt) : N * meta :=
  match ct with
  | CRequest | CMustRequest =>
      let '(c, id) := next_id counter in (c, new_packet codec PTRequest cmd (opts ++ [ORid id]))
  | CResponse code | CMustResponse code => (counter, new_packet codec PTResponse cmd (opts ++ [OStatus code]))
  | CPush | CMustPush => (counter, new_packet codec PTPush cmd opts)
  | CPacket ty => (counter, new_packet codec ty cmd opts)
  end.

(* a history over several contexts: each call is one step (the id draw is atomic) *)
Record call := mkCall { c_ctx : nat; c_ctor : ctor; c_cmd : N; c_opts : list popt }.

Fixpoint upd_counter (n : nat) (a : N) (l : list N) : list N :=
  match l, n with
  | [], _ => []
  | _ :: r, O => a :: r
  | x :: r, S m => x :: upd_counter m a r
  end.

Fixpoint run_calls (codec : N) (counters : list N) (cs : list call) : list meta :=
  match cs with
  | [] => []
  | c :: r =>
      match nth_error counters (c_ctx c) with
      | Some cnt => let '(cnt', md) := construct cnt codec (c_ctor c) (c_cmd c) (c_opts c) in
                    md :: run_calls codec (upd_counter (c_ctx c) cnt' counters) r
      | None => run_calls codec counters r
      end
  end.

(* the ids handed out by n successive draws on one counter *)
Fixpoint draws (counter : N) (n : nat) : list N :=
  match n with O => [] | S m => let '(c, id) := next_id counter in id :: draws c m end.
