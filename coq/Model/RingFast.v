(* Model/RingFast.v — the two further ring operations the TCP read loop (go/client/tcp_conn.go, reading) uses on its
   zero-copy fast path: NewWithData wraps the socket buffer's n fresh bytes as a full ring (r = w = 0, not empty),
   the decoders run on it (Length / Peek / Retrieve only), and the left-over is copied with
       first, _ := buffer.PeekAll(); conn.readBuf.Write(first)
   i.e. the second slice of PeekAll is thrown away. *)
From Coq Require Import List Arith Bool.
From OAP Require Import Model.Ring.
Import ListNotations.

Section RingFast.
Context {A : Type}.

(* func NewWithData(data []byte) *RingBuffer   (isEmpty is the zero value false) *)
Definition ring_with_data (d : list A) : ring A := mkRing d (length d) 0 0 false.

(* func (r *RingBuffer) PeekAll() (first []byte, end []byte) *)
Definition ring_peek_all (g : ring A) : list A * list A :=
  if rb_empty g then ([], [])
  else if Nat.ltb (rb_r g) (rb_w g) then (slice (rb_buf g) (rb_r g) (rb_w g), [])
  else (slice (rb_buf g) (rb_r g) (rb_size g), slice (rb_buf g) 0 (rb_w g)).

Definition is_read_op (o : rop A) : bool := match o with RWrite _ => false | _ => true end.

End RingFast.
