(* Base/Sweep.v — finite sweeps that are proofs: the bound is in the statement,
   the domain is enumerated completely, the check runs in the kernel's VM. *)
From Coq Require Import List NArith Lia Bool.
From Coq.Strings Require Import Byte.
From OAP Require Import Base.Bytes.
Import ListNotations.
Local Open Scope N_scope.

Definition nrange (n : N) : list N := map N.of_nat (seq 0 (N.to_nat n)).

Lemma In_nrange n x : x < n -> In x (nrange n).
Proof.
  intros H. unfold nrange. apply in_map_iff. exists (N.to_nat x). split; [lia|].
  apply in_seq. lia.
Qed.

Lemma nrange_lt n x : In x (nrange n) -> x < n.
Proof.
  unfold nrange. rewrite in_map_iff. intros (k & <- & Hk). apply in_seq in Hk. lia.
Qed.

Lemma sweep_N n (P : N -> bool) : forallb P (nrange n) = true -> forall x, x < n -> P x = true.
Proof. intros H x Hx. rewrite forallb_forall in H. apply H, In_nrange, Hx. Qed.

Lemma sweep_N2 n m (P : N -> N -> bool) :
  forallb (fun x => forallb (P x) (nrange m)) (nrange n) = true ->
  forall x y, x < n -> y < m -> P x y = true.
Proof.
  intros H x y Hx Hy. pose proof (sweep_N n _ H x Hx) as H1. cbv beta in H1.
  exact (sweep_N m _ H1 y Hy).
Qed.

Definition all_bytes : list byte := map b8 (nrange 256).

Lemma In_all_bytes b : In b all_bytes.
Proof.
  unfold all_bytes. apply in_map_iff. exists (bN b). split; [apply b8_bN|].
  apply In_nrange, bN_lt.
Qed.

Lemma sweep_byte (P : byte -> bool) : forallb P all_bytes = true -> forall b, P b = true.
Proof. intros H b. rewrite forallb_forall in H. apply H, In_all_bytes. Qed.

Lemma sweep_byte2 (P : byte -> byte -> bool) :
  forallb (fun a => forallb (P a) all_bytes) all_bytes = true -> forall a b, P a b = true.
Proof. intros H a b. pose proof (sweep_byte _ H a) as H1. exact (sweep_byte _ H1 b). Qed.
