(* Base/Res.v — explicit outcomes of every modelled Go function. *)
From Coq Require Import List.
Import ListNotations.

Inductive err :=
| EHandshakeLen | EInvalidVersion
| EInvalidFrame | EUnknownPacket | EBodyLimit
| EInvalidMetadata | EKeyTooLong | EValTooLong
| EGzip | ERingEmpty | EOther.

Inductive res (A : Type) :=
| Ok (a : A)
| Err (e : err)
| Panic          (* Go would panic: index/slice out of range, nil deref, closed channel *)
| OutOfFuel.     (* the model's fuel ran out: the Go loop would not have terminated in time *)
Arguments Ok {A} a.
Arguments Err {A} e.
Arguments Panic {A}.
Arguments OutOfFuel {A}.

Definition bind {A B} (r : res A) (f : A -> res B) : res B :=
  match r with
  | Ok a => f a
  | Err e => Err e
  | Panic => Panic
  | OutOfFuel => OutOfFuel
  end.
Notation "x <- r ;; k" := (bind r (fun x => k)) (at level 61, r at next level, right associativity).
Notation "' p <- r ;; k" := (bind r (fun p => k)) (at level 61, p pattern, r at next level, right associativity).

Definition is_ok {A} (r : res A) : bool := match r with Ok _ => true | _ => false end.
Definition is_panic {A} (r : res A) : bool := match r with Panic => true | _ => false end.
Definition is_oof {A} (r : res A) : bool := match r with OutOfFuel => true | _ => false end.

Definition err_eqb (a b : err) : bool :=
  match a, b with
  | EHandshakeLen, EHandshakeLen | EInvalidVersion, EInvalidVersion
  | EInvalidFrame, EInvalidFrame | EUnknownPacket, EUnknownPacket | EBodyLimit, EBodyLimit
  | EInvalidMetadata, EInvalidMetadata | EKeyTooLong, EKeyTooLong | EValTooLong, EValTooLong
  | EGzip, EGzip | ERingEmpty, ERingEmpty | EOther, EOther => true
  | _, _ => false
  end.

(* checked Go primitives *)
Definition go_index {A} (i : nat) (l : list A) : res A :=
  match nth_error l i with Some a => Ok a | None => Panic end.
Definition go_slice {A} (lo hi : nat) (l : list A) : res (list A) :=
  if andb (Nat.leb lo hi) (Nat.leb hi (length l)) then Ok (firstn (hi - lo) (skipn lo l)) else Panic.
Definition go_slice_from {A} (lo : nat) (l : list A) : res (list A) :=
  if Nat.leb lo (length l) then Ok (skipn lo l) else Panic.
