(* Base/Text.v — the line protocol between harness and model is parsed and
   printed *inside Gallina*, so the same definitions run under vm_compute and
   in the extracted runner; the OCaml driver only does I/O. *)
From Coq Require Import List NArith ZArith Bool String.
From Coq.Strings Require Import Byte.
From OAP Require Import Base.Bytes.
Import ListNotations.
Local Open Scope N_scope.

Definition str (x : string) : bytes := list_byte_of_string x.

Definition hexdigit (n : N) : byte := if n <? 10 then b8 (48 + n) else b8 (87 + n).
Definition hex_of_byte (b : byte) : bytes := [hexdigit (bN b / 16); hexdigit (bN b mod 16)].
Definition hex (l : bytes) : bytes :=
  match l with [] => str "-" | _ => flat_map hex_of_byte l end.

Definition unhexdigit (b : byte) : option N :=
  let n := bN b in
  if (48 <=? n) && (n <=? 57) then Some (n - 48)
  else if (97 <=? n) && (n <=? 102) then Some (n - 87) else None.

Fixpoint unhex_raw (l : bytes) : option bytes :=
  match l with
  | [] => Some []
  | a :: b :: r =>
      match unhexdigit a, unhexdigit b, unhex_raw r with
      | Some x, Some y, Some t => Some (b8 (x * 16 + y) :: t)
      | _, _, _ => None
      end
  | _ => None
  end.
Definition unhex (l : bytes) : option bytes :=
  if bytes_eqb l (str "-") then Some [] else unhex_raw l.

Fixpoint dec_aux (fuel : nat) (n : N) (acc : bytes) : bytes :=
  match fuel with
  | O => acc
  | S f =>
      let acc' := b8 (48 + n mod 10) :: acc in
      if n <? 10 then acc' else dec_aux f (n / 10) acc'
  end.
Definition dec (n : N) : bytes := dec_aux (S (N.size_nat n)) n [].
Definition decz (z : Z) : bytes :=
  if (z <? 0)%Z then str "-" ++ dec (Z.abs_N z) else dec (Z.to_N z).
Definition decn (n : nat) : bytes := dec (N.of_nat n).

Definition undec (l : bytes) : option N :=
  match l with
  | [] => None
  | _ =>
      fold_left
        (fun acc b =>
           match acc with
           | None => None
           | Some a =>
               let n := bN b in
               if (48 <=? n) && (n <=? 57) then Some (a * 10 + (n - 48)) else None
           end)
        l (Some 0)
  end.
Definition undecz (l : bytes) : option Z :=
  match l with
  | b :: r => if byte_eqb b "-"%byte then option_map (fun n => (- Z.of_N n)%Z) (undec r)
              else option_map Z.of_N (undec l)
  | [] => None
  end.

Fixpoint split_on_aux (sep : byte) (l cur : bytes) : list bytes :=
  match l with
  | [] => [rev_append cur []]
  | b :: r => if byte_eqb b sep then rev_append cur [] :: split_on_aux sep r [] else split_on_aux sep r (b :: cur)
  end.
Definition split_on (sep : byte) (l : bytes) : list bytes := split_on_aux sep l [].
Definition words (l : bytes) : list bytes := split_on " "%byte l.

Fixpoint join (sep : bytes) (ls : list bytes) : bytes :=
  match ls with
  | [] => []
  | [x] => x
  | x :: r => x ++ sep ++ join sep r
  end.

Definition sp : bytes := str " ".
Definition bool_s (b : bool) : bytes := if b then str "1" else str "0".
Definition unbool (l : bytes) : option bool :=
  if bytes_eqb l (str "1") then Some true else if bytes_eqb l (str "0") then Some false else None.

(* option helpers for parsers *)
Definition obind {A B} (o : option A) (f : A -> option B) : option B :=
  match o with Some a => f a | None => None end.
Fixpoint omap_all {A B} (f : A -> option B) (l : list A) : option (list B) :=
  match l with
  | [] => Some []
  | a :: r => match f a, omap_all f r with Some b, Some t => Some (b :: t) | _, _ => None end
  end.
