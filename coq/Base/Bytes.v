(* Base/Bytes.v — wire data is [list byte]; numbers are [N]; conversions are total.
   No proofs about models here; only the byte/number vocabulary and its lemmas. *)
From Coq Require Import List NArith ZArith Lia Bool.
From Coq.Strings Require Import Byte.
From Coq Require Import ZifyBool ZifyN ZifyNat.
Import ListNotations.
Local Open Scope N_scope.

Ltac Zify.zify_post_hook ::= Z.div_mod_to_equations.

Definition bytes := list byte.

Definition b8 (n : N) : byte :=
  match Byte.of_N (n mod 256) with Some b => b | None => x00 end.
Definition bN (b : byte) : N := Byte.to_N b.

Lemma bN_lt b : bN b < 256.
Proof. unfold bN. pose proof (Byte.to_N_bounded b). lia. Qed.

Lemma bN_b8 n : bN (b8 n) = n mod 256.
Proof.
  unfold b8, bN. destruct (Byte.of_N (n mod 256)) eqn:E.
  - apply Byte.to_of_N in E. exact E.
  - apply Byte.of_N_None_iff in E. pose proof (N.mod_upper_bound n 256). lia.
Qed.

Lemma b8_bN b : b8 (bN b) = b.
Proof.
  unfold b8, bN. rewrite N.mod_small by (pose proof (Byte.to_N_bounded b); lia).
  now rewrite Byte.of_to_N.
Qed.

Lemma b8_mod n : b8 (n mod 256) = b8 n.
Proof. unfold b8. now rewrite N.mod_mod by lia. Qed.

Lemma bN_inj a b : bN a = bN b -> a = b.
Proof. intros H. rewrite <- (b8_bN a), <- (b8_bN b). now rewrite H. Qed.

Definition byte_eqb (a b : byte) : bool := Byte.eqb a b.
Lemma byte_eqb_eq a b : byte_eqb a b = true <-> a = b.
Proof. split; [apply Byte.byte_dec_bl | apply Byte.byte_dec_lb]. Qed.

Fixpoint bytes_eqb (a b : bytes) : bool :=
  match a, b with
  | [], [] => true
  | x :: a', y :: b' => byte_eqb x y && bytes_eqb a' b'
  | _, _ => false
  end.
Lemma bytes_eqb_eq a b : bytes_eqb a b = true <-> a = b.
Proof.
  revert b; induction a as [|x a IH]; intros [|y b]; simpl; split; try congruence; try easy.
  - rewrite andb_true_iff, byte_eqb_eq, IH. intros [-> ->]; reflexivity.
  - intros E; inversion E; subst. rewrite andb_true_iff, byte_eqb_eq, IH. auto.
Qed.
Lemma bytes_eqb_refl a : bytes_eqb a a = true.
Proof. now apply bytes_eqb_eq. Qed.

(* lexicographic order on byte strings = Go's string comparison *)
Fixpoint bytes_ltb (a b : bytes) : bool :=
  match a, b with
  | [], [] => false
  | [], _ :: _ => true
  | _ :: _, [] => false
  | x :: a', y :: b' =>
      if bN x <? bN y then true else if bN y <? bN x then false else bytes_ltb a' b'
  end.

(* big-endian encoding of the low k bytes of x *)
Fixpoint be (k : nat) (x : N) : bytes :=
  match k with
  | O => []
  | S k' => b8 (x / 256 ^ N.of_nat k') :: be k' x
  end.

Definition de (l : bytes) : N := fold_left (fun acc b => acc * 256 + bN b) l 0.

(* little-endian decoding (gzip ISIZE) *)
Definition de_le (l : bytes) : N := de (rev l).

Lemma pow256_pos n : 0 < 256 ^ n.
Proof. pose proof (N.pow_nonzero 256 n). lia. Qed.

Lemma be_length k x : length (be k x) = k.
Proof. induction k; simpl; congruence. Qed.

Lemma de_app_acc l acc :
  fold_left (fun acc b => acc * 256 + bN b) l acc = acc * 256 ^ N.of_nat (length l) + de l.
Proof.
  unfold de. revert acc. induction l as [|b l IH]; intros acc.
  - simpl. lia.
  - cbn [fold_left length]. rewrite IH. rewrite (IH (0 * 256 + bN b)).
    rewrite Nat2N.inj_succ, N.pow_succ_r'. lia.
Qed.

Lemma de_cons b l : de (b :: l) = bN b * 256 ^ N.of_nat (length l) + de l.
Proof. unfold de at 1. cbn [fold_left]. rewrite de_app_acc. lia. Qed.

Lemma de_app a b : de (a ++ b) = de a * 256 ^ N.of_nat (length b) + de b.
Proof. unfold de at 1. rewrite fold_left_app. fold (de a). apply de_app_acc. Qed.

Lemma de_lt l : de l < 256 ^ N.of_nat (length l).
Proof.
  induction l as [|b l IH].
  - cbn. lia.
  - rewrite de_cons. cbn [length]. rewrite Nat2N.inj_succ, N.pow_succ_r'.
    pose proof (bN_lt b). nia.
Qed.

Lemma de_be k x : de (be k x) = x mod 256 ^ N.of_nat k.
Proof.
  induction k as [|k IH].
  - cbn. now rewrite N.mod_1_r.
  - cbn [be]. rewrite de_cons, be_length, IH, bN_b8.
    rewrite Nat2N.inj_succ, N.pow_succ_r'.
    set (p := 256 ^ N.of_nat k). assert (0 < p) by (apply pow256_pos).
    rewrite (N.mul_comm 256 p).
    rewrite N.mod_mul_r by lia. lia.
Qed.

Lemma be_hi k : forall x hi, be k (hi * 256 ^ N.of_nat k + x) = be k x.
Proof.
  induction k as [|k IHk]; intros x hi; [reflexivity|].
  cbn [be]. f_equal.
  - rewrite Nat2N.inj_succ, N.pow_succ_r'.
    set (q := 256 ^ N.of_nat k). assert (0 < q) by (apply pow256_pos).
    replace (hi * (256 * q) + x) with ((hi * 256) * q + x) by lia.
    rewrite N.div_add_l by lia.
    rewrite <- b8_mod. rewrite <- (b8_mod (x / q)). f_equal.
    rewrite N.add_comm, N.mod_add by lia. reflexivity.
  - rewrite Nat2N.inj_succ, N.pow_succ_r'.
    replace (hi * (256 * 256 ^ N.of_nat k) + x) with ((hi * 256) * 256 ^ N.of_nat k + x) by lia.
    apply IHk.
Qed.

Lemma be_de l : be (length l) (de l) = l.
Proof.
  induction l as [|b l IH]; [reflexivity|].
  cbn [length be]. rewrite de_cons.
  pose proof (de_lt l) as Hlt. set (p := 256 ^ N.of_nat (length l)) in *.
  assert (0 < p) by (apply pow256_pos).
  f_equal.
  - rewrite N.div_add_l by lia. rewrite (N.div_small (de l)) by lia.
    rewrite N.add_0_r. apply b8_bN.
  - unfold p. rewrite be_hi. exact IH.
Qed.

Lemma be_mod k x : be k (x mod 256 ^ N.of_nat k) = be k x.
Proof.
  assert (0 < 256 ^ N.of_nat k) by (apply pow256_pos).
  rewrite (N.div_mod x (256 ^ N.of_nat k)) at 2 by lia.
  rewrite (N.mul_comm (256 ^ N.of_nat k)). now rewrite be_hi.
Qed.

Lemma be_inj k x y : x < 256 ^ N.of_nat k -> y < 256 ^ N.of_nat k -> be k x = be k y -> x = y.
Proof.
  intros Hx Hy E. apply (f_equal de) in E. rewrite !de_be in E.
  now rewrite !N.mod_small in E by assumption.
Qed.

(* ---- checked slicing: Go's s[lo:hi], s[i] ---- *)
Definition slice_ok {A} (lo hi : nat) (l : list A) : bool := (lo <=? hi)%nat && (hi <=? length l)%nat.
Definition slice {A} (lo hi : nat) (l : list A) : list A := firstn (hi - lo) (skipn lo l).

Lemma slice_length {A} lo hi (l : list A) : slice_ok lo hi l = true -> length (slice lo hi l) = (hi - lo)%nat.
Proof. unfold slice_ok, slice. intros H. rewrite firstn_length, skipn_length. lia. Qed.

(* ASCII lower-casing, bytewise (Go strings.ToLower on pure-ASCII strings) *)
Definition lower_byte (b : byte) : byte :=
  let n := bN b in if (65 <=? n) && (n <=? 90) then b8 (n + 32) else b.
Definition lower (s : bytes) : bytes := map lower_byte s.
Definition is_ascii (s : bytes) : bool := forallb (fun b => bN b <? 128) s.

Lemma lower_length s : length (lower s) = length s.
Proof. apply map_length. Qed.

Lemma lower_byte_idem b : lower_byte (lower_byte b) = lower_byte b.
Proof.
  unfold lower_byte. destruct ((65 <=? bN b) && (bN b <=? 90)) eqn:E; [|now rewrite E].
  rewrite bN_b8. rewrite N.mod_small by lia.
  destruct ((65 <=? bN b + 32) && (bN b + 32 <=? 90)) eqn:E2; [lia|reflexivity].
Qed.
Lemma lower_idem s : lower (lower s) = lower s.
Proof. unfold lower. rewrite map_map. apply map_ext. apply lower_byte_idem. Qed.
