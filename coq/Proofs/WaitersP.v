(* Proofs/WaitersP.v — C05 and C07 on the waiter mechanism, for every action list (every interleaving of
   calls, arbitrary dispatched packets — permuted, duplicated, late, unknown or stale ids — and sweeps). *)
From Coq Require Import List NArith ZArith Lia Bool.
From Coq Require Import ZifyBool ZifyN ZifyNat.
From OAP Require Import Base.Bytes Base.Res Gen.Consts Model.Metadata Model.Header Model.Waiters.
Import ListNotations.
Local Open Scope N_scope.
Ltac Zify.zify_post_hook ::= Z.div_mod_to_equations.

(* ---- table lemmas ---- *)
Lemma tlookup_tremove_same rid t : tlookup rid (tremove rid t) = None.
Proof. induction t as [|[r e] t IH]; cbn; [reflexivity|]. destruct (r =? rid) eqn:E; [exact IH|]. cbn. now rewrite E. Qed.
Lemma tlookup_tremove_other rid r' t : r' <> rid -> tlookup r' (tremove rid t) = tlookup r' t.
Proof.
  intros H. induction t as [|[r e] t IH]; cbn; [reflexivity|]. destruct (r =? rid) eqn:E.
  - apply N.eqb_eq in E. subst r. replace (rid =? r') with false by lia. exact IH.
  - cbn. destruct (r =? r'); [reflexivity|exact IH].
Qed.
Lemma tlookup_tset_same rid e t : tlookup rid (tset rid e t) = Some e.
Proof. unfold tset. cbn. now rewrite N.eqb_refl. Qed.
Lemma tlookup_tset_other rid r' e t : r' <> rid -> tlookup r' (tset rid e t) = tlookup r' t.
Proof. intros H. unfold tset. cbn. replace (rid =? r') with false by lia. now apply tlookup_tremove_other. Qed.

Lemma nth_set_call_same k c l x : nth_error l k = Some x -> nth_error (set_call k c l) k = Some c.
Proof. revert k. induction l as [|y l IH]; intros [|k]; cbn; try discriminate; auto. Qed.
Lemma nth_set_call_other k k' c l : k <> k' -> nth_error (set_call k c l) k' = nth_error l k'.
Proof. revert k k'. induction l as [|y l IH]; intros [|k] [|k'] H; cbn; try reflexivity; try congruence. apply IH. congruence. Qed.
Lemma set_call_length k c l : length (set_call k c l) = length l.
Proof. revert k. induction l as [|y l IH]; intros [|k]; cbn; auto. Qed.

(* ---- what a finished call may hold ---- *)
Definition own_result (pe : perr_oracle) (id : N) (r : wres) : Prop :=
  (exists p, r = result_of pe p /\ w_rid p = id /\ route_of p = RToWaiter) \/ r = WTimeout \/ r = WLost \/ r = WWriteErr.

Definition live (st : cstate) : Prop := st = CRegistered \/ st = CWritten.

Record Inv (pe : perr_oracle) (s : wstate) : Prop := {
  inv_counter : ws_counter s = N.of_nat (length (ws_calls s));
  inv_ids : forall k c, nth_error (ws_calls s) k = Some c -> wc_id c = N.of_nat k + 1;
  inv_table : forall rid k slot, tlookup rid (ws_table s) = Some (k, slot) ->
                exists st, nth_error (ws_calls s) k = Some (mkCall rid st) /\ live st /\
                           (forall p, slot = Some p -> w_rid p = rid /\ route_of p = RToWaiter);
  inv_done : forall k id r, nth_error (ws_calls s) k = Some (mkCall id (CDone r)) -> own_result pe id r }.

Lemma inv_init pe : Inv pe ws0.
Proof. split; cbn; try reflexivity; intros; try discriminate; destruct k; discriminate. Qed.

Definition small (s : wstate) : Prop := N.of_nat (length (ws_calls s)) + 1 < 4294967296.

Lemma id_inj pe s k k' id st st' : Inv pe s ->
  nth_error (ws_calls s) k = Some (mkCall id st) -> nth_error (ws_calls s) k' = Some (mkCall id st') -> k = k'.
Proof. intros I A B. pose proof (inv_ids pe s I _ _ A). pose proof (inv_ids pe s I _ _ B). cbn in *. lia. Qed.

Theorem inv_step pe s a : Inv pe s -> small s -> Inv pe (step pe s a).
Proof.
  intros I Sm. destruct a as [|k|k ok|k c|p|]; cbn [step].
  - (* AStart *)
    split; cbn [ws_counter ws_calls ws_table ws_log].
    + rewrite (inv_counter pe s I), app_length. cbn [length]. unfold small in Sm. rewrite N.mod_small by lia. lia.
    + intros k c H. destruct (Nat.lt_ge_cases k (length (ws_calls s))) as [L|G].
      * rewrite nth_error_app1 in H by exact L. now apply (inv_ids pe s I).
      * rewrite nth_error_app2 in H by exact G. destruct (k - length (ws_calls s))%nat as [|m] eqn:E; cbn in H; [|destruct m; discriminate].
        inversion H; subst c. cbn. rewrite (inv_counter pe s I). unfold small in Sm. rewrite N.mod_small by lia. lia.
    + intros rid k slot H. destruct (inv_table pe s I _ _ _ H) as (st & A & B & C). exists st. split; [|split; assumption].
      rewrite nth_error_app1; [exact A|]. apply nth_error_Some. congruence.
    + intros k id r H. destruct (Nat.lt_ge_cases k (length (ws_calls s))) as [L|G].
      * rewrite nth_error_app1 in H by exact L. now apply (inv_done pe s I k).
      * rewrite nth_error_app2 in H by exact G. destruct (k - length (ws_calls s))%nat as [|m]; cbn in H; [inversion H|destruct m; discriminate].
  - (* ARegister *)
    destruct (nth_error (ws_calls s) k) as [[id [| | |r]]|] eqn:N; try exact I.
    split; cbn [ws_counter ws_calls ws_table ws_log].
    + rewrite set_call_length. apply (inv_counter pe s I).
    + intros k' c H. destruct (Nat.eq_dec k k') as [->|D].
      * rewrite (nth_set_call_same _ _ _ _ N) in H. inversion H; subst c. cbn. apply (inv_ids pe s I _ _ N).
      * rewrite nth_set_call_other in H by exact D. now apply (inv_ids pe s I).
    + intros rid k' slot H. destruct (N.eq_dec rid id) as [->|D].
      * rewrite tlookup_tset_same in H. inversion H; subst k' slot. exists CRegistered. split; [eapply nth_set_call_same; eauto|].
        split; [left; reflexivity|intros p Hp; discriminate].
      * rewrite tlookup_tset_other in H by exact D. destruct (inv_table pe s I _ _ _ H) as (st & A & B & C).
        exists st. split; [|split; assumption]. rewrite nth_set_call_other; [exact A|].
        intros ->. rewrite N in A. inversion A. congruence.
    + intros k' id' r H. destruct (Nat.eq_dec k k') as [->|D].
      * rewrite (nth_set_call_same _ _ _ _ N) in H. inversion H.
      * rewrite nth_set_call_other in H by exact D. now apply (inv_done pe s I k').
  - (* AWrite *)
    destruct (nth_error (ws_calls s) k) as [[id [| | |r]]|] eqn:N; try exact I.
    destruct ok.
    + split; cbn [ws_counter ws_calls ws_table ws_log].
      * rewrite set_call_length. apply (inv_counter pe s I).
      * intros k' c H. destruct (Nat.eq_dec k k') as [->|D].
        -- rewrite (nth_set_call_same _ _ _ _ N) in H. inversion H; subst c. cbn. apply (inv_ids pe s I _ _ N).
        -- rewrite nth_set_call_other in H by exact D. now apply (inv_ids pe s I).
      * intros rid k' slot H. destruct (inv_table pe s I _ _ _ H) as (st & A & B & C).
        destruct (Nat.eq_dec k k') as [->|D].
        -- rewrite N in A. inversion A; subst. exists CWritten. split; [eapply nth_set_call_same; eauto|]. split; [right; reflexivity|exact C].
        -- exists st. split; [|split; assumption]. rewrite nth_set_call_other by exact D. exact A.
      * intros k' id' r H. destruct (Nat.eq_dec k k') as [->|D].
        -- rewrite (nth_set_call_same _ _ _ _ N) in H. inversion H.
        -- rewrite nth_set_call_other in H by exact D. now apply (inv_done pe s I k').
    + set (t := match tlookup id (ws_table s) with Some (k', _) => if Nat.eqb k' k then tremove id (ws_table s) else ws_table s | None => ws_table s end).
      assert (Ht : forall rid k' slot, tlookup rid t = Some (k', slot) -> tlookup rid (ws_table s) = Some (k', slot) /\ k' <> k).
      { intros rid k' slot H. unfold t in H. destruct (tlookup id (ws_table s)) as [[k2 sl2]|] eqn:L.
        - destruct (Nat.eqb k2 k) eqn:E.
          + apply Nat.eqb_eq in E. subst k2. destruct (N.eq_dec rid id) as [->|D]; [rewrite tlookup_tremove_same in H; discriminate|].
            rewrite tlookup_tremove_other in H by exact D. split; [exact H|].
            intros ->. destruct (inv_table pe s I _ _ _ H) as (st & A & _). rewrite N in A. inversion A. congruence.
          + split; [exact H|]. intros ->. destruct (inv_table pe s I _ _ _ H) as (st & A & _). rewrite N in A. inversion A; subst rid.
            rewrite L in H. inversion H; subst. apply Nat.eqb_neq in E. congruence.
        - split; [exact H|]. intros ->. destruct (inv_table pe s I _ _ _ H) as (st & A & _). rewrite N in A. inversion A; subst rid. congruence. }
      split; cbn [ws_counter ws_calls ws_table ws_log].
      * rewrite set_call_length. apply (inv_counter pe s I).
      * intros k' c H. destruct (Nat.eq_dec k k') as [->|D].
        -- rewrite (nth_set_call_same _ _ _ _ N) in H. inversion H; subst c. cbn. apply (inv_ids pe s I _ _ N).
        -- rewrite nth_set_call_other in H by exact D. now apply (inv_ids pe s I).
      * intros rid k' slot H. destruct (Ht _ _ _ H) as [H' D]. destruct (inv_table pe s I _ _ _ H') as (st & A & B & C).
        exists st. split; [|split; assumption]. rewrite nth_set_call_other by congruence. exact A.
      * intros k' id' r H. destruct (Nat.eq_dec k k') as [->|D].
        -- rewrite (nth_set_call_same _ _ _ _ N) in H. inversion H; subst. right. right. right. reflexivity.
        -- rewrite nth_set_call_other in H by exact D. now apply (inv_done pe s I k').
  - (* AFinish *)
    destruct (nth_error (ws_calls s) k) as [[id [| | |r]]|] eqn:N; try exact I.
    assert (Gen : forall r0 t, own_result pe id r0 ->
              (forall rid k' slot, tlookup rid t = Some (k', slot) -> tlookup rid (ws_table s) = Some (k', slot) /\ k' <> k) ->
              Inv pe (mkWs (ws_counter s) (set_call k (mkCall id (CDone r0)) (ws_calls s)) t (ws_log s))).
    { intros r0 t Ho Ht. split; cbn [ws_counter ws_calls ws_table ws_log].
      * rewrite set_call_length. apply (inv_counter pe s I).
      * intros k' c0 H. destruct (Nat.eq_dec k k') as [->|D].
        -- rewrite (nth_set_call_same _ _ _ _ N) in H. inversion H; subst c0. cbn. apply (inv_ids pe s I _ _ N).
        -- rewrite nth_set_call_other in H by exact D. now apply (inv_ids pe s I).
      * intros rid k' slot H. destruct (Ht _ _ _ H) as [H' D]. destruct (inv_table pe s I _ _ _ H') as (st & A & B & C).
        exists st. split; [|split; assumption]. rewrite nth_set_call_other by congruence. exact A.
      * intros k' id' r H. destruct (Nat.eq_dec k k') as [->|D].
        -- rewrite (nth_set_call_same _ _ _ _ N) in H. inversion H; subst. exact Ho.
        -- rewrite nth_set_call_other in H by exact D. now apply (inv_done pe s I k'). }
    assert (Rm : forall rid k' slot, tlookup rid (tremove id (ws_table s)) = Some (k', slot) ->
                 tlookup rid (ws_table s) = Some (k', slot) /\ k' <> k).
    { intros rid k' slot H. destruct (N.eq_dec rid id) as [->|D]; [rewrite tlookup_tremove_same in H; discriminate|].
      rewrite tlookup_tremove_other in H by exact D. split; [exact H|].
      intros ->. destruct (inv_table pe s I _ _ _ H) as (st & A & _). rewrite N in A. inversion A. congruence. }
    destruct (tlookup id (ws_table s)) as [[k' slot]|] eqn:L.
    + destruct (Nat.eqb k' k) eqn:E.
      * apply Nat.eqb_eq in E. subst k'. destruct (inv_table pe s I _ _ _ L) as (st & A & B & C).
        destruct slot as [p|]; destruct c; try exact I.
        -- apply Gen; [|exact Rm]. left. exists p. destruct (C p eq_refl). auto.
        -- apply Gen; [|exact Rm]. right. left. reflexivity.
        -- apply Gen; [|exact Rm]. right. left. reflexivity.
      * apply Gen; [destruct c; [right; right; left|right; left]; reflexivity|].
        intros rid k2 slot2 H. split; [exact H|]. intros ->.
        destruct (inv_table pe s I _ _ _ H) as (st & A & _). rewrite N in A. inversion A; subst rid.
        rewrite L in H. inversion H; subst. apply Nat.eqb_neq in E. congruence.
    + apply Gen; [destruct c; [right; right; left|right; left]; reflexivity|].
      intros rid k2 slot2 H. split; [exact H|]. intros ->.
      destruct (inv_table pe s I _ _ _ H) as (st & A & _). rewrite N in A. inversion A; subst rid. congruence.
  - (* ADispatch *)
    destruct (route_of p) eqn:R; try exact I.
    + destruct (tlookup (w_rid p) (ws_table s)) as [[k [q|]]|] eqn:L.
      * split; cbn [ws_counter ws_calls ws_table ws_log]; try apply I.
      * split; cbn [ws_counter ws_calls ws_table ws_log]; try apply I.
        intros rid k' slot H. destruct (N.eq_dec rid (w_rid p)) as [->|D].
        -- rewrite tlookup_tset_same in H. inversion H; subst k' slot. destruct (inv_table pe s I _ _ _ L) as (st & A & B & C).
           exists st. split; [exact A|]. split; [exact B|]. intros p0 E. inversion E; subst p0. auto.
        -- rewrite tlookup_tset_other in H by exact D. now apply (inv_table pe s I).
      * split; cbn [ws_counter ws_calls ws_table ws_log]; try apply I.
    + split; cbn [ws_counter ws_calls ws_table ws_log]; try apply I.
  - (* ASweep *)
    split; cbn [ws_counter ws_calls ws_table ws_log]; try apply I. intros rid k slot H. discriminate.
Qed.

Definition starts (acts : list wact) : nat := length (filter (fun a => match a with AStart => true | _ => false end) acts).

Lemma step_calls_length pe s a : length (ws_calls (step pe s a)) = (length (ws_calls s) + match a with AStart => 1 | _ => 0 end)%nat.
Proof.
  destruct a as [|k|k ok|k c|p|]; cbn [step].
  - cbn. rewrite app_length. reflexivity.
  - destruct (nth_error (ws_calls s) k) as [[id [| | |r]]|]; cbn; rewrite ?set_call_length; lia.
  - destruct (nth_error (ws_calls s) k) as [[id [| | |r]]|]; cbn; try lia. destruct ok; cbn; rewrite set_call_length; lia.
  - destruct (nth_error (ws_calls s) k) as [[id [| | |r]]|]; cbn; try lia.
    destruct (tlookup id (ws_table s)) as [[k' [p|]]|]; [destruct (Nat.eqb k' k); destruct c|destruct (Nat.eqb k' k); destruct c|]; cbn; rewrite ?set_call_length; lia.
  - destruct (route_of p); cbn; try lia. destruct (tlookup (w_rid p) (ws_table s)) as [[k [q|]]|]; cbn; lia.
  - cbn. lia.
Qed.

Theorem inv_run pe acts : N.of_nat (starts acts) + 1 < 4294967296 -> Inv pe (run pe acts).
Proof.
  unfold run. assert (G : forall s, Inv pe s -> N.of_nat (length (ws_calls s) + starts acts) + 1 < 4294967296 -> Inv pe (fold_left (step pe) acts s)).
  { induction acts as [|a acts IH]; intros s I B; [exact I|]. cbn [fold_left]. apply IH.
    - apply inv_step; [exact I|]. unfold small. unfold starts in B. cbn [filter] in B. destruct a; cbn [length] in B; lia.
    - rewrite step_calls_length. unfold starts in *. cbn [filter] in B. destruct a; cbn [length] in B |- *; lia. }
  intros B. apply G; [apply inv_init|]. cbn. exact B.
Qed.

(* C05: a call returns only a packet that carries its own request id *)
Theorem returns_own_id pe acts k id r :
  N.of_nat (starts acts) + 1 < 4294967296 ->
  nth_error (ws_calls (run pe acts)) k = Some (mkCall id (CDone r)) -> own_result pe id r.
Proof. intros B H. exact (inv_done pe _ (inv_run pe acts B) k id r H). Qed.

Corollary returned_packet_has_own_id pe acts k id p :
  N.of_nat (starts acts) + 1 < 4294967296 ->
  nth_error (ws_calls (run pe acts)) k = Some (mkCall id (CDone (WResp p))) -> w_rid p = id.
Proof.
  intros B H. destruct (returns_own_id pe acts k id _ B H) as [(q & E & Hq & _)|[E|[E|E]]]; try discriminate.
  unfold result_of in E. destruct (w_ty q); try (injection E as ->; exact Hq).
  destruct (w_status q =? c_StatusSuccess); [injection E as ->; exact Hq|]. destruct (pe (w_body q)) as [[? ?]|]; discriminate.
Qed.

(* ... and that packet is a response with status success (anything else is surfaced as an error, never returned) *)
Lemma to_waiter_is_response p : route_of p = RToWaiter -> w_ty p = PTResponse.
Proof.
  unfold route_of. destruct (w_cmd p <=? c_CMD_RECONNECT).
  - destruct ((w_cmd p =? c_CMD_HEARTBEAT) && match w_ty p with PTRequest => true | _ => false end); [discriminate|].
    destruct ((w_cmd p =? c_CMD_HEARTBEAT) && match w_ty p with PTResponse => true | _ => false end); [discriminate|].
    destruct (w_cmd p =? c_CMD_CLOSE); [discriminate|].
    destruct ((w_cmd p =? c_CMD_AUTH) || (w_cmd p =? c_CMD_RECONNECT)); [|discriminate].
    destruct (w_ty p); try discriminate; reflexivity.
  - destruct (w_ty p); try discriminate; reflexivity.
Qed.

Corollary returned_packet_is_response pe acts k id p :
  N.of_nat (starts acts) + 1 < 4294967296 ->
  nth_error (ws_calls (run pe acts)) k = Some (mkCall id (CDone (WResp p))) ->
  w_ty p = PTResponse /\ w_status p = c_StatusSuccess /\ w_rid p = id.
Proof.
  intros B H. destruct (returns_own_id pe acts k id _ B H) as [(q & E & Hq & Rt)|[E|[E|E]]]; try discriminate.
  pose proof (to_waiter_is_response q Rt) as T. unfold result_of in E. rewrite T in E.
  destruct (w_status q =? c_StatusSuccess) eqn:S.
  - injection E as ->. repeat split; auto. now apply N.eqb_eq.
  - destruct (pe (w_body q)) as [[? ?]|]; discriminate.
Qed.

(* a finished call stays finished: it takes at most one packet *)
Theorem done_is_final pe s a k id r :
  nth_error (ws_calls s) k = Some (mkCall id (CDone r)) -> nth_error (ws_calls (step pe s a)) k = Some (mkCall id (CDone r)).
Proof.
  intros H. destruct a as [|k'|k' ok|k' c|p|]; cbn [step].
  - cbn. rewrite nth_error_app1; [exact H|]. apply nth_error_Some. congruence.
  - destruct (nth_error (ws_calls s) k') as [[id' [| | |r']]|] eqn:N; try exact H. cbn.
    destruct (Nat.eq_dec k' k) as [->|D]; [congruence|]. now rewrite nth_set_call_other.
  - destruct (nth_error (ws_calls s) k') as [[id' [| | |r']]|] eqn:N; try exact H.
    destruct (Nat.eq_dec k' k) as [->|D]; [congruence|]. destruct ok; cbn; now rewrite nth_set_call_other.
  - destruct (nth_error (ws_calls s) k') as [[id' [| | |r']]|] eqn:N; try exact H.
    destruct (Nat.eq_dec k' k) as [->|D]; [congruence|].
    destruct (tlookup id' (ws_table s)) as [[k2 [q|]]|]; [destruct (Nat.eqb k2 k'); destruct c|destruct (Nat.eqb k2 k'); destruct c|];
      cbn; rewrite ?nth_set_call_other by exact D; exact H.
  - destruct (route_of p); try exact H. destruct (tlookup (w_rid p) (ws_table s)) as [[k2 [q|]]|]; exact H.
  - exact H.
Qed.

(* unsolicited / unknown-id / stale-id packets only leave a log line *)
Theorem unsolicited_dropped pe s p :
  route_of p = RToWaiter -> tlookup (w_rid p) (ws_table s) = None ->
  step pe s (ADispatch p) = mkWs (ws_counter s) (ws_calls s) (ws_table s) (ws_log s ++ [LNoReceiver (w_rid p)]).
Proof. intros R L. cbn [step]. now rewrite R, L. Qed.

Theorem duplicate_dropped pe s p k q :
  route_of p = RToWaiter -> tlookup (w_rid p) (ws_table s) = Some (k, Some q) ->
  step pe s (ADispatch p) = mkWs (ws_counter s) (ws_calls s) (ws_table s) (ws_log s ++ [LDuplicate (w_rid p)]).
Proof. intros R L. cbn [step]. now rewrite R, L. Qed.

(* status -> typed error, all statuses *)
Theorem error_mapping pe p : w_ty p = PTResponse ->
  (w_status p = c_StatusSuccess -> result_of pe p = WResp p) /\
  (w_status p <> c_StatusSuccess ->
     result_of pe p = match pe (w_body p) with Some (code, msg) => WLBErr (w_status p) code msg
                                             | None => WLBErr (w_status p) 500 fallback_msg end).
Proof.
  intros T. unfold result_of. rewrite T. split; intros H.
  - rewrite H, N.eqb_refl. reflexivity.
  - replace (w_status p =? c_StatusSuccess) with false by (symmetry; apply N.eqb_neq; exact H). reflexivity.
Qed.

(* ---- C07: a request that was handed to the transport has its waiter registered ---- *)

(* every live (registered or written) call owns the table entry of its id *)
Definition LiveRegistered (s : wstate) : Prop :=
  forall k id st, nth_error (ws_calls s) k = Some (mkCall id st) -> live st -> exists slot, tlookup id (ws_table s) = Some (k, slot).

Lemma finish_shape pe s k c :
  step pe s (AFinish k c) = s \/
  exists id r0 t', nth_error (ws_calls s) k = Some (mkCall id CWritten) /\ (t' = ws_table s \/ t' = tremove id (ws_table s)) /\
    step pe s (AFinish k c) = mkWs (ws_counter s) (set_call k (mkCall id (CDone r0)) (ws_calls s)) t' (ws_log s).
Proof.
  cbn [step]. destruct (nth_error (ws_calls s) k) as [[id [| | |r']]|] eqn:N; auto.
  destruct (tlookup id (ws_table s)) as [[k2 [q|]]|].
  - destruct (Nat.eqb k2 k); destruct c; right; do 3 eexists; (split; [reflexivity|]); (split; [|reflexivity]);
      first [left; reflexivity|right; reflexivity].
  - destruct (Nat.eqb k2 k); destruct c; auto; right; do 3 eexists; (split; [reflexivity|]); (split; [|reflexivity]);
      first [left; reflexivity|right; reflexivity].
  - right. do 3 eexists. split; [reflexivity|]. split; [|reflexivity]. left; reflexivity.
Qed.

Lemma live_registered_step pe s a : Inv pe s -> a <> ASweep -> LiveRegistered s -> LiveRegistered (step pe s a).
Proof.
  intros I NS W k id st H Lv. destruct a as [|k'|k' ok|k' c|p|]; cbn [step] in *; try congruence.
  - cbn [ws_calls ws_table ws_counter ws_log] in H. destruct (Nat.lt_ge_cases k (length (ws_calls s))) as [L|G].
    + rewrite nth_error_app1 in H by exact L. now apply (W k id st).
    + rewrite nth_error_app2 in H by exact G. destruct (k - length (ws_calls s))%nat as [|m]; cbn [ws_calls ws_table ws_counter ws_log] in H; [|destruct m; discriminate].
      inversion H; subst. destruct Lv; discriminate.
  - destruct (nth_error (ws_calls s) k') as [[id' [| | |r']]|] eqn:N; try (now apply (W k id st)). cbn [ws_calls ws_table ws_counter ws_log] in *.
    destruct (Nat.eq_dec k' k) as [->|D].
    + rewrite (nth_set_call_same _ _ _ _ N) in H. inversion H; subst. exists None. apply tlookup_tset_same.
    + rewrite nth_set_call_other in H by exact D. destruct (W _ _ _ H Lv) as [slot L]. exists slot.
      rewrite tlookup_tset_other; [exact L|]. intros ->. pose proof (id_inj pe s _ _ _ _ _ I N H). congruence.
  - destruct (nth_error (ws_calls s) k') as [[id' [| | |r']]|] eqn:N; try (now apply (W k id st)). destruct ok; cbn [ws_calls ws_table ws_counter ws_log] in *.
    + destruct (Nat.eq_dec k' k) as [->|D].
      * rewrite (nth_set_call_same _ _ _ _ N) in H. inversion H; subst. apply (W k id CRegistered N). left. reflexivity.
      * rewrite nth_set_call_other in H by exact D. now apply (W k id st).
    + destruct (Nat.eq_dec k' k) as [->|D].
      * rewrite (nth_set_call_same _ _ _ _ N) in H. inversion H; subst. destruct Lv; discriminate.
      * rewrite nth_set_call_other in H by exact D. destruct (W _ _ _ H Lv) as [slot L]. exists slot.
        assert (Ne : id <> id') by (intros ->; pose proof (id_inj pe s _ _ _ _ _ I N H); congruence).
        destruct (tlookup id' (ws_table s)) as [[k2 sl2]|]; [destruct (Nat.eqb k2 k')|]; try exact L.
        rewrite tlookup_tremove_other by exact Ne. exact L.
  - destruct (finish_shape pe s k' c) as [E|(id' & r0 & t' & N & Ht & E)].
    + cbn [step] in E. rewrite E in H |- *. now apply (W k id st).
    + cbn [step] in E. rewrite E in H |- *. cbn [ws_calls ws_table] in *.
      destruct (Nat.eq_dec k' k) as [->|D].
      * rewrite (nth_set_call_same _ _ _ _ N) in H. inversion H; subst. destruct Lv; discriminate.
      * rewrite nth_set_call_other in H by exact D. destruct (W _ _ _ H Lv) as [slot L]. exists slot.
        assert (Ne : id <> id') by (intros ->; pose proof (id_inj pe s _ _ _ _ _ I N H); congruence).
        destruct Ht as [->| ->]; [exact L|]. rewrite tlookup_tremove_other by exact Ne. exact L.
  - destruct (route_of p) eqn:R; try (now apply (W k id st)).
    + destruct (tlookup (w_rid p) (ws_table s)) as [[k2 [q|]]|] eqn:L; cbn [ws_calls ws_table] in *; try (now apply (W k id st)).
      destruct (W _ _ _ H Lv) as [slot L']. destruct (N.eq_dec id (w_rid p)) as [->|D].
      * rewrite L in L'. inversion L'; subst. exists (Some p). apply tlookup_tset_same.
      * exists slot. rewrite tlookup_tset_other by exact D. exact L'.
Qed.

Definition no_sweep (acts : list wact) : Prop := forall a, In a acts -> a <> ASweep.

Theorem live_registered_run pe acts :
  N.of_nat (starts acts) + 1 < 4294967296 -> no_sweep acts -> LiveRegistered (run pe acts).
Proof.
  unfold run. assert (G : forall s, Inv pe s -> LiveRegistered s -> N.of_nat (length (ws_calls s) + starts acts) + 1 < 4294967296 ->
                               no_sweep acts -> LiveRegistered (fold_left (step pe) acts s)).
  { induction acts as [|a acts IH]; intros s I W B NS; [exact W|]. cbn [fold_left].
    assert (Sm : small s) by (unfold small; unfold starts in B; cbn [filter] in B; destruct a; cbn [length] in B; lia).
    apply IH.
    - now apply inv_step.
    - apply live_registered_step; [exact I|apply NS; left; reflexivity|exact W].
    - rewrite step_calls_length. unfold starts in *. cbn [filter] in B. destruct a; cbn [length] in B |- *; lia.
    - intros a' Ia. apply NS. now right. }
  intros B NS. apply G; [apply inv_init| |cbn; exact B|exact NS]. intros k id st H. destruct k; discriminate.
Qed.

(* C07: once the request has been handed to the transport its waiter is registered, so a response that
   arrives at ANY later point — also immediately after the write — is stored for the caller ... *)
Theorem written_is_registered pe acts k id :
  N.of_nat (starts acts) + 1 < 4294967296 -> no_sweep acts ->
  nth_error (ws_calls (run pe acts)) k = Some (mkCall id CWritten) ->
  exists slot, tlookup id (ws_table (run pe acts)) = Some (k, slot).
Proof. intros B NS H. apply (live_registered_run pe acts B NS k id CWritten H). right. reflexivity. Qed.

(* ... and the caller, when it takes it, returns exactly that response *)
Theorem timely_response_returned pe s k id p :
  nth_error (ws_calls s) k = Some (mkCall id CWritten) -> tlookup id (ws_table s) = Some (k, None) ->
  route_of p = RToWaiter -> w_rid p = id ->
  let s1 := step pe s (ADispatch p) in
  tlookup id (ws_table s1) = Some (k, Some p) /\ (ws_log s1 = ws_log s) /\
  (nth_error (ws_calls (step pe s1 (AFinish k FTake))) k = Some (mkCall id (CDone (result_of pe p)))).
Proof.
  intros H L R E. cbn [step]. rewrite R, E, L. cbn [ws_table ws_log ws_calls].
  split; [apply tlookup_tset_same|]. split; [reflexivity|].
  rewrite H. rewrite tlookup_tset_same, Nat.eqb_refl. cbn [ws_calls]. eapply nth_set_call_same; eauto.
Qed.
