(* Proofs/ChanFormsP.v — facts about the forms of the channel operations in the client package, checked by
   computation on Gen/Chans.v, which vaccess regenerates from the source on every run. *)
From Coq Require Import List String Bool.
From OAP Require Import Model.ChanForms Gen.Chans.
Import ListNotations.
Local Open Scope string_scope.
(* the statements, named so that files without string notations can state them *)
Definition f_tcp_write := "(tcpConn).write".       Definition f_ws_write := "(wsConn).write".
Definition f_tcp_add := "(tcpConn).addPacket".     Definition f_ws_add := "(wsConn).addPacket".
Definition f_tcp_disp := "(tcpConn).OnPacket".     Definition f_ws_disp := "(wsConn).OnPacket".
Definition f_handle_response := "(client).handleResponse".
Definition writeCh_sends : list chanop := sends_on ".writeCh" chan_ops.
Definition packetCh_sends : list chanop := sends_on ".packetCh" chan_ops.
Definition waiter_sends : list chanop := filter (fun o => co_send o && String.eqb (co_func o) f_handle_response) chan_ops.

Theorem writes_never_block :
  all_nonblocking writeCh_sends = true /\ funcs_of writeCh_sends = [f_tcp_write; f_ws_write].
Proof. split; vm_compute; reflexivity. Qed.
Theorem reader_never_blocks :
  all_nonblocking packetCh_sends = true /\ funcs_of packetCh_sends = [f_tcp_add; f_ws_add].
Proof. split; vm_compute; reflexivity. Qed.
Theorem dispatcher_never_blocked_by_a_waiter :
  all_nonblocking waiter_sends = true /\ List.length waiter_sends = 1%nat.
Proof. split; vm_compute; reflexivity. Qed.
Theorem idle_conn_goroutines_wake :
  conn_goroutines_wake chan_ops = true /\ dispatcher_shape f_tcp_disp chan_ops = true /\ dispatcher_shape f_ws_disp chan_ops = true.
Proof. repeat split; vm_compute; reflexivity. Qed.
Theorem call_wait_watches_its_context : call_wait_bounded chan_ops = true.
Proof. vm_compute; reflexivity. Qed.
