(* Proofs/WsBridgeP.v — C20: both transports feed the client core the same inputs for every common script. *)
From Coq Require Import List NArith Bool.
From OAP Require Import Base.Bytes Base.Res Gen.Consts Model.Metadata Model.Header Model.Waiters Model.WsBridge.
Import ListNotations.
Local Open Scope N_scope.

(* the peer's pong carries, in its body, the heartbeat id the client sent (C15: body id = request id) *)
Definition pong_consistent (parse_hb : bytes -> option N) (i : item) : Prop :=
  match i with IPong hb body => parse_hb body = Some hb | _ => True end.

Theorem item_equiv parse_hb i : pong_consistent parse_hb i -> sp_equiv (tcp_surface i) (ws_surface parse_hb i).
Proof.
  destruct i; cbn; intros H; unfold sp_equiv; cbn; repeat split; auto.
  now rewrite H.
Qed.

Theorem transport_equiv parse_hb script :
  Forall (pong_consistent parse_hb) script ->
  Forall2 sp_equiv (map tcp_surface script) (map (ws_surface parse_hb) script).
Proof.
  induction 1 as [|i l H F IH]; cbn; constructor; [now apply item_equiv|exact IH].
Qed.

(* routing of the surfaced packets is identical (it depends on type and command only) *)
Theorem same_routing parse_hb i :
  route_of (mkWpkt (sp_ty (tcp_surface i)) (sp_cmd (tcp_surface i)) 0 (sp_status (tcp_surface i)) (sp_body (tcp_surface i))) =
  route_of (mkWpkt (sp_ty (ws_surface parse_hb i)) (sp_cmd (ws_surface parse_hb i)) 0 (sp_status (ws_surface parse_hb i)) (sp_body (ws_surface parse_hb i))).
Proof. destruct i; reflexivity. Qed.

(* control-frame mapping lemmas *)
Theorem ws_ping_is_heartbeat_request parse_hb rid body :
  sp_ty (ws_surface parse_hb (IPing rid body)) = PTRequest /\ sp_cmd (ws_surface parse_hb (IPing rid body)) = c_CMD_HEARTBEAT /\
  sp_body (ws_surface parse_hb (IPing rid body)) = body.
Proof. repeat split. Qed.
Theorem ws_pong_is_heartbeat_response_with_hb_id parse_hb hb body h : parse_hb body = Some h ->
  ws_surface parse_hb (IPong hb body) = mkSp PTResponse c_CMD_HEARTBEAT (Some h) 0 body.
Proof. intros H. cbn. now rewrite H. Qed.
Theorem ws_close_is_close_push parse_hb body :
  ws_surface parse_hb (IClose body) = mkSp PTPush c_CMD_CLOSE (Some 0) 0 body.
Proof. reflexivity. Qed.
(* outbound: heartbeat requests travel as ping frames and close packets as close frames, each carrying the packet body *)
Theorem ws_heartbeat_request_is_ping body : ws_outbound PTRequest c_CMD_HEARTBEAT body = WPing body.
Proof. reflexivity. Qed.
Theorem ws_close_packet_is_close_frame ty body : ws_outbound ty c_CMD_CLOSE body = WCloseFrame body.
Proof. destruct ty; reflexivity. Qed.
Theorem ws_other_is_binary ty cmd body : cmd <> c_CMD_CLOSE -> (cmd <> c_CMD_HEARTBEAT \/ ty <> PTRequest) -> ws_outbound ty cmd body = WBinary tt.
Proof.
  intros H1 H2. unfold ws_outbound. replace (cmd =? c_CMD_CLOSE) with false by (symmetry; now apply N.eqb_neq).
  destruct (cmd =? c_CMD_HEARTBEAT) eqn:E; [|reflexivity]. apply N.eqb_eq in E. destruct H2 as [H2|H2]; [congruence|]. destruct ty; try reflexivity. congruence.
Qed.
