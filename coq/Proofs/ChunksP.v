From Coq Require Import List NArith Lia.
From OAP Require Import Base.Bytes Base.Res Gen.Consts Model.Metadata Model.Header Model.Frame Model.Stream Model.Chunks Proofs.StreamP.
Import ListNotations.

Section S.
Variables (gz : gzoracle) (v codec : N).

Lemma feed_nil s : feed s [] = s.
Proof. destruct s. unfold feed. cbn. now rewrite app_nil_r. Qed.
Lemma feed_feed s x y : feed (feed s x) y = feed s (x ++ y).
Proof. unfold feed. cbn. now rewrite app_assoc. Qed.

(* geometry never matters for a whole drain *)
Lemma drain_ks fuel : forall ks ks' i i' s, drain gz v codec fuel ks i s = drain gz v codec fuel ks' i' s.
Proof.
  induction fuel as [|f IH]; intros ks ks' i i' s; [reflexivity|].
  cbn [drain]. rewrite (split_irrelevant gz v codec (ks i) (ks' i') hdr0 s).
  destruct (stream_unpack gz v codec (ks' i') hdr0 s) as [[[|p]|e| |] s']; try reflexivity.
  now rewrite (IH ks ks' (S i) (S i') s').
Qed.

(* enough fuel: the result does not depend on the fuel, and is never EFuel / EPanic *)
Lemma drain_enough : forall f1 f2 ks i s, wf_pending v s -> (length (s_q s) < f1)%nat -> (length (s_q s) < f2)%nat ->
  drain gz v codec f1 ks i s = drain gz v codec f2 ks i s.
Proof.
  induction f1 as [|f1 IH]; intros f2 ks i s W L1 L2; [lia|]. destruct f2 as [|f2]; [lia|].
  cbn [drain]. destruct (stream_unpack gz v codec (ks i) hdr0 s) as [r s'] eqn:E.
  destruct (stream_unpack_total gz v codec (ks i) hdr0 s W) as (_ & _ & P & _). rewrite E in P. cbn [fst snd] in P.
  assert (W' := wf_pending_step gz v codec (ks i) hdr0 s r s' W E).
  destruct r as [[|p]|e| |]; try reflexivity.
  specialize (P p eq_refl). rewrite (IH f2 ks (S i) s' W'); [reflexivity|lia|lia].
Qed.

Lemma drain_sound : forall f ks i s ps e s', wf_pending v s -> (length (s_q s) < f)%nat ->
  drain gz v codec f ks i s = (ps, e, s') -> e <> EFuel /\ e <> EPanic /\ wf_pending v s' /\ (length (s_q s') <= length (s_q s))%nat.
Proof.
  induction f as [|f IH]; intros ks i s ps e s' W L D; [lia|].
  cbn [drain] in D. destruct (stream_unpack gz v codec (ks i) hdr0 s) as [r s1] eqn:E.
  destruct (stream_unpack_total gz v codec (ks i) hdr0 s W) as (NP & NF & P & LE). rewrite E in NP, NF, P, LE. cbn [fst snd] in *.
  assert (W1 := wf_pending_step gz v codec (ks i) hdr0 s r s1 W E).
  destruct r as [[|p]|e0| |]; try congruence.
  - injection D as <- <- <-. repeat split; auto; congruence.
  - specialize (P p eq_refl). destruct (drain gz v codec f ks (S i) s1) as [[ps1 e1] s2] eqn:D1.
    injection D as <- <- <-. destruct (IH ks (S i) s1 ps1 e1 s2 W1 ltac:(lia) D1) as (A & B & C & L2). repeat split; auto; lia.
  - injection D as <- <- <-. repeat split; auto; congruence.
Qed.

(* the state left by a drain that asked for more data is quiet *)
Lemma need_is_quiet : forall k s s', wf_pending v s -> stream_unpack gz v codec k hdr0 s = (Ok SNeed, s') -> quiet gz v codec s'.
Proof.
  intros k s s' W E k'. assert (H := need_then_more gz v codec k k' hdr0 s s' [] W E). rewrite !feed_nil in H.
  rewrite <- H. rewrite (split_irrelevant gz v codec k' k hdr0 s). exact E.
Qed.

(* KEY: draining, receiving x, draining = receiving x first and draining once (ENeed case) *)
Lemma drain_then_feed : forall f ks i s ps s', wf_pending v s -> (length (s_q s) < f)%nat ->
  drain gz v codec f ks i s = (ps, ENeed, s') ->
  forall x, drain_all gz v codec ks (feed s x) =
            let '(ps2, e2, s2) := drain_all gz v codec ks (feed s' x) in (ps ++ ps2, e2, s2).
Proof.
  induction f as [|f IH]; intros ks i s ps s' W L D x; [lia|].
  cbn [drain] in D. destruct (stream_unpack gz v codec (ks i) hdr0 s) as [r s1] eqn:E.
  assert (W1 := wf_pending_step gz v codec (ks i) hdr0 s r s1 W E).
  destruct (stream_unpack_total gz v codec (ks i) hdr0 s W) as (_ & _ & P & LE). rewrite E in P, LE. cbn [fst snd] in P, LE.
  destruct r as [[|p]|e0| |]; try discriminate.
  - (* first call needs more: by need_then_more the two drains start with the same call *)
    injection D as <- <-. cbn [app].
    unfold drain_all.
    assert (Wf : wf_pending v (feed s x)) by now apply wf_pending_feed.
    assert (Wf1 : wf_pending v (feed s1 x)) by now apply wf_pending_feed.
    set (n := S (length (s_q (feed s x)))). set (n1 := S (length (s_q (feed s1 x)))).
    assert (Ln : (length (s_q (feed s1 x)) <= length (s_q (feed s x)))%nat).
    { unfold feed. cbn [s_q]. rewrite !app_length. lia. }
    destruct (drain gz v codec n1 ks 0 (feed s1 x)) as [[ps2 e2] s2] eqn:D2.
    rewrite <- D2. rewrite (drain_enough n1 n ks 0 (feed s1 x) Wf1); [|unfold n1; lia|unfold n; lia].
    unfold n. cbn [drain]. 
    rewrite (need_then_more gz v codec (ks i) (ks 0%nat) hdr0 s s1 x W E). reflexivity.
  - specialize (P p eq_refl).
    destruct (drain gz v codec f ks (S i) s1) as [[ps1 e1] s2] eqn:D1. injection D as <- -> <-.
    specialize (IH ks (S i) s1 ps1 s2 W1 ltac:(lia) D1 x).
    assert (DM := decided_then_more gz v codec (ks i) (ks 0%nat) hdr0 s (Ok (SPkt p)) s1 x W E ltac:(discriminate)).
    unfold drain_all at 1. cbn [drain]. rewrite DM.
    (* the rest of the drain on feed s1 x, with whatever fuel is left *)
    assert (Wf1 : wf_pending v (feed s1 x)) by now apply wf_pending_feed.
    rewrite (drain_ks _ ks ks 1%nat 0%nat).
    rewrite (drain_enough (length (s_q (feed s x))) (S (length (s_q (feed s1 x)))) ks 0 (feed s1 x) Wf1);
      [| unfold feed; cbn [s_q]; rewrite !app_length; lia | lia].
    fold (drain_all gz v codec ks (feed s1 x)). rewrite IH.
    destruct (drain_all gz v codec ks (feed s2 x)) as [[ps3 e3] s3]. reflexivity.
Qed.

(* ... and when the first drain ended in an error, later bytes change nothing but the bytes left behind *)
Lemma drain_err_then_feed : forall f ks i s ps e s', wf_pending v s -> (length (s_q s) < f)%nat ->
  drain gz v codec f ks i s = (ps, EErr e, s') ->
  forall x, drain_all gz v codec ks (feed s x) = (ps, EErr e, feed s' x).
Proof.
  induction f as [|f IH]; intros ks i s ps e s' W L D x; [lia|].
  cbn [drain] in D. destruct (stream_unpack gz v codec (ks i) hdr0 s) as [r s1] eqn:E.
  assert (W1 := wf_pending_step gz v codec (ks i) hdr0 s r s1 W E).
  destruct (stream_unpack_total gz v codec (ks i) hdr0 s W) as (_ & _ & P & LE). rewrite E in P, LE. cbn [fst snd] in P, LE.
  destruct r as [[|p]|e0| |]; try discriminate.
  - specialize (P p eq_refl).
    destruct (drain gz v codec f ks (S i) s1) as [[ps1 e1] s2] eqn:D1. injection D as <- -> <-.
    specialize (IH ks (S i) s1 ps1 e s2 W1 ltac:(lia) D1 x).
    assert (DM := decided_then_more gz v codec (ks i) (ks 0%nat) hdr0 s (Ok (SPkt p)) s1 x W E ltac:(discriminate)).
    unfold drain_all at 1. cbn [drain]. rewrite DM.
    assert (Wf1 : wf_pending v (feed s1 x)) by now apply wf_pending_feed.
    rewrite (drain_ks _ ks ks 1%nat 0%nat).
    rewrite (drain_enough (length (s_q (feed s x))) (S (length (s_q (feed s1 x)))) ks 0 (feed s1 x) Wf1);
      [| unfold feed; cbn [s_q]; rewrite !app_length; lia | lia].
    fold (drain_all gz v codec ks (feed s1 x)). rewrite IH. reflexivity.
  - injection D as <- <- <-.
    assert (DM := decided_then_more gz v codec (ks i) (ks 0%nat) hdr0 s (Err e0) s1 x W E ltac:(discriminate)).
    unfold drain_all. cbn [drain]. rewrite DM. reflexivity.
Qed.

Lemma drain_all_ks ks ks' s : drain_all gz v codec ks s = drain_all gz v codec ks' s.
Proof. unfold drain_all. apply drain_ks. Qed.

Lemma drain_all_sound ks s ps e s' : wf_pending v s -> drain_all gz v codec ks s = (ps, e, s') ->
  e <> EFuel /\ e <> EPanic /\ wf_pending v s'.
Proof. intros W D. destruct (drain_sound (S (length (s_q s))) ks 0 s ps e s' W ltac:(lia) D) as (A & B & C & _). auto. Qed.

(* SEGMENTATION AND GEOMETRY, whole runs: reading a byte string in any chunks, under any buffer geometry, delivers the
   same packets and ends the same way as reading it in one piece *)
Theorem chunking_irrelevant : forall chunks kss kss' j j' s, wf_pending v s -> chunks <> [] ->
  let '(ps, e, sf) := run_chunks gz v codec kss j s chunks in
  let '(ps1, e1, sf1) := run_chunks gz v codec kss' j' s [concat chunks] in
  ps = ps1 /\ e = e1 /\ (e = ENeed -> sf = sf1).
Proof.
  induction chunks as [|c cs IH]; intros kss kss' j j' s W NE; [congruence|].
  cbn [run_chunks concat].
  destruct cs as [|c2 cs'].
  - (* one chunk *)
    cbn [concat]. rewrite app_nil_r. rewrite (drain_all_ks (kss j) (kss' j')).
    destruct (drain_all gz v codec (kss' j') (feed s c)) as [[ps e] s'].
    destruct e; cbn [run_chunks]; rewrite ?app_nil_r; auto.
  - set (rest := c2 :: cs') in *.
    destruct (drain_all gz v codec (kss j) (feed s c)) as [[ps e] s'] eqn:D.
    assert (Wf : wf_pending v (feed s c)) by now apply wf_pending_feed.
    destruct (drain_all_sound _ _ _ _ _ Wf D) as (NF & NP & W').
    rewrite <- feed_feed.
    destruct e; try congruence.
    + (* first chunk fully consumed up to 'need more' *)
      specialize (IH kss (fun _ => kss' j') (S j) 0%nat s' W' ltac:(discriminate)).
      destruct (run_chunks gz v codec kss (S j) s' rest) as [[ps2 e2] s2].
      cbn [run_chunks] in IH.
      rewrite (drain_all_ks (kss' j') (kss j)).
      unfold drain_all in D.
      rewrite (drain_then_feed (S (length (s_q (feed s c)))) (kss j) 0 (feed s c) ps s' Wf ltac:(lia) D (concat rest)).
      rewrite (drain_all_ks (kss j) (kss' j')).
      destruct (drain_all gz v codec (kss' j') (feed s' (concat rest))) as [[ps3 e3] s3].
      destruct e3; destruct IH as (-> & -> & HS); cbn [run_chunks]; rewrite ?app_nil_r;
        (split; [reflexivity|split; [reflexivity|]]); intros Hq; try discriminate; auto.
    + (* the first chunk already ended in an error: the run stops there *)
      rewrite (drain_all_ks (kss' j') (kss j)). unfold drain_all in D.
      rewrite (drain_err_then_feed (S (length (s_q (feed s c)))) (kss j) 0 (feed s c) ps e s' Wf ltac:(lia) D (concat rest)).
      split; [reflexivity|split; [reflexivity|discriminate]].
Qed.

(* never a panic, never out of fuel, whatever the bytes, chunks and geometry *)
Theorem run_chunks_total : forall chunks kss j s, wf_pending v s ->
  let '(ps, e, sf) := run_chunks gz v codec kss j s chunks in e <> EPanic /\ e <> EFuel /\ wf_pending v sf.
Proof.
  induction chunks as [|c cs IH]; intros kss j s W; cbn [run_chunks]; [repeat split; auto; discriminate|].
  destruct (drain_all gz v codec (kss j) (feed s c)) as [[ps e] s'] eqn:D.
  destruct (drain_all_sound _ _ _ _ _ (wf_pending_feed v s c W) D) as (NF & NP & W').
  destruct e; try (repeat split; auto; congruence).
  specialize (IH kss (S j) s' W'). destruct (run_chunks gz v codec kss (S j) s' cs) as [[ps2 e2] s2]. exact IH.
Qed.
End S.
