(* Proofs/IdsP.v — C19. *)
From Coq Require Import List NArith ZArith Lia Bool FinFun.
From Coq Require Import ZifyBool ZifyN ZifyNat.
From OAP Require Import Base.Bytes Base.Res Gen.Consts Model.Metadata Model.Header Model.Ids.
Import ListNotations.
Local Open Scope N_scope.
Ltac Zify.zify_post_hook ::= Z.div_mod_to_equations.

(* n draws from a counter at c (c + n < 2^32) are exactly c+1, ..., c+n *)
Theorem draws_sequence n : forall c, c + N.of_nat n < 4294967296 ->
  draws c n = map (fun i => c + 1 + N.of_nat i) (seq 0 n).
Proof.
  induction n as [|n IH]; intros c H; [reflexivity|].
  cbn [draws next_id]. rewrite N.mod_small by lia. cbn [seq map]. f_equal; [lia|].
  rewrite IH by lia. rewrite <- seq_shift, map_map. apply map_ext. intros i. lia.
Qed.

Corollary draws_from_one n : N.of_nat n < 4294967296 -> draws 0 n = map (fun i => 1 + N.of_nat i) (seq 0 n).
Proof. intros H. rewrite draws_sequence by lia. apply map_ext. intros i. lia. Qed.

Corollary draws_nth n i : N.of_nat n < 4294967296 -> (i < n)%nat -> nth_error (draws 0 n) i = Some (N.of_nat i + 1).
Proof.
  intros H L. rewrite draws_from_one by exact H. rewrite nth_error_map, (nth_error_nth' _ 0%nat) by (rewrite seq_length; exact L).
  rewrite seq_nth by exact L. cbn [option_map]. f_equal. lia.
Qed.

Theorem draws_distinct n : N.of_nat n < 4294967296 -> NoDup (draws 0 n).
Proof.
  intros H. rewrite draws_from_one by exact H. apply Injective_map_NoDup; [|apply seq_NoDup].
  intros a b E. lia.
Qed.

(* options are applied left to right: the last writer of a field wins *)
Lemma fold_app_last md opts o : fold_left apply_opt (opts ++ [o]) md = apply_opt (fold_left apply_opt opts md) o.
Proof. now rewrite fold_left_app. Qed.

(* every request constructor stamps the fresh id; caller-supplied options cannot override it *)
Theorem request_id_not_overridable counter codec ct cmd opts :
  ct = CRequest \/ ct = CMustRequest ->
  m_rid (snd (construct counter codec ct cmd opts)) = snd (next_id counter) /\
  fst (construct counter codec ct cmd opts) = fst (next_id counter) /\
  m_type (snd (construct counter codec ct cmd opts)) = PTRequest.
Proof.
  intros [->| ->]; unfold construct; cbn [next_id fst snd]; unfold new_packet; rewrite fold_app_last; cbn [apply_opt m_rid m_type];
    (split; [reflexivity|split; [reflexivity|]]);
    (assert (T : forall l md, m_type (fold_left apply_opt l md) = m_type md)
       by (induction l as [|o l IH]; intros md; cbn [fold_left]; [reflexivity|rewrite IH; destruct o; reflexivity]));
    rewrite T; reflexivity.
Qed.

(* the id a list of options leaves: the last WithRequestId, else the initial one *)
Fixpoint last_rid (opts : list popt) (d : N) : N :=
  match opts with [] => d | ORid i :: r => last_rid r i | _ :: r => last_rid r d end.
Lemma fold_rid opts : forall md, m_rid (fold_left apply_opt opts md) = last_rid opts (m_rid md).
Proof. induction opts as [|o opts IH]; intros md; cbn [fold_left last_rid]; [reflexivity|]. rewrite IH. destruct o; reflexivity. Qed.

(* response and push constructors leave the id to the caller and do not touch the counter *)
Theorem response_push_keep_caller_id counter codec ct cmd opts :
  ct <> CRequest -> ct <> CMustRequest ->
  fst (construct counter codec ct cmd opts) = counter /\
  m_rid (snd (construct counter codec ct cmd opts)) = last_rid opts 0.
Proof.
  intros H1 H2. destruct ct; try congruence; unfold construct; cbn [fst snd]; unfold new_packet;
    (split; [reflexivity|]); rewrite ?fold_app_last; cbn [apply_opt m_rid]; rewrite fold_rid; reflexivity.
Qed.

(* histories: the requests of one context, in issue order, get 1, 2, 3, ... whatever else is interleaved
   (other contexts, responses, pushes, any options) — each call being one atomic step *)
Definition is_request_on (x : nat) (c : call) : bool :=
  Nat.eqb (c_ctx c) x && match c_ctor c with CRequest | CMustRequest => true | _ => false end.

Fixpoint request_ids_on (x : nat) (cs : list call) (mds : list meta) : list N :=
  match cs, mds with
  | c :: r, md :: ms => if is_request_on x c then m_rid md :: request_ids_on x r ms else request_ids_on x r ms
  | _, _ => []
  end.

Lemma nth_upd_counter_same n a l x : nth_error l n = Some x -> nth_error (upd_counter n a l) n = Some a.
Proof. revert n. induction l as [|y l IH]; intros [|n]; cbn; try discriminate; auto. Qed.
Lemma nth_upd_counter_other n m a l : n <> m -> nth_error (upd_counter n a l) m = nth_error l m.
Proof. revert n m. induction l as [|y l IH]; intros [|n] [|m] H; cbn; try reflexivity; try congruence. apply IH. congruence. Qed.
Lemma upd_counter_length n a l : length (upd_counter n a l) = length l.
Proof. revert n. induction l as [|y l IH]; intros [|n]; cbn; auto. Qed.

Theorem ids_linearised codec : forall cs counters x cnt,
  (forall c, In c cs -> (c_ctx c < length counters)%nat) ->
  nth_error counters x = Some cnt ->
  request_ids_on x cs (run_calls codec counters cs) = draws cnt (length (filter (is_request_on x) cs)).
Proof.
  induction cs as [|c cs IH]; intros counters x cnt Hin Hx; [reflexivity|].
  cbn [run_calls]. destruct (nth_error counters (c_ctx c)) as [cc|] eqn:Hc.
  2:{ exfalso. apply nth_error_None in Hc. specialize (Hin c (or_introl eq_refl)). lia. }
  destruct (construct cc codec (c_ctor c) (c_cmd c) (c_opts c)) as [cnt' md] eqn:Hk.
  cbn [request_ids_on filter].
  assert (Hin' : forall c0, In c0 cs -> (c_ctx c0 < length (upd_counter (c_ctx c) cnt' counters))%nat).
  { intros c0 I. rewrite upd_counter_length. apply Hin. now right. }
  destruct (is_request_on x c) eqn:IR.
  - unfold is_request_on in IR. apply andb_true_iff in IR. destruct IR as [Ex Rq]. apply Nat.eqb_eq in Ex.
    assert (R : c_ctor c = CRequest \/ c_ctor c = CMustRequest) by (destruct (c_ctor c); try discriminate; auto).
    rewrite Ex in Hc. rewrite Hx in Hc. inversion Hc; subst cc.
    destruct (request_id_not_overridable cnt codec (c_ctor c) (c_cmd c) (c_opts c) R) as (A & B & _).
    rewrite Hk in A, B. cbn [fst snd] in A, B. cbn [length draws].
    destruct (next_id cnt) as [c1 id1] eqn:Nx. cbn [fst snd] in A, B. subst cnt' id1. f_equal.
    apply IH; [exact Hin'|]. rewrite Ex. eapply nth_upd_counter_same; eauto.
  - apply IH; [exact Hin'|].
    destruct (Nat.eq_dec (c_ctx c) x) as [Ex|Nx].
    + unfold is_request_on in IR. rewrite Ex, Nat.eqb_refl in IR. cbn [andb] in IR.
      assert (R1 : c_ctor c <> CRequest) by (intros E; rewrite E in IR; discriminate).
      assert (R2 : c_ctor c <> CMustRequest) by (intros E; rewrite E in IR; discriminate).
      destruct (response_push_keep_caller_id cc codec (c_ctor c) (c_cmd c) (c_opts c) R1 R2) as (A & _).
      rewrite Hk in A. cbn [fst] in A. subst cnt'. rewrite Ex in *. rewrite Hx in Hc. inversion Hc; subst cc.
      eapply nth_upd_counter_same; eauto.
    + rewrite nth_upd_counter_other; [exact Hx|exact Nx].
Qed.

(* independent contexts are independent: the ids of context x do not depend on the calls on other contexts *)
Corollary contexts_independent codec cs counters x cnt :
  (forall c, In c cs -> (c_ctx c < length counters)%nat) -> nth_error counters x = Some cnt ->
  request_ids_on x cs (run_calls codec counters cs) = draws cnt (length (filter (is_request_on x) cs)).
Proof. apply ids_linearised. Qed.

(* ===== Ids: builds that fail after the id was drawn ===== *)
(* flags: one per call, true = the call failed (its packet is discarded); the counter moved all the same *)
Fixpoint successful_request_ids (x : nat) (cs : list call) (fl : list bool) (mds : list meta) : list N :=
  match cs, fl, mds with
  | c :: r, f :: fr, md :: ms =>
      if is_request_on x c && negb f then m_rid md :: successful_request_ids x r fr ms else successful_request_ids x r fr ms
  | _, _, _ => []
  end.

Fixpoint sublist {A} (l1 l2 : list A) : Prop :=
  match l1, l2 with
  | [], _ => True
  | _ :: _, [] => False
  | a :: r1, b :: r2 => (a = b /\ sublist r1 r2) \/ sublist l1 r2
  end.
Lemma sublist_nil {A} (l : list A) : sublist [] l. Proof. destruct l; exact I. Qed.
Lemma sublist_In {A} (l1 l2 : list A) a : sublist l1 l2 -> In a l1 -> In a l2.
Proof.
  revert l1. induction l2 as [|b l2 IH]; intros [|c l1] S I; try contradiction.
  cbn in S. destruct S as [[-> S]|S].
  - destruct I as [->|I]; [now left|right; eapply IH; eauto].
  - right. eapply IH; eauto.
Qed.
Lemma sublist_NoDup {A} (l1 l2 : list A) : sublist l1 l2 -> NoDup l2 -> NoDup l1.
Proof.
  revert l1. induction l2 as [|b l2 IH]; intros [|c l1] S N; try constructor; try contradiction.
  - cbn in S. inversion N as [|? ? Nb N2]; subst. destruct S as [[-> S]|S].
    + intros I. apply Nb. eapply sublist_In; eauto.
    + intros I. assert (N1 : NoDup (c :: l1)) by (apply IH; auto). inversion N1; auto.
  - cbn in S. inversion N as [|? ? Nb N2]; subst. destruct S as [[-> S]|S]; [now apply IH|].
    assert (N1 : NoDup (c :: l1)) by (apply IH; auto). inversion N1; auto.
Qed.

Lemma successful_sublist x cs : forall fl mds, sublist (successful_request_ids x cs fl mds) (request_ids_on x cs mds).
Proof.
  induction cs as [|c cs IH]; intros [|f fl] [|md mds]; cbn; try exact I; try apply sublist_nil.
  destruct (is_request_on x c); cbn [andb].
  - destruct f; cbn [negb].
    + specialize (IH fl mds). destruct (successful_request_ids x cs fl mds); [exact I|]. right. exact IH.
    + left. split; [reflexivity|apply IH].
  - apply IH.
Qed.

(* whatever builds fail: the ids of the successful requests of a fresh context are a sublist of 1, 2, 3, ... in
   issue order - pairwise distinct and strictly increasing *)
Theorem successful_ids_sublist codec cs fl counters x :
  (forall c, In c cs -> (c_ctx c < length counters)%nat) -> nth_error counters x = Some 0 ->
  sublist (successful_request_ids x cs fl (run_calls codec counters cs)) (draws 0 (length (filter (is_request_on x) cs))).
Proof. intros H Hx. rewrite <- (ids_linearised codec cs counters x 0 H Hx). apply successful_sublist. Qed.
Theorem successful_ids_distinct codec cs fl counters x :
  (forall c, In c cs -> (c_ctx c < length counters)%nat) -> nth_error counters x = Some 0 ->
  N.of_nat (length (filter (is_request_on x) cs)) < 4294967296 ->
  NoDup (successful_request_ids x cs fl (run_calls codec counters cs)).
Proof. intros H Hx B. eapply sublist_NoDup; [apply successful_ids_sublist; eauto|apply draws_distinct; exact B]. Qed.
