From Coq Require Import List NArith Bool Arith Lia.
From OAP Require Import Model.Races.
Import ListNotations.

Lemma holds_app_no_touch : forall mid tr t l,
  (forall m, ~ In (Acq t l m) mid) -> ~ In (Rel t l) mid -> holds (mid ++ tr) t l = holds tr t l.
Proof.
  induction mid as [|e mid IH]; intros tr t l NA NR; [reflexivity|].
  cbn [app holds]. rewrite IH.
  - destruct e as [t' l' m|t' l'|t' s]; try reflexivity.
    + destruct (Nat.eqb t t' && Nat.eqb l l') eqn:E; [|reflexivity].
      apply andb_prop in E. destruct E as [E1 E2]. apply Nat.eqb_eq in E1, E2. subst. exfalso. apply (NA m). now left.
    + destruct (Nat.eqb t t' && Nat.eqb l l') eqn:E; [|reflexivity].
      apply andb_prop in E. destruct E as [E1 E2]. apply Nat.eqb_eq in E1, E2. subst. exfalso. apply NR. now left.
  - intros m H. apply (NA m). now right.
  - intros H. apply NR. now right.
Qed.

Lemma wf_app : forall a b, wf (a ++ b) -> wf b.
Proof. induction a as [|e a IH]; intros b W; [exact W|]. apply IH. inversion W; assumption. Qed.

(* mutual exclusion: what wf guarantees about two holders *)
Lemma exclusion : forall tr, wf tr -> forall t1 t2 l m1 m2, t1 <> t2 ->
  holds tr t1 l = Some m1 -> holds tr t2 l = Some m2 -> m1 = MR /\ m2 = MR.
Proof.
  induction 1 as [|tr t l m W IH Hn Hc|tr t l W IH Hh|tr t s W IH]; intros t1 t2 l0 m1 m2 D H1 H2.
  - discriminate.
  - cbn [holds] in H1, H2.
    destruct (Nat.eqb t1 t && Nat.eqb l0 l) eqn:E1; destruct (Nat.eqb t2 t && Nat.eqb l0 l) eqn:E2.
    + apply andb_prop in E1, E2. destruct E1 as [A _], E2 as [B _]. apply Nat.eqb_eq in A, B. congruence.
    + apply andb_prop in E1. destruct E1 as [A B]. apply Nat.eqb_eq in A, B. subst.
      injection H1 as <-. specialize (Hc t2 (fun e => D (eq_sym e))). rewrite H2 in Hc. cbn in Hc. tauto.
    + apply andb_prop in E2. destruct E2 as [A B]. apply Nat.eqb_eq in A, B. subst.
      injection H2 as <-. specialize (Hc t1 D). rewrite H1 in Hc. cbn in Hc. tauto.
    + eapply IH; eauto.
  - cbn [holds] in H1, H2.
    destruct (Nat.eqb t1 t && Nat.eqb l0 l); [discriminate|]. destruct (Nat.eqb t2 t && Nat.eqb l0 l); [discriminate|].
    eapply IH; eauto.
  - cbn [holds] in H1, H2. eapply IH; eauto.
Qed.

(* a holding at the end of mid++tr either dates from before mid, untouched, or stems from a last acquisition in mid *)
Lemma last_acquire : forall mid tr t l m,
  holds (mid ++ tr) t l = Some m ->
  holds tr t l = Some m \/ exists c b, mid = c ++ Acq t l m :: b.
Proof.
  induction mid as [|e mid IH]; intros tr t l m H; [left; exact H|].
  cbn [app holds] in H.
  destruct e as [t' l' m0|t' l'|t' s].
  - destruct (Nat.eqb t t' && Nat.eqb l l') eqn:E.
    + apply andb_prop in E. destruct E as [A B]. apply Nat.eqb_eq in A, B. subst. injection H as <-.
      right. exists [], mid. reflexivity.
    + destruct (IH tr t l m H) as [L|(c & b & ->)]; [left; exact L|right].
      exists (Acq t' l' m0 :: c), b. reflexivity.
  - destruct (Nat.eqb t t' && Nat.eqb l l') eqn:E; [discriminate|].
    destruct (IH tr t l m H) as [L|(c & b & ->)]; [left; exact L|right]. exists (Rel t' l' :: c), b. reflexivity.
  - destruct (IH tr t l m H) as [L|(c & b & ->)]; [left; exact L|right]. exists (Acc t' s :: c), b. reflexivity.
Qed.

(* a thread that held l keeps holding it in the same mode, unless it released *)
Lemma held_or_released : forall b tr t l m1, wf (b ++ tr) -> holds tr t l = Some m1 ->
  holds (b ++ tr) t l = Some m1 \/ exists b2 a, b = b2 ++ Rel t l :: a.
Proof.
  induction b as [|e b IH]; intros tr t l m1 W H; [left; exact H|].
  cbn [app] in W. assert (W' : wf (b ++ tr)) by (inversion W; assumption).
  destruct (IH tr t l m1 W' H) as [K|(b2 & a & ->)].
  - cbn [app holds]. destruct e as [t' l' m0|t' l'|t' s]; try (left; exact K).
    + destruct (Nat.eqb t t' && Nat.eqb l l') eqn:E; [|left; exact K].
      apply andb_prop in E. destruct E as [A B]. apply Nat.eqb_eq in A, B. subst.
      inversion W; subst. congruence.
    + destruct (Nat.eqb t t' && Nat.eqb l l') eqn:E; [|left; exact K].
      apply andb_prop in E. destruct E as [A B]. apply Nat.eqb_eq in A, B. subst.
      right. exists [], b. reflexivity.
  - right. exists (e :: b2), a. reflexivity.
Qed.

(* ---- the lockset theorem ----
   Two accesses by different threads, each made while holding lock l, not both in read mode:
   the first thread released l after its access and the second acquired it after that, before its own. *)
Theorem common_lock_orders : forall mid tr t1 t2 s1 l m1 m2,
  wf (mid ++ Acc t1 s1 :: tr) -> t1 <> t2 ->
  holds tr t1 l = Some m1 -> holds (mid ++ Acc t1 s1 :: tr) t2 l = Some m2 ->
  both_read m1 m2 = false ->
  ordered_between mid t1 t2.
Proof.
  intros mid tr t1 t2 s1 l m1 m2 W D H1 H2 C.
  assert (Wtr : wf tr). { apply wf_app in W. inversion W; assumption. }
  destruct (last_acquire mid (Acc t1 s1 :: tr) t2 l m2 H2) as [L|(c & b & ->)].
  - cbn [holds] in L. destruct (exclusion tr Wtr t1 t2 l m1 m2 D H1 L) as [-> ->]. discriminate C.
  - rewrite <- app_assoc in W. cbn [app] in W. apply wf_app in W.
    assert (Wb : wf (b ++ Acc t1 s1 :: tr)) by (inversion W; assumption).
    assert (H1' : holds (Acc t1 s1 :: tr) t1 l = Some m1) by exact H1.
    destruct (held_or_released b (Acc t1 s1 :: tr) t1 l m1 Wb H1') as [K|(b2 & a & ->)].
    + exfalso. inversion W as [|tr' t' l' m' W0 Hn Hc| |]; subst.
      specialize (Hc t1 D). rewrite K in Hc. cbn in Hc. destruct Hc as [-> ->]. discriminate C.
    + exists l, m2, a, b2, c. reflexivity.
Qed.

(* ---- from the inventory to every trace ---- *)
Lemma protects_spec : forall a b, protects a b = true ->
  exists l m1 m2, In (l, m1) (s_locks a) /\ In (l, m2) (s_locks b) /\ both_read m1 m2 = false.
Proof.
  intros a b H. unfold protects in H. apply existsb_exists in H. destruct H as ([l m1] & I1 & H).
  apply existsb_exists in H. destruct H as ([l' m2] & I2 & H). cbn [fst snd] in H.
  apply andb_prop in H. destruct H as [E N]. apply Nat.eqb_eq in E. subst l'.
  exists l, m1, m2. repeat split; auto. now apply negb_true_iff in N.
Qed.

Lemma disciplined_pair : forall inv a b, disciplined inv = true -> In a inv -> In b inv -> pair_ok a b = true.
Proof.
  intros inv a b H Ia Ib. unfold disciplined in H. rewrite forallb_forall in H. specialize (H a Ia).
  rewrite forallb_forall in H. exact (H b Ib).
Qed.

Lemma follows_app : forall inv a b, follows inv (a ++ b) -> follows inv b.
Proof.
  induction a as [|e a IH]; intros b F; [exact F|]. apply IH. cbn [app follows] in F. destruct e; try exact F. tauto.
Qed.

Lemma covers_both_read : forall m1 m2 m1' m2', covers m1' m1 = true -> covers m2' m2 = true ->
  both_read m1 m2 = false -> both_read m1' m2' = false.
Proof. intros [] [] [] []; cbn; congruence. Qed.

(* every two conflicting accesses by different threads, in every execution that respects the inventory, are ordered
   by a release/acquire pair on a common lock: no data race *)
Theorem disciplined_no_race : forall inv, disciplined inv = true ->
  forall mid tr t1 t2 s1 s2,
    wf (Acc t2 s2 :: mid ++ Acc t1 s1 :: tr) -> follows inv (Acc t2 s2 :: mid ++ Acc t1 s1 :: tr) ->
    t1 <> t2 -> conflicting s1 s2 = true ->
    ordered_between mid t1 t2.
Proof.
  intros inv Di mid tr t1 t2 s1 s2 W F D C.
  cbn [follows] in F. destruct F as (I2 & L2 & F).
  apply follows_app in F. cbn [follows] in F. destruct F as (I1 & L1 & _).
  assert (P := disciplined_pair inv s1 s2 Di I1 I2). unfold pair_ok in P. rewrite C in P. cbn in P.
  destruct (protects_spec s1 s2 P) as (l & m1 & m2 & J1 & J2 & NR).
  destruct (L1 l m1 J1) as (m1' & H1 & C1). destruct (L2 l m2 J2) as (m2' & H2 & C2).
  assert (W' : wf (mid ++ Acc t1 s1 :: tr)) by (inversion W; assumption).
  eapply common_lock_orders with (l := l) (m1 := m1') (m2 := m2'); eauto.
  eapply covers_both_read; eauto.
Qed.
