(* Proofs/FrameP.v — C02: the encoder produces exactly the bytes of the published layout
   (Spec.v) and the one-shot decoder reads every frame of the layout back to the field
   values the layout assigns; C01's one-shot round trip follows. *)
From Coq Require Import List NArith ZArith Lia Bool.
From Coq.Strings Require Import Byte.
From Coq Require Import ZifyBool ZifyN ZifyNat.
From OAP Require Import Base.Bytes Base.Res Base.Sweep Gen.Consts Model.Metadata Model.Header Model.Frame Model.Spec
  Proofs.MetadataP Proofs.BitsP.
Import ListNotations.
Local Open Scope N_scope.
Ltac Zify.zify_post_hook ::= Z.div_mod_to_equations.

(* ---------------- slices and copies ---------------- *)
Lemma zeros_app n m : zeros (n + m) = zeros n ++ zeros m.
Proof. unfold zeros. apply repeat_app. Qed.
Lemma zeros_length n : length (zeros n) = n.
Proof. apply repeat_length. Qed.

Lemma copy_at_replace (a b c src : bytes) :
  length src = length b -> copy_at (a ++ b ++ c) (length a) src = Ok (a ++ src ++ c).
Proof.
  intros L. unfold copy_at. rewrite !app_length.
  replace (length a <=? length a + (length b + length c))%nat with true by (symmetry; apply Nat.leb_le; lia).
  replace (Nat.min (length src) (length a + (length b + length c) - length a)) with (length src) by lia.
  rewrite firstn_app, firstn_all, Nat.sub_diag. cbn [firstn]. rewrite app_nil_r.
  rewrite firstn_all. f_equal. f_equal.
  rewrite skipn_app, skipn_all2 by lia. cbn [app].
  replace (length a + length src - length a)%nat with (length b) by lia.
  rewrite skipn_app, skipn_all, Nat.sub_diag. reflexivity.
Qed.

Lemma copy_at_head (b c src : bytes) : length src = length b -> copy_at (b ++ c) 0 src = Ok (src ++ c).
Proof. intros L. exact (copy_at_replace [] b c src L). Qed.

Definition sig16 (s : bytes) : bytes := firstn 16 s ++ zeros (16 - length s).
Lemma sig16_length s : length (sig16 s) = 16%nat.
Proof. unfold sig16. rewrite app_length, firstn_length, zeros_length. lia. Qed.
Lemma sig16_id s : length s = 16%nat -> sig16 s = s.
Proof. intros L. unfold sig16. rewrite L. cbn [Nat.sub zeros repeat]. rewrite app_nil_r. rewrite <- L. apply firstn_all. Qed.

Lemma skipn_zeros n m : skipn n (zeros m) = zeros (m - n).
Proof.
  revert m. induction n as [|n IH]; intros m; [now rewrite Nat.sub_0_r|].
  destruct m as [|m]; [reflexivity|]. cbn [zeros repeat skipn Nat.sub]. apply IH.
Qed.

Lemma copy_at_tail16 (a src : bytes) : copy_at (a ++ zeros 16) (length a) src = Ok (a ++ sig16 src).
Proof.
  unfold copy_at, sig16. rewrite app_length, zeros_length.
  replace (length a <=? length a + 16)%nat with true by (symmetry; apply Nat.leb_le; lia).
  replace (length a + 16 - length a)%nat with 16%nat by lia.
  rewrite firstn_app, firstn_all, Nat.sub_diag, firstn_O, app_nil_r. f_equal. f_equal.
  rewrite skipn_app, skipn_all2 by lia. cbn [app].
  replace (length a + Nat.min (length src) 16 - length a)%nat with (Nat.min (length src) 16) by lia.
  rewrite skipn_zeros.
  destruct (Nat.le_ge_cases (length src) 16) as [L|G].
  - rewrite Nat.min_l by exact L. rewrite (firstn_all2 src L). now rewrite firstn_all.
  - rewrite Nat.min_r by exact G. replace (16 - length src)%nat with 0%nat by lia. reflexivity.
Qed.

Lemma go_slice_ok {A} lo hi (l : list A) : (lo <= hi)%nat -> (hi <= length l)%nat -> exists x, go_slice lo hi l = Ok x.
Proof.
  intros H1 H2. unfold go_slice.
  replace ((lo <=? hi)%nat && (hi <=? length l)%nat) with true by (symmetry; apply andb_true_iff; split; apply Nat.leb_le; lia).
  eauto.
Qed.

(* ---------------- what Pack puts on the wire ---------------- *)
Definition pack_compresses (thr : Z) (body : bytes) : bool :=
  negb (thr =? 0)%Z && (Z.of_nat (length body) >=? thr)%Z.
Definition wire_body (gz : gzoracle) (thr : Z) (body : bytes) : bytes :=
  if pack_compresses thr body then gz_compress gz body else body.
Definition wire_md (thr : Z) (p : packet) : meta :=
  if pack_compresses thr (p_body p) then set_gzip (p_md p) else p_md p.

Definition fields_of (gz : gzoracle) (v : N) (thr : Z) (p : packet) : fields :=
  let md := p_md p in
  mkFields (ty_of (m_type md)) (m_verify md) (m_gzip md || pack_compresses thr (p_body p)) 0
           (N.land (m_cmd md) 255 mod 256) (m_rid md) (m_timeout md) (m_status md)
           (if v =? 2 then marshal_values (m_values md) (Z.of_N c_MaxMetadataLength) else [])
           (wire_body gz thr (p_body p)) (m_nonce md) (sig16 (m_sig md)).

Local Opaque N.add N.mul N.div N.modulo N.lor N.land N.shiftl N.shiftr N.sub N.pow.

Lemma ty_of_cases t : t <> PTNone -> ty_of t = 1 \/ ty_of t = 2 \/ ty_of t = 3.
Proof. destruct consts_frame as (E1 & E2 & E3 & _). destruct t; unfold ty_of; rewrite ?E1, ?E2, ?E3; intros H; auto; congruence. Qed.

Lemma mdb_length_small m : N.of_nat (length (marshal_values m (Z.of_N c_MaxMetadataLength))) <= 65535.
Proof.
  pose proof (marshal_budget m (Z.of_N c_MaxMetadataLength)) as B.
  destruct consts_frame as (_ & _ & _ & _ & _ & _ & _ & _ & _ & _ & _ & EM & _). rewrite EM in *. lia.
Qed.

Lemma hdr_pack_spec v h f :
  (h_ty h = 1 \/ h_ty h = 2 \/ h_ty h = 3) -> h_blen h <= c_MaxBodyLength ->
  f_ty f = h_ty h -> b2n (f_verify f) = h_verify h -> b2n (f_gzip f) = h_gzip h -> f_reserve f = h_reserve h -> h_reserve h < 4 ->
  f_cmd f = h_cmd h -> f_rid f = h_rid h -> f_timeout f = h_timeout h -> f_status f = h_status h ->
  N.of_nat (length (f_meta f)) = h_mlen h -> N.of_nat (length (f_body f)) = h_blen h ->
  hdr_pack v h = Ok (spec_header v f) /\ N.of_nat (length (spec_header v f)) = hdr_len v (h_ty h).
Proof.
  intros T B Ety Eve Egz Ers Rs Ecmd Erid Etmo Est Eml Ebl.
  destruct consts_frame as (E1 & E2 & E3 & _ & _ & _ & _ & _ & _ & _ & EMax & _).
  assert (P0 : pack_b0 h = spec_b0 f).
  { rewrite pack_b0_eq, b0_encode; unfold spec_b0; rewrite ?Ety, ?Eve, ?Egz, ?Ers; try lia;
    try (destruct (f_verify f); cbn in Eve; lia); try (destruct (f_gzip f); cbn in Egz; lia). }
  assert (HL : N.of_nat (length (spec_header v f)) = hdr_len v (h_ty h)).
  { rewrite hdr_len_spec by exact T. unfold spec_header, spec_header_len. rewrite Ety.
    destruct T as [T|[T|T]]; rewrite T; cbn [N.eqb Pos.eqb orb]; destruct (v =? 2);
      rewrite !app_length, ?be_length; cbn [length app]; vm_compute; reflexivity. }
  split; [|exact HL].
  unfold hdr_pack.
  assert (U : is_unknown (h_ty h) = false)
    by (unfold is_unknown, is_req, is_resp, is_push; rewrite E1, E2, E3; destruct T as [T|[T|T]]; rewrite T; reflexivity).
  rewrite U. replace (c_MaxBodyLength <? h_blen h) with false by lia.
  match goal with |- (if N.of_nat (length ?d) =? _ then _ else _) = _ => assert (D : d = spec_header v f) end.
  { unfold spec_header. rewrite Ety, P0, <- Ecmd, <- Erid, <- Etmo, <- Est, Eml, Ebl, <- be3_shifts.
    unfold is_req, is_resp. rewrite E1, E2.
    destruct T as [T|[T|T]]; rewrite T; cbn [N.eqb Pos.eqb orb app]; rewrite <- ?app_assoc, ?app_nil_r; reflexivity. }
  rewrite D, HL, N.eqb_refl. reflexivity.
Qed.

(* ---------------- encoder = layout ---------------- *)
Theorem pack_is_spec gz v thr stale p :
  m_type (p_md p) <> PTNone ->
  N.of_nat (length (wire_body gz thr (p_body p))) <= c_MaxBodyLength ->
  pack gz v thr stale p = Ok (spec_frame v (fields_of gz v thr p), mkPacket (wire_md thr p) (wire_body gz thr (p_body p))).
Proof.
  intros T B. destruct consts_frame as (E1 & E2 & E3 & _ & _ & _ & _ & _ & _ & _ & EMax & EMd & ENon & ESig).
  unfold pack. fold (pack_compresses thr (p_body p)). fold (wire_body gz thr (p_body p)). fold (wire_md thr p).
  set (body := wire_body gz thr (p_body p)) in *. set (md := wire_md thr p).
  replace (c_MaxBodyLength <? N.of_nat (length body)) with false by lia.
  set (mdb := if v =? 2 then marshal_values (m_values md) (Z.of_N c_MaxMetadataLength) else []).
  set (f := fields_of gz v thr p).
  assert (Emd_vals : m_values md = m_values (p_md p)) by (unfold md, wire_md; destruct (pack_compresses _ _); reflexivity).
  assert (Emdb : mdb = f_meta f) by (unfold mdb, f, fields_of; cbn [f_meta]; now rewrite Emd_vals).
  assert (Lmdb : N.of_nat (length mdb) <= 65535).
  { unfold mdb. destruct (v =? 2); [apply mdb_length_small|cbn; lia]. }
  set (h := with_lens (hdr_from_md v stale md) (N.of_nat (length mdb) mod 65536) (N.of_nat (length body) mod 4294967296)).
  assert (Ety : h_ty h = ty_of (m_type (p_md p))).
  { unfold h, md, wire_md. destruct (pack_compresses _ _); reflexivity. }
  pose proof (ty_of_cases _ T) as Tc. rewrite <- Ety in Tc.
  assert (Egz : m_gzip md = (m_gzip (p_md p) || pack_compresses thr (p_body p))).
  { unfold md, wire_md. destruct (pack_compresses _ _); cbn; [now rewrite orb_true_r|now rewrite orb_false_r]. }
  assert (Emeta : forall g : meta -> N, (forall a b c d e ff gg hh i j k, g (mkMeta a b c d true ff gg hh i j k) = g (mkMeta a b c d e ff gg hh i j k)) -> g md = g (p_md p)).
  { intros g Hg. unfold md, wire_md. destruct (pack_compresses _ _); [|reflexivity]. unfold set_gzip. destruct (p_md p). cbn. apply Hg. }
  destruct (hdr_pack_spec v h f) as [HP HL]; try exact Tc.
  - unfold h. cbn [with_lens h_blen]. rewrite EMax in *. lia.
  - unfold f, fields_of. cbn [f_ty]. now rewrite Ety.
  - unfold f, fields_of, h. cbn. unfold md, wire_md. destruct (pack_compresses _ _); cbn; destruct (m_verify (p_md p)); reflexivity.
  - unfold f, fields_of, h. cbn. rewrite Egz. destruct (m_gzip (p_md p) || pack_compresses thr (p_body p)); reflexivity.
  - reflexivity.
  - cbn. lia.
  - unfold f, fields_of, h. cbn. unfold md, wire_md. destruct (pack_compresses _ _); reflexivity.
  - unfold f, fields_of, h. cbn. unfold md, wire_md. destruct (pack_compresses _ _); reflexivity.
  - unfold f, fields_of, h. cbn. unfold md, wire_md. destruct (pack_compresses _ _); reflexivity.
  - unfold f, fields_of, h. cbn. unfold md, wire_md. destruct (pack_compresses _ _); reflexivity.
  - rewrite <- Emdb. unfold h. cbn [with_lens h_mlen]. lia.
  - unfold f, fields_of. cbn [f_body]. fold body. unfold h. cbn [with_lens h_blen]. rewrite EMax in B. lia.
  - rewrite HP. cbn [bind].
    set (hd := spec_header v f) in *.
    assert (Hhl : N.to_nat (if is_req (h_ty h) then hdr_len v (h_ty h) else if is_resp (h_ty h) then hdr_len v (h_ty h)
                            else if is_push (h_ty h) then hdr_len v (h_ty h) else 0) = length hd).
    { rewrite <- HL. unfold is_req, is_resp, is_push. rewrite E1, E2, E3.
      destruct Tc as [Tc|[Tc|Tc]]; rewrite Tc; cbn [N.eqb Pos.eqb]; lia. }
    rewrite Hhl. set (tl := if m_verify md then (N.to_nat c_NonceLength + N.to_nat c_SignatureLength)%nat else 0%nat).
    replace (length hd + length body + length mdb + tl)%nat with (length hd + (length mdb + (length body + tl)))%nat by lia.
    rewrite !zeros_app.
    rewrite copy_at_head by (now rewrite zeros_length). cbn [bind].
    rewrite copy_at_replace by (now rewrite zeros_length). cbn [bind].
    rewrite (app_assoc hd mdb), <- (app_length hd mdb).
    rewrite copy_at_replace by (now rewrite zeros_length). cbn [bind].
    assert (Ever : m_verify md = m_verify (p_md p)) by (unfold md, wire_md; destruct (pack_compresses _ _); reflexivity).
    unfold spec_frame, spec_trailer. fold hd. rewrite <- Emdb.
    match goal with |- context [hd ++ ?x ++ f_body f ++ _] => replace x with mdb by (unfold mdb; destruct (v =? 2); reflexivity) end.
    unfold f at 1 2 3. unfold fields_of. cbn [f_body f_verify f_nonce f_sig]. fold body.
    unfold tl. rewrite Ever. destruct (m_verify (p_md p)) eqn:Ve.
    + rewrite ENon, ESig. change (N.to_nat 8) with 8%nat. change (N.to_nat 16) with 16%nat.
      replace (8 + 16)%nat with (8 + 16)%nat by reflexivity. rewrite (zeros_app 8 16).
      set (pre := (hd ++ mdb) ++ body).
      replace (length (hd ++ mdb) + length body)%nat with (length pre) by (unfold pre; rewrite !app_length; lia).
      replace ((hd ++ mdb) ++ body ++ zeros 8 ++ zeros 16) with (pre ++ zeros 8 ++ zeros 16) by (unfold pre; now rewrite <- !app_assoc).
      destruct (go_slice_ok (length pre) (length pre + 8) (pre ++ zeros 8 ++ zeros 16)) as [x Hx]; [lia|rewrite !app_length, !zeros_length; lia|].
      rewrite Hx. cbn [bind].
      rewrite copy_at_replace by (now rewrite be_length, zeros_length). cbn [bind].
      rewrite (app_assoc pre (be 8 _)).
      replace (length pre + 8)%nat with (length (pre ++ be 8 (m_nonce md))) by (rewrite app_length, be_length; lia).
      rewrite copy_at_tail16. cbn [bind]. f_equal. f_equal.
      * unfold pre. rewrite <- !app_assoc. do 3 f_equal.
        assert (En : m_nonce md = m_nonce (p_md p)) by (unfold md, wire_md; destruct (pack_compresses _ _); reflexivity).
        assert (Es : m_sig md = m_sig (p_md p)) by (unfold md, wire_md; destruct (pack_compresses _ _); reflexivity).
        now rewrite En, Es.
    + cbn [bind]. cbn [zeros repeat]. rewrite !app_nil_r. now rewrite <- !app_assoc.
Qed.

(* ---------------- decoder reads the layout ---------------- *)
Definition packet_of (codec : N) (f : fields) (vals : mdmap) (body : bytes) : packet :=
  mkPacket (mkMeta (if f_verify f then f_nonce f else 0)
                   (if (f_ty f =? 1) || (f_ty f =? 2) then f_rid f else 0)
                   (f_cmd f) (f_verify f) (f_gzip f)
                   (if f_ty f =? 1 then f_timeout f else 0) codec
                   (if f_ty f =? 2 then f_status f else 0)
                   (ptype_of (f_ty f)) (if f_verify f then f_sig f else []) vals) body.

Local Arguments de : simpl never.
Local Arguments b8 : simpl never.
Local Arguments bN : simpl never.

Lemma pow256_1 : 256 ^ N.of_nat 1 = 256. Proof. vm_compute. reflexivity. Qed.
Lemma pow256_2 : 256 ^ N.of_nat 2 = 65536. Proof. vm_compute. reflexivity. Qed.
Lemma pow256_3 : 256 ^ N.of_nat 3 = 16777216. Proof. vm_compute. reflexivity. Qed.
Lemma pow256_4 : 256 ^ N.of_nat 4 = 4294967296. Proof. vm_compute. reflexivity. Qed.
Lemma pow256_8 : 256 ^ N.of_nat 8 = 18446744073709551616. Proof. vm_compute. reflexivity. Qed.

Lemma de_be_small k x : x < 256 ^ N.of_nat k -> de (be k x) = x.
Proof. intros H. rewrite de_be. now apply N.mod_small. Qed.

Lemma b0_roundtrip f : f_ty f < 16 -> f_reserve f < 4 ->
  let b := bN (b8 (spec_b0 f)) in
  b0_ty b = f_ty f /\ b0_verify b = b2n (f_verify f) /\ b0_gzip b = b2n (f_gzip f) /\ b0_reserve b = f_reserve f.
Proof.
  intros Ht Hr b. destruct (b0_decode (b8 (spec_b0 f))) as (A & B & C & D). fold b in A, B, C, D.
  assert (Eb : b = spec_b0 f).
  { unfold b. rewrite bN_b8. apply N.mod_small. unfold spec_b0. destruct (f_verify f), (f_gzip f); cbn [b2n]; lia. }
  rewrite A, B, C, D, Eb. unfold spec_b0. destruct (f_verify f), (f_gzip f); cbn [b2n]; repeat split; lia.
Qed.

Lemma go_slice_mid0 {A} (s r : list A) : go_slice 0 (length s) (s ++ r) = Ok s.
Proof. pose proof (go_slice_mid [] s r) as G. cbn [length app] in G. now rewrite Nat.add_0_r in G. Qed.

Lemma go_slice_mid' {A} (pre s r : list A) n m :
  n = length pre -> m = (length s + length pre)%nat -> go_slice n m (pre ++ s ++ r) = Ok s.
Proof. intros -> ->. apply go_slice_mid. Qed.

Lemma go_slice_from_mid' {A} (pre r : list A) n : n = length pre -> go_slice_from n (pre ++ r) = Ok r.
Proof. intros ->. apply go_slice_from_mid. Qed.

(* the header parser on explicit header bytes, one lemma per (type, version) *)
Definition blen3 (l2 l1 l0 : byte) : N := N.lor (N.lor (N.shiftl (bN l2) 16) (N.shiftl (bN l1) 8)) (bN l0).

Lemma tail_req_v2 v h b0 c r3 r2 r1 r0 t1 t0 m1 m0 l2 l1 l0 rest : (v =? 2) = true -> h_ty h = 1 ->
  hdr_unpack_bytes_tail v h (b0 :: c :: r3 :: r2 :: r1 :: r0 :: t1 :: t0 :: m1 :: m0 :: l2 :: l1 :: l0 :: rest) =
  Ok (with_rest h (bN c) (de [r3; r2; r1; r0]) (de [t1; t0]) (h_status h) (de [m1; m0]) (blen3 l2 l1 l0) (h_unpacked h), rest).
Proof. intros V T. unfold hdr_unpack_bytes_tail, hdr_len. rewrite T, V. reflexivity. Qed.
Lemma tail_req_v1 v h b0 c r3 r2 r1 r0 t1 t0 l2 l1 l0 rest : (v =? 2) = false -> h_ty h = 1 ->
  hdr_unpack_bytes_tail v h (b0 :: c :: r3 :: r2 :: r1 :: r0 :: t1 :: t0 :: l2 :: l1 :: l0 :: rest) =
  Ok (with_rest h (bN c) (de [r3; r2; r1; r0]) (de [t1; t0]) (h_status h) (h_mlen h) (blen3 l2 l1 l0) (h_unpacked h), rest).
Proof. intros V T. unfold hdr_unpack_bytes_tail, hdr_len. rewrite T, V. reflexivity. Qed.
Lemma tail_resp_v2 v h b0 c r3 r2 r1 r0 st m1 m0 l2 l1 l0 rest : (v =? 2) = true -> h_ty h = 2 ->
  hdr_unpack_bytes_tail v h (b0 :: c :: r3 :: r2 :: r1 :: r0 :: st :: m1 :: m0 :: l2 :: l1 :: l0 :: rest) =
  Ok (with_rest h (bN c) (de [r3; r2; r1; r0]) (h_timeout h) (de [st]) (de [m1; m0]) (blen3 l2 l1 l0) (h_unpacked h), rest).
Proof. intros V T. unfold hdr_unpack_bytes_tail, hdr_len. rewrite T, V. reflexivity. Qed.
Lemma tail_resp_v1 v h b0 c r3 r2 r1 r0 st l2 l1 l0 rest : (v =? 2) = false -> h_ty h = 2 ->
  hdr_unpack_bytes_tail v h (b0 :: c :: r3 :: r2 :: r1 :: r0 :: st :: l2 :: l1 :: l0 :: rest) =
  Ok (with_rest h (bN c) (de [r3; r2; r1; r0]) (h_timeout h) (de [st]) (h_mlen h) (blen3 l2 l1 l0) (h_unpacked h), rest).
Proof. intros V T. unfold hdr_unpack_bytes_tail, hdr_len. rewrite T, V. reflexivity. Qed.
Lemma tail_push_v2 v h b0 c m1 m0 l2 l1 l0 rest : (v =? 2) = true -> h_ty h = 3 ->
  hdr_unpack_bytes_tail v h (b0 :: c :: m1 :: m0 :: l2 :: l1 :: l0 :: rest) =
  Ok (with_rest h (bN c) (h_rid h) (h_timeout h) (h_status h) (de [m1; m0]) (blen3 l2 l1 l0) (h_unpacked h), rest).
Proof. intros V T. unfold hdr_unpack_bytes_tail, hdr_len. rewrite T, V. reflexivity. Qed.
Lemma tail_push_v1 v h b0 c l2 l1 l0 rest : (v =? 2) = false -> h_ty h = 3 ->
  hdr_unpack_bytes_tail v h (b0 :: c :: l2 :: l1 :: l0 :: rest) =
  Ok (with_rest h (bN c) (h_rid h) (h_timeout h) (h_status h) (h_mlen h) (blen3 l2 l1 l0) (h_unpacked h), rest).
Proof. intros V T. unfold hdr_unpack_bytes_tail, hdr_len. rewrite T, V. reflexivity. Qed.

Lemma de_be4 x : x < 4294967296 -> de [b8 (x / 256 ^ 3); b8 (x / 256 ^ 2); b8 (x / 256 ^ 1); b8 (x / 256 ^ 0)] = x.
Proof. intros H. change (de (be 4 x) = x). apply de_be_small. rewrite pow256_4. exact H. Qed.
Lemma de_be2 x : x < 65536 -> de [b8 (x / 256 ^ 1); b8 (x / 256 ^ 0)] = x.
Proof. intros H. change (de (be 2 x) = x). apply de_be_small. rewrite pow256_2. exact H. Qed.
Lemma de_be1 x : x < 256 -> de [b8 x] = x.
Proof. intros H. unfold de. cbn [fold_left]. rewrite bN_b8. lia. Qed.
Lemma blen3_be x : x < 16777216 -> blen3 (b8 (x / 256 ^ 2)) (b8 (x / 256 ^ 1)) (b8 (x / 256 ^ 0)) = x.
Proof. intros H. unfold blen3. rewrite blen_decode. change (de (be 3 x) = x). apply de_be_small. rewrite pow256_3. exact H. Qed.

Lemma hdr_unpack_spec v stale f :
  wf_fields v f = true ->
  hdr_unpack_bytes v (pool_get v stale) (spec_header v f ++ f_meta f ++ f_body f ++ spec_trailer f) =
               Ok (mkHdr (if (f_ty f =? 1) || (f_ty f =? 2) then f_rid f else 0) (N.of_nat (length (f_body f)))
                         (if f_ty f =? 1 then f_timeout f else 0) (f_ty f) (b2n (f_verify f)) (b2n (f_gzip f)) (f_reserve f)
                         (f_cmd f) (if f_ty f =? 2 then f_status f else 0)
                         (if v =? 2 then N.of_nat (length (f_meta f)) else 0) false false,
                   f_meta f ++ f_body f ++ spec_trailer f).
Proof.
  intros W. unfold wf_fields in W. rewrite !andb_true_iff in W.
  destruct W as [[[[[[[[[[Wt Wr] Wc] Wrid] Wtm] Wst] Wml] Wbl] Wn] Wsig] Wv1].
  apply N.ltb_lt in Wr, Wc, Wrid, Wtm, Wst, Wml, Wbl, Wn.
  assert (Tc : f_ty f = 1 \/ f_ty f = 2 \/ f_ty f = 3) by (rewrite !orb_true_iff, !N.eqb_eq in Wt; tauto).
  destruct (b0_roundtrip f ltac:(lia) Wr) as (B1 & B2 & B3 & B4). cbv zeta in B1, B2, B3, B4.
  set (rest := f_meta f ++ f_body f ++ spec_trailer f).
  unfold spec_header. cbn [app]. unfold hdr_unpack_bytes. rewrite B1, B2, B3, B4.
  set (h1 := with_b0 (pool_get v stale) (f_ty f) (b2n (f_verify f)) (b2n (f_gzip f)) (f_reserve f) (h_begin (pool_get v stale))).
  assert (T1 : h_ty h1 = f_ty f) by reflexivity.
  destruct Tc as [Tc|[Tc|Tc]]; rewrite Tc in *; cbn [N.eqb Pos.eqb orb]; destruct (v =? 2) eqn:V; cbn [be app N.of_nat];
    [ rewrite (tail_req_v2 v h1) by assumption | rewrite (tail_req_v1 v h1) by assumption
    | rewrite (tail_resp_v2 v h1) by assumption | rewrite (tail_resp_v1 v h1) by assumption
    | rewrite (tail_push_v2 v h1) by assumption | rewrite (tail_push_v1 v h1) by assumption ];
    rewrite ?de_be4, ?de_be2, ?de_be1, ?blen3_be, ?bN_b8, ?(N.mod_small (f_cmd f) 256) by lia;
    subst h1; unfold with_rest, with_b0, pool_get;
    cbn [h_ty h_verify h_gzip h_reserve h_begin h_unpacked h_rid h_timeout h_status h_mlen h_cmd h_blen];
    rewrite Tc; reflexivity.
Qed.

Theorem unpack_spec gz v codec stale f vals body :
  wf_fields v f = true ->
  (if v =? 2 then unmarshal_values (f_meta f) = Ok vals else vals = []) ->
  (if f_gzip f then decompress gz (f_body f) = Ok body else body = f_body f) ->
  unpack_bytes gz v codec stale (spec_frame v f) = Ok (packet_of codec f vals body).
Proof.
  intros W Hm Hg. pose proof W as W0. destruct consts_frame as (E1 & E2 & E3 & EMask & _ & _ & _ & _ & _ & _ & EMax & EMd & ENon & ESig).
  unfold wf_fields in W. rewrite !andb_true_iff in W.
  destruct W as [[[[[[[[[[Wt Wr] Wc] Wrid] Wtm] Wst] Wml] Wbl] Wn] Wsig] Wv1].
  apply N.ltb_lt in Wr, Wc, Wrid, Wtm, Wst, Wml, Wbl, Wn.
  assert (Lmeta : spec_frame v f = spec_header v f ++ f_meta f ++ f_body f ++ spec_trailer f).
  { unfold spec_frame. destruct (v =? 2); [reflexivity|]. apply Nat.eqb_eq in Wv1. destruct (f_meta f); [reflexivity|discriminate]. }
  set (rest := f_meta f ++ f_body f ++ spec_trailer f).
  assert (HU := hdr_unpack_spec v stale f W0).
  unfold unpack_bytes. rewrite Lmeta, HU. cbn [bind h_mlen h_blen h_verify h_gzip].
  unfold rest.
  assert (Eml : (if v =? 2 then N.of_nat (length (f_meta f)) else 0) = N.of_nat (length (f_meta f))).
  { destruct (v =? 2); [reflexivity|]. apply Nat.eqb_eq in Wv1. now rewrite Wv1. }
  rewrite Eml. rewrite !app_length.
  match goal with |- context [if ?c then Err EInvalidFrame else _] => replace c with false by lia end.
  rewrite !Nat2N.id.
  rewrite go_slice_mid0. cbn [bind].
  rewrite (go_slice_mid' (f_meta f) (f_body f) (spec_trailer f)) by lia. cbn [bind].
  unfold packet_of, hdr_metadata. cbn [h_rid h_cmd h_verify h_gzip h_timeout h_status h_ty].
  assert (Ev : (b2n (f_verify f) =? 1) = f_verify f) by (destruct (f_verify f); reflexivity).
  assert (Eg : (b2n (f_gzip f) =? 1) = f_gzip f) by (destruct (f_gzip f); reflexivity).
  rewrite Ev, Eg.
  assert (Hvals : (if v =? 2 then vals0 <- unmarshal_values (f_meta f);; Ok (with_values
        (mkMeta 0 (if (f_ty f =? 1) || (f_ty f =? 2) then f_rid f else 0) (f_cmd f) (f_verify f) (f_gzip f)
           (if f_ty f =? 1 then f_timeout f else 0) codec (if f_ty f =? 2 then f_status f else 0) (ptype_of (f_ty f)) [] []) vals0)
      else Ok (mkMeta 0 (if (f_ty f =? 1) || (f_ty f =? 2) then f_rid f else 0) (f_cmd f) (f_verify f) (f_gzip f)
           (if f_ty f =? 1 then f_timeout f else 0) codec (if f_ty f =? 2 then f_status f else 0) (ptype_of (f_ty f)) [] []))
      = Ok (mkMeta 0 (if (f_ty f =? 1) || (f_ty f =? 2) then f_rid f else 0) (f_cmd f) (f_verify f) (f_gzip f)
           (if f_ty f =? 1 then f_timeout f else 0) codec (if f_ty f =? 2 then f_status f else 0) (ptype_of (f_ty f)) [] vals)).
  { destruct (v =? 2); [rewrite Hm; reflexivity|now subst vals]. }
  rewrite Hvals. cbn [bind]. clear Hvals.
  unfold spec_trailer. rewrite ENon, ESig. destruct (f_verify f) eqn:Ve.
  - apply Nat.eqb_eq in Wsig. rewrite !app_length, be_length, Wsig.
    match goal with |- context [if ?c then Err EInvalidFrame else _] => replace c with false by (symmetry; apply Nat.ltb_ge; change (N.to_nat 8) with 8%nat; change (N.to_nat 16) with 16%nat; lia) end.
    change (N.to_nat 8) with 8%nat.
    rewrite (app_assoc (f_meta f) (f_body f)).
    rewrite (go_slice_mid' (f_meta f ++ f_body f) (be 8 (f_nonce f)) (f_sig f)) by (rewrite ?app_length, ?be_length; lia). cbn [bind].
    rewrite (app_assoc (f_meta f ++ f_body f) (be 8 (f_nonce f))).
    rewrite (go_slice_from_mid' ((f_meta f ++ f_body f) ++ be 8 (f_nonce f)) (f_sig f)) by (rewrite !app_length, be_length; lia). cbn [bind].
    rewrite de_be_small by (rewrite pow256_8; lia).
    unfold with_sig. cbn [m_rid m_cmd m_verify m_gzip m_timeout m_codec m_status m_type m_values].
    destruct (f_gzip f); [rewrite Hg|subst body]; reflexivity.
  - cbn [bind]. destruct (f_gzip f); [rewrite Hg|subst body]; reflexivity.
Qed.

(* unknown type nibbles are rejected, whatever follows *)
Theorem unpack_rejects_unknown_type gz v codec stale b rest :
  let ty := bN b mod 16 in ty <> 1 -> ty <> 2 -> ty <> 3 ->
  unpack_bytes gz v codec stale (b :: rest) = Err EUnknownPacket.
Proof.
  intros ty H1 H2 H3. destruct consts_frame as (E1 & E2 & E3 & _).
  unfold unpack_bytes, hdr_unpack_bytes, hdr_unpack_bytes_tail. cbn [with_b0 h_ty].
  destruct (b0_decode b) as (A & _). rewrite A. fold ty.
  unfold is_unknown, is_req, is_resp, is_push. rewrite E1, E2, E3.
  replace (ty =? 1) with false by lia. replace (ty =? 2) with false by lia. replace (ty =? 3) with false by lia.
  reflexivity.
Qed.
Theorem unpack_rejects_empty gz v codec stale : unpack_bytes gz v codec stale [] = Err EInvalidFrame.
Proof. reflexivity. Qed.

(* ---------------- C01: one-shot round trip ---------------- *)
Record gz_contract (gz : gzoracle) : Prop := {
  gzc_roundtrip : forall x, gz_read gz (gz_compress gz x) = GzStream x GzEOF }.

Definition wf_packet (v : N) (p : packet) : bool :=
  let md := p_md p in
  (match m_type md with PTNone => false | _ => true end)
  && (m_cmd md <? 256) && (m_rid md <? 4294967296) && (m_timeout md <? 65536) && (m_status md <? 256)
  && (m_nonce md <? 18446744073709551616) && negb (m_gzip md)
  && (if m_verify md then Nat.eqb (length (m_sig md)) 16 else true)
  && (if v =? 2 then wf_md (m_values md) && (Z.of_nat (pairs_size (m_values md)) <=? 65535)%Z
      else match m_values md with [] => true | _ => false end).

(* what the receiver must see: the fields the property lists *)
Definition received (v codec : N) (p : packet) : packet :=
  let md := p_md p in
  let ty := ty_of (m_type md) in
  mkPacket (mkMeta (if m_verify md then m_nonce md else 0)
                   (if (ty =? 1) || (ty =? 2) then m_rid md else 0)
                   (m_cmd md) (m_verify md) (m_gzip md)
                   (if ty =? 1 then m_timeout md else 0) codec
                   (if ty =? 2 then m_status md else 0)
                   (m_type md) (if m_verify md then m_sig md else []) (m_values md)) (p_body p).

Theorem roundtrip_oneshot gz v codec thr stale stale' p fr p' :
  gz_contract gz -> wf_packet v p = true ->
  pack gz v thr stale p = Ok (fr, p') ->
  exists q, unpack_bytes gz v codec stale' fr = Ok q /\
            p_body q = p_body p /\
            m_type (p_md q) = m_type (p_md p) /\ m_cmd (p_md q) = m_cmd (p_md p) /\
            m_rid (p_md q) = m_rid (p_md (received v codec p)) /\
            m_timeout (p_md q) = m_timeout (p_md (received v codec p)) /\
            m_status (p_md q) = m_status (p_md (received v codec p)) /\
            m_verify (p_md q) = m_verify (p_md p) /\
            m_nonce (p_md q) = m_nonce (p_md (received v codec p)) /\
            m_sig (p_md q) = m_sig (p_md (received v codec p)) /\
            m_values (p_md q) = m_values (p_md p) /\
            m_gzip (p_md q) = pack_compresses thr (p_body p).
Proof.
  intros GC W HP. destruct consts_frame as (E1 & E2 & E3 & _ & _ & _ & _ & _ & _ & _ & EMax & EMd & ENon & ESig).
  unfold wf_packet in W. rewrite !andb_true_iff in W.
  destruct W as [[[[[[[[Wt Wc] Wrid] Wtm] Wst] Wn] Wgz] Wsig] Wv].
  apply N.ltb_lt in Wc, Wrid, Wtm, Wst, Wn. apply negb_true_iff in Wgz.
  assert (T : m_type (p_md p) <> PTNone) by (destruct (m_type (p_md p)); congruence).
  (* the body limit: pack succeeded, so the wire body is within the limit *)
  assert (B : N.of_nat (length (wire_body gz thr (p_body p))) <= c_MaxBodyLength).
  { unfold pack in HP. fold (pack_compresses thr (p_body p)) in HP. fold (wire_body gz thr (p_body p)) in HP.
    destruct (c_MaxBodyLength <? N.of_nat (length (wire_body gz thr (p_body p)))) eqn:L; [discriminate|]. lia. }
  rewrite (pack_is_spec gz v thr stale p T B) in HP. inversion HP; subst fr p'; clear HP.
  set (f := fields_of gz v thr p).
  pose proof (ty_of_cases _ T) as Tc.
  assert (Hmeta : if v =? 2 then unmarshal_values (f_meta f) = Ok (m_values (p_md p)) else m_values (p_md p) = []).
  { unfold f, fields_of. cbn [f_meta]. destruct (v =? 2).
    - apply andb_true_iff in Wv. destruct Wv as [W1 W2]. rewrite EMd. apply roundtrip; [exact W1|]. change (Z.of_N 65535) with 65535%Z. lia.
    - destruct (m_values (p_md p)); [reflexivity|discriminate]. }
  assert (Hgz : if f_gzip f then decompress gz (f_body f) = Ok (p_body p) else p_body p = f_body f).
  { unfold f, fields_of. cbn [f_gzip f_body]. rewrite Wgz. cbn [orb]. unfold wire_body.
    destruct (pack_compresses thr (p_body p)); [|reflexivity].
    unfold decompress. now rewrite (gzc_roundtrip gz GC). }
  assert (Wf : wf_fields v f = true).
  { unfold wf_fields, f, fields_of. cbn [f_ty f_reserve f_cmd f_rid f_timeout f_status f_meta f_body f_nonce f_verify f_sig].
    rewrite !andb_true_iff. rewrite EMax in B. repeat split; try lia.
    all: try (destruct Tc as [Tc|[Tc|Tc]]; rewrite Tc; reflexivity).
    all: try (destruct (v =? 2); [pose proof (mdb_length_small (m_values (p_md p))); lia|cbn; lia]).
    all: try (destruct (m_verify (p_md p)); [|reflexivity]; apply Nat.eqb_eq; apply sig16_length).
    all: try (destruct (v =? 2); reflexivity). }
  exists (packet_of codec f (m_values (p_md p)) (p_body p)). split.
  - apply unpack_spec; assumption.
  - unfold packet_of, received. cbn. unfold f, fields_of. cbn.
    assert (Ecmd : N.land (m_cmd (p_md p)) 255 mod 256 = m_cmd (p_md p)).
    { change 255 with (N.ones 8). rewrite N.land_ones. change (2 ^ 8) with 256. rewrite N.mod_mod by lia. now apply N.mod_small. }
    rewrite Ecmd, Wgz. cbn [orb].
    assert (Ety : ptype_of (ty_of (m_type (p_md p))) = m_type (p_md p)).
    { unfold ptype_of, ty_of, is_req, is_resp, is_push. rewrite E1, E2, E3. destruct (m_type (p_md p)); try reflexivity; congruence. }
    rewrite Ety. repeat split; try reflexivity.
    destruct (m_verify (p_md p)); [|reflexivity]. apply Nat.eqb_eq in Wsig. now apply sig16_id.
Qed.

(* unrepresentable packets yield an error, never bytes *)
Theorem pack_unknown_type gz v thr stale p :
  m_type (p_md p) = PTNone -> N.of_nat (length (wire_body gz thr (p_body p))) <= c_MaxBodyLength ->
  pack gz v thr stale p = Err EUnknownPacket.
Proof.
  intros T B. destruct consts_frame as (E1 & E2 & E3 & _). unfold pack.
  fold (pack_compresses thr (p_body p)). fold (wire_body gz thr (p_body p)).
  replace (c_MaxBodyLength <? N.of_nat (length (wire_body gz thr (p_body p)))) with false by lia.
  assert (Ety : m_type (if pack_compresses thr (p_body p) then set_gzip (p_md p) else p_md p) = PTNone)
    by (destruct (pack_compresses _ _); [unfold set_gzip; cbn|]; exact T).
  unfold hdr_pack, with_lens, hdr_from_md. cbn [h_ty]. rewrite Ety. unfold ty_of, is_unknown, is_req, is_resp, is_push.
  rewrite E1, E2, E3. reflexivity.
Qed.
Theorem pack_body_limit gz v thr stale p :
  c_MaxBodyLength < N.of_nat (length (wire_body gz thr (p_body p))) -> pack gz v thr stale p = Err EBodyLimit.
Proof.
  intros B. unfold pack. fold (pack_compresses thr (p_body p)). fold (wire_body gz thr (p_body p)).
  replace (c_MaxBodyLength <? N.of_nat (length (wire_body gz thr (p_body p)))) with true by lia. reflexivity.
Qed.
