(* Proofs/RecoveryP.v — C08 on the recovery protocol, for every sequence of per-attempt outcomes (unbounded),
   every configuration (MaxReconnect, token getter yes/no) and every session state. *)
From Coq Require Import List NArith ZArith Lia Bool.
From Coq Require Import ZifyBool ZifyN ZifyNat.
From OAP Require Import Base.Bytes Base.Res Gen.Consts Model.Recovery.
Import ListNotations.
Local Open Scope N_scope.

Definition pre_events (s : rstate) (a : attempt) : list revent := [EvCloseOld (rs_conn s); EvSweep; EvDial (at_dial_ok a)].

Definition budget_spent (cfg : rcfg) (s : rstate) : bool := (0 <? rc_max cfg) && (rc_max cfg <=? rs_count s).

Ltac break_all :=
  repeat match goal with
         | H : context [if ?c then _ else _] |- _ => destruct c eqn:?
         | H : context [match ?x with _ => _ end] |- _ => destruct x eqn:?
         end.
Ltac inv_all :=
  repeat match goal with
         | H : (_, _) = (_, _) |- _ => inversion H; subst; clear H
         | H : Some _ = Some _ |- _ => inversion H; subst; clear H
         | H : Some _ = None |- _ => discriminate H
         | H : None = Some _ |- _ => discriminate H
         end.
Ltac once_cases H := unfold reconnect_once, do_auth in H; break_all; inv_all.

Lemma reconnect_once_shape cfg s a ok s' evs :
  reconnect_once cfg s a = Some (ok, s', evs) ->
  budget_spent cfg s = false /\ rs_count s' = rs_count s + 1 /\ exists tail, evs = pre_events s a ++ tail /\
  (at_dial_ok a = false -> ok = false /\ tail = [] /\ rs_conn s' = rs_conn s) /\
  (at_dial_ok a = true -> rs_conn s' = rs_conn s + 1).
Proof.
  intros H. unfold budget_spent, pre_events. once_cases H; cbn [rs_count rs_conn negb] in *;
    (split; [reflexivity|]); (split; [reflexivity|]); eexists; (split; [cbn [app]; reflexivity|]); split; intros X;
    try (rewrite X in *; cbn [negb] in *; congruence); auto.
Qed.

(* the stored session is presented (RECONNECT) exactly while it is unexpired; an expired session leads to
   a full authentication with a fresh token instead *)
Theorem resume_iff_unexpired cfg s a sid ok s' evs :
  reconnect_once cfg s a = Some (ok, s', evs) -> at_dial_ok a = true -> rs_session s = Some sid ->
  (at_expired a = false -> exists tail, evs = pre_events s a ++ EvFrameReconnect (rs_conn s + 1) sid :: tail) /\
  (at_expired a = true -> (forall g x, ~ In (EvFrameReconnect g x) evs) /\
                          (rc_getter cfg = true -> at_token_ok a = true -> evs = pre_events s a ++ [EvFrameAuth (rs_conn s + 1)])).
Proof.
  intros H D S. unfold pre_events. unfold reconnect_once in H. rewrite D, S in H. cbn [negb] in H.
  destruct (at_expired a) eqn:X; (split; intros Y; [try discriminate|try discriminate]).
  - once_cases H; (split; [intros g x I; cbn in I; repeat (destruct I as [I|I]; [discriminate|]); exact I|
                           intros G T; rewrite ?G, ?T, ?D in *; cbn [negb app] in *; try discriminate; try congruence; try reflexivity]).
  - once_cases H; rewrite ?D; eexists; cbn [app]; reflexivity.
Qed.

(* a session rejected as unauthenticated falls back to full authentication on the SAME connection *)
Theorem unauth_falls_back cfg s a sid rest ok s' evs :
  reconnect_once cfg s a = Some (ok, s', evs) -> at_dial_ok a = true -> rs_session s = Some sid ->
  at_expired a = false -> at_answers a = AnsUnauth :: rest -> rc_getter cfg = true -> at_token_ok a = true ->
  evs = pre_events s a ++ [EvFrameReconnect (rs_conn s + 1) sid; EvFrameAuth (rs_conn s + 1)] /\
  (ok = true <-> exists n tl, rest = AnsOk n :: tl).
Proof.
  intros H D S X A G T. unfold pre_events. unfold reconnect_once, do_auth in H. rewrite D, S, X, A, G, T in H. cbn [negb] in H.
  once_cases H; rewrite ?D; (split; [reflexivity|]); split; intros Q; try discriminate; try (destruct Q as (n0 & tl0 & Q); discriminate); eauto.
Qed.

Fixpoint count_ev (f : revent -> bool) (l : list revent) : nat :=
  match l with [] => O | e :: r => ((if f e then 1 else 0) + count_ev f r)%nat end.
Lemma count_ev_app f a b : count_ev f (a ++ b) = (count_ev f a + count_ev f b)%nat.
Proof. induction a as [|e a IH]; cbn; [reflexivity|]. rewrite IH. lia. Qed.

Definition is_recovered (e : revent) : bool := match e with EvRecovered => true | _ => false end.
Definition is_giveup (e : revent) : bool := match e with EvGiveUp => true | _ => false end.
Definition is_dial (e : revent) : bool := match e with EvDial _ => true | _ => false end.

Lemma once_no_terminal cfg s a ok s' evs : reconnect_once cfg s a = Some (ok, s', evs) ->
  count_ev is_recovered evs = O /\ count_ev is_giveup evs = O /\ count_ev is_dial evs = 1%nat.
Proof. intros H. once_cases H; cbn; auto. Qed.

(* the loop: the after-reconnect callback runs exactly once and only as the very last event of a successful
   recovery; giving up is reported exactly once, only when the budget is spent; counters are reset on success *)
Theorem recover_outcomes cfg : forall atts s r s' evs,
  recover cfg s atts = (r, s', evs) ->
  match r with
  | RRecovered => count_ev is_recovered evs = 1%nat /\ count_ev is_giveup evs = O /\ (exists l, evs = l ++ [EvRecovered]) /\
                  rs_count s' = 0 /\ rs_last_ka s' = 0
  | RGaveUp => count_ev is_recovered evs = O /\ count_ev is_giveup evs = 1%nat /\ (exists l, evs = l ++ [EvGiveUp]) /\
               budget_spent cfg s' = true
  | RStillTrying => count_ev is_recovered evs = O /\ count_ev is_giveup evs = O /\ budget_spent cfg s' = false
  end.
Proof.
  induction atts as [|a atts IH]; intros s r s' evs H; cbn [recover] in H.
  - fold (budget_spent cfg s) in H. destruct (budget_spent cfg s) eqn:B; inversion H; subst; cbn.
    + repeat split; auto. exists []. reflexivity.
    + repeat split; auto.
  - destruct (reconnect_once cfg s a) as [[[ok s1] ev1]|] eqn:O.
    + destruct (once_no_terminal _ _ _ _ _ _ O) as (N1 & N2 & _). destruct ok.
      * inversion H; subst. cbn [rs_count rs_last_ka]. rewrite !count_ev_app, N1, N2. cbn. repeat split; auto. exists ev1. reflexivity.
      * destruct (recover cfg s1 atts) as [[r2 s2] ev2] eqn:R. inversion H; subst. specialize (IH _ _ _ _ R).
        assert (Happ : forall l x, ev1 ++ EvSleep :: (l ++ [x]) = (ev1 ++ EvSleep :: l) ++ [x]) by (intros; now rewrite <- app_assoc).
        destruct r; rewrite !count_ev_app, N1, N2; cbn [count_ev is_recovered is_giveup Nat.add app].
        -- destruct IH as (A & B & [l Hl] & C1 & C2). repeat split; auto. exists (ev1 ++ EvSleep :: l). rewrite Hl. apply Happ.
        -- destruct IH as (A & B & [l Hl] & C1). repeat split; auto. exists (ev1 ++ EvSleep :: l). rewrite Hl. apply Happ.
        -- destruct IH as (A & B & C1). repeat split; auto.
    + inversion H; subst. cbn. assert (B : budget_spent cfg s' = true).
      { unfold budget_spent. unfold reconnect_once, do_auth in O.
        repeat match type of O with
               | context [if ?c then _ else _] => destruct c eqn:?
               | context [match ?x with _ => _ end] => destruct x eqn:?
               end; try discriminate; reflexivity. }
      repeat split; auto. exists []. reflexivity.
Qed.

(* retries: with a budget, the number of dials of one recovery never exceeds what was left of it;
   the attempt counter counts consecutive failed attempts (a success resets it) *)
Theorem dials_bounded cfg : forall atts s r s' evs,
  recover cfg s atts = (r, s', evs) -> 0 < rc_max cfg -> rs_count s <= rc_max cfg ->
  (N.of_nat (count_ev is_dial evs) <= rc_max cfg - rs_count s).
Proof.
  induction atts as [|a atts IH]; intros s r s' evs H M C; cbn [recover] in H.
  - destruct ((0 <? rc_max cfg) && (rc_max cfg <=? rs_count s)); inversion H; subst; cbn; lia.
  - destruct (reconnect_once cfg s a) as [[[ok s1] ev1]|] eqn:O.
    + destruct (once_no_terminal _ _ _ _ _ _ O) as (_ & _ & D1).
      destruct (reconnect_once_shape _ _ _ _ _ _ O) as (B & Cn & _). unfold budget_spent in B.
      destruct ok.
      * inversion H; subst. rewrite count_ev_app, D1. cbn. lia.
      * destruct (recover cfg s1 atts) as [[r2 s2] ev2] eqn:R. inversion H; subst.
        assert (C1 : rs_count s1 <= rc_max cfg) by lia.
        specialize (IH _ _ _ _ R M C1). rewrite !count_ev_app, D1. cbn [count_ev is_dial Nat.add]. lia.
    + inversion H; subst. cbn. lia.
Qed.

(* never two connections at once: every attempt closes the current connection before it dials, and every
   frame of the recovery travels on the connection generation that attempt created *)
Definition frame_gen (e : revent) : option N :=
  match e with EvFrameReconnect g _ | EvFrameAuth g => Some g | _ => None end.

Theorem attempt_closes_before_dial cfg s a ok s' evs :
  reconnect_once cfg s a = Some (ok, s', evs) ->
  exists tail, evs = EvCloseOld (rs_conn s) :: EvSweep :: EvDial (at_dial_ok a) :: tail /\
               forall e g, In e tail -> frame_gen e = Some g -> g = rs_conn s + 1 /\ at_dial_ok a = true.
Proof.
  intros H. once_cases H; eexists; (split; [cbn [app]; reflexivity|]); intros e g I Fg; cbn in I;
    repeat (destruct I as [I|I]; [subst e; cbn in Fg; inversion Fg; split; [reflexivity|destruct (at_dial_ok a); cbn in *; congruence]|]); try contradiction.
Qed.
