(* The streaming decoder on frames of the published layout: one call on (frame ++ anything) returns exactly the packet
   the layout describes and leaves exactly the bytes behind it; hence, with Proofs/ChunksP.v, a concatenation of layout
   frames cut into arbitrary socket reads under arbitrary ring geometry is decoded to exactly those packets (C01/C03). *)
From Coq Require Import List NArith ZArith Lia Bool.
From Coq.Strings Require Import Byte.
From Coq Require Import ZifyBool ZifyN ZifyNat.
From OAP Require Import Base.Bytes Base.Res Base.Sweep Gen.Consts Model.Metadata Model.Header Model.Frame Model.Stream Model.Spec Model.Chunks
  Proofs.MetadataP Proofs.BitsP Proofs.FrameP Proofs.GzipP Proofs.StreamP Proofs.ChunksP.
Import ListNotations.
Local Open Scope N_scope.
Ltac Zify.zify_post_hook ::= Z.div_mod_to_equations.

Local Arguments de : simpl never.
Local Arguments b8 : simpl never.
Local Arguments bN : simpl never.

(* the header the layout's bytes denote, as the streaming parser leaves it (both progress flags set) *)
Definition spec_hdr (v : N) (f : fields) : hdr :=
  mkHdr (if (f_ty f =? 1) || (f_ty f =? 2) then f_rid f else 0) (N.of_nat (length (f_body f)))
        (if f_ty f =? 1 then f_timeout f else 0) (f_ty f) (b2n (f_verify f)) (b2n (f_gzip f)) (f_reserve f)
        (f_cmd f) (if f_ty f =? 2 then f_status f else 0)
        (if v =? 2 then N.of_nat (length (f_meta f)) else 0) true true.

Lemma peek1 b q : rb_peek_uint 1 (b :: q) = bN b.
Proof. unfold rb_peek_uint. cbn [length Nat.ltb Nat.leb firstn]. unfold de. cbn [fold_left]. lia. Qed.

Lemma hdr_stream_spec v k stale f rest :
  wf_fields v f = true ->
  hdr_stream_unpack v k (pool_get v stale) (spec_header v f ++ rest) = (Ok (true, spec_hdr v f), rest).
Proof.
  intros W. unfold wf_fields in W. rewrite !andb_true_iff in W.
  destruct W as [[[[[[[[[[Wt Wr] Wc] Wrid] Wtm] Wst] Wml] Wbl] Wn] Wsig] Wv1].
  apply N.ltb_lt in Wr, Wc, Wrid, Wtm, Wst, Wml, Wbl, Wn.
  assert (Tc : f_ty f = 1 \/ f_ty f = 2 \/ f_ty f = 3) by (rewrite !orb_true_iff, !N.eqb_eq in Wt; tauto).
  destruct (b0_roundtrip f ltac:(lia) Wr) as (B1 & B2 & B3 & B4). cbv zeta in B1, B2, B3, B4.
  unfold spec_header. cbn [app]. unfold hdr_stream_unpack. cbn [length Nat.eqb].
  change (h_unpacked (pool_get v stale)) with false. change (h_begin (pool_get v stale)) with false. cbv iota.
  rewrite peek1. change (rb_retrieve 1 (?b :: ?q)) with q. rewrite B1, B2, B3, B4.
  set (h1 := with_b0 (pool_get v stale) (f_ty f) (b2n (f_verify f)) (b2n (f_gzip f)) (f_reserve f) true).
  assert (T1 : h_ty h1 = f_ty f) by reflexivity.
  unfold rb_retrieve. cbn [skipn].
  destruct Tc as [Tc|[Tc|Tc]]; rewrite Tc in *; cbn [N.eqb Pos.eqb orb]; destruct (v =? 2) eqn:V; cbn [be app N.of_nat];
    [ rewrite (stail_req_v2 v k h1) by assumption | rewrite (stail_req_v1 v k h1) by assumption
    | rewrite (stail_resp_v2 v k h1) by assumption | rewrite (stail_resp_v1 v k h1) by assumption
    | rewrite (stail_push_v2 v k h1) by assumption | rewrite (stail_push_v1 v k h1) by assumption ];
    rewrite ?de_be4, ?de_be2, ?de_be1, ?blen3_be, ?bN_b8, ?(N.mod_small (f_cmd f) 256) by lia;
    subst h1; unfold with_rest, with_b0, pool_get, spec_hdr;
    cbn [h_ty h_verify h_gzip h_reserve h_begin h_unpacked h_rid h_timeout h_status h_mlen h_cmd h_blen];
    rewrite Tc, ?V; reflexivity.
Qed.

Lemma firstn_app_exact {A} (a b : list A) n : n = length a -> firstn n (a ++ b) = a.
Proof. intros ->. rewrite firstn_app, Nat.sub_diag, firstn_all. cbn. apply app_nil_r. Qed.
Lemma skipn_app_exact {A} (a b : list A) n : n = length a -> skipn n (a ++ b) = b.
Proof. intros ->. rewrite skipn_app, Nat.sub_diag, skipn_all. reflexivity. Qed.

(* one call on a layout frame followed by anything: the packet of the layout, the rest untouched *)
Theorem stream_spec gz v codec k stale f vals body rest :
  wf_fields v f = true ->
  (if v =? 2 then unmarshal_values (f_meta f) = Ok vals else vals = []) ->
  (if f_gzip f then decompress gz (f_body f) = Ok body else body = f_body f) ->
  stream_unpack gz v codec k stale (mkS None (spec_frame v f ++ rest)) = (Ok (SPkt (packet_of codec f vals body)), mkS None rest).
Proof.
  intros W Hm Hg. pose proof W as W0.
  destruct consts_frame as (E1 & E2 & E3 & EMask & _ & _ & _ & _ & _ & _ & EMax & EMd & ENon & ESig).
  unfold wf_fields in W. rewrite !andb_true_iff in W.
  destruct W as [[[[[[[[[[Wt Wr] Wc] Wrid] Wtm] Wst] Wml] Wbl] Wn] Wsig] Wv1].
  apply N.ltb_lt in Wr, Wc, Wrid, Wtm, Wst, Wml, Wbl, Wn.
  assert (Lmeta : spec_frame v f = spec_header v f ++ f_meta f ++ f_body f ++ spec_trailer f).
  { unfold spec_frame. destruct (v =? 2); [reflexivity|]. apply Nat.eqb_eq in Wv1. destruct (f_meta f); [reflexivity|discriminate]. }
  rewrite stream_unpack_unfold. cbv zeta. cbn [s_pend s_q].
  change (h_unpacked (pool_get v stale)) with false. cbv iota.
  rewrite Lmeta. rewrite <- !app_assoc.
  rewrite (hdr_stream_spec v k stale f _ W0). unfold of_hdr_result.
  set (q1 := f_meta f ++ f_body f ++ spec_trailer f ++ rest).
  set (h := spec_hdr v f).
  assert (Eml : (if v =? 2 then N.to_nat (h_mlen h) else 0%nat) = length (f_meta f)).
  { unfold h, spec_hdr. cbn [h_mlen]. destruct (v =? 2); [apply Nat2N.id|]. apply Nat.eqb_eq in Wv1. now rewrite Wv1. }
  assert (Ebl : N.to_nat (h_blen h) = length (f_body f)) by (unfold h, spec_hdr; cbn [h_blen]; apply Nat2N.id).
  assert (Ev : (h_verify h =? 1) = f_verify f) by (unfold h, spec_hdr; cbn [h_verify]; destruct (f_verify f); reflexivity).
  assert (Eg : (h_gzip h =? 1) = f_gzip f) by (unfold h, spec_hdr; cbn [h_gzip]; destruct (f_gzip f); reflexivity).
  assert (Ltr : length (spec_trailer f) = trailer_len h).
  { unfold spec_trailer, trailer_len. rewrite Ev, ENon, ESig. destruct (f_verify f); [|reflexivity].
    apply Nat.eqb_eq in Wsig. rewrite app_length, be_length, Wsig. reflexivity. }
  assert (Fr : frame_rest v h = (length (f_meta f) + length (f_body f) + length (spec_trailer f))%nat).
  { unfold frame_rest. rewrite Eml, Ebl, Ltr. reflexivity. }
  assert (Lq1 : length q1 = (length (f_meta f) + length (f_body f) + length (spec_trailer f) + length rest)%nat).
  { unfold q1. rewrite !app_length. lia. }
  unfold after_header.
  assert (Nd : (N.of_nat (length q1) <? need_len h) = false).
  { apply N.ltb_ge. unfold need_len. rewrite <- Ltr. unfold h at 1 2, spec_hdr. cbn [h_blen h_mlen].
    rewrite Lq1. destruct (v =? 2); [lia|]. apply Nat.eqb_eq in Wv1. lia. }
  rewrite Nd. rewrite stream_body_plan by (rewrite Fr, Lq1; lia).
  unfold body_plan. rewrite Eml, Ebl, Ev, Eg. unfold q1.
  rewrite (firstn_app_exact (f_meta f)) by reflexivity. rewrite (skipn_app_exact (f_meta f)) by reflexivity.
  rewrite (firstn_app_exact (f_body f)) by reflexivity. rewrite (skipn_app_exact (f_body f)) by reflexivity.
  assert (Hvals : (if v =? 2 then vals0 <- unmarshal_values (f_meta f);; Ok (with_values (hdr_metadata h codec) vals0) else Ok (hdr_metadata h codec))
                  = Ok (with_values (hdr_metadata h codec) vals)).
  { destruct (v =? 2); [rewrite Hm; reflexivity|]. subst vals. unfold with_values, hdr_metadata. reflexivity. }
  rewrite Hvals. clear Hvals.
  unfold spec_trailer. destruct (f_verify f) eqn:Ve.
  - apply Nat.eqb_eq in Wsig. rewrite <- !app_assoc.
    rewrite (firstn_app_exact (be 8 (f_nonce f))) by (now rewrite be_length).
    rewrite (skipn_app_exact (be 8 (f_nonce f))) by (now rewrite be_length).
    rewrite (firstn_app_exact (f_sig f)) by (now rewrite Wsig).
    rewrite (skipn_app_exact (f_sig f)) by (now rewrite Wsig).
    rewrite de_be_small by (rewrite pow256_8; exact Wn).
    unfold packet_of, hdr_metadata, with_values, with_sig, h, spec_hdr. rewrite Ve.
    cbn [h_rid h_cmd h_verify h_gzip h_timeout h_status h_ty m_nonce m_rid m_cmd m_verify m_gzip m_timeout m_codec m_status m_type m_sig m_values b2n].
    destruct (f_gzip f); [rewrite Hg|subst body]; reflexivity.
  - cbn [app]. unfold packet_of, hdr_metadata, with_values, h, spec_hdr. rewrite Ve.
    cbn [h_rid h_cmd h_verify h_gzip h_timeout h_status h_ty m_nonce m_rid m_cmd m_verify m_gzip m_timeout m_codec m_status m_type m_sig m_values b2n].
    destruct (f_gzip f); [rewrite Hg|subst body]; reflexivity.
Qed.

(* ---------------------------------------------------------------------------------------------------------------- *)
(* whole streams of layout frames *)
Section Streams.
Variables (gz : gzoracle) (v codec : N).

(* p is what the layout frame f denotes (metadata block and body decoded) *)
Definition denotes (f : fields) (p : packet) : Prop :=
  wf_fields v f = true /\
  exists vals body,
    (if v =? 2 then unmarshal_values (f_meta f) = Ok vals else vals = []) /\
    (if f_gzip f then decompress gz (f_body f) = Ok body else body = f_body f) /\
    p = packet_of codec f vals body.

Lemma spec_frame_nonempty f : (1 <= length (spec_frame v f))%nat.
Proof. unfold spec_frame, spec_header. rewrite !app_length. cbn [length]. lia. Qed.

Lemma frames_length fs : (length fs <= length (concat (map (spec_frame v) fs)))%nat.
Proof.
  induction fs as [|f fs IH]; [cbn; lia|]. cbn [map concat length]. rewrite app_length.
  pose proof (spec_frame_nonempty f). lia.
Qed.

Lemma empty_needs k : stream_unpack gz v codec k hdr0 (mkS None []) = (Ok SNeed, mkS (Some (pool_get v hdr0)) []).
Proof. reflexivity. Qed.

Lemma drain_frames : forall fs ps, Forall2 denotes fs ps ->
  forall fuel ks i rest, (length fs < fuel)%nat ->
  drain gz v codec fuel ks i (mkS None (concat (map (spec_frame v) fs) ++ rest)) =
  let '(ps', e, s') := drain gz v codec (fuel - length fs) ks (i + length fs) (mkS None rest) in (ps ++ ps', e, s').
Proof.
  induction 1 as [|f p fs ps D F IH]; intros fuel ks i rest L.
  - cbn [map concat app length]. rewrite Nat.sub_0_r, Nat.add_0_r.
    destruct (drain gz v codec fuel ks i (mkS None rest)) as [[ps' e] s']. reflexivity.
  - destruct fuel as [|fuel]; [cbn [length] in L; lia|].
    cbn [map concat length]. rewrite <- app_assoc. cbn [drain].
    destruct D as (W & vals & body & Hm & Hg & ->).
    rewrite (stream_spec gz v codec (ks i) hdr0 f vals body _ W Hm Hg).
    rewrite (IH fuel ks (S i) rest ltac:(cbn [length] in L; lia)).
    replace (S fuel - S (length fs))%nat with (fuel - length fs)%nat by lia.
    replace (i + S (length fs))%nat with (S i + length fs)%nat by lia.
    destruct (drain gz v codec (fuel - length fs) ks (S i + length fs) (mkS None rest)) as [[ps' e] s']. reflexivity.
Qed.

(* C01 + C03 together: the concatenation of any layout frames, cut into any socket reads, under any ring geometry,
   is decoded to exactly the packets the frames denote, in order, and nothing is left in the buffer *)
Theorem stream_of_frames : forall fs ps chunks kss,
  Forall2 denotes fs ps -> chunks <> [] -> concat chunks = concat (map (spec_frame v) fs) ->
  let '(out, e, sf) := run_chunks gz v codec kss 0 (mkS None []) chunks in
  out = ps /\ e = ENeed /\ s_q sf = [].
Proof.
  intros fs ps chunks kss F NE EC.
  pose proof (chunking_irrelevant gz v codec chunks kss kss 0%nat 0%nat (mkS None []) I NE) as CI.
  destruct (run_chunks gz v codec kss 0 (mkS None []) chunks) as [[out e] sf].
  cbn [run_chunks] in CI. rewrite EC in CI. unfold drain_all, feed in CI. cbn [s_pend s_q app] in CI.
  set (b := concat (map (spec_frame v) fs)) in *.
  pose proof (frames_length fs) as FL. fold b in FL.
  pose proof (drain_frames fs ps F (S (length b)) (kss 0%nat) 0%nat [] ltac:(lia)) as DF.
  rewrite app_nil_r in DF. fold b in DF. rewrite DF in CI. clear DF.
  destruct (S (length b) - length fs)%nat as [|n] eqn:En; [lia|].
  cbn [drain] in CI. rewrite empty_needs in CI. rewrite !app_nil_r in CI.
  destruct CI as (-> & -> & HS). split; [reflexivity|]. split; [reflexivity|]. rewrite (HS eq_refl). reflexivity.
Qed.
End Streams.

(* ---------------------------------------------------------------------------------------------------------------- *)
(* frames produced by the encoder *)
Local Opaque N.add N.mul N.div N.modulo N.lor N.land N.shiftl N.shiftr N.sub N.pow.

(* what a decoder yields for the frame the encoder produces for p *)
Definition received_packet (gz : gzoracle) (v codec : N) (thr : Z) (p : packet) : packet :=
  packet_of codec (fields_of gz v thr p) (m_values (p_md p)) (p_body p).

Lemma pack_denotes gz v codec thr stale p fr p' :
  gz_contract gz -> wf_packet v p = true -> pack gz v thr stale p = Ok (fr, p') ->
  fr = spec_frame v (fields_of gz v thr p) /\ denotes gz v codec (fields_of gz v thr p) (received_packet gz v codec thr p).
Proof.
  intros GC W HP. destruct consts_frame as (E1 & E2 & E3 & _ & _ & _ & _ & _ & _ & _ & EMax & EMd & ENon & ESig).
  unfold wf_packet in W. rewrite !andb_true_iff in W.
  destruct W as [[[[[[[[Wt Wc] Wrid] Wtm] Wst] Wn] Wgz] Wsig] Wv].
  apply N.ltb_lt in Wc, Wrid, Wtm, Wst, Wn. apply negb_true_iff in Wgz.
  assert (T : m_type (p_md p) <> PTNone) by (destruct (m_type (p_md p)); congruence).
  assert (B : N.of_nat (length (wire_body gz thr (p_body p))) <= c_MaxBodyLength).
  { unfold pack in HP. fold (pack_compresses thr (p_body p)) in HP. fold (wire_body gz thr (p_body p)) in HP.
    destruct (c_MaxBodyLength <? N.of_nat (length (wire_body gz thr (p_body p)))) eqn:L; [discriminate|]. lia. }
  rewrite (pack_is_spec gz v thr stale p T B) in HP. inversion HP; subst fr p'; clear HP.
  split; [reflexivity|].
  set (f := fields_of gz v thr p).
  pose proof (ty_of_cases _ T) as Tc.
  assert (Hmeta : if v =? 2 then unmarshal_values (f_meta f) = Ok (m_values (p_md p)) else m_values (p_md p) = []).
  { unfold f, fields_of. cbn [f_meta]. destruct (v =? 2).
    - apply andb_true_iff in Wv. destruct Wv as [W1 W2]. rewrite EMd. apply roundtrip; [exact W1|]. change (Z.of_N 65535) with 65535%Z. lia.
    - destruct (m_values (p_md p)); [reflexivity|discriminate]. }
  assert (Hgz : if f_gzip f then decompress gz (f_body f) = Ok (p_body p) else p_body p = f_body f).
  { unfold f, fields_of. cbn [f_gzip f_body]. rewrite Wgz. cbn [orb]. unfold wire_body.
    destruct (pack_compresses thr (p_body p)); [|reflexivity].
    unfold decompress. now rewrite (gzc_roundtrip gz GC). }
  assert (Wf : wf_fields v f = true).
  { unfold wf_fields, f, fields_of. cbn [f_ty f_reserve f_cmd f_rid f_timeout f_status f_meta f_body f_nonce f_verify f_sig].
    rewrite !andb_true_iff. rewrite EMax in B. repeat split; try lia.
    all: try (destruct Tc as [Tc|[Tc|Tc]]; rewrite Tc; reflexivity).
    all: try (destruct (v =? 2); [pose proof (mdb_length_small (m_values (p_md p))); lia|cbn; lia]).
    all: try (destruct (m_verify (p_md p)); [|reflexivity]; apply Nat.eqb_eq; apply sig16_length).
    all: try (destruct (v =? 2); reflexivity). }
  split; [exact Wf|]. exists (m_values (p_md p)), (p_body p). repeat split; assumption.
Qed.

(* STREAMING ROUND TRIP: whatever packets are encoded onto a connection, and however the byte stream is cut into
   socket reads and laid out in the ring, the receiver's read loop delivers, in order, exactly one packet per encoded
   packet - the one the one-shot round trip describes - and is left with an empty buffer *)
Theorem roundtrip_streaming gz v codec thr : gz_contract gz ->
  forall ps frs chunks kss,
    Forall2 (fun p fr => wf_packet v p = true /\ exists stale p', pack gz v thr stale p = Ok (fr, p')) ps frs ->
    chunks <> [] -> concat chunks = concat frs ->
    let '(out, e, sf) := run_chunks gz v codec kss 0 (mkS None []) chunks in
    out = map (received_packet gz v codec thr) ps /\ e = ENeed /\ s_q sf = [].
Proof.
  intros GC ps frs chunks kss F NE EC.
  assert (G : Forall2 (denotes gz v codec) (map (fields_of gz v thr) ps) (map (received_packet gz v codec thr) ps) /\
              frs = map (spec_frame v) (map (fields_of gz v thr) ps)).
  { clear NE EC. induction F as [|p fr ps frs (W & stale & p' & HP) F IH]; [split; [constructor|reflexivity]|].
    destruct (pack_denotes gz v codec thr stale p fr p' GC W HP) as [-> D]. destruct IH as [IH1 ->].
    split; [constructor; assumption|reflexivity]. }
  destruct G as [G ->].
  exact (stream_of_frames gz v codec _ _ chunks kss G NE EC).
Qed.

(* the delivered packet carries the fields the property lists (same statement as the one-shot round trip) *)
Lemma received_packet_fields gz v codec thr p : wf_packet v p = true ->
  let q := received_packet gz v codec thr p in
  p_body q = p_body p /\ m_type (p_md q) = m_type (p_md p) /\ m_cmd (p_md q) = m_cmd (p_md p) /\
  m_rid (p_md q) = m_rid (p_md (received v codec p)) /\ m_timeout (p_md q) = m_timeout (p_md (received v codec p)) /\
  m_status (p_md q) = m_status (p_md (received v codec p)) /\ m_verify (p_md q) = m_verify (p_md p) /\
  m_nonce (p_md q) = m_nonce (p_md (received v codec p)) /\ m_sig (p_md q) = m_sig (p_md (received v codec p)) /\
  m_values (p_md q) = m_values (p_md p) /\ m_gzip (p_md q) = pack_compresses thr (p_body p).
Proof.
  intros W. destruct consts_frame as (E1 & E2 & E3 & _).
  unfold wf_packet in W. rewrite !andb_true_iff in W.
  destruct W as [[[[[[[[Wt Wc] Wrid] Wtm] Wst] Wn] Wgz] Wsig] Wv].
  apply N.ltb_lt in Wc. apply negb_true_iff in Wgz.
  cbv zeta. unfold received_packet, packet_of, received. cbn. unfold fields_of. cbn.
  assert (Ecmd : N.land (m_cmd (p_md p)) 255 mod 256 = m_cmd (p_md p)).
  { change 255 with (N.ones 8). rewrite N.land_ones. change (2 ^ 8) with 256. rewrite N.mod_mod by lia. now apply N.mod_small. }
  rewrite Ecmd, Wgz. cbn [orb].
  assert (Ety : ptype_of (ty_of (m_type (p_md p))) = m_type (p_md p)).
  { unfold ptype_of, ty_of, is_req, is_resp, is_push. rewrite E1, E2, E3. destruct (m_type (p_md p)); try reflexivity; congruence. }
  rewrite Ety. repeat split; try reflexivity.
  destruct (m_verify (p_md p)); [|reflexivity]. apply Nat.eqb_eq in Wsig. now apply sig16_id.
Qed.
