(* Proofs/RingP.v — the concrete ring (Model/Ring.v) refines its content: Length is the content's length,
   Peek(n) returns the first n content bytes cut into (first, end) at the array's end, Retrieve(n) drops n
   content bytes; the representation invariant is preserved.  This is what licenses Model/Stream.v to carry
   the ring as a byte list plus an arbitrary split point. *)
From Coq Require Import List Arith Lia Bool.
From OAP Require Import Model.Ring.
Import ListNotations.

Section RingP.
Context {A : Type}.
Implicit Types (g : ring A) (l : list A).

Lemma skipn_skipn_l a b l : skipn a (skipn b l) = skipn (b + a) l.
Proof. revert l; induction b as [|b IH]; intros l; [reflexivity|]. destruct l as [|x l]; [now rewrite !skipn_nil|]. apply IH. Qed.

Lemma firstn_min n l : firstn n l = firstn (Nat.min n (length l)) l.
Proof.
  destruct (Nat.le_gt_cases n (length l)) as [H|H].
  - now rewrite Nat.min_l.
  - rewrite Nat.min_r by lia. rewrite firstn_all. apply firstn_all2; lia.
Qed.

Ltac unring g := destruct g as [buf size r w emp]; unfold ring_wf, ring_length, ring_content, ring_peek, ring_retrieve,
  ring_retrieve_all, slice; cbn [rb_buf rb_size rb_r rb_w rb_empty].

Lemma ring_length_refines g : ring_wf g -> ring_length g = length (ring_content g).
Proof.
  unring g. intros (Hl & Hr & Hw & He).
  destruct (Nat.eqb_spec w r) as [E|NE].
  - subst w. destruct emp; [reflexivity|]. rewrite Nat.ltb_irrefl, app_length, skipn_length, firstn_length. lia.
  - destruct emp; [exfalso; apply NE, He; reflexivity|].
    destruct (Nat.ltb_spec r w) as [L|G].
    + rewrite firstn_length, skipn_length. lia.
    + rewrite app_length, skipn_length, firstn_length. lia.
Qed.

Lemma ring_peek_refines g n : ring_wf g ->
  fst (ring_peek g n) ++ snd (ring_peek g n) = firstn n (ring_content g).
Proof.
  intros WF. pose proof (ring_length_refines g WF) as LEN. rewrite (firstn_min n (ring_content g)), <- LEN. clear LEN.
  revert WF. unring g. intros (Hl & Hr & Hw & He).
  destruct emp; cbn [orb fst snd app]; [now rewrite firstn_nil|].
  destruct (Nat.eqb_spec n 0) as [Z|NZ]; cbn [fst snd app]; [subst n; reflexivity|].
  destruct (Nat.eqb_spec w r) as [E|NE].
  - subst w. rewrite Nat.ltb_irrefl.
    destruct (Nat.ltb_spec (size - r + r) n) as [B|B].
    + destruct (Nat.leb_spec (r + (size - r + r)) size) as [C|C]; cbn [fst snd].
      * assert (r = 0) by lia. subst r. rewrite app_nil_r. cbn [skipn firstn app]. rewrite app_nil_r. f_equal. lia.
      * rewrite firstn_app, skipn_length, Hl. cbn [skipn]. rewrite firstn_firstn.
           rewrite !(firstn_all2 (skipn r buf)) by (rewrite skipn_length; lia). f_equal; f_equal; lia.
    + destruct (Nat.leb_spec (r + n) size) as [C|C]; cbn [fst snd].
      * rewrite app_nil_r, firstn_app, skipn_length, Hl.
        replace (Nat.min n size - (size - r)) with 0 by lia. cbn [firstn]. rewrite app_nil_r. f_equal. lia.
      * rewrite firstn_app, skipn_length, Hl. cbn [skipn]. rewrite firstn_firstn.
           rewrite !(firstn_all2 (skipn r buf)) by (rewrite skipn_length; lia). f_equal; f_equal; lia.
  - destruct (Nat.ltb_spec r w) as [L|G].
    + cbn [fst snd]. rewrite app_nil_r, firstn_firstn. f_equal.
      destruct (Nat.ltb_spec (w - r) n); lia.
    + assert (w < r) by lia.
      destruct (Nat.ltb_spec (size - r + w) n) as [B|B].
      * destruct (Nat.leb_spec (r + (size - r + w)) size) as [C|C]; cbn [fst snd].
        -- assert (w = 0) by lia. subst w. rewrite app_nil_r. cbn [firstn]. rewrite app_nil_r. f_equal. lia.
        -- rewrite firstn_app, skipn_length, Hl. cbn [skipn]. rewrite firstn_firstn.
           rewrite !(firstn_all2 (skipn r buf)) by (rewrite skipn_length; lia). f_equal; f_equal; lia.
      * destruct (Nat.leb_spec (r + n) size) as [C|C]; cbn [fst snd].
        -- rewrite app_nil_r, firstn_app, skipn_length, Hl.
           replace (Nat.min n (size - r + w) - (size - r)) with 0 by lia. cbn [firstn]. rewrite app_nil_r. f_equal. lia.
        -- rewrite firstn_app, skipn_length, Hl. cbn [skipn]. rewrite firstn_firstn.
           rewrite !(firstn_all2 (skipn r buf)) by (rewrite skipn_length; lia). f_equal; f_equal; lia.
Qed.

(* the split point the decoder sees is determined by the geometry alone: it is min(n, content, cells up to the array's end) *)
Lemma ring_peek_split g n : ring_wf g ->
  length (fst (ring_peek g n)) = Nat.min (Nat.min n (length (ring_content g))) (rb_size g - rb_r g).
Proof.
  intros WF. rewrite <- (ring_length_refines g WF). revert WF. unring g. intros (Hl & Hr & Hw & He).
  destruct emp; cbn [orb fst length]; [rewrite (He eq_refl), Nat.eqb_refl; lia|].
  destruct (Nat.eqb_spec n 0) as [Z|NZ]; cbn [fst length]; [lia|].
  destruct (Nat.eqb_spec w r) as [E|NE]; [subst w; rewrite Nat.ltb_irrefl|destruct (Nat.ltb_spec r w) as [L|G]].
  - destruct (Nat.ltb_spec (size - r + r) n); match goal with |- context [Nat.leb ?a ?b] => destruct (Nat.leb_spec a b) end;
      cbn [fst]; rewrite firstn_length, skipn_length; lia.
  - cbn [fst]. destruct (Nat.ltb_spec (w - r) n); rewrite firstn_length, skipn_length; lia.
  - destruct (Nat.ltb_spec (size - r + w) n); match goal with |- context [Nat.leb ?a ?b] => destruct (Nat.leb_spec a b) end;
      cbn [fst]; rewrite firstn_length, skipn_length; lia.
Qed.

Lemma ring_retrieve_refines g n : ring_wf g ->
  ring_content (ring_retrieve g n) = skipn n (ring_content g) /\ ring_wf (ring_retrieve g n).
Proof.
  intros WF. pose proof (ring_length_refines g WF) as LEN. revert WF LEN. unring g. intros (Hl & Hr & Hw & He) LEN.
  destruct emp; cbn [orb rb_buf rb_size rb_r rb_w rb_empty]; [rewrite skipn_nil; auto|].
  destruct (Nat.eqb_spec n 0) as [Z|NZ]; cbn [rb_buf rb_size rb_r rb_w rb_empty]; [subst n; cbn [skipn]; auto|].
  match goal with |- context [Nat.ltb n ?len] => destruct (Nat.ltb_spec n len) as [LT|GE] end;
    cbn [rb_buf rb_size rb_r rb_w rb_empty].
  2:{ split; [|repeat split; lia]. symmetry. apply skipn_all2. rewrite <- LEN. exact GE. }
  clear LEN. unfold ring_length in LT; cbn [rb_buf rb_size rb_r rb_w rb_empty] in LT. revert LT.
  destruct (Nat.eqb_spec w r) as [E|NE]; [subst w; rewrite Nat.ltb_irrefl|destruct (Nat.ltb_spec r w) as [L|G]]; intros LT.
  - (* full *)
    destruct (Nat.lt_ge_cases (r + n) size) as [S|S].
    + rewrite (Nat.mod_small _ _ S). destruct (Nat.eqb_spec r (r + n)) as [X|X]; [lia|].
      destruct (Nat.ltb_spec (r + n) r); [lia|]. split; [|repeat split; try lia; discriminate].
      rewrite skipn_app, skipn_skipn_l, skipn_length, Hl. replace (n - (size - r)) with 0 by lia. reflexivity.
    + assert (E: r + n - size = (r + n) mod size) by (apply Nat.mod_unique with (q := 1); lia). rewrite <- E.
      destruct (Nat.eqb_spec r (r + n - size)) as [X|X]; [lia|].
      destruct (Nat.ltb_spec (r + n - size) r); [|lia]. split; [|repeat split; try lia; discriminate].
      rewrite skipn_app, skipn_length, Hl, (skipn_all2 (skipn r buf)) by (rewrite skipn_length; lia).
      cbn [app]. rewrite skipn_firstn_comm. f_equal; [lia|f_equal; lia].
  - rewrite (Nat.mod_small (r + n) size) by lia. destruct (Nat.eqb_spec w (r + n)) as [X|X]; [lia|].
    destruct (Nat.ltb_spec (r + n) w); [|lia]. split; [|repeat split; try lia; discriminate].
    rewrite skipn_firstn_comm, skipn_skipn_l. f_equal; lia.
  - assert (w < r) by lia.
    destruct (Nat.lt_ge_cases (r + n) size) as [S|S].
    + rewrite (Nat.mod_small _ _ S). destruct (Nat.eqb_spec w (r + n)) as [X|X]; [lia|].
      destruct (Nat.ltb_spec (r + n) w); [lia|]. split; [|repeat split; try lia; discriminate].
      rewrite skipn_app, skipn_skipn_l, skipn_length, Hl. replace (n - (size - r)) with 0 by lia. reflexivity.
    + assert (E: r + n - size = (r + n) mod size) by (apply Nat.mod_unique with (q := 1); lia). rewrite <- E.
      destruct (Nat.eqb_spec w (r + n - size)) as [X|X]; [lia|].
      destruct (Nat.ltb_spec (r + n - size) w); [|lia]. split; [|repeat split; try lia; discriminate].
      rewrite skipn_app, skipn_length, Hl, (skipn_all2 (skipn r buf)) by (rewrite skipn_length; lia).
      cbn [app]. rewrite skipn_firstn_comm. f_equal; [lia|f_equal; lia].
Qed.

End RingP.
