(* Proofs/MetadataP.v — C09: the metadata block codec.
   - the length prefix is canonical (1 byte up to 127, 2 bytes with the top bit for 128..32767, refused above)
   - the decoder accepts exactly the canonical, untruncated blocks ("parse_canonical": no malleability)
   - the decoder is total (no Panic, fuel suffices)
   - the encoder respects the budget and emits whole pairs only (a prefix of the eligible pairs in key order)
   - round trip for every well-formed map that fits
   - the encoded block is a function of the map (independent of insertion order) *)
From Coq Require Import List NArith ZArith Lia Bool Permutation.
From Coq.Strings Require Import Byte.
From Coq Require Import ZifyBool ZifyN ZifyNat.
From OAP Require Import Base.Bytes Base.Res Base.Sweep Gen.Consts Model.Metadata.
Import ListNotations.
Local Open Scope N_scope.

Ltac Zify.zify_post_hook ::= Z.div_mod_to_equations.

(* ------------------------------------------------------------------ *)
(* byte-level facts, each a complete sweep through the generated masks *)

Lemma low7_sweep :
  forallb (fun l => (N.land l c_md_lengthMask =? c_md_length7Bit) &&
                    (N.land l (255 - c_md_lengthMask) =? l)) (nrange 128) = true.
Proof. vm_compute. reflexivity. Qed.

Lemma hi15_sweep :
  forallb (fun h => let f := N.lor h c_md_length15Bit in
                    (f <? 256) && (N.land f c_md_lengthMask =? c_md_length15Bit) &&
                    (N.land f (255 - c_md_lengthMask) =? h)) (nrange 128) = true.
Proof. vm_compute. reflexivity. Qed.

Lemma byte_class_sweep :
  forallb (fun b => let n := bN b in
     if N.land n c_md_lengthMask =? c_md_length7Bit then (n <? 128) && (N.land n (255 - c_md_lengthMask) =? n)
     else (N.land n c_md_lengthMask =? c_md_length15Bit) && (128 <=? n) &&
          (N.land n (255 - c_md_lengthMask) <? 128) &&
          (N.lor (N.land n (255 - c_md_lengthMask)) c_md_length15Bit =? n)) all_bytes = true.
Proof. vm_compute. reflexivity. Qed.

Lemma consts_md :
  c_md_length7Bit = 0 /\ c_md_length15Bit = 128 /\ c_md_lengthMask = 128 /\
  c_md_max7BitLength = 127 /\ c_md_max15BitLength = 32767 /\ c_md_maxStringLength = 32767.
Proof. vm_compute. repeat split; reflexivity. Qed.

Local Opaque N.add N.mul N.div N.modulo N.lor N.land N.shiftl N.shiftr N.sub.

Lemma low7 l : l < 128 -> N.land l c_md_lengthMask = c_md_length7Bit /\ N.land l (255 - c_md_lengthMask) = l.
Proof.
  intros H. pose proof (sweep_N 128 _ low7_sweep l H) as S. cbv beta in S.
  apply andb_true_iff in S. destruct S as [A B]. apply N.eqb_eq in A, B. auto.
Qed.

Lemma hi15 h : h < 128 ->
  N.lor h c_md_length15Bit < 256 /\ N.land (N.lor h c_md_length15Bit) c_md_lengthMask = c_md_length15Bit /\
  N.land (N.lor h c_md_length15Bit) (255 - c_md_lengthMask) = h.
Proof.
  intros H. pose proof (sweep_N 128 _ hi15_sweep h H) as S. cbv beta zeta in S.
  rewrite !andb_true_iff in S. destruct S as [[A B] C].
  apply N.ltb_lt in A. apply N.eqb_eq in B, C. auto.
Qed.

Lemma byte_class b :
  (N.land (bN b) c_md_lengthMask = c_md_length7Bit /\ bN b < 128 /\ N.land (bN b) (255 - c_md_lengthMask) = bN b) \/
  (N.land (bN b) c_md_lengthMask = c_md_length15Bit /\ N.land (bN b) c_md_lengthMask <> c_md_length7Bit /\
   128 <= bN b /\ N.land (bN b) (255 - c_md_lengthMask) < 128 /\
   N.lor (N.land (bN b) (255 - c_md_lengthMask)) c_md_length15Bit = bN b).
Proof.
  pose proof (sweep_byte _ byte_class_sweep b) as S. cbv beta zeta in S.
  destruct (N.land (bN b) c_md_lengthMask =? c_md_length7Bit) eqn:E.
  - left. apply N.eqb_eq in E. apply andb_true_iff in S. destruct S as [A B].
    apply N.ltb_lt in A. apply N.eqb_eq in B. auto.
  - right. apply N.eqb_neq in E. rewrite !andb_true_iff in S. destruct S as [[[A B] C] D].
    apply N.eqb_eq in A, D. apply N.leb_le in B. apply N.ltb_lt in C. auto.
Qed.

(* ------------------------------------------------------------------ *)
(* canonical prefix: the encoder, for every length                    *)

Definition spec_prefix (l : N) : option bytes :=
  if l <=? 127 then Some [b8 l]
  else if l <=? 32767 then Some [b8 (128 + l / 256); b8 (l mod 256)]
  else None.

Lemma lor_hi_128 h : h < 128 -> N.lor h 128 = 128 + h.
Proof.
  intros H. assert (S : forallb (fun h => N.lor h 128 =? 128 + h) (nrange 128) = true) by (vm_compute; reflexivity).
  pose proof (sweep_N 128 _ S h H) as E. now apply N.eqb_eq in E.
Qed.

Theorem marshal_string_canonical s :
  marshal_string s = option_map (fun p => p ++ s) (spec_prefix (N.of_nat (length s))).
Proof.
  unfold marshal_string, spec_prefix. destruct consts_md as (_ & E15 & _ & E7 & EM & _).
  rewrite E7, EM, E15. set (l := N.of_nat (length s)).
  destruct (l <=? 127) eqn:A; [reflexivity|].
  destruct (l <=? 32767) eqn:B; [|reflexivity].
  apply N.leb_gt in A. apply N.leb_le in B. cbn [option_map app].
  rewrite N.shiftr_div_pow2. change (2 ^ 8) with 256.
  assert (Hh : l / 256 < 128) by lia.
  rewrite (N.mod_small (l / 256) 256) by lia. rewrite lor_hi_128 by exact Hh.
  change 255 with (N.ones 8). rewrite N.land_ones. change (2 ^ 8) with 256. reflexivity.
Qed.

Corollary marshal_string_too_long s : 32767 < N.of_nat (length s) <-> marshal_string s = None.
Proof.
  rewrite marshal_string_canonical. unfold spec_prefix.
  destruct (N.of_nat (length s) <=? 127) eqn:A; destruct (N.of_nat (length s) <=? 32767) eqn:B; cbn; split; intros H;
    try discriminate; try reflexivity; try lia.
Qed.

Lemma marshal_string_length s b : marshal_string s = Some b ->
  length b = (length s + (if (N.of_nat (length s) <=? 127)%N then 1 else 2))%nat.
Proof.
  rewrite marshal_string_canonical. unfold spec_prefix.
  destruct (N.of_nat (length s) <=? 127); [|destruct (N.of_nat (length s) <=? 32767)]; cbn; intros E; inversion E; subst;
    cbn [length]; rewrite ?app_length; cbn [length]; lia.
Qed.

(* ------------------------------------------------------------------ *)
(* decoder on an encoded string                                        *)

Lemma go_slice_mid {A} (pre s r : list A) :
  go_slice (length pre) (length s + length pre) (pre ++ s ++ r) = Ok s.
Proof.
  unfold go_slice. rewrite !app_length.
  replace ((length pre <=? length s + length pre)%nat && (length s + length pre <=? length pre + (length s + length r))%nat) with true
    by (symmetry; apply andb_true_iff; split; apply Nat.leb_le; lia).
  rewrite skipn_app, skipn_all, Nat.sub_diag. cbn [skipn app].
  replace (length s + length pre - length pre)%nat with (length s) by lia.
  rewrite firstn_app, firstn_all, Nat.sub_diag. cbn. now rewrite app_nil_r.
Qed.

Lemma go_slice_from_mid {A} (pre r : list A) : go_slice_from (length pre) (pre ++ r) = Ok r.
Proof.
  unfold go_slice_from. rewrite app_length.
  replace (length pre <=? length pre + length r)%nat with true by (symmetry; apply Nat.leb_le; lia).
  rewrite skipn_app, skipn_all, Nat.sub_diag. reflexivity.
Qed.

Theorem get_string_marshal s b r : marshal_string s = Some b -> get_string (b ++ r) = Ok (s, r).
Proof.
  rewrite marshal_string_canonical. unfold spec_prefix. set (l := N.of_nat (length s)).
  destruct consts_md as (E7b & E15b & EMb & E7 & EM & _).
  destruct (l <=? 127) eqn:A.
  - apply N.leb_le in A. cbn [option_map app]. intros E; injection E as <-.
    unfold get_string. cbn [app unmarshal_len].
    rewrite bN_b8, (N.mod_small l 256) by lia.
    destruct (low7 l ltac:(lia)) as [L1 L2]. rewrite L1, L2, N.eqb_refl. cbn [bind].
    rewrite N.eqb_refl. unfold l. rewrite Nat2N.id.
    replace (Z.of_nat (length s) >? Z.of_nat (length (b8 (N.of_nat (length s)) :: s ++ r)) - 1)%Z with false
      by (cbn [length]; rewrite app_length; lia).
    pose proof (go_slice_mid [b8 (N.of_nat (length s))] s r) as G. cbn [length app] in G.
    replace (length s + 1)%nat with (length s + 1)%nat in G by reflexivity. rewrite G. cbn [bind].
    pose proof (go_slice_from_mid (b8 (N.of_nat (length s)) :: s) r) as G2. cbn [length app] in G2.
    replace (length s + 1)%nat with (S (length s)) by lia. rewrite G2. reflexivity.
  - apply N.leb_gt in A. destruct (l <=? 32767) eqn:B; [|discriminate].
    apply N.leb_le in B. cbn [option_map app]. intros E; injection E as <-.
    unfold get_string. cbn [app unmarshal_len].
    assert (Hh : l / 256 < 128) by lia.
    rewrite bN_b8, (N.mod_small (128 + l / 256) 256) by lia.
    rewrite <- lor_hi_128 by exact Hh. rewrite <- E15b.
    destruct (hi15 (l / 256) Hh) as (_ & H1 & H2). rewrite H1, H2.
    replace (c_md_length15Bit =? c_md_length7Bit) with false by (rewrite E15b, E7b; reflexivity).
    rewrite N.eqb_refl.
    replace (length (b8 (N.lor (l / 256) c_md_length15Bit) :: b8 (l mod 256) :: s ++ r) <? 2)%nat with false
      by (symmetry; apply Nat.ltb_ge; cbn [length]; lia).
    cbn [go_index nth_error bind].
    rewrite bN_b8, N.mod_mod by lia. rewrite N.shiftl_mul_pow2. change (2 ^ 8) with 256.
    replace (l / 256 * 256 + l mod 256) with l by lia.
    rewrite E7. replace (l <=? 127) with false by (symmetry; apply N.leb_gt; lia).
    cbn [bind]. replace (c_md_length15Bit =? c_md_length7Bit) with false by (rewrite E15b, E7b; reflexivity).
    rewrite N.eqb_refl. replace (N.to_nat l) with (length s) by (unfold l; lia).
    match goal with |- context [(?a >? ?b)%Z] => replace (a >? b)%Z with false by (cbn [length]; rewrite app_length; lia) end.
    set (p0 := b8 (N.lor (l / 256) c_md_length15Bit)). set (p1 := b8 (l mod 256)).
    pose proof (go_slice_mid [p0; p1] s r) as G. cbn [length app] in G. rewrite G. cbn [bind].
    pose proof (go_slice_from_mid (p0 :: p1 :: s) r) as G2. cbn [length app] in G2.
    replace (length s + 2)%nat with (S (S (length s))) by lia. rewrite G2. reflexivity.
Qed.

(* ------------------------------------------------------------------ *)
(* the decoder accepts only canonical, untruncated strings             *)

Lemma firstn_skipn_split {A} n (l : list A) : l = firstn n l ++ skipn n l.
Proof. symmetry. apply firstn_skipn. Qed.

Theorem get_string_canonical data s r :
  get_string data = Ok (s, r) -> exists b, marshal_string s = Some b /\ data = b ++ r.
Proof.
  unfold get_string. destruct data as [|d0 t]; [cbn; discriminate|].
  destruct consts_md as (E7b & E15b & EMb & E7 & EM & _).
  cbn [unmarshal_len]. destruct (byte_class d0) as [(C1 & C2 & C3) | (C1 & C1' & C2 & C3 & C4)].
  - rewrite C1, C3, N.eqb_refl. cbn [bind]. rewrite N.eqb_refl.
    destruct (Z.of_nat (N.to_nat (bN d0)) >? Z.of_nat (length (d0 :: t)) - 1)%Z eqn:G; [discriminate|].
    cbn [length] in G.
    unfold go_slice, go_slice_from. cbn [length skipn].
    replace ((1 <=? N.to_nat (bN d0) + 1)%nat && (N.to_nat (bN d0) + 1 <=? S (length t))%nat) with true
      by (symmetry; apply andb_true_iff; split; apply Nat.leb_le; lia).
    cbn [bind]. replace (N.to_nat (bN d0) + 1 <=? S (length t))%nat with true by (symmetry; apply Nat.leb_le; lia).
    cbn [bind]. intros E; inversion E; subst s r; clear E.
    replace (N.to_nat (bN d0) + 1 - 1)%nat with (N.to_nat (bN d0)) by lia.
    replace (N.to_nat (bN d0) + 1)%nat with (S (N.to_nat (bN d0))) by lia. cbn [skipn].
    eexists. split.
    + rewrite marshal_string_canonical. unfold spec_prefix.
      rewrite firstn_length_le by lia. rewrite N2Nat.id.
      replace (bN d0 <=? 127) with true by (symmetry; apply N.leb_le; lia). cbn. rewrite b8_bN. reflexivity.
    + cbn [app]. f_equal. apply firstn_skipn_split.
  - rewrite C1. replace (c_md_length15Bit =? c_md_length7Bit) with false by (rewrite E15b, E7b; reflexivity).
    rewrite N.eqb_refl.
    destruct (length (d0 :: t) <? 2)%nat eqn:L2; [discriminate|]. apply Nat.ltb_ge in L2.
    destruct t as [|d1 t]; [cbn in L2; lia|]. cbn [go_index nth_error bind].
    set (h := N.land (bN d0) (255 - c_md_lengthMask)) in *.
    rewrite N.shiftl_mul_pow2. change (2 ^ 8) with 256.
    destruct (h * 256 + bN d1 <=? c_md_max7BitLength) eqn:M; [discriminate|]. rewrite E7 in M. apply N.leb_gt in M.
    cbn [bind]. replace (c_md_length15Bit =? c_md_length7Bit) with false by (rewrite E15b, E7b; reflexivity).
    rewrite N.eqb_refl. pose proof (bN_lt d1) as Hd1.
    set (l := h * 256 + bN d1) in *.
    destruct (Z.of_nat (N.to_nat l) >? Z.of_nat (length (d0 :: d1 :: t)) - 2)%Z eqn:G; [discriminate|].
    cbn [length] in G.
    unfold go_slice, go_slice_from. cbn [length].
    replace ((2 <=? N.to_nat l + 2)%nat && (N.to_nat l + 2 <=? S (S (length t)))%nat) with true
      by (symmetry; apply andb_true_iff; split; apply Nat.leb_le; lia).
    cbn [bind]. replace (N.to_nat l + 2 <=? S (S (length t)))%nat with true by (symmetry; apply Nat.leb_le; lia).
    cbn [bind]. intros E; inversion E; subst s r; clear E.
    replace (N.to_nat l + 2 - 2)%nat with (N.to_nat l) by lia.
    replace (N.to_nat l + 2)%nat with (S (S (N.to_nat l))) by lia. cbn [skipn].
    eexists. split.
    + rewrite marshal_string_canonical. unfold spec_prefix.
      rewrite firstn_length_le by lia. rewrite N2Nat.id.
      replace (l <=? 127) with false by (symmetry; apply N.leb_gt; lia).
      replace (l <=? 32767) with true by (symmetry; apply N.leb_le; lia). cbn [option_map].
      replace (l / 256) with h by lia. replace (l mod 256) with (bN d1) by lia.
      rewrite <- lor_hi_128 by lia. rewrite <- E15b. fold h in C4. rewrite C4, !b8_bN. reflexivity.
    + cbn [app]. do 2 f_equal. apply firstn_skipn_split.
Qed.

Lemma get_string_shrinks data s r : get_string data = Ok (s, r) -> (length r < length data)%nat.
Proof.
  intros H. destruct (get_string_canonical _ _ _ H) as (b & Hb & ->).
  pose proof (marshal_string_length _ _ Hb). rewrite app_length.
  destruct (N.of_nat (length s) <=? 127); lia.
Qed.

Lemma get_string_no_panic data : get_string data <> Panic /\ get_string data <> OutOfFuel.
Proof.
  unfold get_string. destruct data as [|d0 t].
  - vm_compute. split; discriminate.
  - destruct consts_md as (E7b & E15b & EMb & E7 & EM & _).
    cbn [unmarshal_len]. destruct (byte_class d0) as [(C1 & C2 & C3) | (C1 & C1' & C2 & C3 & C4)].
    + rewrite C1, C3, N.eqb_refl. cbn [bind]. rewrite N.eqb_refl.
      destruct (Z.of_nat (N.to_nat (bN d0)) >? Z.of_nat (length (d0 :: t)) - 1)%Z eqn:G; [split; discriminate|].
      cbn [length] in G. unfold go_slice, go_slice_from. cbn [length].
      replace ((1 <=? N.to_nat (bN d0) + 1)%nat && (N.to_nat (bN d0) + 1 <=? S (length t))%nat) with true
        by (symmetry; apply andb_true_iff; split; apply Nat.leb_le; lia).
      cbn [bind]. replace (N.to_nat (bN d0) + 1 <=? S (length t))%nat with true by (symmetry; apply Nat.leb_le; lia).
      cbn [bind]. split; discriminate.
    + rewrite C1. replace (c_md_length15Bit =? c_md_length7Bit) with false by (rewrite E15b, E7b; reflexivity).
      rewrite N.eqb_refl.
      destruct (length (d0 :: t) <? 2)%nat eqn:L2; [split; discriminate|]. apply Nat.ltb_ge in L2.
      destruct t as [|d1 t]; [cbn in L2; lia|]. cbn [go_index nth_error bind].
      match goal with |- context [if ?c then Err _ else _] => destruct c; [split; discriminate|] end.
      cbn [bind]. replace (c_md_length15Bit =? c_md_length7Bit) with false by (rewrite E15b, E7b; reflexivity).
      rewrite N.eqb_refl.
      match goal with |- context [(?a >? ?b)%Z] => destruct (a >? b)%Z eqn:G; [split; discriminate|] end.
      cbn [length] in G. unfold go_slice, go_slice_from. cbn [length].
      match goal with |- context [(2 <=? ?x + 2)%nat && (?x + 2 <=? ?y)%nat] =>
        replace ((2 <=? x + 2)%nat && (x + 2 <=? y)%nat) with true by (symmetry; apply andb_true_iff; split; apply Nat.leb_le; lia);
        cbn [bind]; replace (x + 2 <=? y)%nat with true by (symmetry; apply Nat.leb_le; lia) end.
      cbn [bind]. split; discriminate.
Qed.

(* ------------------------------------------------------------------ *)
(* the pair loop                                                       *)

Definition marshal_pair (kv : bytes * bytes) : option bytes :=
  match marshal_string (fst kv), marshal_string (snd kv) with
  | Some a, Some b => Some (a ++ b)
  | _, _ => None
  end.

Fixpoint marshal_pairs (ps : list (bytes * bytes)) : option bytes :=
  match ps with
  | [] => Some []
  | p :: r => match marshal_pair p, marshal_pairs r with
              | Some a, Some b => Some (a ++ b)
              | _, _ => None
              end
  end.

(* decoder accepts ONLY canonical, untruncated blocks: a successful parse re-encodes to the input *)
Theorem parse_canonical fuel data ps :
  parse_pairs fuel data = Ok ps -> marshal_pairs ps = Some data.
Proof.
  revert data ps. induction fuel as [|f IH]; intros data ps.
  - destruct data; cbn; [intros E; inversion E; reflexivity|discriminate].
  - destruct data as [|d0 t]; [cbn; intros E; inversion E; reflexivity|].
    cbn [parse_pairs]. destruct (get_string (d0 :: t)) as [[k d1]| | |] eqn:G1; cbn [bind]; try discriminate.
    destruct (get_string d1) as [[v d2]| | |] eqn:G2; cbn [bind]; try discriminate.
    destruct (parse_pairs f d2) as [ps'| | |] eqn:P; cbn [bind]; try discriminate.
    intros E; inversion E; subst ps; clear E.
    destruct (get_string_canonical _ _ _ G1) as (kb & Hk & E1).
    destruct (get_string_canonical _ _ _ G2) as (vb & Hv & E2).
    cbn [marshal_pairs]. unfold marshal_pair. cbn [fst snd]. rewrite Hk, Hv, (IH _ _ P).
    rewrite E1, E2, app_assoc. reflexivity.
Qed.

(* and every canonical block is accepted, with exactly those pairs *)
Theorem parse_marshal ps data fuel :
  marshal_pairs ps = Some data -> (length data <= fuel)%nat -> parse_pairs fuel data = Ok ps.
Proof.
  revert data fuel. induction ps as [|[k v] ps IH]; intros data fuel.
  - cbn. intros E; inversion E. destruct fuel; reflexivity.
  - cbn [marshal_pairs]. unfold marshal_pair. cbn [fst snd].
    destruct (marshal_string k) as [kb|] eqn:Hk; [|discriminate].
    destruct (marshal_string v) as [vb|] eqn:Hv; [|discriminate].
    destruct (marshal_pairs ps) as [rest|] eqn:Hr; [|discriminate].
    intros E; inversion E; subst data; clear E. intros Hf.
    pose proof (marshal_string_length _ _ Hk) as Lk.
    assert (kb <> []) by (intros ->; cbn in Lk; destruct (N.of_nat (length k) <=? 127); lia).
    rewrite !app_length in Hf.
    destruct fuel as [|f]; [destruct kb; [congruence|cbn in Hf; lia]|].
    destruct ((kb ++ vb) ++ rest) as [|x xs] eqn:D; [destruct kb; [congruence|discriminate]|].
    cbn [parse_pairs]. rewrite <- D. rewrite <- app_assoc.
    rewrite (get_string_marshal k kb (vb ++ rest) Hk). cbn [bind].
    rewrite (get_string_marshal v vb rest Hv). cbn [bind].
    rewrite (IH rest f eq_refl); [reflexivity|].
    destruct kb; [congruence|]. cbn [length] in Hf. lia.
Qed.

(* totality: never Panic, and [length data] fuel always suffices *)
Theorem parse_total fuel data :
  (length data <= fuel)%nat -> parse_pairs fuel data <> Panic /\ parse_pairs fuel data <> OutOfFuel.
Proof.
  revert data. induction fuel as [|f IH]; intros data Hf.
  - destruct data; [cbn; split; discriminate|cbn in Hf; lia].
  - destruct data as [|d0 t]; [cbn; split; discriminate|].
    cbn [parse_pairs]. destruct (get_string_no_panic (d0 :: t)) as [N1 N2].
    destruct (get_string (d0 :: t)) as [[k d1]| | |] eqn:G1; cbn [bind]; try (split; discriminate); try congruence.
    destruct (get_string_no_panic d1) as [N3 N4].
    destruct (get_string d1) as [[v d2]| | |] eqn:G2; cbn [bind]; try (split; discriminate); try congruence.
    pose proof (get_string_shrinks _ _ _ G1) as S1. pose proof (get_string_shrinks _ _ _ G2) as S2.
    destruct (IH d2 ltac:(cbn [length] in *; lia)) as [N5 N6].
    destruct (parse_pairs f d2); cbn [bind]; try (split; discriminate); congruence.
Qed.

Theorem unmarshal_values_total data :
  unmarshal_values data <> Panic /\ unmarshal_values data <> OutOfFuel.
Proof.
  unfold unmarshal_values. destruct data as [|d0 t]; [split; discriminate|].
  destruct (length (d0 :: t) <? 2)%nat; [split; discriminate|].
  destruct (parse_total (length (d0 :: t)) (d0 :: t) (le_n _)) as [A B].
  destruct (parse_pairs (length (d0 :: t)) (d0 :: t)); cbn [bind]; try (split; discriminate); congruence.
Qed.

(* non-canonical two-byte lengths are rejected, whatever follows *)
Theorem noncanonical_rejected hi lo rest :
  128 <= bN hi -> (bN hi - 128) * 256 + bN lo <= 127 -> unmarshal_len (hi :: lo :: rest) = Err EInvalidMetadata.
Proof.
  intros H1 H2. destruct consts_md as (E7b & E15b & EMb & E7 & EM & _).
  cbn [unmarshal_len]. destruct (byte_class hi) as [(C1 & C2 & C3) | (C1 & C1' & C2 & C3 & C4)]; [lia|].
  rewrite C1. replace (c_md_length15Bit =? c_md_length7Bit) with false by (rewrite E15b, E7b; reflexivity).
  rewrite N.eqb_refl. cbn [length Nat.ltb Nat.leb go_index nth_error bind].
  set (h := N.land (bN hi) (255 - c_md_lengthMask)) in *.
  assert (bN hi = 128 + h) by (rewrite <- C4, E15b; apply lor_hi_128; exact C3).
  rewrite N.shiftl_mul_pow2. change (2 ^ 8) with 256. rewrite E7.
  replace (h * 256 + bN lo <=? 127) with true by (symmetry; apply N.leb_le; lia). reflexivity.
Qed.

(* truncated blocks are rejected: a proper prefix of a canonical block that ends inside a pair *)
Theorem truncated_rejected data ps :
  unmarshal_values data = Ok ps -> data = [] \/ exists qs, marshal_pairs qs = Some data.
Proof.
  unfold unmarshal_values. destruct data as [|d0 t]; [auto|]. right.
  destruct (length (d0 :: t) <? 2)%nat; [discriminate|].
  destruct (parse_pairs (length (d0 :: t)) (d0 :: t)) as [qs| | |] eqn:P; cbn [bind] in *; try discriminate.
  exists qs. exact (parse_canonical _ _ _ P).
Qed.

(* ------------------------------------------------------------------ *)
(* the encoder: budget, whole pairs                                    *)

Definition eligible (kv : bytes * bytes) : bool :=
  match fst kv with [] => false | _ => match marshal_pair kv with Some _ => true | None => false end end.

(* the pairs the loop emits: eligible pairs in order, up to (not including) the first that does not fit *)
Fixpoint selected (m : mdmap) (max : Z) (used : nat) : list (bytes * bytes) :=
  match m with
  | [] => []
  | kv :: r =>
      if eligible kv then
        match marshal_pair kv with
        | Some b => if (Z.of_nat (length b + used) >? max)%Z then [] else kv :: selected r max (length b + used)
        | None => selected r max used
        end
      else selected r max used
  end.

Lemma marshal_loop_selected m max data :
  exists out, marshal_pairs (selected m max (length data)) = Some out /\ marshal_loop m max data = data ++ out.
Proof.
  revert data. induction m as [|[k v] r IH]; intros data.
  - exists []. cbn. now rewrite app_nil_r.
  - cbn [marshal_loop selected]. unfold eligible, marshal_pair. cbn [fst snd].
    destruct k as [|k0 kt]; [apply IH|].
    destruct (marshal_string (k0 :: kt)) as [kb|] eqn:Hk; [|apply IH].
    destruct (marshal_string v) as [vb|] eqn:Hv; [|apply IH].
    rewrite app_length.
    replace (length kb + length vb + length data)%nat with (length kb + length vb + length data)%nat by reflexivity.
    destruct (Z.of_nat (length kb + length vb + length data) >? max)%Z eqn:G.
    + exists []. cbn. now rewrite app_nil_r.
    + destruct (IH (data ++ kb ++ vb)) as (out & H1 & H2).
      exists ((kb ++ vb) ++ out). split.
      * cbn [marshal_pairs]. unfold marshal_pair. cbn [fst snd]. rewrite Hk, Hv.
        rewrite !app_length in H1. replace (length kb + length vb + length data)%nat with (length data + (length kb + length vb))%nat by lia.
        now rewrite H1.
      * rewrite H2. now rewrite <- !app_assoc.
Qed.

(* whole pairs only: the block is the concatenation of complete encoded pairs, namely [selected] *)
Theorem marshal_whole_pairs m max :
  marshal_pairs (selected m max 0) = Some (marshal_values m max).
Proof.
  unfold marshal_values. destruct (marshal_loop_selected m max []) as (out & H1 & H2).
  cbn [length app] in *. now rewrite H2.
Qed.

Lemma selected_sub m max used : incl (selected m max used) (filter eligible m).
Proof.
  revert used. induction m as [|kv r IH]; intros used; cbn [selected filter]; [apply incl_refl|].
  destruct (eligible kv) eqn:E.
  - destruct (marshal_pair kv); [|apply incl_tl, IH].
    destruct (_ >? _)%Z; [apply incl_nil_l|]. apply incl_cons; [left; reflexivity|apply incl_tl, IH].
  - apply IH.
Qed.

Lemma marshal_loop_budget m max data :
  (Z.of_nat (length data) <= Z.max 0 max)%Z -> (Z.of_nat (length (marshal_loop m max data)) <= Z.max 0 max)%Z.
Proof.
  revert data. induction m as [|[k v] r IH]; intros data Hd; cbn [marshal_loop]; [exact Hd|].
  destruct k as [|k0 kt]; [now apply IH|].
  destruct (marshal_string (k0 :: kt)) as [kb|]; [|now apply IH].
  destruct (marshal_string v) as [vb|]; [|now apply IH].
  destruct (Z.of_nat (length kb + length vb + length data) >? max)%Z eqn:G; [exact Hd|].
  apply IH. rewrite !app_length. lia.
Qed.

Theorem marshal_budget m max : (Z.of_nat (length (marshal_values m max)) <= Z.max 0 max)%Z.
Proof. apply marshal_loop_budget. cbn. lia. Qed.

(* ------------------------------------------------------------------ *)
(* round trip                                                          *)

Fixpoint pairs_size (m : mdmap) : nat :=
  match m with
  | [] => O
  | kv :: r => (match marshal_pair kv with Some b => length b | None => O end + pairs_size r)%nat
  end.

Lemma selected_all m max used :
  forallb eligible m = true -> (Z.of_nat (pairs_size m + used) <= max)%Z -> selected m max used = m.
Proof.
  revert used. induction m as [|kv r IH]; intros used; cbn [forallb selected pairs_size]; [reflexivity|].
  intros H. apply andb_true_iff in H. destruct H as [He Hr]. rewrite He.
  unfold eligible in He. destruct (fst kv); [discriminate|].
  destruct (marshal_pair kv) as [enc|]; [|discriminate]. intros Hs.
  replace (Z.of_nat (length enc + used) >? max)%Z with false by lia.
  f_equal. apply IH; [exact Hr|lia].
Qed.

(* a Go map whose keys are already lower case, as strictly sorted association list *)
Definition head_gt (k : bytes) (r : mdmap) : bool :=
  match r with [] => true | (k', _) :: _ => bytes_ltb k k' end.
Fixpoint sorted_keys (m : mdmap) : bool :=
  match m with
  | [] => true
  | (k, _) :: r => head_gt k r && sorted_keys r
  end.

Lemma bytes_ltb_irrefl a : bytes_ltb a a = false.
Proof. induction a as [|x a IH]; cbn; [reflexivity|]. now rewrite N.ltb_irrefl. Qed.

Lemma bytes_ltb_trans a b c : bytes_ltb a b = true -> bytes_ltb b c = true -> bytes_ltb a c = true.
Proof.
  revert b c. induction a as [|x a IH]; intros [|y b] [|z c]; cbn; try discriminate; try reflexivity.
  destruct (bN x <? bN y) eqn:A; destruct (bN y <? bN z) eqn:B; destruct (bN y <? bN x) eqn:A';
    destruct (bN z <? bN y) eqn:B'; try discriminate; intros H1 H2;
    try (replace (bN x <? bN z) with true by lia; reflexivity).
  - assert (bN x = bN y) by lia. assert (bN y = bN z) by lia.
    replace (bN x <? bN z) with false by lia. replace (bN z <? bN x) with false by lia. eapply IH; eauto.
Qed.

Lemma bytes_ltb_eqb a b : bytes_ltb a b = true -> bytes_eqb a b = false.
Proof.
  intros H. destruct (bytes_eqb a b) eqn:E; [|reflexivity].
  apply bytes_eqb_eq in E. subst. now rewrite bytes_ltb_irrefl in H.
Qed.

Lemma bytes_ltb_antisym a b : bytes_ltb a b = true -> bytes_ltb b a = false.
Proof.
  intros H. destruct (bytes_ltb b a) eqn:E; [|reflexivity].
  pose proof (bytes_ltb_trans _ _ _ H E) as T. now rewrite bytes_ltb_irrefl in T.
Qed.

Lemma bytes_trichotomy a b : bytes_ltb a b = false -> bytes_eqb a b = false -> bytes_ltb b a = true.
Proof.
  revert b. induction a as [|x a IH]; intros [|y b]; cbn; try discriminate; try reflexivity.
  destruct (bN x <? bN y) eqn:A; [discriminate|]. destruct (bN y <? bN x) eqn:B; [reflexivity|].
  intros H1 H2. assert (bN x = bN y) by lia. assert (x = y) by now apply bN_inj. subst y.
  replace (byte_eqb x x) with true in H2 by (symmetry; now apply byte_eqb_eq). cbn [andb] in H2. now apply IH.
Qed.

Definition all_keys_gt (k : bytes) (m : mdmap) : Prop := forall k' v', In (k', v') m -> bytes_ltb k k' = true.

Lemma sorted_keys_cons k v m : sorted_keys ((k, v) :: m) = true -> sorted_keys m = true /\ all_keys_gt k m.
Proof.
  revert k v. induction m as [|[k1 v1] m IH]; intros k v H.
  - split; [reflexivity|]. intros ? ? [].
  - cbn [sorted_keys head_gt] in H. rewrite !andb_true_iff in H. destruct H as [H1 [H2 H3]].
    split; [cbn [sorted_keys]; now rewrite H2, H3|].
    intros k' v' [E|I]; [inversion E; subst; exact H1|].
    destruct (IH k1 v1) as [_ G]; [cbn [sorted_keys]; now rewrite H2, H3|].
    eapply bytes_ltb_trans; [exact H1|]. eapply G; eauto.
Qed.

Lemma md_insert_append m k v :
  (forall k' v', In (k', v') m -> bytes_ltb k' k = true) -> md_insert k v m = m ++ [(k, v)].
Proof.
  induction m as [|[k1 v1] m IH]; intros H; cbn [md_insert app]; [reflexivity|].
  assert (L : bytes_ltb k1 k = true) by (eapply H; left; reflexivity).
  rewrite (bytes_ltb_antisym _ _ L).
  replace (bytes_eqb k k1) with false
    by (symmetry; destruct (bytes_eqb k k1) eqn:E; [apply bytes_eqb_eq in E; subst; now rewrite bytes_ltb_irrefl in L|reflexivity]).
  f_equal. apply IH. intros k' v' I. eapply H. right. exact I.
Qed.

Lemma md_of_list_sorted_aux (acc m : mdmap) :
  sorted_keys (acc ++ m) = true ->
  fold_left (fun a kv => md_insert (fst kv) (snd kv) a) m acc = acc ++ m.
Proof.
  revert acc. induction m as [|[k v] m IH]; intros acc S; cbn [fold_left]; [now rewrite app_nil_r|].
  cbn [fst snd]. rewrite md_insert_append.
  - rewrite IH; rewrite <- app_assoc; [reflexivity|exact S].
  - clear IH. induction acc as [|[k1 v1] acc IHa]; [intros ? ? []|].
    intros k' v' [E|I].
    + inversion E; subst. cbn [app] in S. destruct (sorted_keys_cons _ _ _ S) as [_ G].
      apply (G k v). apply in_or_app. right. left. reflexivity.
    + apply (IHa) with (v' := v'); [|exact I]. cbn [app] in S. now destruct (sorted_keys_cons _ _ _ S).
Qed.

Lemma md_of_list_sorted m : sorted_keys m = true -> md_of_list m = m.
Proof. intros S. unfold md_of_list. now rewrite (md_of_list_sorted_aux [] m S). Qed.

Definition lower_keys_ok (m : mdmap) : bool := forallb (fun kv => bytes_eqb (lower (fst kv)) (fst kv)) m.

Lemma map_lower_id m : lower_keys_ok m = true -> map (fun kv : bytes * bytes => (lower (fst kv), snd kv)) m = m.
Proof.
  induction m as [|[k v] m IH]; cbn; [reflexivity|]. intros H. apply andb_true_iff in H. destruct H as [H1 H2].
  apply bytes_eqb_eq in H1. rewrite H1. f_equal. now apply IH.
Qed.

Definition wf_md (m : mdmap) : bool := sorted_keys m && lower_keys_ok m && forallb eligible m.

Theorem roundtrip m max :
  wf_md m = true -> (Z.of_nat (pairs_size m) <= max)%Z ->
  unmarshal_values (marshal_values m max) = Ok m.
Proof.
  unfold wf_md. rewrite !andb_true_iff. intros [[S L] E] F.
  pose proof (marshal_whole_pairs m max) as W. rewrite selected_all in W by (auto; lia).
  set (out := marshal_values m max) in *.
  unfold unmarshal_values. destruct out as [|o0 ot] eqn:Eo.
  - destruct m as [|[k v] m]; [reflexivity|]. exfalso. cbn [marshal_pairs] in W.
    cbn [forallb] in E. apply andb_true_iff in E. destruct E as [E _]. unfold eligible in E. cbn [fst] in E.
    destruct k; [discriminate|]. unfold marshal_pair in *. cbn [fst snd] in *.
    destruct (marshal_string (b :: k)) as [kb|] eqn:Hk; [|discriminate].
    destruct (marshal_string v); [|discriminate]. destruct (marshal_pairs m); [|discriminate].
    inversion W as [W']. pose proof (marshal_string_length _ _ Hk).
    destruct kb; [cbn in *; destruct (_ <=? _); lia|discriminate].
  - assert (L2 : (length (o0 :: ot) <? 2)%nat = false).
    { apply Nat.ltb_ge. destruct m as [|[k v] m]; [cbn in W; discriminate|]. cbn [marshal_pairs] in W.
      unfold marshal_pair in W. cbn [fst snd] in W.
      destruct (marshal_string k) as [kb|] eqn:Hk; [|discriminate].
      destruct (marshal_string v) as [vb|] eqn:Hv; [|discriminate]. destruct (marshal_pairs m); [|discriminate].
      injection W as W'. rewrite <- W', !app_length.
      pose proof (marshal_string_length _ _ Hk). pose proof (marshal_string_length _ _ Hv).
      destruct (N.of_nat (length k) <=? 127); destruct (N.of_nat (length v) <=? 127); lia. }
    rewrite L2. rewrite (parse_marshal m (o0 :: ot) _ W (le_n _)). cbn [bind].
    unfold lower_pairs. rewrite map_lower_id by exact L. now rewrite md_of_list_sorted.
Qed.

(* ------------------------------------------------------------------ *)
(* Set refuses over-long keys/values, and only those                   *)

Theorem set_refuses k v m :
  (32767 < N.of_nat (length k) -> md_set k v m = Err EKeyTooLong) /\
  (N.of_nat (length k) <= 32767 -> 32767 < N.of_nat (length v) -> md_set k v m = Err EValTooLong) /\
  (N.of_nat (length k) <= 32767 -> N.of_nat (length v) <= 32767 -> md_set k v m = Ok (md_insert (lower k) v m)).
Proof.
  unfold md_set. destruct consts_md as (_ & _ & _ & _ & _ & EM). rewrite EM.
  repeat split; intros.
  - replace (32767 <? N.of_nat (length k)) with true by lia. reflexivity.
  - replace (32767 <? N.of_nat (length k)) with false by lia.
    replace (32767 <? N.of_nat (length v)) with true by lia. reflexivity.
  - replace (32767 <? N.of_nat (length k)) with false by lia.
    replace (32767 <? N.of_nat (length v)) with false by lia. reflexivity.
Qed.

(* ------------------------------------------------------------------ *)
(* determinism: the map representation (hence the encoded block) does  *)
(* not depend on the order in which entries were inserted/iterated      *)

Lemma head_gt_insert k0 k v m :
  head_gt k0 m = true -> bytes_ltb k0 k = true -> head_gt k0 (md_insert k v m) = true.
Proof.
  destruct m as [|[k1 v1] m]; cbn [md_insert head_gt]; intros H1 H2; [exact H2|].
  destruct (bytes_ltb k k1); [exact H2|]. destruct (bytes_eqb k k1); [exact H2|exact H1].
Qed.

Lemma md_insert_sorted k v m : sorted_keys m = true -> sorted_keys (md_insert k v m) = true.
Proof.
  induction m as [|[k1 v1] m IH]; intros S; [reflexivity|].
  cbn [sorted_keys] in S. apply andb_true_iff in S. destruct S as [S1 S2].
  cbn [md_insert]. destruct (bytes_ltb k k1) eqn:A.
  - cbn [sorted_keys head_gt]. now rewrite A, S1, S2.
  - destruct (bytes_eqb k k1) eqn:B.
    + apply bytes_eqb_eq in B. subst k1. cbn [sorted_keys]. now rewrite S1, S2.
    + pose proof (bytes_trichotomy _ _ A B) as C.
      cbn [sorted_keys]. rewrite (IH S2), andb_true_r. now apply head_gt_insert.
Qed.

Lemma md_lookup_insert k v m q :
  md_lookup q (md_insert k v m) = if bytes_eqb q k then Some v else md_lookup q m.
Proof.
  induction m as [|[k1 v1] m IH]; cbn [md_insert md_lookup]; [reflexivity|].
  destruct (bytes_ltb k k1) eqn:A; [reflexivity|].
  destruct (bytes_eqb k k1) eqn:B.
  - apply bytes_eqb_eq in B. subst k1. cbn [md_lookup]. destruct (bytes_eqb q k); reflexivity.
  - cbn [md_lookup]. rewrite IH. destruct (bytes_eqb q k) eqn:C; [|reflexivity].
    apply bytes_eqb_eq in C. subst q. now rewrite B.
Qed.

Lemma md_lookup_gt k m : all_keys_gt k m -> md_lookup k m = None.
Proof.
  induction m as [|[k1 v1] m IH]; intros G; [reflexivity|]. cbn [md_lookup].
  rewrite (bytes_ltb_eqb k k1) by (eapply G; left; reflexivity). apply IH. intros ? ? I. eapply G. right. exact I.
Qed.

(* two strictly sorted association lists with the same lookups are equal *)
Lemma sorted_ext m1 m2 :
  sorted_keys m1 = true -> sorted_keys m2 = true ->
  (forall q, md_lookup q m1 = md_lookup q m2) -> m1 = m2.
Proof.
  revert m2. induction m1 as [|[k1 v1] m1 IH]; intros [|[k2 v2] m2] S1 S2 H; [reflexivity| | |].
  - specialize (H k2). cbn in H. now rewrite bytes_eqb_refl in H.
  - specialize (H k1). cbn in H. now rewrite bytes_eqb_refl in H.
  - destruct (sorted_keys_cons _ _ _ S1) as [S1' G1]. destruct (sorted_keys_cons _ _ _ S2) as [S2' G2].
    assert (K : k1 = k2).
    { destruct (bytes_ltb k1 k2) eqn:A.
      - pose proof (H k1) as Hk. cbn [md_lookup] in Hk. rewrite bytes_eqb_refl, (bytes_ltb_eqb _ _ A) in Hk.
        rewrite md_lookup_gt in Hk; [discriminate|]. intros k' v' I. eapply bytes_ltb_trans; [exact A|]. eapply G2; eauto.
      - destruct (bytes_eqb k1 k2) eqn:B; [now apply bytes_eqb_eq|].
        pose proof (bytes_trichotomy _ _ A B) as C.
        pose proof (H k2) as Hk. cbn [md_lookup] in Hk. rewrite bytes_eqb_refl, (bytes_ltb_eqb _ _ C) in Hk.
        rewrite md_lookup_gt in Hk; [discriminate|]. intros k' v' I. eapply bytes_ltb_trans; [exact C|]. eapply G1; eauto. }
    subst k2. pose proof (H k1) as Hv. cbn [md_lookup] in Hv. rewrite bytes_eqb_refl in Hv. inversion Hv; subst v2.
    f_equal. apply IH; auto. intros q. specialize (H q). cbn [md_lookup] in H.
    destruct (bytes_eqb q k1) eqn:E; [|exact H].
    apply bytes_eqb_eq in E. subst q. now rewrite !md_lookup_gt.
Qed.

Lemma md_of_list_sorted_any l : sorted_keys (md_of_list l) = true.
Proof.
  unfold md_of_list. assert (G : forall acc, sorted_keys acc = true ->
    sorted_keys (fold_left (fun a kv => md_insert (fst kv) (snd kv) a) l acc) = true).
  { induction l as [|[k v] l IH]; intros acc S; cbn [fold_left]; [exact S|]. apply IH. now apply md_insert_sorted. }
  now apply G.
Qed.

Fixpoint assoc_last (q : bytes) (l : list (bytes * bytes)) (d : option bytes) : option bytes :=
  match l with
  | [] => d
  | (k, v) :: r => assoc_last q r (if bytes_eqb q k then Some v else d)
  end.

Lemma md_of_list_lookup l q : md_lookup q (md_of_list l) = assoc_last q l None.
Proof.
  unfold md_of_list. assert (G : forall acc, md_lookup q (fold_left (fun a kv => md_insert (fst kv) (snd kv) a) l acc)
                                   = assoc_last q l (md_lookup q acc)).
  { induction l as [|[k v] l IH]; intros acc; cbn [fold_left assoc_last]; [reflexivity|].
    rewrite IH. cbn [fst snd]. now rewrite md_lookup_insert. }
  apply G.
Qed.

Definition keys_nodup (l : list (bytes * bytes)) : Prop := NoDup (map fst l).

Lemma assoc_last_nodup q l d :
  keys_nodup l -> assoc_last q l d = match find (fun kv => bytes_eqb q (fst kv)) l with Some kv => Some (snd kv) | None => d end.
Proof.
  revert d. induction l as [|[k v] l IH]; intros d N; cbn [assoc_last find]; [reflexivity|].
  inversion N as [|? ? Hn N']; subst. cbn [fst]. rewrite (IH _ N'). destruct (bytes_eqb q k) eqn:E; [|reflexivity].
  apply bytes_eqb_eq in E. subst q.
  destruct (find (fun kv => bytes_eqb k (fst kv)) l) as [[k' v']|] eqn:F; [|reflexivity].
  exfalso. apply find_some in F. destruct F as [I E]. cbn in E. apply bytes_eqb_eq in E. subst k'.
  apply Hn. apply in_map_iff. exists (k, v'). auto.
Qed.

Lemma find_perm q (l1 l2 : list (bytes * bytes)) :
  Permutation l1 l2 -> keys_nodup l1 ->
  find (fun kv => bytes_eqb q (fst kv)) l1 = find (fun kv => bytes_eqb q (fst kv)) l2.
Proof.
  induction 1 as [|x l l' P IH|x y l|l l' l'' P1 IH1 P2 IH2]; intros N.
  - reflexivity.
  - cbn [find]. destruct (bytes_eqb q (fst x)); [reflexivity|]. apply IH. now inversion N.
  - cbn [find]. destruct (bytes_eqb q (fst y)) eqn:A; destruct (bytes_eqb q (fst x)) eqn:B; try reflexivity.
    exfalso. apply bytes_eqb_eq in A, B. inversion N as [|? ? Hn _]; subst. apply Hn. cbn. left. congruence.
  - rewrite IH1 by exact N. apply IH2. unfold keys_nodup in *. eapply Permutation_NoDup; [|exact N].
    now apply Permutation_map.
Qed.

Theorem map_order_independent l1 l2 :
  Permutation l1 l2 -> keys_nodup l1 -> md_of_list l1 = md_of_list l2.
Proof.
  intros P N. apply sorted_ext; try apply md_of_list_sorted_any.
  intros q. rewrite !md_of_list_lookup. rewrite !assoc_last_nodup; auto.
  - now rewrite (find_perm q l1 l2 P N).
  - unfold keys_nodup in *. eapply Permutation_NoDup; [|exact N]. now apply Permutation_map.
Qed.

Theorem marshal_deterministic l1 l2 max :
  Permutation l1 l2 -> keys_nodup l1 -> marshal_values (md_of_list l1) max = marshal_values (md_of_list l2) max.
Proof. intros P N. now rewrite (map_order_independent l1 l2 P N). Qed.

(* ------------------------------------------------------------------ *)
(* non-vacuity                                                         *)
Example wf_example :
  let m := [ ([ "k"%byte; "1"%byte ], [ "h"%byte; "i"%byte ]); ([ "k"%byte; "2"%byte ], []) ] in
  wf_md m = true /\ (Z.of_nat (pairs_size m) <= 12)%Z /\
  marshal_values m 12 = [x02; "k"; "1"; x02; "h"; "i"; x02; "k"; "2"; x00]%byte /\
  marshal_values m 9 = [x02; "k"; "1"; x02; "h"; "i"]%byte.
Proof. vm_compute. repeat split; reflexivity || (intros H; discriminate H). Qed.
