(* Proofs/TotalP.v — C04 for the one-shot decoder: on every byte string UnpackBytes returns a packet
   or an error; it never indexes or slices outside the supplied bytes (that would be Panic in the model). *)
From Coq Require Import List NArith ZArith Lia Bool.
From Coq.Strings Require Import Byte.
From Coq Require Import ZifyBool ZifyN ZifyNat.
From OAP Require Import Base.Bytes Base.Res Base.Sweep Gen.Consts Model.Metadata Model.Header Model.Frame Model.Stream Model.Spec
  Proofs.MetadataP Proofs.BitsP Proofs.FrameP Proofs.GzipP Proofs.StreamP.
Import ListNotations.
Local Open Scope N_scope.

Lemma hdr_tail_total v h frame :
  match hdr_unpack_bytes_tail v h frame with
  | Ok (h', rest) => (length rest <= length frame)%nat /\ (v =? 2 = false -> h_mlen h' = h_mlen h)
  | Err _ => True
  | Panic | OutOfFuel => False
  end.
Proof.
  unfold hdr_unpack_bytes_tail. destruct (is_unknown (h_ty h)) eqn:U; [exact I|].
  fold (hl1 v (h_ty h)). destruct (length frame <? hl1 v (h_ty h) + 1)%nat eqn:L; [exact I|]. apply Nat.ltb_ge in L.
  pose proof (ty_cases _ U) as T. rewrite (hl1_values v _ T) in L.
  change (match hdr_unpack_bytes_tail v h frame with
          | Ok (h', rest) => (length rest <= length frame)%nat /\ (v =? 2 = false -> h_mlen h' = h_mlen h)
          | Err _ => True | Panic | OutOfFuel => False end) || idtac.
  assert (G : match hdr_unpack_bytes_tail v h frame with
          | Ok (h', rest) => (length rest <= length frame)%nat /\ (v =? 2 = false -> h_mlen h' = h_mlen h)
          | Err _ => True | Panic | OutOfFuel => False end).
  { destruct T as [T|[T|T]]; rewrite T in L; destruct (v =? 2) eqn:V; cbn [N.eqb Pos.eqb] in L.
    - explode frame 13%nat. rewrite (tail_req_v2 v h) by assumption. split; [cbn [length]; lia|discriminate].
    - explode frame 11%nat. rewrite (tail_req_v1 v h) by assumption. split; [cbn [length]; lia|reflexivity].
    - explode frame 12%nat. rewrite (tail_resp_v2 v h) by assumption. split; [cbn [length]; lia|discriminate].
    - explode frame 10%nat. rewrite (tail_resp_v1 v h) by assumption. split; [cbn [length]; lia|reflexivity].
    - explode frame 7%nat. rewrite (tail_push_v2 v h) by assumption. split; [cbn [length]; lia|discriminate].
    - explode frame 5%nat. rewrite (tail_push_v1 v h) by assumption. split; [cbn [length]; lia|reflexivity]. }
  unfold hdr_unpack_bytes_tail in G. rewrite U in G. fold (hl1 v (h_ty h)) in G.
  replace (length frame <? hl1 v (h_ty h) + 1)%nat with false in G.
  - exact G.
  - symmetry. apply Nat.ltb_ge. rewrite (hl1_values v _ T). exact L.
Qed.

Lemma go_slice_in {A} lo hi (l : list A) : (lo <= hi)%nat -> (hi <= length l)%nat ->
  go_slice lo hi l = Ok (firstn (hi - lo) (skipn lo l)).
Proof.
  intros H1 H2. unfold go_slice.
  replace ((lo <=? hi)%nat && (hi <=? length l)%nat) with true by (symmetry; apply andb_true_iff; split; apply Nat.leb_le; lia).
  reflexivity.
Qed.
Lemma go_slice_from_in {A} lo (l : list A) : (lo <= length l)%nat -> go_slice_from lo l = Ok (skipn lo l).
Proof. intros H. unfold go_slice_from. replace (lo <=? length l)%nat with true by (symmetry; apply Nat.leb_le; lia). reflexivity. Qed.

Theorem unpack_bytes_total gz v codec stale bs :
  unpack_bytes gz v codec stale bs <> Panic /\ unpack_bytes gz v codec stale bs <> OutOfFuel.
Proof.
  unfold unpack_bytes, hdr_unpack_bytes. destruct bs as [|b0 bs]; [cbn; split; discriminate|].
  set (h1 := with_b0 _ _ _ _ _ _).
  pose proof (hdr_tail_total v h1 (b0 :: bs)) as T.
  destruct (hdr_unpack_bytes_tail v h1 (b0 :: bs)) as [[h data]|e| |]; try contradiction; cbn [bind]; [|split; discriminate].
  destruct (N.of_nat (length data) <? h_blen h + h_mlen h) eqn:L; [split; discriminate|].
  rewrite go_slice_in by lia. cbn [bind]. rewrite go_slice_in by lia. cbn [bind].
  set (md := hdr_metadata h codec).
  assert (Hm : forall mdb, (if v =? 2 then vals <- unmarshal_values mdb;; Ok (with_values md vals) else Ok md) <> Panic /\
                           (if v =? 2 then vals <- unmarshal_values mdb;; Ok (with_values md vals) else Ok md) <> OutOfFuel).
  { intros mdb. destruct (v =? 2); [|split; discriminate].
    destruct (unmarshal_values_total mdb) as [A B]. destruct (unmarshal_values mdb); cbn [bind]; split; congruence. }
  match goal with |- context [if v =? 2 then vals <- unmarshal_values ?m;; _ else _] => destruct (Hm m) as [Hm1 Hm2] end.
  match goal with |- context [if v =? 2 then vals <- unmarshal_values ?m;; _ else _] =>
    destruct (if v =? 2 then vals <- unmarshal_values m;; Ok (with_values md vals) else Ok md) as [md0|e| |] end;
    try congruence; cbn [bind]; [|split; discriminate].
  assert (Hv : forall md0, exists r, (if h_verify h =? 1 then
             if (length data <? N.to_nat (h_blen h) + N.to_nat (h_mlen h) + N.to_nat c_NonceLength + N.to_nat c_SignatureLength)%nat
             then Err EInvalidFrame
             else nb <- go_slice (N.to_nat (h_blen h) + N.to_nat (h_mlen h)) (N.to_nat (h_blen h) + N.to_nat (h_mlen h) + N.to_nat c_NonceLength) data;;
                  sg <- go_slice_from (N.to_nat (h_blen h) + N.to_nat (h_mlen h) + N.to_nat c_NonceLength) data;;
                  Ok (with_sig md0 (de nb) sg)
           else Ok md0) = r /\ r <> Panic /\ r <> OutOfFuel).
  { intros m. destruct (h_verify h =? 1); [|eexists; repeat split; discriminate].
    destruct (length data <? _)%nat eqn:L2; [eexists; repeat split; discriminate|]. apply Nat.ltb_ge in L2.
    rewrite go_slice_in by lia. cbn [bind]. rewrite go_slice_from_in by lia. cbn [bind]. eexists; repeat split; discriminate. }
  destruct (Hv md0) as (r & -> & R1 & R2). destruct r as [md1|e| |]; try congruence; cbn [bind]; [|split; discriminate].
  destruct (h_gzip h =? 1); [|cbn; split; discriminate].
  match goal with |- context [decompress gz ?b] => destruct (decompress_total gz b) as [G1 G2]; destruct (decompress gz b) end;
    cbn [bind]; try congruence; split; discriminate.
Qed.
