(* Proofs/RingWriteP.v — the write side of the concrete ring (Model/Ring.v: free, makeSpace, Write) refines
   "append to the content": in every well-formed state and for every byte string, with or without growth,
   Write(p) leaves a well-formed ring holding the old content followed by p. *)
From Coq Require Import List Arith Lia Bool.
From OAP Require Import Model.Ring Proofs.RingP.
Import ListNotations.

Section RingWriteP.
Context {A : Type} (z : A).
Implicit Types (g : ring A) (l p : list A).

Lemma skipn_app_le n l1 l2 : n <= length l1 -> skipn n (l1 ++ l2) = skipn n l1 ++ l2.
Proof. intros H. rewrite skipn_app. replace (n - length l1) with 0 by lia. reflexivity. Qed.
Lemma skipn_app_ge n l1 l2 : length l1 <= n -> skipn n (l1 ++ l2) = skipn (n - length l1) l2.
Proof. intros H. rewrite skipn_app, skipn_all2 by exact H. reflexivity. Qed.
Lemma firstn_app_le n l1 l2 : n <= length l1 -> firstn n (l1 ++ l2) = firstn n l1.
Proof. intros H. rewrite firstn_app. replace (n - length l1) with 0 by lia. cbn [firstn]. apply app_nil_r. Qed.
Lemma firstn_app_ge n l1 l2 : length l1 <= n -> firstn n (l1 ++ l2) = l1 ++ firstn (n - length l1) l2.
Proof. intros H. rewrite firstn_app, firstn_all2 by exact H. reflexivity. Qed.

Lemma ring_free_is_room g : ring_wf g -> ring_free g = rb_size g - length (ring_content g).
Proof.
  intros WF. rewrite <- (ring_length_refines g WF). revert WF.
  destruct g as [buf size r w emp]; unfold ring_wf, ring_free, ring_length; cbn [rb_buf rb_size rb_r rb_w rb_empty].
  intros (Hl & Hr & Hw & He).
  destruct (Nat.eqb_spec w r) as [E|NE]; [destruct emp; lia|].
  destruct (Nat.ltb_spec w r), (Nat.ltb_spec r w); lia.
Qed.

Lemma ring_nonempty_content g : ring_wf g -> rb_empty g = false -> 0 < length (ring_content g).
Proof.
  intros WF NE. rewrite <- (ring_length_refines g WF). revert WF NE.
  destruct g as [buf size r w emp]; unfold ring_wf, ring_length; cbn [rb_buf rb_size rb_r rb_w rb_empty].
  intros (Hl & Hr & Hw & He) ->.
  destruct (Nat.eqb_spec w r); [lia|]. destruct (Nat.ltb_spec r w); lia.
Qed.

Lemma ring_content_le_size g : ring_wf g -> length (ring_content g) <= rb_size g.
Proof.
  intros WF. rewrite <- (ring_length_refines g WF). revert WF.
  destruct g as [buf size r w emp]; unfold ring_wf, ring_length; cbn [rb_buf rb_size rb_r rb_w rb_empty].
  intros (Hl & Hr & Hw & He).
  destruct (Nat.eqb_spec w r); [destruct emp; lia|]. destruct (Nat.ltb_spec r w); lia.
Qed.

(* makeSpace keeps the content, the invariant, and adds exactly k free cells *)
Lemma ring_make_space_refines g k : ring_wf g -> 0 < k ->
  ring_content (ring_make_space z g k) = ring_content g /\ ring_wf (ring_make_space z g k) /\
  rb_size (ring_make_space z g k) = rb_size g + k.
Proof.
  intros WF K. pose proof (ring_content_le_size g WF) as LE. pose proof (ring_length_refines g WF) as LEN.
  unfold ring_make_space. rewrite LEN. split; [|split; [|reflexivity]].
  - unfold ring_content at 1; cbn [rb_buf rb_size rb_r rb_w rb_empty].
    destruct (rb_empty g) eqn:EM.
    + unfold ring_content. rewrite EM. reflexivity.
    + pose proof (ring_nonempty_content g WF EM) as POS.
      destruct (Nat.ltb_spec 0 (length (ring_content g))) as [_|C]; [|lia].
      unfold slice. cbn [skipn]. rewrite Nat.sub_0_r, firstn_app_le by lia. apply firstn_all.
  - unfold ring_wf; cbn [rb_buf rb_size rb_r rb_w rb_empty]. rewrite app_length, repeat_length.
    repeat split; try lia. intros EM. unfold ring_content. rewrite EM. reflexivity.
Qed.

(* Write without growth: n cells are free *)
Lemma ring_write_fits g p : ring_wf g -> 0 < length p -> length p <= ring_free g ->
  ring_content (ring_write z g p) = ring_content g ++ p /\ ring_wf (ring_write z g p) /\ rb_size (ring_write z g p) = rb_size g.
Proof.
  intros WF POS FIT. unfold ring_write.
  destruct (Nat.eqb_spec (length p) 0) as [Z|_]; [lia|].
  destruct (Nat.ltb_spec (ring_free g) (length p)) as [C|_]; [lia|].
  revert WF FIT. destruct g as [buf size r w emp]; unfold ring_wf, ring_free; cbn [rb_buf rb_size rb_r rb_w rb_empty].
  intros (Hl & Hr & Hw & He) FIT. set (n := length p) in *.
  destruct (Nat.leb_spec r w) as [RW|WR].
  - (* plain or empty *)
    assert (OLD: ring_content (mkRing buf size r w emp) = skipn r (firstn w buf)).
    { unfold ring_content, slice; cbn [rb_buf rb_size rb_r rb_w rb_empty]. destruct emp.
      - rewrite (He eq_refl). symmetry. apply skipn_all2. rewrite firstn_length. lia.
      - destruct (Nat.ltb_spec r w) as [L|G]; [now rewrite skipn_firstn_comm|].
        assert (w = r) by lia. subst w. rewrite Nat.eqb_refl in FIT. lia. }
    rewrite OLD. clear OLD.
    assert (FREE: n <= size - w + r).
    { destruct (Nat.eqb_spec w r); [destruct emp; lia|]. destruct (Nat.ltb_spec w r); lia. }
    clear FIT.
    destruct (Nat.leb_spec n (size - w)) as [F1|F2].
    + (* one piece *)
      destruct (Nat.eqb_spec (w + n) size) as [E|NE]; unfold ring_content, ring_wf, splice, slice; cbn [rb_buf rb_size rb_r rb_w rb_empty].
      * split; [|split; [|reflexivity]].
        -- destruct (Nat.ltb_spec r 0); [lia|]. cbn [firstn]. rewrite app_nil_r.
           fold n. rewrite (skipn_all2 buf) by lia. rewrite app_nil_r, skipn_app_le by (rewrite firstn_length; lia). reflexivity.
        -- rewrite !app_length, firstn_length, skipn_length. fold n. repeat split; try lia; try discriminate.
      * split; [|split; [|reflexivity]].
        -- destruct (Nat.ltb_spec r (w + n)); [|lia]. fold n.
           rewrite skipn_app_le by (rewrite firstn_length; lia).
           rewrite firstn_app_ge by (rewrite skipn_length, firstn_length; lia). f_equal.
           rewrite skipn_length, firstn_length, firstn_app_ge by lia.
           replace (w + n - r - (Nat.min w (length buf) - r) - length p) with 0 by (fold n; lia). cbn [firstn]. apply app_nil_r.
        -- rewrite !app_length, firstn_length, skipn_length. fold n. repeat split; try lia; try discriminate.
    + (* two pieces *)
      assert (w + n - size <= r) by lia.
      destruct (Nat.eqb_spec (w + n - size) size) as [E|NE]; [lia|].
      unfold ring_content, ring_wf, splice, slice; cbn [rb_buf rb_size rb_r rb_w rb_empty firstn app].
      rewrite firstn_length, skipn_length. fold n.
      replace (Nat.min (size - w) n) with (size - w) by lia.
      rewrite (skipn_all2 buf) by lia. rewrite app_nil_r.
      replace (0 + (n - (size - w))) with (w + n - size) by lia.
      split; [|split; [|reflexivity]].
      * destruct (Nat.ltb_spec r (w + n - size)) as [C|_]; [lia|].
        rewrite firstn_app_le, (firstn_all2 (skipn (size - w) p)) by (rewrite ?skipn_length; fold n; lia).
        rewrite skipn_app_ge by (rewrite skipn_length; fold n; lia). rewrite skipn_length. fold n.
        rewrite skipn_skipn_l. replace (w + n - size + (r - (n - (size - w)))) with r by lia.
        rewrite skipn_app_le by (rewrite firstn_length; lia).
        rewrite <- app_assoc, firstn_skipn. reflexivity.
      * repeat (rewrite ?app_length, ?skipn_length, ?firstn_length). fold n. repeat split; try lia; try discriminate.
  - (* wrapped *)
    assert (FREE: n <= r - w).
    { destruct (Nat.eqb_spec w r); [lia|]. destruct (Nat.ltb_spec w r); lia. }
    clear FIT. destruct emp; [specialize (He eq_refl); lia|].
    destruct (Nat.eqb_spec (w + n) size) as [E|NE]; [lia|].
    unfold ring_content, ring_wf, splice, slice; cbn [rb_buf rb_size rb_r rb_w rb_empty].
    destruct (Nat.ltb_spec r w); [lia|]. destruct (Nat.ltb_spec r (w + n)); [lia|]. fold n.
    split; [|split; [|reflexivity]].
    + rewrite skipn_app_ge by (rewrite firstn_length; lia). rewrite firstn_length.
      rewrite skipn_app_ge by (fold n; lia). fold n. rewrite skipn_skipn_l.
      replace (w + n + (r - Nat.min w (length buf) - n)) with r by lia.
      rewrite <- app_assoc. f_equal.
      rewrite firstn_app_ge by (rewrite firstn_length; lia). rewrite firstn_length.
      replace (w + n - Nat.min w (length buf)) with (length p) by (fold n; lia).
      rewrite firstn_app_le by lia. rewrite firstn_all. reflexivity.
    + rewrite !app_length, firstn_length, skipn_length. fold n. repeat split; try lia; try discriminate.
Qed.

(* Write in general: grow by exactly the missing amount, then as above *)
Theorem ring_write_refines g p : ring_wf g ->
  ring_content (ring_write z g p) = ring_content g ++ p /\ ring_wf (ring_write z g p).
Proof.
  intros WF. destruct (Nat.eqb_spec (length p) 0) as [Z|NZ].
  - unfold ring_write. rewrite Z. cbn [Nat.eqb]. destruct p; [|discriminate]. rewrite app_nil_r. auto.
  - destruct (Nat.ltb_spec (ring_free g) (length p)) as [GROW|FIT].
    + destruct (ring_make_space_refines g (length p - ring_free g) WF ltac:(lia)) as (C & W & S).
      assert (F: length p <= ring_free (ring_make_space z g (length p - ring_free g))).
      { rewrite (ring_free_is_room _ W), S, C. rewrite (ring_free_is_room g WF) in *. pose proof (ring_content_le_size g WF). lia. }
      destruct (ring_write_fits _ p W ltac:(lia) F) as (C2 & W2 & _).
      assert (EQ: ring_write z g p = ring_write z (ring_make_space z g (length p - ring_free g)) p).
      { unfold ring_write at 1 2. destruct (Nat.eqb_spec (length p) 0); [lia|].
        destruct (Nat.ltb_spec (ring_free g) (length p)); [|lia].
        destruct (Nat.ltb_spec (ring_free (ring_make_space z g (length p - ring_free g))) (length p)); [lia|]. reflexivity. }
      rewrite EQ, C2, C. auto.
    + destruct (ring_write_fits g p WF ltac:(lia) FIT) as (C2 & W2 & _). auto.
Qed.

(* every history of Write / Length / Peek / Retrieve on a well-formed ring shows exactly what the same history shows on the
   content, and ends in a well-formed ring holding the content the abstract history ends with *)
Theorem ring_history_refines ops : forall g, ring_wf g ->
  snd (run_ops (ring_step z) g ops) = snd (run_ops content_step (ring_content g) ops) /\
  ring_content (fst (run_ops (ring_step z) g ops)) = fst (run_ops content_step (ring_content g) ops) /\
  ring_wf (fst (run_ops (ring_step z) g ops)).
Proof.
  induction ops as [|o ops IH]; intros g WF; [cbn; auto|].
  assert (ST: snd ((ring_step z) g o) = snd (content_step (ring_content g) o) /\
              ring_content (fst ((ring_step z) g o)) = fst (content_step (ring_content g) o) /\ ring_wf (fst ((ring_step z) g o))).
  { destruct o as [|n|n|n]; cbn [ring_step content_step fst snd].
    - rewrite ring_length_refines by exact WF. auto.
    - rewrite ring_peek_refines by exact WF. auto.
    - destruct (ring_retrieve_refines g n WF); auto.
    - destruct (ring_write_refines g n WF); auto. }
  destruct ST as (S1 & S2 & S3). cbn [run_ops].
  destruct (ring_step z g o) as [g1 b] eqn:E1. destruct (content_step (ring_content g) o) as [c1 b'] eqn:E2.
  cbn [fst snd] in S1, S2, S3. subst b' c1.
  specialize (IH g1 S3). destruct (run_ops (ring_step z) g1 ops) as [g2 bs]. destruct (run_ops content_step (ring_content g1) ops) as [c2 bs'].
  cbn [fst snd] in *. destruct IH as (I1 & I2 & I3). subst. auto.
Qed.

End RingWriteP.
