(* Proofs/WritePathP.v — C12, for every interleaving of enqueues (any number of writers: each enqueue is one
   step), writer steps and socket behaviours (any byte counts), every queue size. *)
From Coq Require Import List NArith Arith Lia Bool.
From OAP Require Import Base.Bytes Base.Res Model.WritePath.
Import ListNotations.

(* TCP: bytes at the socket ++ remainder ++ queued items = all accepted data, in acceptance order *)
Definition TcpInv (s : wpstate) : Prop :=
  wp_sock s ++ wp_rem s ++ concat (wp_queue s) = concat (wp_accepted s) /\ wp_msgs s = [] /\
  (length (wp_queue s) <= wp_cap s)%nat.

Lemma tcp_inv_step s a : tcp_act a = true -> TcpInv s -> TcpInv (wpstep s a).
Proof.
  intros T [A [M B]]. destruct a as [d|n|n| |]; try discriminate; cbn [wpstep].
  - destruct (wp_closed s); [split; [exact A|split; assumption]|].
    destruct (Nat.ltb (length (wp_queue s)) (wp_cap s)) eqn:E; (split; [|split]); cbn; auto.
    + rewrite !concat_app. cbn. rewrite !app_nil_r, <- A. now rewrite <- !app_assoc.
    + rewrite app_length. cbn. apply Nat.ltb_lt in E. lia.
  - destruct (wp_queue s) as [|d q] eqn:Q; [split; [rewrite Q; exact A|split; [exact M|rewrite Q; exact B]]|].
    (split; [|split]); cbn; auto.
    + rewrite <- A. unfold wp_sock. cbn [wp_socks concat]. rewrite concat_app. cbn [concat]. rewrite app_nil_r, <- !app_assoc. f_equal.
      rewrite (app_assoc (firstn n _)), firstn_skipn. now rewrite <- app_assoc.
    + cbn in B. lia.
  - (split; [|split]); cbn; auto. rewrite <- A. unfold wp_sock. cbn [wp_socks]. rewrite concat_app. cbn [concat]. rewrite app_nil_r, <- !app_assoc. f_equal.
    rewrite (app_assoc (firstn n _)), firstn_skipn. reflexivity.
  - split; [exact A|split; assumption].
Qed.

Theorem tcp_stream_invariant cap acts : forallb tcp_act acts = true -> TcpInv (wprun cap acts).
Proof.
  unfold wprun. assert (G : forall s, TcpInv s -> forallb tcp_act acts = true -> TcpInv (fold_left wpstep acts s)).
  { induction acts as [|a acts IH]; intros s I F; [exact I|]. cbn in F. apply andb_true_iff in F. destruct F as [F1 F2].
    cbn. apply IH; [now apply tcp_inv_step|exact F2]. }
  intros F. apply G; [|exact F]. repeat split; cbn; lia.
Qed.

(* what the peer has received is always a prefix of handshake ++ frames in acceptance order: no interleaving,
   no tearing, no duplication, no loss while the connection is up *)
Corollary tcp_socket_is_prefix cap acts : forallb tcp_act acts = true ->
  exists rest, concat (wp_accepted (wprun cap acts)) = wp_sock (wprun cap acts) ++ rest.
Proof. intros F. destruct (tcp_stream_invariant cap acts F) as [A _]. eexists. symmetry. exact A. Qed.

(* when the writer has drained everything, the peer has exactly all accepted data, in order, once *)
Corollary tcp_quiescent cap acts : forallb tcp_act acts = true ->
  let s := wprun cap acts in wp_queue s = [] -> wp_rem s = [] -> wp_sock s = concat (wp_accepted s).
Proof. intros F s Q R. destruct (tcp_stream_invariant cap acts F) as [A _]. fold s in A. rewrite Q, R in A. cbn in A. now rewrite !app_nil_r in A. Qed.

(* WebSocket: one binary message per accepted item, in order *)
Definition WsInv (s : wpstate) : Prop := wp_msgs s ++ wp_queue s = wp_accepted s /\ wp_socks s = [] /\ wp_rem s = [].

Lemma ws_inv_step s a : ws_act a = true -> WsInv s -> WsInv (wpstep s a).
Proof.
  intros T [A [B C]]. destruct a as [d|n|n| |]; try discriminate; cbn [wpstep].
  - destruct (wp_closed s); [repeat split; assumption|]. destruct (Nat.ltb (length (wp_queue s)) (wp_cap s)); repeat split; cbn; auto.
    rewrite <- A. now rewrite app_assoc.
  - destruct (wp_queue s) as [|d q] eqn:Q; [repeat split; auto; now rewrite Q|]. repeat split; cbn; auto. rewrite <- A. now rewrite <- app_assoc.
  - repeat split; assumption.
Qed.

Theorem ws_message_invariant cap acts : forallb ws_act acts = true -> WsInv (wprun cap acts).
Proof.
  unfold wprun. assert (G : forall s, WsInv s -> forallb ws_act acts = true -> WsInv (fold_left wpstep acts s)).
  { induction acts as [|a acts IH]; intros s I F; [exact I|]. cbn in F. apply andb_true_iff in F. destruct F as [F1 F2].
    cbn. apply IH; [now apply ws_inv_step|exact F2]. }
  intros F. apply G; [|exact F]. repeat split.
Qed.

(* an enqueue is one step that always returns: accepted iff open and there is room; a full queue is an error *)
Theorem enqueue_verdict s d :
  wp_verdicts (wpstep s (PEnq d)) = wp_verdicts s ++ [negb (wp_closed s) && Nat.ltb (length (wp_queue s)) (wp_cap s)].
Proof. cbn [wpstep]. destruct (wp_closed s); [reflexivity|]. destruct (Nat.ltb _ _); reflexivity. Qed.

Theorem rejected_enqueue_changes_nothing s d :
  (wp_closed s = true \/ (wp_cap s <= length (wp_queue s))%nat) ->
  let s' := wpstep s (PEnq d) in wp_queue s' = wp_queue s /\ wp_accepted s' = wp_accepted s /\ wp_sock s' = wp_sock s.
Proof.
  intros H. cbn [wpstep]. destruct (wp_closed s); [repeat split|]. destruct H as [H|H]; [discriminate|].
  replace (Nat.ltb (length (wp_queue s)) (wp_cap s)) with false by (symmetry; apply Nat.ltb_ge; exact H). repeat split.
Qed.

(* the handshake is the first accepted item and stays the first *)
Lemma accepted_head_stable hs : forall acts s, (exists r, wp_accepted s = hs :: r) ->
  exists r, wp_accepted (fold_left wpstep acts s) = hs :: r.
Proof.
  induction acts as [|a acts IH]; intros s H; [exact H|]. cbn [fold_left]. apply IH. destruct H as [r H].
  destruct a as [d|n|n| |]; cbn [wpstep]; try (exists r; exact H).
  - destruct (wp_closed s); [exists r; exact H|]. destruct (Nat.ltb _ _); cbn; [exists (r ++ [d]); now rewrite H|exists r; exact H].
  - destruct (wp_queue s); cbn; exists r; exact H.
  - destruct (wp_queue s); cbn; exists r; exact H.
Qed.

Theorem handshake_first cap hs acts : (0 < cap)%nat ->
  exists r, wp_accepted (wprun cap (PEnq hs :: acts)) = hs :: r.
Proof.
  intros Hc. unfold wprun. cbn [fold_left]. apply accepted_head_stable. cbn [wpstep wp0 wp_closed wp_queue wp_cap length].
  replace (Nat.ltb 0 cap) with true by (symmetry; apply Nat.ltb_lt; exact Hc). exists []. reflexivity.
Qed.
