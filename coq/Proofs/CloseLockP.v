From Coq Require Import List Arith Bool Lia.
From OAP Require Import Model.CloseLock.
Import ListNotations.

Definition upc_eqb (a b : upc) : bool :=
  match a, b with U0,U0 | U1,U1 | U2,U2 | U3,U3 | U3body,U3body | U4,U4 | U5,U5 => true | _, _ => false end.
Definition r_in_body (p : rpc) : bool := match p with R1 | R2 | R3 | R3w | R4 | R5 => true | _ => false end.
Definition r_wants_w (p : rpc) : bool := match p with R3 | R3w | R4 => true | _ => false end.
Definition once_eqb (a b : once_st) : bool :=
  match a, b with OIdle,OIdle | ORunU,ORunU | ORunR,ORunR | ODone,ODone => true | _, _ => false end.

(* the invariant: the two flags follow the program counters, the once is run by whoever is in its body, the writer
   excludes the readers, and - the point - while the reader heads for the write lock the user is not inside the once *)
Definition invb (s : st) : bool :=
  Bool.eqb (cc s) (negb (upc_eqb (u s) U0))
  && Bool.eqb (once_eqb (once s) ORunR) (r_in_body (r s))
  && Bool.eqb (once_eqb (once s) ORunU) (upc_eqb (u s) U3body)
  && (if once_eqb (once s) ODone then kc s else true)
  && (if kc s then true else match r s with R0 | R1 => true | _ => false end)
  && (if r_wants_w (r s) then kc s && negb (upc_eqb (u s) U3) && negb (upc_eqb (u s) U3body) else true)
  && Bool.eqb (wr s) (match r s with R4 => true | _ => false end)
  && (if wr s then negb (u_holds_r (u s)) && Nat.eqb (env s) 0 else true)
  && (if upc_eqb (u s) U3 || upc_eqb (u s) U3body then cc s else true).

Lemma inv_init n : invb (init n) = true.
Proof. reflexivity. Qed.

Lemma inv_step s w s' : invb s = true -> step s w = Some s' -> invb s' = true.
Proof.
  destruct s as [pu pr c k o e wrt]. intros I E.
  destruct w; destruct pu, pr, c, k, o, wrt; destruct e as [|e]; cbn in I; try discriminate I;
    cbn in E; try discriminate E; injection E as <-; reflexivity.
Qed.

Inductive reachable (n : nat) : st -> Prop :=
| reach_init : reachable n (init n)
| reach_step s w s' : reachable n s -> step s w = Some s' -> reachable n s'.

Lemma reachable_inv n s : reachable n s -> invb s = true.
Proof. induction 1; [apply inv_init|eapply inv_step; eauto]. Qed.

(* NO DEADLOCK: in every reachable state that is not final, some thread can move *)
Theorem no_deadlock n s : reachable n s -> final s = false -> enabled s = true.
Proof.
  intros Rch F. pose proof (reachable_inv n s Rch) as I. destruct s as [pu pr c k o e wrt].
  destruct pu, pr, c, k, o, wrt; destruct e as [|e]; cbn in I; try discriminate I; cbn in F; try discriminate F; reflexivity.
Qed.

(* every step makes progress: a measure that strictly decreases, so every maximal schedule ends - in a final state by
   no_deadlock: neither deadlock nor livelock *)
Definition urank (p : upc) : nat := match p with U0 => 6 | U1 => 5 | U2 => 4 | U3 => 3 | U3body => 2 | U4 => 1 | U5 => 0 end.
Definition rrank (p : rpc) : nat := match p with R0 => 7 | R1 => 6 | R2 => 5 | R3 => 4 | R3w => 3 | R4 => 2 | R5 => 1 | R6 => 0 end.
Definition measure (s : st) : nat := urank (u s) + rrank (r s) + env s.

Theorem step_decreases s w s' : step s w = Some s' -> measure s' < measure s.
Proof.
  destruct s as [pu pr c k o e wrt]. unfold measure.
  destruct w; cbn [step u r env]; [destruct pu|destruct pr|destruct e];
    repeat match goal with |- context [if ?b then _ else _] => destruct b end;
    try match goal with |- context [match ?o with OIdle => _ | _ => _ end] => destruct o end;
    intros E; try discriminate E; injection E as <-; cbn; lia.
Qed.

(* mutual exclusion of the lock as modelled: the writer never coexists with a reader *)
Theorem writer_excludes_readers n s : reachable n s -> wr s = true -> u_holds_r (u s) = false /\ env s = 0.
Proof.
  intros Rch W. pose proof (reachable_inv n s Rch) as I. destruct s as [pu pr c k o e wrt]. cbn in W. subst wrt.
  destruct pu, pr, c, k, o; cbn in I; try discriminate I; destruct e; cbn in I; try discriminate I; auto.
Qed.

(* the cycle that would be a deadlock is unreachable: the user inside the once while the reader heads for the write lock *)
Theorem no_close_cycle n s : reachable n s -> (u s = U3 \/ u s = U3body) -> r_wants_w (r s) = false.
Proof.
  intros Rch H. pose proof (reachable_inv n s Rch) as I. destruct s as [pu pr c k o e wrt]. cbn in H.
  destruct H; subst pu; destruct pr, c, k, o, wrt; cbn in I; try discriminate I; reflexivity.
Qed.

(* what goes wrong without the order of the flags: if Close took the read lock BEFORE closing the client's closeCh the
   cycle is reachable (the witness is a schedule of this model with U0/U1 swapped, shown on a variant step) *)
Definition step_nocheck (s : st) (w : who) : option st :=
  match w, r s with
  | TR, R2 => Some (mkSt (u s) R3 (cc s) (kc s) (once s) (env s) (wr s))     (* onConnClose without the closed test *)
  | _, _ => step s w
  end.
Fixpoint run_nocheck (s : st) (ws : list who) : st :=
  match ws with
  | [] => s
  | w :: rest => match step_nocheck s w with Some s' => run_nocheck s' rest | None => run_nocheck s rest end
  end.
Example without_the_closed_test_the_cycle_is_a_deadlock :
  let s := run_nocheck (init 0) [TR; TU; TU; TU; TU; TR; TR; TR] in
  u s = U3 /\ r s = R3w /\ final s = false /\
  step_nocheck s TU = None /\ step_nocheck s TR = None /\ step_nocheck s TEnv = None.
Proof. vm_compute. repeat split. Qed.

(* and the two schedules the harness forces on the real client (reader parked at its log line inside the once while
   the user closes; user first) end in the final state *)
Example forced_schedules :
  final (run (init 0) [TR; TU; TU; TU; TU; TU; TR; TR; TR; TU; TU; TU]) = true /\
  final (run (init 0) [TU; TU; TU; TU; TU; TU; TU; TR; TR]) = true.
Proof. vm_compute. split; reflexivity. Qed.
