(* Proofs/StreamP.v — C03/C04 for the streaming decoder (Model/Stream.v):
   - the result does not depend on how the ring buffer splits Peek(3) (buffer geometry);
   - bytes that arrive later do not change what an earlier call decided (segmentation):
     a call that needed more data, followed by more data, behaves like the call on all the data;
     a call that produced a packet (or an error in the body phase) produces the same with more data behind it;
   - the header parse of the streaming decoder and of the one-shot decoder agree;
   - no call panics, a reported packet consumed at least one byte, allocations are bounded by the buffered bytes. *)
From Coq Require Import List NArith ZArith Lia Bool.
From Coq.Strings Require Import Byte.
From Coq Require Import ZifyBool ZifyN ZifyNat.
From OAP Require Import Base.Bytes Base.Res Base.Sweep Gen.Consts Model.Metadata Model.Header Model.Frame Model.Stream Model.Spec
  Proofs.MetadataP Proofs.BitsP Proofs.FrameP Proofs.GzipP.
Import ListNotations.
Local Open Scope N_scope.
Ltac Zify.zify_post_hook ::= Z.div_mod_to_equations.

Local Arguments de : simpl never.
Local Arguments b8 : simpl never.
Local Arguments bN : simpl never.

(* ------------------------------------------------------------------ *)
(* the header parser on explicit bytes, for EVERY Peek(3) split k       *)

Ltac all_k k := destruct k as [|[|[|k]]]; reflexivity.

Lemma stail_req_v2 v k h c r3 r2 r1 r0 t1 t0 m1 m0 l2 l1 l0 rest : (v =? 2) = true -> h_ty h = 1 ->
  hdr_stream_tail v k h (c :: r3 :: r2 :: r1 :: r0 :: t1 :: t0 :: m1 :: m0 :: l2 :: l1 :: l0 :: rest) =
  (Ok (true, with_rest h (bN c) (de [r3; r2; r1; r0]) (de [t1; t0]) (h_status h) (de [m1; m0]) (blen3 l2 l1 l0) true), rest).
Proof. intros V T. unfold hdr_stream_tail, hdr_len. rewrite T, V. all_k k. Qed.
Lemma stail_req_v1 v k h c r3 r2 r1 r0 t1 t0 l2 l1 l0 rest : (v =? 2) = false -> h_ty h = 1 ->
  hdr_stream_tail v k h (c :: r3 :: r2 :: r1 :: r0 :: t1 :: t0 :: l2 :: l1 :: l0 :: rest) =
  (Ok (true, with_rest h (bN c) (de [r3; r2; r1; r0]) (de [t1; t0]) (h_status h) (h_mlen h) (blen3 l2 l1 l0) true), rest).
Proof. intros V T. unfold hdr_stream_tail, hdr_len. rewrite T, V. all_k k. Qed.
Lemma stail_resp_v2 v k h c r3 r2 r1 r0 st m1 m0 l2 l1 l0 rest : (v =? 2) = true -> h_ty h = 2 ->
  hdr_stream_tail v k h (c :: r3 :: r2 :: r1 :: r0 :: st :: m1 :: m0 :: l2 :: l1 :: l0 :: rest) =
  (Ok (true, with_rest h (bN c) (de [r3; r2; r1; r0]) (h_timeout h) (de [st]) (de [m1; m0]) (blen3 l2 l1 l0) true), rest).
Proof. intros V T. unfold hdr_stream_tail, hdr_len. rewrite T, V. all_k k. Qed.
Lemma stail_resp_v1 v k h c r3 r2 r1 r0 st l2 l1 l0 rest : (v =? 2) = false -> h_ty h = 2 ->
  hdr_stream_tail v k h (c :: r3 :: r2 :: r1 :: r0 :: st :: l2 :: l1 :: l0 :: rest) =
  (Ok (true, with_rest h (bN c) (de [r3; r2; r1; r0]) (h_timeout h) (de [st]) (h_mlen h) (blen3 l2 l1 l0) true), rest).
Proof. intros V T. unfold hdr_stream_tail, hdr_len. rewrite T, V. all_k k. Qed.
Lemma stail_push_v2 v k h c m1 m0 l2 l1 l0 rest : (v =? 2) = true -> h_ty h = 3 ->
  hdr_stream_tail v k h (c :: m1 :: m0 :: l2 :: l1 :: l0 :: rest) =
  (Ok (true, with_rest h (bN c) (h_rid h) (h_timeout h) (h_status h) (de [m1; m0]) (blen3 l2 l1 l0) true), rest).
Proof. intros V T. unfold hdr_stream_tail, hdr_len. rewrite T, V. all_k k. Qed.
Lemma stail_push_v1 v k h c l2 l1 l0 rest : (v =? 2) = false -> h_ty h = 3 ->
  hdr_stream_tail v k h (c :: l2 :: l1 :: l0 :: rest) =
  (Ok (true, with_rest h (bN c) (h_rid h) (h_timeout h) (h_status h) (h_mlen h) (blen3 l2 l1 l0) true), rest).
Proof. intros V T. unfold hdr_stream_tail, hdr_len. rewrite T, V. all_k k. Qed.

(* a list with at least n elements is n explicit elements followed by a rest *)
Ltac explode q n :=
  match n with
  | O => idtac
  | S ?m => let b := fresh "b" in destruct q as [|b q]; [cbn [length] in *; lia|]; explode q m
  end.

Definition hl1 (v ty : N) : nat := (N.to_nat (hdr_len v ty) - 1)%nat.

Lemma ty_cases ty : is_unknown ty = false -> ty = 1 \/ ty = 2 \/ ty = 3.
Proof.
  destruct consts_frame as (E1 & E2 & E3 & _). unfold is_unknown, is_req, is_resp, is_push. rewrite E1, E2, E3.
  intros H. apply negb_false_iff in H. rewrite !orb_true_iff, !N.eqb_eq in H. tauto.
Qed.

Lemma hl1_values v ty : (ty = 1 \/ ty = 2 \/ ty = 3) ->
  hl1 v ty = if v =? 2 then (if ty =? 1 then 12%nat else if ty =? 2 then 11%nat else 6%nat)
             else (if ty =? 1 then 10%nat else if ty =? 2 then 9%nat else 4%nat).
Proof.
  intros T. unfold hl1. rewrite hdr_len_spec by exact T. unfold spec_header_len.
  destruct T as [T|[T|T]]; rewrite T; destruct (v =? 2); reflexivity.
Qed.

(* the complete header parse, as one statement: when enough bytes are buffered the tail parse succeeds,
   consumes exactly hl1 bytes, and its result does not depend on k nor on what follows *)
Lemma stail_complete v h q : is_unknown (h_ty h) = false -> (hl1 v (h_ty h) <= length q)%nat ->
  exists h', forall k' x, hdr_stream_tail v k' h (q ++ x) = (Ok (true, h'), skipn (hl1 v (h_ty h)) q ++ x)
                        /\ h_unpacked h' = true /\ h_ty h' = h_ty h /\ h_verify h' = h_verify h /\ h_gzip h' = h_gzip h.
Proof.
  intros U L. pose proof (ty_cases _ U) as T. rewrite (hl1_values v _ T) in *.
  destruct T as [T|[T|T]]; rewrite T in L |- *; destruct (v =? 2) eqn:V; cbn [N.eqb Pos.eqb] in L |- *.
  - explode q 12%nat. eexists. intros k' x. cbn [app skipn]. rewrite (stail_req_v2 v k' h) by assumption. repeat split; cbn [with_rest h_ty h_unpacked h_verify h_gzip]; auto.
  - explode q 10%nat. eexists. intros k' x. cbn [app skipn]. rewrite (stail_req_v1 v k' h) by assumption. repeat split; cbn [with_rest h_ty h_unpacked h_verify h_gzip]; auto.
  - explode q 11%nat. eexists. intros k' x. cbn [app skipn]. rewrite (stail_resp_v2 v k' h) by assumption. repeat split; cbn [with_rest h_ty h_unpacked h_verify h_gzip]; auto.
  - explode q 9%nat. eexists. intros k' x. cbn [app skipn]. rewrite (stail_resp_v1 v k' h) by assumption. repeat split; cbn [with_rest h_ty h_unpacked h_verify h_gzip]; auto.
  - explode q 6%nat. eexists. intros k' x. cbn [app skipn]. rewrite (stail_push_v2 v k' h) by assumption. repeat split; cbn [with_rest h_ty h_unpacked h_verify h_gzip]; auto.
  - explode q 4%nat. eexists. intros k' x. cbn [app skipn]. rewrite (stail_push_v1 v k' h) by assumption. repeat split; cbn [with_rest h_ty h_unpacked h_verify h_gzip]; auto.
Qed.

Lemma stail_short v k h q : is_unknown (h_ty h) = false -> (length q < hl1 v (h_ty h))%nat ->
  hdr_stream_tail v k h q = (Ok (false, h), q).
Proof.
  intros U L. unfold hdr_stream_tail. rewrite U. fold (hl1 v (h_ty h)).
  replace (length q <? hl1 v (h_ty h))%nat with true by (symmetry; apply Nat.ltb_lt; exact L). reflexivity.
Qed.

Lemma stail_unknown v k h q : is_unknown (h_ty h) = true -> hdr_stream_tail v k h q = (Err EUnknownPacket, q).
Proof. intros U. unfold hdr_stream_tail. now rewrite U. Qed.

(* buffer geometry: the Peek(3) split never matters *)
Theorem hdr_tail_split_irrelevant v k k' h q : hdr_stream_tail v k h q = hdr_stream_tail v k' h q.
Proof.
  destruct (is_unknown (h_ty h)) eqn:U; [now rewrite !stail_unknown|].
  destruct (Nat.lt_ge_cases (length q) (hl1 v (h_ty h))) as [L|G].
  - now rewrite !stail_short.
  - destruct (stail_complete v h q U G) as (h' & H).
    destruct (H k []) as [A _]. destruct (H k' []) as [B _]. rewrite !app_nil_r in A, B. congruence.
Qed.

Theorem hdr_split_irrelevant v k k' h q : hdr_stream_unpack v k h q = hdr_stream_unpack v k' h q.
Proof.
  unfold hdr_stream_unpack. destruct (length q =? 0)%nat; [reflexivity|]. destruct (h_unpacked h); [reflexivity|].
  destruct (h_begin h); apply hdr_tail_split_irrelevant.
Qed.

Theorem split_irrelevant gz v codec k k' stale s :
  stream_unpack gz v codec k stale s = stream_unpack gz v codec k' stale s.
Proof. unfold stream_unpack. now rewrite (hdr_split_irrelevant v k k'). Qed.

(* ------------------------------------------------------------------ *)
(* ring operations and bytes that arrive later                          *)

Lemma rb_read_exact n q : (n <= length q)%nat -> rb_read n q = Ok (firstn n q, skipn n q).
Proof.
  intros L. unfold rb_read. destruct n as [|n]; [reflexivity|].
  destruct q as [|b q]; [cbn in L; lia|].
  replace (S n - length (b :: q))%nat with 0%nat by lia. cbn [zeros repeat]. now rewrite app_nil_r.
Qed.

Lemma firstn_app_le {A} n (q x : list A) : (n <= length q)%nat -> firstn n (q ++ x) = firstn n q.
Proof. intros L. rewrite firstn_app. replace (n - length q)%nat with 0%nat by lia. cbn [firstn]. now rewrite app_nil_r. Qed.
Lemma skipn_app_le {A} n (q x : list A) : (n <= length q)%nat -> skipn n (q ++ x) = skipn n q ++ x.
Proof. intros L. rewrite skipn_app. replace (n - length q)%nat with 0%nat by lia. reflexivity. Qed.

Lemma rb_peek_app n (q x : bytes) : (n <= length q)%nat -> rb_peek_uint n (q ++ x) = rb_peek_uint n q.
Proof.
  intros L. unfold rb_peek_uint. rewrite app_length.
  replace (length q + length x <? n)%nat with false by (symmetry; apply Nat.ltb_ge; lia).
  replace (length q <? n)%nat with false by (symmetry; apply Nat.ltb_ge; lia).
  now rewrite firstn_app_le.
Qed.

Lemma rb_peek_exact n q : (n <= length q)%nat -> rb_peek_uint n q = de (firstn n q).
Proof. intros L. unfold rb_peek_uint. replace (length q <? n)%nat with false by (symmetry; apply Nat.ltb_ge; lia). reflexivity. Qed.

(* ------------------------------------------------------------------ *)
(* the body phase as a plan over slices (valid once the wait rule passed) *)

Definition frame_rest (v : N) (h : hdr) : nat :=
  ((if (v =? 2)%N then N.to_nat (h_mlen h) else 0) + N.to_nat (h_blen h) + trailer_len h)%nat.

Definition body_plan (gz : gzoracle) (v codec : N) (h : hdr) (q : bytes) : res packet * bytes :=
  let ml := if v =? 2 then N.to_nat (h_mlen h) else 0%nat in
  let bl := N.to_nat (h_blen h) in
  let mdb := firstn ml q in
  let q1 := skipn ml q in
  let body := firstn bl q1 in
  let q2 := skipn bl q1 in
  let md := hdr_metadata h codec in
  match (if v =? 2 then vals <- unmarshal_values mdb ;; Ok (with_values md vals) else Ok md) with
  | Ok md0 =>
      let md1 := if h_verify h =? 1 then with_sig md0 (de (firstn 8 q2)) (firstn 16 (skipn 8 q2)) else md0 in
      let q5 := if h_verify h =? 1 then skipn 16 (skipn 8 q2) else q2 in
      match (if h_gzip h =? 1 then decompress gz body else Ok body) with
      | Ok body0 => (Ok (mkPacket md1 body0), q5)
      | Err e => (Err e, q5) | Panic => (Panic, q5) | OutOfFuel => (OutOfFuel, q5)
      end
  | Err e => (Err e, q2) | Panic => (Panic, q2) | OutOfFuel => (OutOfFuel, q2)
  end.

Lemma stream_body_plan gz v codec h q :
  (frame_rest v h <= length q)%nat -> stream_body gz v codec h q = body_plan gz v codec h q.
Proof.
  intros L. unfold frame_rest, trailer_len in L. unfold stream_body, body_plan.
  destruct consts_frame as (_ & _ & _ & _ & _ & _ & _ & _ & _ & _ & _ & _ & ENon & ESig). rewrite ENon, ESig in *.
  change (N.to_nat 8) with 8%nat in *. change (N.to_nat 16) with 16%nat in *.
  set (ml := if v =? 2 then N.to_nat (h_mlen h) else 0%nat) in *. set (bl := N.to_nat (h_blen h)) in *.
  rewrite (rb_read_exact ml q) by lia.
  rewrite (rb_read_exact bl (skipn ml q)) by (rewrite skipn_length; lia).
  destruct (if v =? 2 then vals <- unmarshal_values (firstn ml q);; Ok (with_values (hdr_metadata h codec) vals)
            else Ok (hdr_metadata h codec)) as [md0| | |]; try reflexivity.
  destruct (h_verify h =? 1) eqn:Ve.
  - set (q2 := skipn bl (skipn ml q)) in *.
    assert (L2 : (24 <= length q2)%nat) by (unfold q2; rewrite !skipn_length; lia).
    unfold rb_retrieve. rewrite (rb_read_exact 16 (skipn 8 q2)) by (rewrite skipn_length; lia).
    rewrite (rb_peek_exact 8 q2) by lia.
    destruct (h_gzip h =? 1); [|reflexivity]; match goal with |- context [decompress gz ?b] => destruct (decompress gz b) end; reflexivity.
  - destruct (h_gzip h =? 1); [|reflexivity]; match goal with |- context [decompress gz ?b] => destruct (decompress gz b) end; reflexivity.
Qed.

Lemma body_plan_app gz v codec h q x :
  (frame_rest v h <= length q)%nat ->
  body_plan gz v codec h (q ++ x) = (fst (body_plan gz v codec h q), snd (body_plan gz v codec h q) ++ x).
Proof.
  intros L. unfold frame_rest, trailer_len in L. unfold body_plan.
  set (ml := if v =? 2 then N.to_nat (h_mlen h) else 0%nat) in *. set (bl := N.to_nat (h_blen h)) in *.
  rewrite (firstn_app_le ml q x), (skipn_app_le ml q x) by lia.
  rewrite (firstn_app_le bl (skipn ml q) x), (skipn_app_le bl (skipn ml q) x) by (rewrite skipn_length; lia).
  set (q2 := skipn bl (skipn ml q)) in *.
  destruct (if v =? 2 then vals <- unmarshal_values (firstn ml q);; Ok (with_values (hdr_metadata h codec) vals)
            else Ok (hdr_metadata h codec)) as [md0| | |]; try reflexivity.
  destruct (h_verify h =? 1) eqn:Ve.
  - destruct consts_frame as (_ & _ & _ & _ & _ & _ & _ & _ & _ & _ & _ & _ & ENon & ESig). rewrite ENon, ESig in *.
    change (N.to_nat 8) with 8%nat in *. change (N.to_nat 16) with 16%nat in *.
    assert (L2 : (24 <= length q2)%nat) by (unfold q2; rewrite !skipn_length; lia).
    rewrite (firstn_app_le 8 q2 x), (skipn_app_le 8 q2 x) by lia.
    rewrite (firstn_app_le 16 (skipn 8 q2) x), (skipn_app_le 16 (skipn 8 q2) x) by (rewrite skipn_length; lia).
    destruct (h_gzip h =? 1); [|reflexivity]; match goal with |- context [decompress gz ?b] => destruct (decompress gz b) end; reflexivity.
  - destruct (h_gzip h =? 1); [|reflexivity]; match goal with |- context [decompress gz ?b] => destruct (decompress gz b) end; reflexivity.
Qed.

Lemma stream_body_app gz v codec h q x :
  (frame_rest v h <= length q)%nat ->
  stream_body gz v codec h (q ++ x) = (fst (stream_body gz v codec h q), snd (stream_body gz v codec h q) ++ x).
Proof.
  intros L. rewrite !stream_body_plan by (rewrite ?app_length; lia). now apply body_plan_app.
Qed.

(* ------------------------------------------------------------------ *)
(* one Unpack call and bytes that arrive later                          *)

Lemma need_len_frame_rest v h : (v =? 2) = true \/ h_mlen h = 0 ->
  forall q : bytes, (N.of_nat (length q) <? need_len h) = false -> (frame_rest v h <= length q)%nat.
Proof.
  intros Hv q L. unfold need_len in L. unfold frame_rest. destruct Hv as [V|M].
  - rewrite V. lia.
  - rewrite M in *. destruct (v =? 2); lia.
Qed.

(* after the header is complete: wait rule, then body phase *)
Definition after_header (gz : gzoracle) (v codec : N) (h1 : hdr) (q1 : bytes) : res sout * sstate :=
  if N.of_nat (length q1) <? need_len h1 then (Ok SNeed, mkS (Some h1) q1)
  else match stream_body gz v codec h1 q1 with
       | (Ok p, q2) => (Ok (SPkt p), mkS None q2)
       | (Err e, q2) => (Err e, mkS None q2)
       | (Panic, q2) => (Panic, mkS None q2)
       | (OutOfFuel, q2) => (OutOfFuel, mkS None q2)
       end.

Definition of_hdr_result (gz : gzoracle) (v codec : N) (hp : res (bool * hdr) * bytes) : res sout * sstate :=
  match hp with
  | (Ok (false, h1), q1) => (Ok SNeed, mkS (Some h1) q1)
  | (Ok (true, h1), q1) => after_header gz v codec h1 q1
  | (Err e, q1) => (Err e, mkS None q1)
  | (Panic, q1) => (Panic, mkS None q1)
  | (OutOfFuel, q1) => (OutOfFuel, mkS None q1)
  end.

Lemma stream_unpack_unfold gz v codec k stale s :
  stream_unpack gz v codec k stale s =
  let h := match s_pend s with Some h => h | None => pool_get v stale end in
  of_hdr_result gz v codec (if h_unpacked h then (Ok (true, h), s_q s) else hdr_stream_unpack v k h (s_q s)).
Proof. unfold stream_unpack, of_hdr_result, after_header. reflexivity. Qed.

(* v1 headers carry no metadata length: it stays 0 through the parse *)
Definition mlen_ok (v : N) (h : hdr) : Prop := (v =? 2) = true \/ h_mlen h = 0.

Lemma after_header_decided gz v codec h1 q1 x r s' :
  mlen_ok v h1 -> after_header gz v codec h1 q1 = (r, s') -> r <> Ok SNeed ->
  after_header gz v codec h1 (q1 ++ x) = (r, feed s' x).
Proof.
  intros M. unfold after_header. destruct (N.of_nat (length q1) <? need_len h1) eqn:L; [intros E; inversion E; congruence|].
  intros E _. rewrite app_length. replace (N.of_nat (length q1 + length x) <? need_len h1) with false by lia.
  rewrite stream_body_app by (apply (need_len_frame_rest v h1 M); exact L).
  destruct (stream_body gz v codec h1 q1) as [[p|e| |] q2]; cbn [fst snd]; inversion E; subst; reflexivity.
Qed.

(* the invariant on the pending header a context can hold *)
Definition wf_pending (v : N) (s : sstate) : Prop :=
  match s_pend s with
  | None => True
  | Some h => mlen_ok v h /\
              (if h_unpacked h then is_unknown (h_ty h) = false /\ 1 <= need_len h
               else if h_begin h then is_unknown (h_ty h) = false else h = hdr0)
  end.

Lemma mlen_ok_with_rest_v1 v h c rid t st bl u : (v =? 2) = false -> h_mlen h = 0 ->
  mlen_ok v (with_rest h c rid t st (h_mlen h) bl u).
Proof. intros _ M. right. cbn. exact M. Qed.

(* header phase results, with more bytes behind *)
Lemma stail_result_app v k h q x :
  is_unknown (h_ty h) = false ->
  match hdr_stream_tail v k h q with
  | (Ok (true, h'), q7) => forall k', hdr_stream_tail v k' h (q ++ x) = (Ok (true, h'), q7 ++ x)
  | (Ok (false, h'), q7) => h' = h /\ q7 = q
  | _ => False
  end.
Proof.
  intros U. destruct (Nat.lt_ge_cases (length q) (hl1 v (h_ty h))) as [L|G].
  - rewrite stail_short by assumption. auto.
  - destruct (stail_complete v h q U G) as (h' & H). destruct (H k []) as [A _]. rewrite !app_nil_r in A. rewrite A.
    intros k'. now destruct (H k' x) as [B _].
Qed.

Lemma stail_mlen_ok v k h q h' q7 : is_unknown (h_ty h) = false -> mlen_ok v h ->
  hdr_stream_tail v k h q = (Ok (true, h'), q7) -> mlen_ok v h' /\ is_unknown (h_ty h') = false.
Proof.
  intros U M E. destruct (Nat.lt_ge_cases (length q) (hl1 v (h_ty h))) as [L|G].
  - rewrite stail_short in E by assumption. discriminate.
  - destruct (stail_complete v h q U G) as (h2 & H). destruct (H k []) as (A & _ & T & _). rewrite !app_nil_r in A.
    rewrite A in E. inversion E; subst h2 q7. split; [|now rewrite T].
    destruct M as [V|M0]; [now left|]. destruct (v =? 2) eqn:V; [now left|right].
    (* v1: the tail parse copies h_mlen h *)
    pose proof (ty_cases _ U) as Tc. revert A. rewrite (hl1_values v _ Tc) in G |- *. rewrite V in G |- *.
    destruct Tc as [Tc|[Tc|Tc]]; rewrite Tc in G |- *; cbn [N.eqb Pos.eqb] in G |- *.
    + explode q 10%nat. cbn [skipn]. rewrite (stail_req_v1 v k h) by assumption. intros A. inversion A. cbn. exact M0.
    + explode q 9%nat. cbn [skipn]. rewrite (stail_resp_v1 v k h) by assumption. intros A. inversion A. cbn. exact M0.
    + explode q 4%nat. cbn [skipn]. rewrite (stail_push_v1 v k h) by assumption. intros A. inversion A. cbn. exact M0.
Qed.

(* SEGMENTATION, part 1: a call that needed more data, then more data = the call on all the data *)
Theorem need_then_more gz v codec k k' stale s s' x :
  wf_pending v s ->
  stream_unpack gz v codec k stale s = (Ok SNeed, s') ->
  stream_unpack gz v codec k' stale (feed s x) = stream_unpack gz v codec k' stale (feed s' x).
Proof.
  intros W. rewrite !stream_unpack_unfold. cbv zeta. cbn [feed s_pend s_q].
  set (h := match s_pend s with Some h => h | None => pool_get v stale end).
  assert (Hh : mlen_ok v h /\ (if h_unpacked h then is_unknown (h_ty h) = false
                               else if h_begin h then is_unknown (h_ty h) = false else h = hdr0)).
  { unfold h, wf_pending in *. destruct (s_pend s) as [h0|].
    - destruct W as [M W]. split; [exact M|]. destruct (h_unpacked h0); [tauto|exact W].
    - split; [right; reflexivity|reflexivity]. }
  destruct Hh as [M Hh].
  destruct (h_unpacked h) eqn:Un.
  - (* header already complete: the state did not change *)
    cbn [of_hdr_result]. unfold after_header. destruct (N.of_nat (length (s_q s)) <? need_len h) eqn:L.
    + intros E. inversion E; subst s'. cbn [s_pend s_q]. rewrite Un. reflexivity.
    + destruct (stream_body gz v codec h (s_q s)) as [[?|?| |] ?]; intros E; inversion E.
  - unfold hdr_stream_unpack at 1. destruct (s_q s) as [|b q'] eqn:Q.
    + (* empty buffer: the fresh header is kept, nothing else *)
      cbn [length Nat.eqb of_hdr_result]. intros E. inversion E; subst s'. cbn [s_pend s_q app]. rewrite Un. reflexivity.
    + cbn [length Nat.eqb]. rewrite Un.
      destruct (h_begin h) eqn:Bg.
      * (* byte 0 was absorbed by an earlier call *)
        pose proof (stail_result_app v k h (b :: q') x Hh) as R.
        destruct (hdr_stream_tail v k h (b :: q')) as [[[[|] h1]|e| |] q7] eqn:T; try contradiction.
        -- cbn [of_hdr_result]. intros E.
           destruct (stail_mlen_ok v k h (b :: q') h1 q7 Hh M T) as [M1 U1].
           unfold after_header in E. destruct (N.of_nat (length q7) <? need_len h1) eqn:L.
           ++ inversion E; subst s'. cbn [s_pend s_q].
              assert (Un1 : h_unpacked h1 = true).
              { destruct (Nat.lt_ge_cases (length (b :: q')) (hl1 v (h_ty h))) as [Ls|G]; [rewrite stail_short in T by assumption; discriminate|].
                destruct (stail_complete v h (b :: q') Hh G) as (h2 & H). destruct (H k []) as (A & Un2 & _). rewrite !app_nil_r in A. congruence. }
              rewrite Un1. unfold hdr_stream_unpack. cbn [app length Nat.eqb]. rewrite Un, Bg.
              change (b :: q' ++ x) with ((b :: q') ++ x). rewrite (R k'). reflexivity.
           ++ destruct (stream_body gz v codec h1 q7) as [[?|?| |] ?]; inversion E.
        -- destruct R as [-> ->]. cbn [of_hdr_result]. intros E. inversion E; subst s'. cbn [s_pend s_q]. rewrite Un. reflexivity.
      * (* byte 0 is absorbed by this call *)
        set (bb := rb_peek_uint 1 (b :: q')).
        set (h1 := with_b0 h (b0_ty bb) (b0_verify bb) (b0_gzip bb) (b0_reserve bb) true).
        change (rb_retrieve 1 (b :: q')) with q'.
        destruct (is_unknown (h_ty h1)) eqn:U1; [rewrite stail_unknown by exact U1; cbn [of_hdr_result]; intros E; inversion E|].
        assert (M1 : mlen_ok v h1) by (destruct M as [V|M0]; [now left|right; exact M0]).
        pose proof (stail_result_app v k h1 q' x U1) as R.
        assert (Eb : rb_peek_uint 1 ((b :: q') ++ x) = bb) by (unfold bb; apply rb_peek_app; cbn; lia).
        destruct (hdr_stream_tail v k h1 q') as [[[[|] h2]|e| |] q7] eqn:T; try contradiction.
        -- cbn [of_hdr_result]. intros E.
           destruct (stail_mlen_ok v k h1 q' h2 q7 U1 M1 T) as [M2 U2].
           unfold after_header in E. destruct (N.of_nat (length q7) <? need_len h2) eqn:L.
           ++ inversion E; subst s'. cbn [s_pend s_q].
              assert (Un2 : h_unpacked h2 = true).
              { destruct (Nat.lt_ge_cases (length q') (hl1 v (h_ty h1))) as [Ls|G]; [rewrite stail_short in T by assumption; discriminate|].
                destruct (stail_complete v h1 q' U1 G) as (h3 & H). destruct (H k []) as (A & Un3 & _). rewrite !app_nil_r in A. congruence. }
              rewrite Un2. unfold hdr_stream_unpack. cbn [app length Nat.eqb]. rewrite Un, Bg.
              change (b :: q' ++ x) with ((b :: q') ++ x). rewrite Eb. fold h1.
              change (rb_retrieve 1 ((b :: q') ++ x)) with (q' ++ x). rewrite (R k'). reflexivity.
           ++ destruct (stream_body gz v codec h2 q7) as [[?|?| |] ?]; inversion E.
        -- destruct R as [-> ->]. cbn [of_hdr_result]. intros E. inversion E; subst s'. cbn [s_pend s_q].
           assert (Un1 : h_unpacked h1 = false) by (unfold h1; cbn; exact Un).
           assert (Bg1 : h_begin h1 = true) by reflexivity.
           rewrite Un1. unfold hdr_stream_unpack. cbn [app length Nat.eqb]. rewrite Un, Bg, Un1, Bg1.
           change (b :: q' ++ x) with ((b :: q') ++ x). rewrite Eb. fold h1.
           change (rb_retrieve 1 ((b :: q') ++ x)) with (q' ++ x).
           destruct (q' ++ x) as [|c qq] eqn:Qx; [|reflexivity].
           (* q' ++ x empty: the tail sees an empty buffer and waits, like the length-0 early return *)
           cbn [length Nat.eqb]. rewrite stail_short; [reflexivity|exact U1|].
           rewrite (hl1_values v _ (ty_cases _ U1)). cbn [length]. destruct (v =? 2), (h_ty h1 =? 1), (h_ty h1 =? 2); lia.
Qed.

(* SEGMENTATION, part 2: a call that decided (packet, or error) decides the same with more bytes behind *)
Theorem decided_then_more gz v codec k k' stale s r s' x :
  wf_pending v s ->
  stream_unpack gz v codec k stale s = (r, s') -> r <> Ok SNeed ->
  stream_unpack gz v codec k' stale (feed s x) = (r, feed s' x).
Proof.
  intros W. rewrite !stream_unpack_unfold. cbv zeta. cbn [feed s_pend s_q].
  set (h := match s_pend s with Some h => h | None => pool_get v stale end).
  assert (Hh : mlen_ok v h /\ (if h_unpacked h then is_unknown (h_ty h) = false
                               else if h_begin h then is_unknown (h_ty h) = false else h = hdr0)).
  { unfold h, wf_pending in *. destruct (s_pend s) as [h0|].
    - destruct W as [M W]. split; [exact M|]. destruct (h_unpacked h0); [tauto|exact W].
    - split; [right; reflexivity|reflexivity]. }
  destruct Hh as [M Hh].
  destruct (h_unpacked h) eqn:Un.
  - cbn [of_hdr_result]. intros E N. now apply (after_header_decided gz v codec h (s_q s) x r s' M).
  - unfold hdr_stream_unpack. destruct (s_q s) as [|b q'] eqn:Q.
    + cbn [length Nat.eqb of_hdr_result]. intros E N. inversion E. congruence.
    + cbn [length Nat.eqb app]. rewrite Un. destruct (h_begin h) eqn:Bg.
      * pose proof (stail_result_app v k h (b :: q') x Hh) as R.
        destruct (hdr_stream_tail v k h (b :: q')) as [[[[|] h1]|e| |] q7] eqn:T; try contradiction.
        -- cbn [of_hdr_result]. intros E N. change (b :: q' ++ x) with ((b :: q') ++ x). rewrite (R k'). cbn [of_hdr_result].
           destruct (stail_mlen_ok v k h (b :: q') h1 q7 Hh M T) as [M1 _].
           now apply (after_header_decided gz v codec h1 q7 x r s' M1).
        -- cbn [of_hdr_result]. intros E N. inversion E. congruence.
      * set (bb := rb_peek_uint 1 (b :: q')).
        set (h1 := with_b0 h (b0_ty bb) (b0_verify bb) (b0_gzip bb) (b0_reserve bb) true).
        change (rb_retrieve 1 (b :: q')) with q'.
        assert (Eb : rb_peek_uint 1 (b :: q' ++ x) = bb) by (unfold bb; apply (rb_peek_app 1 (b :: q') x); cbn; lia).
        rewrite Eb. fold h1. change (rb_retrieve 1 (b :: q' ++ x)) with (q' ++ x).
        destruct (is_unknown (h_ty h1)) eqn:U1.
        { rewrite !stail_unknown by exact U1. cbn [of_hdr_result]. intros E _. inversion E; subst. reflexivity. }
        assert (M1 : mlen_ok v h1) by (destruct M as [V|M0]; [now left|right; exact M0]).
        pose proof (stail_result_app v k h1 q' x U1) as R.
        destruct (hdr_stream_tail v k h1 q') as [[[[|] h2]|e| |] q7] eqn:T; try contradiction.
        -- cbn [of_hdr_result]. intros E N. rewrite (R k'). cbn [of_hdr_result].
           destruct (stail_mlen_ok v k h1 q' h2 q7 U1 M1 T) as [M2 _].
           now apply (after_header_decided gz v codec h2 q7 x r s' M2).
        -- cbn [of_hdr_result]. intros E N. inversion E. congruence.
Qed.

(* the invariant is kept by feeding and by every call *)
Lemma wf_pending_feed v s x : wf_pending v s -> wf_pending v (feed s x).
Proof. unfold wf_pending. cbn [feed s_pend s_q]. auto. Qed.

Lemma wf_pending_init v q : wf_pending v (mkS None q).
Proof. exact I. Qed.

Lemma after_header_state gz v codec h1 q1 r s' :
  mlen_ok v h1 -> is_unknown (h_ty h1) = false -> h_unpacked h1 = true ->
  after_header gz v codec h1 q1 = (r, s') -> wf_pending v s'.
Proof.
  intros M U Un. unfold after_header. destruct (N.of_nat (length q1) <? need_len h1) eqn:L.
  - intros E. inversion E; subst. unfold wf_pending. cbn [s_pend]. rewrite Un. split; [exact M|]. split; [exact U|lia].
  - destruct (stream_body gz v codec h1 q1) as [[?|?| |] ?]; intros E; inversion E; exact I.
Qed.

Theorem wf_pending_step gz v codec k stale s r s' :
  wf_pending v s -> stream_unpack gz v codec k stale s = (r, s') -> wf_pending v s'.
Proof.
  intros W. rewrite stream_unpack_unfold. cbv zeta.
  set (h := match s_pend s with Some h => h | None => pool_get v stale end).
  assert (Hh : mlen_ok v h /\ (if h_unpacked h then is_unknown (h_ty h) = false
                               else if h_begin h then is_unknown (h_ty h) = false else h = hdr0)).
  { unfold h, wf_pending in *. destruct (s_pend s) as [h0|].
    - destruct W as [M W]. split; [exact M|]. destruct (h_unpacked h0); [tauto|exact W].
    - split; [right; reflexivity|reflexivity]. }
  destruct Hh as [M Hh].
  destruct (h_unpacked h) eqn:Un.
  - cbn [of_hdr_result]. now apply after_header_state.
  - unfold hdr_stream_unpack. destruct (s_q s) as [|b q'] eqn:Q.
    + cbn [length Nat.eqb of_hdr_result]. intros E. inversion E; subst. unfold wf_pending. cbn [s_pend]. rewrite Un. split; [exact M|exact Hh].
    + cbn [length Nat.eqb]. rewrite Un. destruct (h_begin h) eqn:Bg.
      * pose proof (stail_result_app v k h (b :: q') [] Hh) as R.
        destruct (hdr_stream_tail v k h (b :: q')) as [[[[|] h1]|e| |] q7] eqn:T; try contradiction.
        -- cbn [of_hdr_result]. destruct (stail_mlen_ok v k h (b :: q') h1 q7 Hh M T) as [M1 U1].
           assert (Un1 : h_unpacked h1 = true).
           { destruct (Nat.lt_ge_cases (length (b :: q')) (hl1 v (h_ty h))) as [Ls|G]; [rewrite stail_short in T by assumption; discriminate|].
             destruct (stail_complete v h (b :: q') Hh G) as (h2 & H). destruct (H k []) as (A & Un2 & _). rewrite !app_nil_r in A. congruence. }
           now apply after_header_state.
        -- destruct R as [-> ->]. cbn [of_hdr_result]. intros E. inversion E; subst. unfold wf_pending. cbn [s_pend]. rewrite Un, Bg. auto.
      * set (bb := rb_peek_uint 1 (b :: q')).
        set (h1 := with_b0 h (b0_ty bb) (b0_verify bb) (b0_gzip bb) (b0_reserve bb) true).
        change (rb_retrieve 1 (b :: q')) with q'.
        destruct (is_unknown (h_ty h1)) eqn:U1.
        { rewrite stail_unknown by exact U1. cbn [of_hdr_result]. intros E. inversion E; exact I. }
        assert (M1 : mlen_ok v h1) by (destruct M as [V|M0]; [now left|right; exact M0]).
        pose proof (stail_result_app v k h1 q' [] U1) as R.
        destruct (hdr_stream_tail v k h1 q') as [[[[|] h2]|e| |] q7] eqn:T; try contradiction.
        -- cbn [of_hdr_result]. destruct (stail_mlen_ok v k h1 q' h2 q7 U1 M1 T) as [M2 U2].
           assert (Un2 : h_unpacked h2 = true).
           { destruct (Nat.lt_ge_cases (length q') (hl1 v (h_ty h1))) as [Ls|G]; [rewrite stail_short in T by assumption; discriminate|].
             destruct (stail_complete v h1 q' U1 G) as (h3 & H). destruct (H k []) as (A & Un3 & _). rewrite !app_nil_r in A. congruence. }
           now apply after_header_state.
        -- destruct R as [-> ->]. cbn [of_hdr_result]. intros E. inversion E; subst. unfold wf_pending. cbn [s_pend].
           assert (Un1 : h_unpacked h1 = false) by (unfold h1; cbn; exact Un). rewrite Un1. cbn. auto.
Qed.

(* ------------------------------------------------------------------ *)
(* C04: totality, progress, allocation                                  *)

Lemma stail_spec v k h q : mlen_ok v h -> is_unknown (h_ty h) = false ->
  match hdr_stream_tail v k h q with
  | (Ok (false, h'), q') => h' = h /\ q' = q
  | (Ok (true, h'), q') => mlen_ok v h' /\ is_unknown (h_ty h') = false /\ h_unpacked h' = true /\
                           (length q' + hl1 v (h_ty h) = length q)%nat /\ (4 <= hl1 v (h_ty h))%nat
  | _ => False
  end.
Proof.
  intros M U. destruct (Nat.lt_ge_cases (length q) (hl1 v (h_ty h))) as [L|G].
  - rewrite stail_short by assumption. auto.
  - destruct (stail_complete v h q U G) as (h' & H). destruct (H k []) as (A & Un & T & _). rewrite !app_nil_r in A.
    rewrite A. destruct (stail_mlen_ok v k h q h' _ U M A) as [M' U']. repeat split; auto.
    + rewrite skipn_length. lia.
    + rewrite (hl1_values v _ (ty_cases _ U)). destruct (v =? 2), (h_ty h =? 1), (h_ty h =? 2); lia.
Qed.

Lemma hdr_phase_spec v k h q : mlen_ok v h -> h_unpacked h = false ->
  (if h_begin h then is_unknown (h_ty h) = false else True) ->
  match hdr_stream_unpack v k h q with
  | (Ok (false, _), q') => (length q' <= length q)%nat
  | (Ok (true, h'), q') => mlen_ok v h' /\ is_unknown (h_ty h') = false /\ h_unpacked h' = true /\ (length q' + 4 <= length q)%nat
  | (Err _, q') => (length q' <= length q)%nat
  | (Panic, _) | (OutOfFuel, _) => False
  end.
Proof.
  intros M Un B. unfold hdr_stream_unpack. destruct q as [|b q']; [cbn; lia|]. cbn [length Nat.eqb]. rewrite Un.
  destruct (h_begin h) eqn:Bg.
  - pose proof (stail_spec v k h (b :: q') M B) as S.
    destruct (hdr_stream_tail v k h (b :: q')) as [[[[|] h1]|e| |] q7]; try contradiction.
    + destruct S as (A1 & A2 & A3 & A4 & A5). repeat split; auto. cbn [length] in *. lia.
    + destruct S as [_ ->]. cbn [length]. lia.
  - set (bb := rb_peek_uint 1 (b :: q')).
    set (h1 := with_b0 h (b0_ty bb) (b0_verify bb) (b0_gzip bb) (b0_reserve bb) true).
    change (rb_retrieve 1 (b :: q')) with q'.
    destruct (is_unknown (h_ty h1)) eqn:U1; [rewrite stail_unknown by exact U1; cbn [length]; lia|].
    assert (M1 : mlen_ok v h1) by (destruct M as [V|M0]; [now left|right; exact M0]).
    pose proof (stail_spec v k h1 q' M1 U1) as S.
    destruct (hdr_stream_tail v k h1 q') as [[[[|] h2]|e| |] q7]; try contradiction.
    + destruct S as (A1 & A2 & A3 & A4 & A5). repeat split; auto. cbn [length] in *. lia.
    + destruct S as [_ ->]. cbn [length]. lia.
Qed.

Lemma body_plan_spec gz v codec h q : (frame_rest v h <= length q)%nat ->
  fst (body_plan gz v codec h q) <> Panic /\ fst (body_plan gz v codec h q) <> OutOfFuel /\
  (forall p, fst (body_plan gz v codec h q) = Ok p -> (length (snd (body_plan gz v codec h q)) + frame_rest v h = length q)%nat) /\
  (length (snd (body_plan gz v codec h q)) <= length q)%nat.
Proof.
  intros L. unfold frame_rest, trailer_len in L. unfold body_plan.
  destruct consts_frame as (_ & _ & _ & _ & _ & _ & _ & _ & _ & _ & _ & _ & ENon & ESig). rewrite ENon, ESig in *.
  change (N.to_nat 8) with 8%nat in *. change (N.to_nat 16) with 16%nat in *.
  set (ml := if v =? 2 then N.to_nat (h_mlen h) else 0%nat) in *. set (bl := N.to_nat (h_blen h)) in *.
  set (q2 := skipn bl (skipn ml q)).
  assert (L2 : (length q2 + ml + bl = length q)%nat) by (unfold q2; rewrite !skipn_length; lia).
  assert (Hm : forall md, (if v =? 2 then vals <- unmarshal_values (firstn ml q);; Ok (with_values md vals) else Ok md) <> Panic /\
                          (if v =? 2 then vals <- unmarshal_values (firstn ml q);; Ok (with_values md vals) else Ok md) <> OutOfFuel).
  { intros md. destruct (v =? 2); [|split; discriminate].
    destruct (unmarshal_values_total (firstn ml q)) as [A B]. destruct (unmarshal_values (firstn ml q)); cbn [bind]; split; congruence. }
  destruct (Hm (hdr_metadata h codec)) as [Hm1 Hm2].
  destruct (if v =? 2 then vals <- unmarshal_values (firstn ml q);; Ok (with_values (hdr_metadata h codec) vals)
            else Ok (hdr_metadata h codec)) as [md0|e| |]; try congruence.
  - set (q5 := if h_verify h =? 1 then skipn 16 (skipn 8 q2) else q2).
    assert (L5 : (length q5 + (if (h_verify h =? 1)%N then 8 + 16 else 0) = length q2)%nat).
    { unfold q5. destruct (h_verify h =? 1); rewrite ?skipn_length; lia. }
    assert (F : frame_rest v h = (ml + bl + (if (h_verify h =? 1)%N then 8 + 16 else 0))%nat).
    { unfold frame_rest, trailer_len. rewrite ENon, ESig. reflexivity. }
    rewrite F.
    destruct (h_gzip h =? 1).
    + destruct (decompress_total gz (firstn bl (skipn ml q))) as [G1 G2].
      destruct (decompress gz (firstn bl (skipn ml q))) as [b0|e| |]; try congruence; cbn [fst snd].
      * split; [discriminate|]. split; [discriminate|]. split; [intros _ _; lia|lia].
      * split; [discriminate|]. split; [discriminate|]. split; [intros p0 Hp; discriminate|lia].
    + cbn [fst snd]. split; [discriminate|]. split; [discriminate|]. split; [intros _ _; lia|lia].
  - cbn [fst snd]. repeat split; try discriminate; fold q2; lia.
Qed.

Lemma after_header_spec gz v codec h1 q1 : mlen_ok v h1 ->
  fst (after_header gz v codec h1 q1) <> Panic /\ fst (after_header gz v codec h1 q1) <> OutOfFuel /\
  (forall p, fst (after_header gz v codec h1 q1) = Ok (SPkt p) ->
             (length (s_q (snd (after_header gz v codec h1 q1))) + frame_rest v h1 = length q1)%nat) /\
  (length (s_q (snd (after_header gz v codec h1 q1))) <= length q1)%nat.
Proof.
  intros M. unfold after_header. destruct (N.of_nat (length q1) <? need_len h1) eqn:L.
  - cbn. repeat split; try discriminate; lia.
  - pose proof (need_len_frame_rest v h1 M q1 L) as F.
    rewrite stream_body_plan by exact F. destruct (body_plan_spec gz v codec h1 q1 F) as (A & B & C & D).
    destruct (body_plan gz v codec h1 q1) as [[p|e| |] q2]; cbn [fst snd s_q] in *; try congruence;
      repeat split; try discriminate; try lia.
    intros p0 _. apply (C p). reflexivity.
Qed.

Lemma need_frame_rest v h : mlen_ok v h -> 1 <= need_len h -> (1 <= frame_rest v h)%nat.
Proof. intros M N. unfold need_len in N. unfold frame_rest. destruct M as [V|M]; [rewrite V; lia|rewrite M in *; destruct (v =? 2); lia]. Qed.

(* every call returns a result or an error (never a panic, always terminating), and a reported packet
   consumed at least one byte; nothing is ever un-consumed *)
Theorem stream_unpack_total gz v codec k stale s :
  wf_pending v s ->
  fst (stream_unpack gz v codec k stale s) <> Panic /\ fst (stream_unpack gz v codec k stale s) <> OutOfFuel /\
  (forall p, fst (stream_unpack gz v codec k stale s) = Ok (SPkt p) ->
             (length (s_q (snd (stream_unpack gz v codec k stale s))) < length (s_q s))%nat) /\
  (length (s_q (snd (stream_unpack gz v codec k stale s))) <= length (s_q s))%nat.
Proof.
  intros W. rewrite stream_unpack_unfold. cbv zeta.
  set (h := match s_pend s with Some h => h | None => pool_get v stale end).
  assert (Hh : mlen_ok v h /\ (if h_unpacked h then is_unknown (h_ty h) = false /\ 1 <= need_len h
                               else if h_begin h then is_unknown (h_ty h) = false else h = hdr0)).
  { unfold h, wf_pending in *. destruct (s_pend s) as [h0|]; [exact W|]. split; [right; reflexivity|reflexivity]. }
  destruct Hh as [M Hh].
  destruct (h_unpacked h) eqn:Un.
  - cbn [of_hdr_result]. destruct (after_header_spec gz v codec h (s_q s) M) as (A & B & C & D).
    repeat split; auto. intros p Hp. specialize (C p Hp). destruct Hh as [_ N1]. pose proof (need_frame_rest v h M N1). lia.
  - assert (B : if h_begin h then is_unknown (h_ty h) = false else True) by (destruct (h_begin h); auto).
    pose proof (hdr_phase_spec v k h (s_q s) M Un B) as S.
    destruct (hdr_stream_unpack v k h (s_q s)) as [[[[|] h1]|e| |] q1]; try contradiction; cbn [of_hdr_result].
    + destruct S as (M1 & U1 & Un1 & L1). destruct (after_header_spec gz v codec h1 q1 M1) as (A & B' & C & D).
      repeat split; auto; [|lia]. intros p Hp. lia.
    + cbn. repeat split; try discriminate. lia.
    + cbn. repeat split; try discriminate. lia.
Qed.

(* the buffers a call allocates (metadata, body, signature) are bounded by the bytes already buffered *)
Theorem stream_alloc_bounded v k stale s :
  wf_pending v s -> (fold_left Nat.add (stream_allocs v k stale s) 0 <= length (s_q s))%nat.
Proof.
  intros W. unfold stream_allocs.
  set (h := match s_pend s with Some h => h | None => pool_get v stale end).
  assert (Hh : mlen_ok v h /\ (if h_unpacked h then is_unknown (h_ty h) = false /\ 1 <= need_len h
                               else if h_begin h then is_unknown (h_ty h) = false else h = hdr0)).
  { unfold h, wf_pending in *. destruct (s_pend s) as [h0|]; [exact W|]. split; [right; reflexivity|reflexivity]. }
  destruct Hh as [M Hh].
  assert (Sum : forall h1 (q1 : bytes), mlen_ok v h1 -> (N.of_nat (length q1) <? need_len h1) = false ->
     (fold_left Nat.add ((if (v =? 2)%N then [N.to_nat (h_mlen h1)] else []) ++ [N.to_nat (h_blen h1)]
        ++ (if (h_verify h1 =? 1)%N then [N.to_nat c_SignatureLength] else [])) 0 <= length q1)%nat).
  { intros h1 q1 M1 L. pose proof (need_len_frame_rest v h1 M1 q1 L) as F. unfold frame_rest, trailer_len in F.
    destruct consts_frame as (_ & _ & _ & _ & _ & _ & _ & _ & _ & _ & _ & _ & ENon & ESig). rewrite ENon, ESig in *.
    change (N.to_nat 8) with 8%nat in *. change (N.to_nat 16) with 16%nat in *.
    destruct (v =? 2), (h_verify h1 =? 1); cbn [fold_left app Nat.add]; lia. }
  destruct (h_unpacked h) eqn:Un.
  - destruct (N.of_nat (length (s_q s)) <? need_len h) eqn:L; [cbn; lia|]. now apply Sum.
  - assert (B : if h_begin h then is_unknown (h_ty h) = false else True) by (destruct (h_begin h); auto).
    pose proof (hdr_phase_spec v k h (s_q s) M Un B) as S.
    destruct (hdr_stream_unpack v k h (s_q s)) as [[[[|] h1]|e| |] q1]; try contradiction; try (cbn; lia).
    destruct S as (M1 & U1 & Un1 & L1).
    destruct (N.of_nat (length q1) <? need_len h1) eqn:L; [cbn; lia|]. specialize (Sum h1 q1 M1 L). lia.
Qed.
