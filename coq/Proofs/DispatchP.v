(* Proofs/DispatchP.v — C13, for every interleaving of reader and dispatcher steps, every queue size,
   every subscription table and every mix of pushes, responses and control packets. *)
From Coq Require Import List NArith Arith Lia Bool.
From OAP Require Import Base.Bytes Base.Res Gen.Consts Model.Metadata Model.Header Model.Waiters Model.Dispatch.
Import ListNotations.
Local Open Scope N_scope.

Record DInv (sb : subs) (s : dstate) : Prop := {
  di_split : d_accepted s = d_taken s ++ d_queue s;
  di_calls : d_calls s = flat_map (deliver sb) (d_taken s);
  di_count : (length (d_received s) = length (d_accepted s) + d_drops s)%nat;
  di_bound : (length (d_queue s) <= d_cap s)%nat }.

Lemma dinv_init sb cap : DInv sb (d0 cap).
Proof. split; cbn; auto; lia. Qed.

Lemma dinv_step sb s a : DInv sb s -> DInv sb (dstep sb s a).
Proof.
  intros [A B C D]. destruct a as [p|]; cbn [dstep].
  - destruct (d_chan s && Nat.ltb (length (d_queue s)) (d_cap s)) eqn:E; split; cbn; auto.
    + rewrite A. now rewrite app_assoc.
    + rewrite !app_length. cbn. lia.
    + rewrite app_length. cbn. apply andb_true_iff in E. destruct E as [_ E]. apply Nat.ltb_lt in E. lia.
    + rewrite app_length. cbn. lia.
  - destruct (d_queue s) as [|p q] eqn:Q; [split; auto; now rewrite Q|]. split; cbn; auto.
    + rewrite A. now rewrite <- app_assoc.
    + rewrite B, flat_map_app. cbn. now rewrite app_nil_r.
    + cbn in D. lia.
Qed.

Theorem dinv_run sb cap acts : DInv sb (drun sb cap acts).
Proof.
  unfold drun. assert (G : forall s, DInv sb s -> DInv sb (fold_left (dstep sb) acts s)).
  { induction acts as [|a acts IH]; intros s I; [exact I|]. cbn. apply IH. now apply dinv_step. }
  apply G, dinv_init.
Qed.

(* handler invocations = the accepted frames that the dispatcher has taken, in arrival order, each push to
   every handler of its command in subscription order, once, and to no other handler *)
Theorem push_delivery sb cap acts :
  let s := drun sb cap acts in d_calls s = flat_map (deliver sb) (d_taken s).
Proof. exact (di_calls sb _ (dinv_run sb cap acts)). Qed.

(* when the dispatcher has drained the queue, that is every accepted frame *)
Theorem push_delivery_quiescent sb cap acts :
  let s := drun sb cap acts in d_queue s = [] -> d_calls s = flat_map (deliver sb) (d_accepted s).
Proof. intros s Q. unfold s in *. rewrite (di_split sb _ (dinv_run sb cap acts)), Q, app_nil_r. apply push_delivery. Qed.

(* accepted frames are the received ones minus the logged drops, in order *)
Fixpoint subseq {A} (l1 l2 : list A) : Prop :=
  match l1, l2 with
  | [], _ => True
  | _ :: _, [] => False
  | x :: r1, y :: r2 => (x = y /\ subseq r1 r2) \/ subseq l1 r2
  end.
Lemma subseq_nil {A} (l : list A) : subseq [] l.
Proof. destruct l; exact I. Qed.
Lemma subseq_refl {A} (l : list A) : subseq l l.
Proof. induction l; cbn; auto. Qed.
Lemma subseq_app_both {A} (l1 l2 : list A) x : subseq l1 l2 -> subseq (l1 ++ [x]) (l2 ++ [x]).
Proof.
  revert l1. induction l2 as [|y l2 IH]; intros l1 H.
  - destruct l1; [cbn; auto|contradiction].
  - destruct l1 as [|a l1]; [cbn; right; apply (IH []); apply subseq_nil|].
    cbn in H |- *. destruct H as [[-> H]|H]; [left; split; [reflexivity|now apply IH]|right; apply (IH (a :: l1)); exact H].
Qed.
Lemma subseq_app_right {A} (l1 l2 : list A) x : subseq l1 l2 -> subseq l1 (l2 ++ [x]).
Proof.
  revert l1. induction l2 as [|y l2 IH]; intros l1 H.
  - destruct l1; [apply subseq_nil|contradiction].
  - destruct l1 as [|a l1]; [apply subseq_nil|]. cbn in H |- *. destruct H as [[-> H]|H]; [left; split; [reflexivity|now apply IH]|right; now apply IH].
Qed.

Theorem accepted_subsequence sb cap acts :
  let s := drun sb cap acts in subseq (d_accepted s) (d_received s) /\
  (length (d_received s) = length (d_accepted s) + d_drops s)%nat.
Proof.
  cbv zeta. split; [|exact (di_count sb _ (dinv_run sb cap acts))].
  unfold drun. assert (G : forall s, subseq (d_accepted s) (d_received s) ->
     subseq (d_accepted (fold_left (dstep sb) acts s)) (d_received (fold_left (dstep sb) acts s))).
  { induction acts as [|a acts IH]; intros s H; [exact H|]. cbn [fold_left]. apply IH.
    destruct a as [p|]; cbn [dstep].
    - destruct (d_chan s && Nat.ltb (length (d_queue s)) (d_cap s)); cbn; [now apply subseq_app_both|now apply subseq_app_right].
    - destruct (d_queue s); exact H. }
  apply G. apply subseq_nil.
Qed.

(* nothing is lost while there is room: a frame is dropped only when the queue is full (or not yet created) *)
Theorem drop_only_when_full sb s p :
  d_drops (dstep sb s (DRecv p)) = S (d_drops s) -> d_chan s = false \/ (d_cap s <= length (d_queue s))%nat.
Proof.
  cbn [dstep]. destruct (d_chan s) eqn:C; [|auto]. destruct (Nat.ltb (length (d_queue s)) (d_cap s)) eqn:E; cbn.
  - intros H. lia.
  - intros _. right. apply Nat.ltb_ge in E. exact E.
Qed.

(* control packets (heartbeat, auth, reconnect, close) never reach push subscribers *)
Theorem control_never_to_subscribers sb p : w_cmd p <= c_CMD_RECONNECT -> deliver sb p = [].
Proof.
  intros H. unfold deliver, route_of. replace (w_cmd p <=? c_CMD_RECONNECT) with true by (symmetry; apply N.leb_le; exact H).
  repeat match goal with |- context [if ?c then _ else _] => destruct c end; try reflexivity; destruct (w_ty p); reflexivity.
Qed.

(* a push goes to the handlers of its own command only *)
Theorem push_to_own_handlers sb p h q : In (h, q) (deliver sb p) -> q = p /\ In h (sb (w_cmd p)) /\ w_ty p = PTPush.
Proof.
  unfold deliver. destruct (route_of p) eqn:R; try contradiction. rewrite in_map_iff. intros (h' & E & I). injection E as Eh Ep. subst h' q.
  repeat split; auto. unfold route_of in R. destruct (w_cmd p <=? c_CMD_RECONNECT).
  - repeat match goal with H : context [if ?c then _ else _] |- _ => destruct c end; try discriminate; destruct (w_ty p); discriminate.
  - destruct (w_ty p); try discriminate. reflexivity.
Qed.
