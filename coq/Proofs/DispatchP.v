(* Proofs/DispatchP.v — C13, for every interleaving of reader and dispatcher steps, every queue size,
   every subscription table and every mix of pushes, responses and control packets. *)
From Coq Require Import List NArith Arith Lia Bool.
From OAP Require Import Base.Bytes Base.Res Gen.Consts Model.Metadata Model.Header Model.Waiters Model.Dispatch.
Import ListNotations.
Local Open Scope N_scope.

Record DInv (sb : subs) (s : dstate) : Prop := {
  di_split : d_accepted s = d_taken s ++ d_queue s;
  di_calls : d_calls s = flat_map (deliver sb) (d_taken s);
  di_count : (length (d_received s) = length (d_accepted s) + d_drops s)%nat;
  di_bound : (length (d_queue s) <= d_cap s)%nat }.

Lemma dinv_init sb cap : DInv sb (d0 cap).
Proof. split; cbn; auto; lia. Qed.

Lemma dinv_step sb s a : DInv sb s -> DInv sb (dstep sb s a).
Proof.
  intros [A B C D]. destruct a as [p| | |]; cbn [dstep].
  - destruct (d_chan s && Nat.ltb (length (d_queue s)) (d_cap s)) eqn:E; split; cbn; auto.
    + rewrite A. now rewrite app_assoc.
    + rewrite !app_length. cbn. lia.
    + rewrite app_length. cbn. apply andb_true_iff in E. destruct E as [_ E]. apply Nat.ltb_lt in E. lia.
    + rewrite app_length. cbn. lia.
  - destruct (d_phase s); [split; auto| |split; auto].
    destruct (d_closed s).
    + split; cbn; auto.
      * now rewrite app_nil_r.
      * now rewrite B, flat_map_app.
      * lia.
    + destruct (d_queue s) as [|p q] eqn:Q; [split; auto; now rewrite Q|]. split; cbn; auto.
      * rewrite A. now rewrite <- app_assoc.
      * rewrite B, flat_map_app. cbn. now rewrite app_nil_r.
      * cbn in D. lia.
  - destruct (d_phase s); split; cbn; auto.
  - split; cbn; auto.
Qed.

Lemma dinv_any sb s acts : DInv sb s -> DInv sb (fold_left (dstep sb) acts s).
Proof. revert s. induction acts as [|a acts IH]; intros s I; [exact I|]. cbn. apply IH. now apply dinv_step. Qed.

Theorem dinv_run sb cap acts : DInv sb (drun sb cap acts).
Proof. apply dinv_any, dinv_init. Qed.
Theorem dinv_run_u sb cap acts : DInv sb (drun_u sb cap acts).
Proof. apply dinv_any. split; cbn; auto; lia. Qed.

(* handler invocations = the accepted frames that the dispatcher has taken, in arrival order, each push to
   every handler of its command in subscription order, once, and to no other handler *)
Theorem push_delivery sb cap acts :
  let s := drun sb cap acts in d_calls s = flat_map (deliver sb) (d_taken s).
Proof. exact (di_calls sb _ (dinv_run sb cap acts)). Qed.

(* when the dispatcher has drained the queue, that is every accepted frame *)
Theorem push_delivery_quiescent sb cap acts :
  let s := drun sb cap acts in d_queue s = [] -> d_calls s = flat_map (deliver sb) (d_accepted s).
Proof. intros s Q. unfold s in *. rewrite (di_split sb _ (dinv_run sb cap acts)), Q, app_nil_r. apply push_delivery. Qed.

(* accepted frames are the received ones minus the logged drops, in order *)
Fixpoint subseq {A} (l1 l2 : list A) : Prop :=
  match l1, l2 with
  | [], _ => True
  | _ :: _, [] => False
  | x :: r1, y :: r2 => (x = y /\ subseq r1 r2) \/ subseq l1 r2
  end.
Lemma subseq_nil {A} (l : list A) : subseq [] l.
Proof. destruct l; exact I. Qed.
Lemma subseq_refl {A} (l : list A) : subseq l l.
Proof. induction l; cbn; auto. Qed.
Lemma subseq_app_both {A} (l1 l2 : list A) x : subseq l1 l2 -> subseq (l1 ++ [x]) (l2 ++ [x]).
Proof.
  revert l1. induction l2 as [|y l2 IH]; intros l1 H.
  - destruct l1; [cbn; auto|contradiction].
  - destruct l1 as [|a l1]; [cbn; right; apply (IH []); apply subseq_nil|].
    cbn in H |- *. destruct H as [[-> H]|H]; [left; split; [reflexivity|now apply IH]|right; apply (IH (a :: l1)); exact H].
Qed.
Lemma subseq_app_right {A} (l1 l2 : list A) x : subseq l1 l2 -> subseq l1 (l2 ++ [x]).
Proof.
  revert l1. induction l2 as [|y l2 IH]; intros l1 H.
  - destruct l1; [apply subseq_nil|contradiction].
  - destruct l1 as [|a l1]; [apply subseq_nil|]. cbn in H |- *. destruct H as [[-> H]|H]; [left; split; [reflexivity|now apply IH]|right; now apply IH].
Qed.

Theorem accepted_subsequence sb cap acts :
  let s := drun sb cap acts in subseq (d_accepted s) (d_received s) /\
  (length (d_received s) = length (d_accepted s) + d_drops s)%nat.
Proof.
  cbv zeta. split; [|exact (di_count sb _ (dinv_run sb cap acts))].
  unfold drun. assert (G : forall s, subseq (d_accepted s) (d_received s) ->
     subseq (d_accepted (fold_left (dstep sb) acts s)) (d_received (fold_left (dstep sb) acts s))).
  { induction acts as [|a acts IH]; intros s H; [exact H|]. cbn [fold_left]. apply IH.
    destruct a as [p| | |]; cbn [dstep].
    - destruct (d_chan s && Nat.ltb (length (d_queue s)) (d_cap s)); cbn; [now apply subseq_app_both|now apply subseq_app_right].
    - destruct (d_phase s); try exact H. destruct (d_closed s); [exact H|]. destruct (d_queue s); exact H.
    - destruct (d_phase s); exact H.
    - exact H. }
  apply G. apply subseq_nil.
Qed.

(* nothing is lost while there is room: a frame is dropped only when the queue is full (or not yet created) *)
Theorem drop_only_when_full sb s p :
  d_drops (dstep sb s (DRecv p)) = S (d_drops s) -> d_chan s = false \/ (d_cap s <= length (d_queue s))%nat.
Proof.
  cbn [dstep]. destruct (d_chan s) eqn:C; [|auto]. destruct (Nat.ltb (length (d_queue s)) (d_cap s)) eqn:E; cbn.
  - intros H. lia.
  - intros _. right. apply Nat.ltb_ge in E. exact E.
Qed.

(* control packets (heartbeat, auth, reconnect, close) never reach push subscribers *)
Theorem control_never_to_subscribers sb p : w_cmd p <= c_CMD_RECONNECT -> deliver sb p = [].
Proof.
  intros H. unfold deliver, route_of. replace (w_cmd p <=? c_CMD_RECONNECT) with true by (symmetry; apply N.leb_le; exact H).
  repeat match goal with |- context [if ?c then _ else _] => destruct c end; try reflexivity; destruct (w_ty p); reflexivity.
Qed.

(* a push goes to the handlers of its own command only *)
Theorem push_to_own_handlers sb p h q : In (h, q) (deliver sb p) -> q = p /\ In h (sb (w_cmd p)) /\ w_ty p = PTPush.
Proof.
  unfold deliver. destruct (route_of p) eqn:R; try contradiction. rewrite in_map_iff. intros (h' & E & I). injection E as Eh Ep. subst h' q.
  repeat split; auto. unfold route_of in R. destruct (w_cmd p <=? c_CMD_RECONNECT).
  - repeat match goal with H : context [if ?c then _ else _] |- _ => destruct c end; try discriminate; destruct (w_ty p); discriminate.
  - destruct (w_ty p); try discriminate. reflexivity.
Qed.

(* ---- the dispatcher's lifecycle: late registration, close, drain ---- *)

(* the dispatcher's last iteration hands over everything that is still queued, then reports the connection gone once *)
Theorem exit_drains sb s : DInv sb s -> d_phase s = DPRunning -> d_closed s = true ->
  let s' := dstep sb s DTake in
  d_phase s' = DPExited /\ d_queue s' = [] /\ d_taken s' = d_accepted s /\
  d_calls s' = flat_map (deliver sb) (d_accepted s) /\ d_gone s' = S (d_gone s).
Proof.
  intros [A B _ _] P C. cbn [dstep]. rewrite P, C. cbn. repeat split; auto.
  rewrite B, A, flat_map_app. reflexivity.
Qed.

(* after its exit the dispatcher does nothing any more: exactly one "connection gone" report per connection *)
Theorem exited_is_final sb s a : d_phase s = DPExited ->
  let s' := dstep sb s a in d_phase s' = DPExited /\ d_calls s' = d_calls s /\ d_gone s' = d_gone s.
Proof.
  intros P. destruct a as [p| | |]; cbn [dstep].
  - destruct (d_chan s && Nat.ltb (length (d_queue s)) (d_cap s)); cbn; auto.
  - rewrite P. auto.
  - rewrite P. auto.
  - cbn. auto.
Qed.
Definition gone_ok (s : dstate) : Prop :=
  (d_gone s = 0 /\ d_phase s <> DPExited)%nat \/ (d_gone s = 1 /\ d_phase s = DPExited)%nat.
Lemma gone_le_one_step sb s a : gone_ok s -> gone_ok (dstep sb s a).
Proof.
  unfold gone_ok. intros H. destruct a as [p| | |]; cbn [dstep].
  - destruct (d_chan s && Nat.ltb (length (d_queue s)) (d_cap s)); cbn; exact H.
  - destruct (d_phase s) eqn:P; try (rewrite P; exact H).
    destruct H as [[G _]|[_ E]]; [|discriminate E].
    destruct (d_closed s).
    + cbn. right. rewrite G. split; reflexivity.
    + destruct (d_queue s); [rewrite P; left; split; [exact G|discriminate]|]. cbn. left. split; [exact G|discriminate].
  - destruct (d_phase s) eqn:P; try (rewrite P; exact H).
    destruct H as [[G _]|[_ E]]; [|discriminate E]. cbn. left. split; [exact G|discriminate].
  - cbn. exact H.
Qed.
Theorem gone_reported_once sb cap acts : gone_ok (drun_u sb cap acts).
Proof.
  unfold drun_u.
  assert (G : forall s, gone_ok s -> gone_ok (fold_left (dstep sb) acts s)).
  { induction acts as [|a acts IH]; intros s H; [exact H|]. cbn [fold_left]. apply IH. now apply gone_le_one_step. }
  apply G. left. cbn. split; [reflexivity|discriminate].
Qed.

(* registration commutes with everything the reader and the closer do *)
Theorem start_commutes sb s a : reader_side a = true -> dstep sb (dstep sb s DStart) a = dstep sb (dstep sb s a) DStart.
Proof.
  destruct s as [ch cp q rc ac tk cl dr ph clo gn]. destruct a as [p| | |]; try discriminate; intros _; destruct ph; cbn -[Nat.ltb andb];
    try (destruct (ch && Nat.ltb (length q) cp)); reflexivity.
Qed.
Lemma start_past_reader sb rs : forallb reader_side rs = true -> forall s,
  fold_left (dstep sb) (rs ++ [DStart]) s = fold_left (dstep sb) (DStart :: rs) s.
Proof.
  induction rs as [|a rs IH]; intros F s; [reflexivity|]. cbn in F. apply andb_true_iff in F. destruct F as [Fa F].
  cbn [app fold_left]. rewrite (IH F). cbn [fold_left]. now rewrite start_commutes.
Qed.
(* so a connection whose callback is registered late behaves, from then on, exactly like one whose callback was
   registered before the first frame arrived *)
Theorem late_registration_unobservable sb cap rs ks : forallb reader_side rs = true ->
  drun_u sb cap (rs ++ DStart :: ks) = drun sb cap (rs ++ ks).
Proof.
  intros F. unfold drun_u, drun. replace (rs ++ DStart :: ks) with ((rs ++ [DStart]) ++ ks) by now rewrite <- app_assoc.
  rewrite fold_left_app, (start_past_reader sb rs F). cbn [fold_left]. now rewrite fold_left_app.
Qed.

Lemma reader_side_run sb rs : forallb reader_side rs = true -> forall s,
  let s' := fold_left (dstep sb) rs s in
  d_phase s' = d_phase s /\ d_taken s' = d_taken s /\ d_calls s' = d_calls s /\ d_gone s' = d_gone s /\
  (d_closed s = true \/ In DClose rs -> d_closed s' = true).
Proof.
  induction rs as [|a rs IH]; intros F s; cbn [fold_left].
  - repeat split; auto. intros [C|[]]; exact C.
  - cbn in F. apply andb_true_iff in F. destruct F as [Fa F]. destruct (IH F (dstep sb s a)) as (P & T & Cl & G & K).
    assert (E : d_phase (dstep sb s a) = d_phase s /\ d_taken (dstep sb s a) = d_taken s /\ d_calls (dstep sb s a) = d_calls s /\
                d_gone (dstep sb s a) = d_gone s /\ (d_closed s = true \/ a = DClose -> d_closed (dstep sb s a) = true)).
    { destruct a as [p| | |]; try discriminate; cbn [dstep].
      - destruct (d_chan s && Nat.ltb (length (d_queue s)) (d_cap s)); cbn; repeat split; auto; intros [C|C]; [exact C|discriminate|exact C|discriminate].
      - cbn. repeat split; auto. }
    destruct E as (P' & T' & C' & G' & K'). rewrite P, T, Cl, G. repeat split; auto.
    intros [C|[C|C]]; apply K; [left; apply K'; now left|left; apply K'; right; now symmetry|now right].
Qed.

(* frames the reader queued on a connection that was closed before the client registered its callback are all
   delivered by the dispatcher's first (and last) iteration; nothing is owed afterwards *)
Theorem closed_before_registration_delivers_all sb cap rs : forallb reader_side rs = true -> In DClose rs ->
  let s := drun_u sb cap (rs ++ [DStart; DTake]) in
  d_calls s = flat_map (deliver sb) (d_accepted s) /\ d_queue s = [] /\ d_gone s = 1%nat /\ d_phase s = DPExited.
Proof.
  intros F I. cbv zeta. rewrite (late_registration_unobservable sb cap rs [DTake] F). unfold drun. rewrite fold_left_app. cbn [fold_left].
  destruct (reader_side_run sb rs F (d0 cap)) as (P & T & Cl & G & K).
  set (m := fold_left (dstep sb) rs (d0 cap)) in *.
  assert (Im : DInv sb m) by (apply dinv_any, dinv_init).
  destruct (exit_drains sb m Im P (K (or_intror I))) as (P' & Q' & T' & C' & G').
  repeat split; auto.
  - rewrite C'. f_equal. cbn [dstep]. rewrite P, (K (or_intror I)). reflexivity.
  - rewrite G', G. reflexivity.
Qed.
