(* Proofs/BitsP.v — the bit-level facts relating the Go-style shifts/masks of
   Header.v to the arithmetic of Spec.v. Finite ones are complete sweeps. *)
From Coq Require Import List NArith ZArith Lia Bool.
From Coq.Strings Require Import Byte.
From Coq Require Import ZifyBool ZifyN ZifyNat.
From OAP Require Import Base.Bytes Base.Res Base.Sweep Gen.Consts Model.Metadata Model.Header Model.Spec.
Import ListNotations.
Local Open Scope N_scope.
Ltac Zify.zify_post_hook ::= Z.div_mod_to_equations.

Lemma land_shiftl_small X t n : t < 2 ^ n -> N.land (N.shiftl X n) t = 0.
Proof.
  intros H. apply N.bits_inj. intros i. rewrite N.land_spec, N.bits_0.
  destruct (N.lt_ge_cases i n) as [L|G].
  - rewrite N.shiftl_spec_low by exact L. reflexivity.
  - replace t with (t mod 2 ^ n) by (apply N.mod_small; exact H).
    rewrite N.mod_pow2_bits_high by exact G. apply andb_false_r.
Qed.

Lemma lor_shiftl_small X t n : t < 2 ^ n -> N.lor (N.shiftl X n) t = X * 2 ^ n + t.
Proof.
  intros H. rewrite <- N.lxor_lor by (apply land_shiftl_small; exact H).
  rewrite <- N.add_nocarry_lxor by (apply land_shiftl_small; exact H).
  now rewrite N.shiftl_mul_pow2.
Qed.

(* uint32(fb)<<16 | uint32(sb)<<8 | uint32(tb) = big-endian value of the three bytes *)
Lemma blen_decode f s t : N.lor (N.lor (N.shiftl (bN f) 16) (N.shiftl (bN s) 8)) (bN t) = de [f; s; t].
Proof.
  pose proof (bN_lt f). pose proof (bN_lt s). pose proof (bN_lt t).
  replace (N.shiftl (bN f) 16) with (N.shiftl (N.shiftl (bN f) 8) 8) by (rewrite N.shiftl_shiftl; reflexivity).
  rewrite <- N.shiftl_lor. rewrite (lor_shiftl_small (bN f) (bN s) 8) by (change (2 ^ 8) with 256; lia).
  rewrite lor_shiftl_small by (change (2 ^ 8) with 256; lia).
  unfold de. cbn [fold_left]. change (2 ^ 8) with 256. lia.
Qed.

Lemma be3_shifts x : be 3 x = [b8 (N.shiftr x 16); b8 (N.shiftr x 8); b8 x].
Proof.
  cbn [be]. rewrite !N.shiftr_div_pow2. change (N.of_nat 2) with 2. change (N.of_nat 1) with 1. change (N.of_nat 0) with 0.
  change (256 ^ 2) with (2 ^ 16). change (256 ^ 1) with (2 ^ 8). change (256 ^ 0) with 1. now rewrite N.div_1_r.
Qed.

(* byte 0, decoder side: every byte *)
Lemma b0_decode_sweep :
  forallb (fun b => let n := bN b in
     (b0_ty n =? n mod 16) && (b0_verify n =? (n / 16) mod 2) && (b0_gzip n =? (n / 32) mod 2) && (b0_reserve n =? n / 64))
    all_bytes = true.
Proof. vm_compute. reflexivity. Qed.

Lemma b0_decode b :
  b0_ty (bN b) = bN b mod 16 /\ b0_verify (bN b) = (bN b / 16) mod 2 /\
  b0_gzip (bN b) = (bN b / 32) mod 2 /\ b0_reserve (bN b) = bN b / 64.
Proof.
  pose proof (sweep_byte _ b0_decode_sweep b) as S. cbv beta zeta in S.
  rewrite !andb_true_iff, !N.eqb_eq in S. tauto.
Qed.

(* byte 0, encoder side: all 16 x 2 x 2 x 4 in-range field values *)
Definition pack_b0_fields (ty ve gz rs : N) : N :=
  N.lor (N.lor (N.lor (N.land ty 15) (N.shiftl (N.land ve 1) 4)) (N.shiftl (N.land gz 1) 5)) (N.shiftl (N.land rs 3) 6).

Lemma b0_encode_sweep :
  forallb (fun ty => forallb (fun ve => forallb (fun gz => forallb (fun rs =>
     pack_b0_fields ty ve gz rs =? ty + 16 * ve + 32 * gz + 64 * rs) (nrange 4)) (nrange 2)) (nrange 2)) (nrange 16) = true.
Proof. vm_compute. reflexivity. Qed.

Lemma b0_encode ty ve gz rs : ty < 16 -> ve < 2 -> gz < 2 -> rs < 4 ->
  pack_b0_fields ty ve gz rs = ty + 16 * ve + 32 * gz + 64 * rs.
Proof.
  intros H1 H2 H3 H4.
  pose proof (sweep_N 16 _ b0_encode_sweep ty H1) as S1. cbv beta in S1.
  pose proof (sweep_N 2 _ S1 ve H2) as S2. cbv beta in S2.
  pose proof (sweep_N 2 _ S2 gz H3) as S3. cbv beta in S3.
  pose proof (sweep_N 4 _ S3 rs H4) as S4. cbv beta in S4. now apply N.eqb_eq in S4.
Qed.

Lemma pack_b0_eq h : pack_b0 h = pack_b0_fields (h_ty h) (h_verify h) (h_gzip h) (h_reserve h).
Proof. reflexivity. Qed.

(* the generated constants the proofs rely on (a changed constant breaks this lemma first) *)
Lemma consts_frame :
  c_T_Request = 1 /\ c_T_Response = 2 /\ c_T_Push = 3 /\ c_HeaderTypeMask = 15 /\
  c_v1_RequestHeaderLen = 11 /\ c_v1_ResponseHeaderLen = 10 /\ c_v1_PushHeaderLen = 5 /\
  c_v2_RequestHeaderLen = 13 /\ c_v2_ResponseHeaderLen = 12 /\ c_v2_PushHeaderLen = 7 /\
  c_MaxBodyLength = 16777215 /\ c_MaxMetadataLength = 65535 /\ c_NonceLength = 8 /\ c_SignatureLength = 16.
Proof. vm_compute. repeat split; reflexivity. Qed.

(* header lengths follow from the layout and equal the generated constants *)
Lemma hdr_len_spec v ty : (ty = 1 \/ ty = 2 \/ ty = 3) -> hdr_len v ty = spec_header_len v ty.
Proof.
  intros [E|[E|E]]; subst ty; unfold hdr_len, spec_header_len, is_req, is_resp; destruct (v =? 2); vm_compute; reflexivity.
Qed.
