(* Proofs/RingFastP.v — PeekAll returns the content; on a ring made by NewWithData and only read from since, its
   second slice is always empty, so the read loop's "first, _ := PeekAll()" loses nothing. *)
From Coq Require Import List Arith Lia Bool.
From OAP Require Import Model.Ring Model.RingFast Proofs.RingP Proofs.RingWriteP.
Import ListNotations.

Section RingFastP.
Context {A : Type} (z : A).
Implicit Types (g : ring A) (d : list A).

Lemma ring_peek_all_refines g : ring_wf g -> fst (ring_peek_all g) ++ snd (ring_peek_all g) = ring_content g.
Proof.
  destruct g as [buf size r w emp]; unfold ring_wf, ring_peek_all, ring_content, slice; cbn [rb_buf rb_size rb_r rb_w rb_empty].
  intros (Hl & Hr & Hw & He). destruct emp; [reflexivity|].
  destruct (Nat.ltb_spec r w); cbn [fst snd]; [apply app_nil_r|].
  cbn [skipn]. rewrite Nat.sub_0_r. f_equal. apply firstn_all2. rewrite skipn_length. lia.
Qed.

Lemma ring_with_data_wf d : d <> [] -> ring_wf (ring_with_data d) /\ ring_content (ring_with_data d) = d.
Proof.
  intros NE. assert (0 < length d) by (destruct d; [congruence|cbn; lia]).
  unfold ring_wf, ring_with_data, ring_content; cbn [rb_buf rb_size rb_r rb_w rb_empty firstn skipn Nat.ltb Nat.leb].
  rewrite app_nil_r. repeat split; try lia; try discriminate.
Qed.

(* reading never moves the write index *)
Lemma read_op_keeps_w g o : is_read_op o = true -> rb_w g = 0 -> rb_w (fst (ring_step z g o)) = 0.
Proof.
  destruct o as [|n|n|p]; cbn [is_read_op ring_step fst]; intros R W; try discriminate; try exact W.
  unfold ring_retrieve, ring_retrieve_all. destruct (rb_empty g || (n =? 0)); [exact W|].
  destruct (n <? ring_length g); cbn [rb_w]; [exact W|reflexivity].
Qed.

Lemma read_ops_keep_w ops : forall g, forallb is_read_op ops = true -> rb_w g = 0 -> rb_w (fst (run_ops (ring_step z) g ops)) = 0.
Proof.
  induction ops as [|o ops IH]; intros g R W; [exact W|].
  cbn [forallb] in R. apply andb_true_iff in R. destruct R as (R1 & R2).
  cbn [run_ops]. pose proof (read_op_keeps_w g o R1 W) as W1.
  destruct (ring_step z g o) as [g1 b]. cbn [fst] in W1. specialize (IH g1 R2 W1).
  destruct (run_ops (ring_step z) g1 ops) as [g2 bs]. exact IH.
Qed.

Lemma w0_peek_all_end_empty g : rb_w g = 0 -> snd (ring_peek_all g) = [].
Proof.
  intros W. unfold ring_peek_all. rewrite W. destruct (rb_empty g); [reflexivity|].
  destruct (rb_r g <? 0); reflexivity.
Qed.

(* THE FAST PATH: wrap n > 0 fresh bytes, let the decoders do any sequence of Length / Peek / Retrieve; then the first
   slice of PeekAll alone is the whole left-over, which is what the byte-queue history leaves *)
Theorem fast_path_leftover_complete d ops : d <> [] -> forallb is_read_op ops = true ->
  let g := fst (run_ops (ring_step z) (ring_with_data d) ops) in
  snd (ring_peek_all g) = [] /\ fst (ring_peek_all g) = fst (run_ops content_step d ops) /\
  snd (run_ops (ring_step z) (ring_with_data d) ops) = snd (run_ops content_step d ops).
Proof.
  intros NE R g. destruct (ring_with_data_wf d NE) as (WF & C).
  destruct (ring_history_refines z ops (ring_with_data d) WF) as (H1 & H2 & H3). rewrite C in H1, H2.
  assert (E: snd (ring_peek_all g) = []) by (apply w0_peek_all_end_empty, read_ops_keep_w; [exact R|reflexivity]).
  split; [exact E|]. split; [|exact H1].
  rewrite <- H2. fold g. rewrite <- (ring_peek_all_refines g H3), E. symmetry. apply app_nil_r.
Qed.

End RingFastP.

(* the restriction to reading is needed: one Write after a Retrieve on such a ring puts bytes into the second slice *)
Example fast_path_needs_read_only :
  snd (ring_peek_all (fst (run_ops (ring_step 0) (ring_with_data [1; 2]) [RRetr 1; RWrite [3]]))) = [3].
Proof. reflexivity. Qed.

