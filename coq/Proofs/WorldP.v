(* Proofs/WorldP.v — C11: the result of an operation depends only on the operation and its own
   context's buffered bytes / pending header: not on what the pooled header object was used for
   before, and not on other contexts, for every history. *)
From Coq Require Import List NArith ZArith Lia Bool.
From Coq.Strings Require Import Byte.
From OAP Require Import Base.Bytes Base.Res Gen.Consts Model.Metadata Model.Header Model.Frame Model.Stream Model.World.
Import ListNotations.
Local Open Scope N_scope.

(* headerPool.Get resets every field: whatever the recycled object held, the result is the zero header *)
Theorem pool_reset_complete v stale : pool_get v stale = hdr0.
Proof. reflexivity. Qed.

Theorem step_ctx_stale_irrelevant gz codec s1 s2 vs o :
  step_ctx gz codec s1 vs o = step_ctx gz codec s2 vs o.
Proof. destruct vs as [v s]. destruct o; reflexivity. Qed.

Lemma nth_upd_same {A} n (a : A) l x : nth_error l n = Some x -> nth_error (upd_nth n a l) n = Some a.
Proof. revert n. induction l as [|y l IH]; intros [|n]; cbn; try discriminate; auto. Qed.
Lemma nth_upd_other {A} n m (a : A) l : n <> m -> nth_error (upd_nth n a l) m = nth_error l m.
Proof. revert n m. induction l as [|y l IH]; intros [|n] [|m] H; cbn; try reflexivity; try congruence. apply IH. congruence. Qed.

(* one step touches only its own context *)
Theorem step_other_contexts gz codec w o w' r c :
  step gz codec w o = Some (w', r) -> c <> op_ctx o -> nth_error (w_ctx w') c = nth_error (w_ctx w) c.
Proof.
  unfold step. destruct (nth_error (w_ctx w) (op_ctx o)) as [vs|]; [|discriminate].
  destruct (step_ctx gz codec (w_stale w) vs o) as [vs' r']. intros E; inversion E; subst. cbn [w_ctx].
  intros H. apply nth_upd_other. congruence.
Qed.

Theorem step_own_context gz codec w o w' r vs :
  step gz codec w o = Some (w', r) -> nth_error (w_ctx w) (op_ctx o) = Some vs ->
  forall stale, nth_error (w_ctx w') (op_ctx o) = Some (fst (step_ctx gz codec stale vs o)) /\
                r = snd (step_ctx gz codec stale vs o).
Proof.
  unfold step. intros E N stale. rewrite N in E. rewrite (step_ctx_stale_irrelevant gz codec (w_stale w) stale) in E.
  destruct (step_ctx gz codec stale vs o) as [vs' r']. inversion E; subst. cbn [w_ctx fst snd]. split; [|reflexivity].
  eapply nth_upd_same; eauto.
Qed.

(* histories: project to one context *)
Definition retarget (o : op) : op :=
  match o with
  | OFeed _ d => OFeed 0 d | OUnpack _ => OUnpack 0 | OAll _ => OAll 0 | OBytes _ d => OBytes 0 d | OPack _ t p => OPack 0 t p
  end.
Fixpoint proj_ops (c : nat) (ops : list op) : list op :=
  match ops with
  | [] => []
  | o :: r => if Nat.eqb (op_ctx o) c then retarget o :: proj_ops c r else proj_ops c r
  end.
Fixpoint proj_results (c : nat) (ops : list op) (rs : list result) : list result :=
  match ops, rs with
  | o :: r, x :: xs => if Nat.eqb (op_ctx o) c then x :: proj_results c r xs else proj_results c r xs
  | _, _ => []
  end.

Lemma step_ctx_retarget gz codec stale vs o : step_ctx gz codec stale vs (retarget o) = step_ctx gz codec stale vs o.
Proof. destruct vs, o; reflexivity. Qed.

(* isolation over histories: what context c observes in any interleaved history over any number of
   contexts, with any pool contents, is what it observes when it runs alone *)
Theorem isolation gz codec : forall ops w w' rs c vs stale',
  run gz codec w ops = Some (w', rs) -> nth_error (w_ctx w) c = Some vs ->
  exists w1, run gz codec (mkW [vs] stale') (proj_ops c ops) = Some (w1, proj_results c ops rs) /\
             nth_error (w_ctx w') c = nth_error (w_ctx w1) 0.
Proof.
  induction ops as [|o ops IH]; intros w w' rs c vs stale' R N.
  - cbn in R. inversion R; subst. exists (mkW [vs] stale'). cbn. split; [reflexivity|exact N].
  - cbn [run] in R. destruct (step gz codec w o) as [[wm x]|] eqn:S; [|discriminate].
    destruct (run gz codec wm ops) as [[w2 xs]|] eqn:R2; [|discriminate]. inversion R; subst w' rs; clear R.
    cbn [proj_ops proj_results]. destruct (Nat.eqb (op_ctx o) c) eqn:E.
    + apply Nat.eqb_eq in E. subst c.
      destruct (step_own_context gz codec w o wm x vs S N stale') as [N' X].
      destruct (IH wm w2 xs (op_ctx o) _ stale' R2 N') as (w1 & R1 & N1).
      exists w1. split; [|exact N1].
      cbn [run]. unfold step at 1. cbn [w_ctx w_stale].
      replace (op_ctx (retarget o)) with 0%nat by (destruct o; reflexivity). cbn [nth_error].
      rewrite step_ctx_retarget. destruct (step_ctx gz codec stale' vs o) as [vs' r'] eqn:SC. cbn [fst snd] in *.
      cbn [upd_nth]. rewrite R1. now subst x.
    + apply Nat.eqb_neq in E.
      assert (N' : nth_error (w_ctx wm) c = Some vs).
      { rewrite (step_other_contexts gz codec w o wm x c S); [exact N|congruence]. }
      exact (IH wm w2 xs c vs stale' R2 N').
Qed.
