(* Proofs/GzipP.v — C10 (and C04's gzip memory clause): what the repository's own code adds
   around compress/gzip.  The library itself is the oracle [gz]. *)
From Coq Require Import List NArith ZArith Lia Bool.
From Coq.Strings Require Import Byte.
From OAP Require Import Base.Bytes Base.Res Gen.Consts Model.Metadata Model.Header Model.Frame Model.Spec Proofs.FrameP.
Import ListNotations.
Local Open Scope N_scope.

Theorem decompress_compress gz x : gz_contract gz -> decompress gz (gz_compress gz x) = Ok x.
Proof. intros C. unfold decompress. now rewrite (gzc_roundtrip gz C). Qed.

(* success only for a complete, valid stream, and then its full content *)
Theorem decompress_sound gz inp out :
  decompress gz inp = Ok out -> gz_read gz inp = GzStream out GzEOF.
Proof. unfold decompress. destruct (gz_read gz inp) as [|o [|]]; intros E; inversion E; reflexivity. Qed.

Theorem decompress_complete gz inp out :
  gz_read gz inp = GzStream out GzEOF -> decompress gz inp = Ok out.
Proof. unfold decompress. now intros ->. Qed.

(* anything else is an error: never truncated/altered data as success, never a panic *)
Theorem decompress_else_error gz inp :
  (forall out, gz_read gz inp <> GzStream out GzEOF) -> decompress gz inp = Err EGzip.
Proof. unfold decompress. destruct (gz_read gz inp) as [|o [|]]; intros H; try reflexivity. now specialize (H o). Qed.

Theorem decompress_total gz inp : decompress gz inp <> Panic /\ decompress gz inp <> OutOfFuel.
Proof. unfold decompress. destruct (gz_read gz inp) as [|o [|]]; split; discriminate. Qed.

(* the capacity requested up front is bounded by the input length, whatever the size trailer claims *)
Theorem decompress_alloc_bounded gz inp :
  (0 <= decompress_alloc gz inp <= Z.of_nat (length inp) * c_maxExpansion + Z.of_N c_bytes_MinRead)%Z.
Proof.
  unfold decompress_alloc. destruct (gz_read gz inp); unfold c_maxExpansion; [cbn; lia| ].
  change (Z.of_N c_bytes_MinRead) with 512%Z. lia.
Qed.

(* frame level: a body is compressed exactly when thr <> 0 and len >= thr; the gzip bit says so *)
Lemma bind_ok {A B} (r : res A) (f : A -> res B) y : bind r f = Ok y -> exists x, r = Ok x /\ f x = Ok y.
Proof. destruct r; cbn; try discriminate. eauto. Qed.

Lemma pack_result gz v thr stale p fr p' :
  pack gz v thr stale p = Ok (fr, p') -> p' = mkPacket (wire_md thr p) (wire_body gz thr (p_body p)).
Proof.
  unfold pack. fold (pack_compresses thr (p_body p)). fold (wire_body gz thr (p_body p)). fold (wire_md thr p).
  destruct (c_MaxBodyLength <? _); [discriminate|].
  intros H. repeat (apply bind_ok in H; destruct H as (? & _ & H)). now inversion H.
Qed.

Theorem gzip_rule gz v thr stale p fr p' :
  pack gz v thr stale p = Ok (fr, p') ->
  p_body p' = (if pack_compresses thr (p_body p) then gz_compress gz (p_body p) else p_body p) /\
  m_gzip (p_md p') = (m_gzip (p_md p) || pack_compresses thr (p_body p)).
Proof.
  intros H. rewrite (pack_result _ _ _ _ _ _ _ H). cbn [p_body p_md]. unfold wire_body, wire_md.
  destruct (pack_compresses thr (p_body p)); cbn; split; try reflexivity; [now rewrite orb_true_r|now rewrite orb_false_r].
Qed.

Theorem pack_compresses_iff thr body :
  pack_compresses thr body = true <-> (thr <> 0 /\ Z.of_nat (length body) >= thr)%Z.
Proof. unfold pack_compresses. rewrite andb_true_iff, negb_true_iff, Z.eqb_neq, Z.geb_le. lia. Qed.
