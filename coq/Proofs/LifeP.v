(* Proofs/LifeP.v — C14 (Close is final and safe), C16 (resources released), and the no-panic part of C06, on the
   lifecycle model, for every action list (every interleaving of user Close, connection losses, the steps of the
   recovery loop, request writes and goroutine exits). *)
From Coq Require Import List NArith Arith Lia Bool.
From OAP Require Import Base.Bytes Base.Res Model.Life.
Import ListNotations.
Local Open Scope N_scope.

Definition full (c : conn) : bool := cn_reader c && cn_writer c && cn_disp c.

Record LInv (s : lstate) : Prop := {
  li_nonempty : l_conns s <> [];
  li_old_closed : forallb closedb (removelast (l_conns s)) = true;      (* only the newest connection can be open *)
  li_closed_all : l_closed s = true -> forallb closedb (l_conns s) = true;
  li_dialing_all : l_phase s = PhDialing -> forallb closedb (l_conns s) = true;
  li_once : l_once s = l_closed s;
  li_cb : l_cb s = if l_closed s then 1%nat else 0%nat;
  li_ghost : l_late_dials s = 0%nat /\ l_late_frames s = 0%nat /\ l_late_recon_cb s = 0%nat;
  li_open_full : forall c, In c (l_conns s) -> cn_open c = true -> full c = true }.

Lemma close_last_nonempty l : l <> [] -> close_last l <> [].
Proof. destruct l as [|c [|d r]]; intros H; cbn; [congruence|discriminate|discriminate]. Qed.
Lemma removelast_close_last l : removelast (close_last l) = removelast l.
Proof.
  induction l as [|c l IH]; [reflexivity|]. destruct l as [|d r]; [reflexivity|].
  change (close_last (c :: d :: r)) with (c :: close_last (d :: r)).
  assert (N : close_last (d :: r) <> []) by (apply close_last_nonempty; discriminate).
  destruct (close_last (d :: r)) as [|e t] eqn:E; [congruence|].
  change (removelast (c :: e :: t)) with (c :: removelast (e :: t)). rewrite IH. reflexivity.
Qed.
Lemma close_last_all l : forallb closedb (removelast l) = true -> forallb closedb (close_last l) = true.
Proof.
  induction l as [|c [|d r] IH]; cbn in *; [reflexivity|reflexivity|].
  intros H. apply andb_true_iff in H. destruct H as [H1 H2]. rewrite H1. apply IH. exact H2.
Qed.
Lemma all_closed_removelast l : forallb closedb l = true -> forallb closedb (removelast l) = true.
Proof. induction l as [|c [|d r] IH]; cbn in *; auto. intros H. apply andb_true_iff in H. destruct H as [H1 H2]. rewrite H1. now apply IH. Qed.
Lemma close_last_in l c : In c (close_last l) -> cn_open c = true -> In c l.
Proof.
  induction l as [|d [|e r] IH]; cbn in *; [auto| |].
  - intros [<-|[]] H. discriminate.
  - intros [<-|I] H; [auto|]. right. now apply IH.
Qed.
Lemma removelast_snoc {A} (l : list A) x : removelast (l ++ [x]) = l.
Proof. apply removelast_last. Qed.

Lemma exit_g_open i g l : map cn_open (exit_g i g l) = map cn_open l.
Proof.
  revert i. induction l as [|c r IH]; intros [|i]; cbn; try reflexivity.
  - destruct (cn_open c) eqn:O; [now rewrite O|]. destruct g; reflexivity.
  - now rewrite IH.
Qed.
Lemma forallb_closed_map l : forallb closedb l = forallb negb (map cn_open l).
Proof. induction l as [|c r IH]; cbn; [reflexivity|]. now rewrite IH. Qed.
Lemma exit_g_closed i g l : forallb closedb (exit_g i g l) = forallb closedb l.
Proof. now rewrite !forallb_closed_map, exit_g_open. Qed.
Lemma exit_g_removelast i g l : forallb closedb (removelast (exit_g i g l)) = forallb closedb (removelast l).
Proof.
  rewrite !forallb_closed_map. f_equal.
  assert (R : forall (l0 : list conn), map cn_open (removelast l0) = removelast (map cn_open l0)).
  { induction l0 as [|c [|d r] IH0]; cbn in *; auto. now rewrite IH0. }
  now rewrite !R, exit_g_open.
Qed.
Lemma exit_g_nonempty i g l : l <> [] -> exit_g i g l <> [].
Proof. destruct l; [congruence|]. destruct i; cbn; congruence. Qed.
Lemma exit_g_in i g l c : In c (exit_g i g l) -> cn_open c = true -> In c l.
Proof.
  revert i. induction l as [|d r IH]; intros [|i]; cbn; auto.
  - destruct (cn_open d) eqn:O; [auto|]. intros [<-|I] H; [destruct g; discriminate|auto].
  - intros [<-|I] H; [auto|]. right. eapply IH; eauto.
Qed.

Lemma linv_init max : LInv (l0 max).
Proof. split; cbn; auto; try discriminate. intros c [<-|[]] _. reflexivity. Qed.

Ltac rc := repeat match goal with H : l_closed _ = _ |- _ => rewrite H end.
Ltac fin := cbn; rc; auto; try (intros; discriminate).
Ltac inv_fields I := destruct I as [I1 I2 I3 I4 I5 I6 [I7a [I7b I7c]] I8].

Lemma do_close_inv s s' : LInv s -> do_close s = Ok s' ->
  LInv s' /\ l_closed s' = true /\ l_recovering s' = l_recovering s /\ l_phase s' = l_phase s /\ l_recon_cb s' = l_recon_cb s.
Proof.
  intros I. inv_fields I. unfold do_close. destruct (l_once s) eqn:O.
  - intros E; inversion E; subst. rewrite I5 in O. repeat split; auto.
  - unfold close_chan. rewrite <- I5. cbn [bind]. intros E; inversion E; subst; clear E. cbn.
    repeat split; cbn; auto.
    + now apply close_last_nonempty.
    + now rewrite removelast_close_last.
    + intros _. now apply close_last_all.
    + intros _. now apply close_last_all.
    + rewrite I6, <- I5. reflexivity.
    + intros c Hc Ho. apply I8; [now apply close_last_in|exact Ho].
Qed.

Theorem linv_step s a : LInv s -> lstep s a <> Panic /\ (forall s', lstep s a = Ok s' -> LInv s').
Proof.
  intros I. pose proof I as I0. inv_fields I. destruct a as [| | |ok|ok| | |i g]; cbn [lstep].
  - (* user close *)
    split.
    + unfold do_close, close_chan. destruct (l_once s) eqn:O; [discriminate|]. rewrite <- I5. cbn. discriminate.
    + intros s' E. now destruct (do_close_inv s s' I0 E).
  - (* conn lost *)
    assert (G : LInv (set_conns s (close_last (l_conns s)))).
    { split; cbn; auto.
      - now apply close_last_nonempty.
      - now rewrite removelast_close_last.
      - intros _. now apply close_last_all.
      - intros _. now apply close_last_all.
      - intros c Hc Ho. apply I8; [now apply close_last_in|exact Ho]. }
    destruct (none_open s); [split; [discriminate|intros s' E; inversion E; subst; exact I0]|].
    destruct (l_closed s) eqn:C; [split; [discriminate|]; intros s' E; inversion E; subst; exact G|].
    destruct (l_recovering s); (split; [discriminate|]); intros s' E; inversion E; subst;
      destruct G as [G1 G2 G3 G4 G5 G6 G7 G8]; split; cbn in *; auto.
  - (* retry loop head *)
    destruct (l_recovering s); [|split; [discriminate|intros s' E; inversion E; subst; exact I0]].
    destruct (l_phase s) eqn:P; try (split; [discriminate|intros s' E; inversion E; subst; exact I0]).
    destruct (l_closed s) eqn:C.
    + split; [discriminate|]. intros s' E; inversion E; subst. split; fin.
    + destruct ((0 <? l_max s) && (l_max s <=? l_count s)).
      * split.
        -- unfold do_close, close_chan. destruct (l_once s) eqn:O; cbn; [discriminate|]. rewrite C. cbn. discriminate.
        -- intros s' E. destruct (do_close s) as [s1| | |] eqn:D; cbn [bind] in E; try discriminate. inversion E; subst.
           destruct (do_close_inv s s1 I0 D) as ([G1 G2 G3 G4 G5 G6 G7 G8] & Cl & _). rewrite Cl in *. split; fin.
      * split; [discriminate|]. intros s' E; inversion E; subst; clear E. split; fin; rewrite ?C in *; auto.
        all: try (now apply close_last_nonempty). all: try (now rewrite removelast_close_last).
        all: try (intros _; now apply close_last_all).
        all: try (intros c Hc Ho; apply I8; [now apply close_last_in|exact Ho]).
  - (* dial done *)
    destruct (l_phase s) eqn:P; try (split; [discriminate|intros s' E; inversion E; subst; exact I0]).
    specialize (I4 eq_refl). destruct ok; cbn [negb].
    + assert (NE : l_conns s ++ [mkConn true true true true] <> []) by (destruct (l_conns s); discriminate).
      destruct (l_closed s) eqn:C; (split; [discriminate|]); intros s' E; inversion E; subst; clear E; split; fin; rewrite ?C in *; auto.
      all: try (now apply close_last_nonempty).
      all: try (rewrite ?removelast_close_last, removelast_snoc; exact I4).
      all: try (intros _; apply close_last_all; rewrite removelast_snoc; exact I4).
      all: try (intros c Hc Ho; try (apply close_last_in in Hc; [|exact Ho]); apply in_app_or in Hc; destruct Hc as [Hc|[<-|[]]]; [now apply I8|reflexivity]).
    + split; [discriminate|]. intros s' E; inversion E; subst; clear E. split; fin.
  - (* auth done *)
    destruct (l_phase s) eqn:P; try (split; [discriminate|intros s' E; inversion E; subst; exact I0]).
    destruct ok; cbn [negb].
    + destruct (l_closed s) eqn:C; (split; [discriminate|]); intros s' E; inversion E; subst; clear E; split; fin; rewrite ?C in *; auto.
      all: try (now apply close_last_nonempty). all: try (now rewrite removelast_close_last).
      all: try (intros _; now apply close_last_all).
      all: try (intros c Hc Ho; apply I8; [now apply close_last_in|exact Ho]).
    + split; [discriminate|]. intros s' E; inversion E; subst; clear E. split; fin.
  - (* finish *)
    destruct (l_phase s) eqn:P; try (split; [discriminate|intros s' E; inversion E; subst; exact I0]).
    destruct (l_pending s && negb (l_closed s)); (split; [discriminate|]); intros s' E; inversion E; subst; clear E; split; fin.
  - (* Do *)
    destruct (rev (l_conns s)) as [|c r] eqn:R.
    + exfalso. apply I1. apply (f_equal (@rev conn)) in R. now rewrite rev_involutive in R.
    + destruct (cn_open c) eqn:O; (split; [discriminate|]); intros s' E; inversion E; subst; clear E; [|exact I0].
      assert (Cl : l_closed s = false).
      { destruct (l_closed s) eqn:C; [|reflexivity]. specialize (I3 eq_refl). rewrite forallb_forall in I3.
        assert (Hin : In c (l_conns s)) by (apply in_rev; rewrite R; left; reflexivity).
        specialize (I3 c Hin). unfold closedb in I3. rewrite O in I3. discriminate. }
      rewrite Cl in *. split; fin.
  - (* goroutine exit *)
    split; [discriminate|]. intros s' E; inversion E; subst; clear E. split; fin.
    + now apply exit_g_nonempty.
    + now rewrite exit_g_removelast.
    + intros C. rewrite exit_g_closed. now apply I3.
    + intros P. rewrite exit_g_closed. now apply I4.
    + intros c Hc Ho. apply I8; [eapply exit_g_in; eauto|exact Ho].
Qed.

Theorem lrun_safe max acts : lrun (l0 max) acts <> Panic /\ (forall s, lrun (l0 max) acts = Ok s -> LInv s).
Proof.
  assert (G : forall acts s, LInv s -> lrun s acts <> Panic /\ (forall s', lrun s acts = Ok s' -> LInv s')).
  { induction acts0 as [|a r IH]; intros s I; cbn [lrun].
    - split; [discriminate|]. intros s' E; inversion E; subst; exact I.
    - destruct (linv_step s a I) as [NP St]. destruct (lstep s a) as [s1| | |] eqn:E; cbn [bind]; try congruence.
      + apply IH. now apply St.
      + split; [discriminate|intros; discriminate].
      + split; [discriminate|intros; discriminate]. }
  apply G, linv_init.
Qed.

(* ---- corollaries ---- *)
(* the close callback runs at most once, and exactly once once the client is closed *)
Theorem close_callback_once max acts s : lrun (l0 max) acts = Ok s -> l_cb s = if l_closed s then 1%nat else 0%nat.
Proof. intros H. exact (li_cb s (proj2 (lrun_safe max acts) s H)). Qed.
(* after Close: no dial begun, no frame written, no after-reconnect callback, every connection closed *)
Theorem close_is_final max acts s : lrun (l0 max) acts = Ok s ->
  l_late_dials s = 0%nat /\ l_late_frames s = 0%nat /\ l_late_recon_cb s = 0%nat /\
  (l_closed s = true -> forallb closedb (l_conns s) = true).
Proof. intros H. pose proof (proj2 (lrun_safe max acts) s H) as I. destruct (li_ghost s I) as (A & B & C). repeat split; auto. apply (li_closed_all s I). Qed.
(* never two connections at once *)
Lemma open_le_one l : forallb closedb (removelast l) = true -> (length (filter cn_open l) <= 1)%nat.
Proof.
  induction l as [|c [|d r] IH]; cbn in *; [lia|destruct (cn_open c); cbn; lia|].
  intros H. apply andb_true_iff in H. destruct H as [H1 H2]. unfold closedb in H1. apply negb_true_iff in H1. rewrite H1. apply IH. exact H2.
Qed.
Theorem at_most_one_open_connection max acts s : lrun (l0 max) acts = Ok s -> (open_conns s <= 1)%nat.
Proof. intros H. apply open_le_one. exact (li_old_closed s (proj2 (lrun_safe max acts) s H)). Qed.

(* C16: when no goroutine of a closed connection is left to exit (quiescence), the goroutines alive are exactly
   three per open connection: at most three in total, none after Close *)
Lemma live_sum l a : fold_left (fun a c => (a + alive c)%nat) l a = (a + fold_left (fun a c => (a + alive c)%nat) l 0)%nat.
Proof. revert a. induction l as [|c r IH]; intros a; cbn; [lia|]. rewrite IH, (IH (alive c)). lia. Qed.

Theorem quiescent_released max acts s : lrun (l0 max) acts = Ok s ->
  forallb (fun c => negb (lingering c)) (l_conns s) = true ->
  live_goroutines s = (3 * open_conns s)%nat /\ (live_goroutines s <= 3)%nat /\ (l_closed s = true -> live_goroutines s = 0%nat).
Proof.
  intros H Q. pose proof (proj2 (lrun_safe max acts) s H) as I.
  assert (E : live_goroutines s = (3 * open_conns s)%nat).
  { unfold live_goroutines, open_conns. pose proof (li_open_full s I) as F. revert Q F. generalize (l_conns s).
    induction l as [|c r IH]; intros Q F; cbn; [reflexivity|]. cbn in Q. apply andb_true_iff in Q. destruct Q as [Q1 Q2].
    rewrite live_sum. rewrite IH; [|exact Q2|intros c0 Hc; apply F; now right].
    destruct (cn_open c) eqn:O.
    - specialize (F c (or_introl eq_refl) O). unfold full in F. rewrite !andb_true_iff in F. destruct F as [[F1 F2] F3].
      unfold alive. rewrite F1, F2, F3. cbn [length]. lia.
    - unfold lingering in Q1. rewrite O in Q1. cbn in Q1. apply negb_true_iff, orb_false_iff in Q1. destruct Q1 as [Q1 Q3].
      apply orb_false_iff in Q1. destruct Q1 as [Q1 Q1']. unfold alive. rewrite Q1, Q1', Q3. lia. }
  pose proof (at_most_one_open_connection max acts s H) as O1. split; [exact E|]. split; [lia|].
  intros C. rewrite E. pose proof (li_closed_all s I C) as A. unfold open_conns.
  assert (Z : forall l, forallb closedb l = true -> length (filter cn_open l) = 0%nat).
  { induction l as [|c r IH]; cbn; [reflexivity|]. intros X. apply andb_true_iff in X. destruct X as [X1 X2]. unfold closedb in X1. apply negb_true_iff in X1. rewrite X1. now apply IH. }
  rewrite (Z _ A). reflexivity.
Qed.

(* and quiescence is always reachable: a lingering goroutine has an exit step that removes it *)
Theorem lingering_can_exit c : lingering c = true ->
  exists g, alive (hd c (exit_g 0 g [c])) = (alive c - 1)%nat.
Proof.
  unfold lingering. rewrite andb_true_iff, negb_true_iff. intros [O L]. cbn [exit_g hd]. rewrite O.
  destruct (cn_reader c) eqn:R; [exists GReader; unfold alive; cbn; rewrite R; destruct (cn_writer c), (cn_disp c); reflexivity|].
  destruct (cn_writer c) eqn:W; [exists GWriter; unfold alive; cbn; rewrite R, W; destruct (cn_disp c); reflexivity|].
  destruct (cn_disp c) eqn:D; [exists GDisp; unfold alive; cbn; rewrite R, W, D; reflexivity|discriminate].
Qed.

(* ---- C08: no loss of the connection goes unnoticed ----
   Second invariant: whenever the client is not closed and no connection is open, a recovery is running (or is about
   to start over); while an attempt is past its dial, a loss of the new connection is either still visible
   (connection open) or recorded as pending. *)
Record LCov (s : lstate) : Prop := {
  lc_pend : (l_phase s = PhAuthing \/ l_phase s = PhFinishing) -> l_closed s = false -> l_pending s = false -> none_open s = false;
  lc_cover : l_closed s = false -> none_open s = true -> l_recovering s = true;
  lc_phase : l_phase s <> PhIdle -> l_recovering s = true }.

Lemma none_open_snoc l : forallb closedb (l ++ [mkConn true true true true]) = false.
Proof. rewrite forallb_app. cbn. apply andb_false_r. Qed.

Lemma lcov_init max : LCov (l0 max).
Proof. split; cbn; intros; try discriminate; try congruence; try (destruct H; discriminate). Qed.

Lemma do_close_closed s s' : do_close s = Ok s' -> LInv s -> l_closed s' = true.
Proof. intros E I. now destruct (do_close_inv s s' I E) as (_ & C & _). Qed.

Ltac cov_fin := cbn; unfold none_open in *; cbn; intros; try congruence; auto;
  try match goal with H : _ \/ _ |- _ => destruct H; congruence end.

Lemma lcov_step s a s' : LInv s -> LCov s -> lstep s a = Ok s' -> LCov s'.
Proof.
  intros I [P C Q] E. pose proof I as I0. inv_fields I. destruct a as [| | |ok|ok| | |i g]; cbn [lstep] in E.
  - (* user close *)
    destruct (do_close_inv s s' I0 E) as (_ & Cl & R & Ph & _). split; intros; try congruence. rewrite R. apply Q. congruence.
  - (* conn lost *)
    destruct (none_open s) eqn:N; [inversion E; subst; split; rewrite ?N; assumption|].
    destruct (l_closed s) eqn:Cl; [inversion E; subst; split; cov_fin|].
    assert (A : forallb closedb (close_last (l_conns s)) = true) by now apply close_last_all.
    destruct (l_recovering s) eqn:R; inversion E; subst; clear E; split; cov_fin.
    (* not recovering: the phase is idle, so the attempt-phase clause is vacuous *)
    destruct (l_phase s) eqn:Ph; try (assert (X : false = true) by (apply Q; discriminate); discriminate);
      match goal with H : _ \/ _ |- _ => destruct H; discriminate end.
  - (* retry loop head *)
    destruct (l_recovering s) eqn:R; [|inversion E; subst; split; rewrite ?R; assumption].
    destruct (l_phase s) eqn:Ph; try (inversion E; subst; split; rewrite ?R, ?Ph; assumption).
    destruct (l_closed s) eqn:Cl.
    + inversion E; subst. split; cov_fin.
    + destruct ((0 <? l_max s) && (l_max s <=? l_count s)).
      * destruct (do_close s) as [s1| | |] eqn:D; cbn [bind] in E; try discriminate. inversion E; subst.
        pose proof (do_close_closed s s1 D I0) as Cl1. split; cov_fin.
      * inversion E; subst; clear E. split; cov_fin.
  - (* dial done *)
    destruct (l_phase s) eqn:Ph; try (inversion E; subst; split; rewrite ?Ph; assumption).
    destruct ok; cbn [negb] in E.
    + destruct (l_closed s) eqn:Cl; inversion E; subst; clear E; split; cov_fin.
      all: try apply none_open_snoc.
      all: try (match goal with H : forallb closedb (_ ++ _) = true |- _ => rewrite none_open_snoc in H; discriminate end).
    + inversion E; subst; clear E. split; cov_fin.
  - (* auth done *)
    destruct (l_phase s) eqn:Ph; try (inversion E; subst; split; rewrite ?Ph; assumption).
    destruct ok; cbn [negb] in E.
    + destruct (l_closed s) eqn:Cl; inversion E; subst; clear E; split; cov_fin.
      all: try (apply P; auto).
    + inversion E; subst; clear E. split; cov_fin.
  - (* finish *)
    destruct (l_phase s) eqn:Ph; try (inversion E; subst; split; rewrite ?Ph; assumption).
    destruct (l_pending s) eqn:Pe; destruct (l_closed s) eqn:Cl; cbn [andb negb] in E; inversion E; subst; clear E; split; cov_fin.
    (* not pending, not closed: the new connection is still open, so nothing is uncovered *)
    all: try (match goal with H : forallb closedb _ = true |- _ => rewrite P in H; [discriminate|now right|reflexivity|reflexivity] end).
  - (* Do *)
    destruct (rev (l_conns s)) as [|c r]; [discriminate|]. destruct (cn_open c); inversion E; subst; split; cov_fin.
  - (* goroutine exit *)
    inversion E; subst; clear E. split; cbn; unfold none_open in *; cbn; rewrite ?exit_g_closed; auto.
Qed.

Theorem lrun_cov max acts s : lrun (l0 max) acts = Ok s -> LCov s.
Proof.
  assert (G : forall acts s0 s1, LInv s0 -> LCov s0 -> lrun s0 acts = Ok s1 -> LCov s1).
  { induction acts0 as [|a r IH]; intros s0 s1 I Cv E; cbn [lrun] in E; [inversion E; subst; exact Cv|].
    destruct (lstep s0 a) as [s2| | |] eqn:E2; cbn [bind] in E; try discriminate.
    eapply IH; [apply (proj2 (linv_step s0 a I)); exact E2|eapply lcov_step; eauto|exact E]. }
  intros E. eapply G; [apply linv_init|apply lcov_init|exact E].
Qed.

(* every loss is covered: in every reachable state of a client that is not closed, either a connection is open or a
   recovery is running *)
Theorem loss_is_covered max acts s : lrun (l0 max) acts = Ok s ->
  l_closed s = false -> none_open s = true -> l_recovering s = true.
Proof. intros E. exact (lc_cover s (lrun_cov max acts s E)). Qed.

(* and a running recovery always has a next step: at the loop head it dials again (or gives up by closing) *)
Theorem recovering_idle_progresses s : LInv s -> l_recovering s = true -> l_phase s = PhIdle -> l_closed s = false ->
  exists s', lstep s LRetryBegin = Ok s' /\ (l_phase s' = PhDialing \/ l_closed s' = true).
Proof.
  intros I R Ph Cl. cbn [lstep]. rewrite R, Ph, Cl. destruct ((0 <? l_max s) && (l_max s <=? l_count s)).
  - pose proof (li_once s I) as O. rewrite Cl in O. unfold do_close, close_chan. rewrite O, Cl. cbn [bind].
    eexists; split; [reflexivity|]. right. reflexivity.
  - eexists; split; [reflexivity|]. left. reflexivity.
Qed.
