(* Proofs/KeepaliveP.v — C15 under explicit timing hypotheses on the action list. *)
From Coq Require Import List NArith ZArith Lia Bool.
From Coq Require Import ZifyBool ZifyN ZifyNat.
From OAP Require Import Base.Bytes Base.Res Gen.Consts Model.Keepalive.
Import ListNotations.
Local Open Scope N_scope.

(* every tick while connected, not recovering and not timed out sends one heartbeat whose request id is fresh
   (counter + 1) and whose body carries that same id *)
Theorem ping_schedule timeout s now :
  k_reconnecting s = false -> (k_last_ka s = 0 \/ now - k_last_pong s <= timeout) -> k_counter s + 1 < 4294967296 ->
  kstep timeout s (KTick now true) =
    (mkK (k_counter s + 1) (k_last_pong s) (k_counter s + 1) false, [KPing (k_counter s + 1) (k_counter s + 1)]).
Proof.
  intros R H B. cbn [kstep].
  replace (negb (k_last_ka s =? 0) && (timeout <? now - k_last_pong s)) with false by (destruct H; lia).
  rewrite R, N.mod_small by lia. reflexivity.
Qed.

(* TCP: every heartbeat request of the peer is answered with a response echoing its id and body *)
Theorem peer_ping_echoed timeout s id body : kstep timeout s (KPeerPing id body) = (s, [KEcho id body]).
Proof. reflexivity. Qed.

(* a peer that stopped answering is detected at the first tick later than lastPong + timeout *)
Theorem detects_dead timeout s now ok :
  k_last_ka s <> 0 -> k_last_pong s + timeout < now -> snd (kstep timeout s (KTick now ok)) = [KRecycle].
Proof.
  intros A B. cbn [kstep]. replace (negb (k_last_ka s =? 0) && (timeout <? now - k_last_pong s)) with true by lia. reflexivity.
Qed.

(* ... and with ticks every [interval] that is at most interval + timeout after the last pong *)
Corollary detection_latency timeout interval s t ok :
  k_last_ka s <> 0 -> k_last_pong s + timeout < t -> t <= k_last_pong s + timeout + interval ->
  snd (kstep timeout s (KTick t ok)) = [KRecycle] /\ t - k_last_pong s <= interval + timeout.
Proof. intros A B C. split; [now apply detects_dead|lia]. Qed.

(* no false positive: a schedule in which every heartbeat is answered before the next tick, ticks are at most
   [interval] apart and timeout >= interval never makes keepalive recycle the connection — from ANY state in
   which no heartbeat is awaited or the last pong is recent, in particular right after a recovery *)
Fixpoint healthy (interval : N) (last_tick : N) (acts : list kact) : Prop :=
  match acts with
  | [] => True
  | KTick now ok :: KPong p :: rest => ok = true /\ last_tick <= now /\ now - last_tick <= interval /\ now <= p /\ healthy interval now rest
  | KTick now ok :: [] => ok = true /\ last_tick <= now /\ now - last_tick <= interval
  | KRecovered _ :: rest => healthy interval last_tick rest
  | KPeerPing _ _ :: rest => healthy interval last_tick rest
  | _ => False
  end.

Definition no_recycle (evs : list kevent) : Prop := ~ In KRecycle evs.

Theorem no_false_positive timeout interval : interval <= timeout ->
  forall acts s last_tick,
  healthy interval last_tick acts -> k_reconnecting s = false ->
  (k_last_ka s = 0 \/ last_tick <= k_last_pong s) ->
  N.of_nat (length acts) + k_counter s + 1 < 4294967296 ->
  no_recycle (snd (krun timeout s acts)).
Proof.
  intros IT. unfold no_recycle.
  assert (G : forall n acts, (length acts <= n)%nat -> forall s last_tick,
     healthy interval last_tick acts -> k_reconnecting s = false ->
     (k_last_ka s = 0 \/ last_tick <= k_last_pong s) ->
     N.of_nat (length acts) + k_counter s + 1 < 4294967296 -> ~ In KRecycle (snd (krun timeout s acts))).
  { induction n as [|n IH]; intros acts L s lt H R P B.
    - destruct acts; [cbn; auto|cbn in L; lia].
    - destruct acts as [|a rest]; [cbn; auto|]. destruct a as [now ok|p|rnow|b|id body]; cbn [healthy] in H; try contradiction.
      + (* tick *)
        destruct rest as [|a2 rest2].
        * cbn [healthy] in H. destruct H as (-> & H1 & H2). cbn [krun]. rewrite ping_schedule; [|exact R|destruct P; [left; assumption|right; lia]|cbn [length] in B; lia].
          cbn. intros [E|[]]. discriminate.
        * destruct a2 as [n2 o2|p|rnow|b|id body]; cbn [healthy] in H; try contradiction. destruct H as (-> & H1 & H2 & H3 & H4).
          cbn [krun]. rewrite ping_schedule; [|exact R|destruct P; [left; assumption|right; lia]|cbn [length] in B; lia].
          cbn [krun kstep k_last_ka k_last_pong k_counter k_reconnecting]. set (s2 := mkK (k_counter s + 1) p (k_counter s + 1) false).
          destruct (krun timeout s2 rest2) as [s3 e3] eqn:K. cbn [snd app]. intros [E|I]; [discriminate|].
          apply (IH rest2 ltac:(cbn [length] in L; lia) s2 now H4 eq_refl); [right; unfold s2; cbn [k_last_pong]; exact H3|unfold s2; cbn [k_counter]; cbn [length] in B; lia|].
          rewrite K. exact I.
      + (* recovered *)
        cbn [krun kstep]. destruct (krun timeout (mkK 0 rnow 0 false) rest) as [s3 e3] eqn:K. cbn [snd app]. intros I.
        apply (IH rest ltac:(cbn [length] in L; lia) (mkK 0 rnow 0 false) lt H eq_refl); [left; reflexivity|cbn [k_counter]; cbn [length] in B; lia|].
        rewrite K. exact I.
      + (* peer ping *)
        cbn [krun kstep]. destruct (krun timeout s rest) as [s3 e3] eqn:K. cbn [snd app]. intros [E|I]; [discriminate|].
        apply (IH rest ltac:(cbn [length] in L; lia) s lt H R P); [cbn [length] in B; lia|]. rewrite K. exact I. }
  intros acts s lt. apply (G (length acts) acts (le_n _)).
Qed.

(* a recovery leaves the keepalive exactly where Dial leaves it: no heartbeat awaited, the clock of the last answer
   started now.  Whatever a freshly dialled client does from time [now] on, a recovered one does. *)
Theorem recovered_is_fresh timeout s now : kstep timeout s (KRecovered now) = (k0 now, []).
Proof. reflexivity. Qed.
Corollary recovered_like_fresh timeout s now acts :
  snd (krun timeout s (KRecovered now :: acts)) = snd (krun timeout (k0 now) acts).
Proof. cbn [krun kstep]. fold (k0 now). destruct (krun timeout (k0 now) acts) as [s2 e2]. reflexivity. Qed.

(* the rule the client had before (repair 0c8c1ad): the time of the last answer survived the recovery.  A peer that
   answers every heartbeat after 150 ms (interval 100, timeout 250) is then recycled on the connection the recovery
   established, although the same schedule is fine after Dial - the witness that was replayed on the implementation *)
Definition old_recovered (s : kstate) : kstate := mkK 0 (k_last_pong s) 0 false.
Definition slow_peer_schedule (t0 : N) : list kact :=
  [KTick (t0 + 100) true; KTick (t0 + 200) true; KPong (t0 + 250); KTick (t0 + 300) true; KPong (t0 + 350);
   KTick (t0 + 400) true; KPong (t0 + 450); KTick (t0 + 500) true; KPong (t0 + 550)].
Example slow_peer_fine_after_dial : no_recycle (snd (krun 250 (k0 0) (slow_peer_schedule 0))).
Proof. unfold no_recycle. vm_compute. intuition discriminate. Qed.
Example slow_peer_fine_after_recovery :
  no_recycle (snd (krun 250 (mkK 3 0 3 false) (KRecovered 400 :: slow_peer_schedule 400))).
Proof. unfold no_recycle. vm_compute. intuition discriminate. Qed.
Example old_rule_refuted :
  In KRecycle (snd (krun 250 (old_recovered (mkK 3 0 3 false)) (slow_peer_schedule 400))).
Proof. vm_compute. intuition. Qed.

(* ---- the property at full strength: a peer that answers every heartbeat within [lat], heartbeats answered in order,
   ticks at most [interval] apart, lat + interval <= timeout: never declared dead - from Dial on and across any
   number of recoveries.  [pending] is the ghost queue of the send times of the heartbeats not answered yet. ---- *)
Fixpoint chain (interval lt : N) (pending : list N) : Prop :=
  match pending with
  | [] => True
  | [t] => t = lt
  | t :: ((t' :: _) as r) => t <= t' /\ t' <= t + interval /\ chain interval lt r
  end.

Fixpoint answering (interval lat lt : N) (pending : list N) (acts : list kact) : Prop :=
  match acts with
  | [] => True
  | KTick now ok :: rest =>
      ok = true /\ lt <= now /\ now <= lt + interval /\
      match pending with [] => True | t0 :: _ => now <= t0 + lat end /\      (* the oldest unanswered heartbeat is not overdue *)
      answering interval lat now (pending ++ [now]) rest
  | KPong p :: rest =>
      match pending with
      | [] => False                                                            (* only answers to heartbeats *)
      | t0 :: q => t0 <= p /\ answering interval lat lt q rest
      end
  | KRecovered r :: rest => lt <= r /\ answering interval lat r [] rest
  | KPeerPing _ _ :: rest => answering interval lat lt pending rest
  | KReconnecting _ :: _ => False
  end.

Definition kinv (interval lt : N) (pending : list N) (s : kstate) : Prop :=
  k_reconnecting s = false /\ chain interval lt pending /\
  match pending with [] => lt <= k_last_pong s | t0 :: _ => t0 <= k_last_pong s + interval end.

Lemma chain_app interval lt now pending : chain interval lt pending -> lt <= now -> now <= lt + interval ->
  chain interval now (pending ++ [now]).
Proof.
  revert lt. induction pending as [|t q IH]; intros lt C A B; [reflexivity|].
  destruct q as [|t' q'].
  - cbn in C. subst t. cbn. repeat split; lia.
  - cbn [chain] in C. destruct C as (C1 & C2 & C3). change ((t :: t' :: q') ++ [now]) with (t :: (t' :: q') ++ [now]).
    specialize (IH lt C3 A B). cbn [app] in IH |- *. cbn [chain]. repeat split; auto.
Qed.

Theorem answering_peer_never_declared_dead timeout interval lat : lat + interval <= timeout ->
  forall acts s lt pending,
  answering interval lat lt pending acts -> kinv interval lt pending s ->
  N.of_nat (length acts) + k_counter s + 1 < 4294967296 ->
  no_recycle (snd (krun timeout s acts)).
Proof.
  intros LT. unfold no_recycle. induction acts as [|a rest IH]; intros s lt pending H (R & C & P) B; [cbn; auto|].
  destruct a as [now ok|p|r|b|id body]; cbn [answering] in H.
  - (* tick *)
    destruct H as (-> & A1 & A2 & A3 & H).
    assert (OKT : k_last_ka s = 0 \/ now - k_last_pong s <= timeout).
    { right. destruct pending as [|t0 q]; lia. }
    cbn [krun]. rewrite ping_schedule; [|exact R|exact OKT|cbn [length] in B; lia].
    set (s2 := mkK (k_counter s + 1) (k_last_pong s) (k_counter s + 1) false).
    destruct (krun timeout s2 rest) as [s3 e3] eqn:K. cbn [snd app]. intros [E|I]; [discriminate|].
    apply (IH s2 now (pending ++ [now]) H); [|unfold s2; cbn [k_counter]; cbn [length] in B; lia|rewrite K; exact I].
    split; [reflexivity|]. split; [eapply chain_app; eauto|].
    unfold s2; cbn [k_last_pong]. destruct pending as [|t0 q]; cbn [app]; lia.
  - (* pong *)
    destruct pending as [|t0 q]; [contradiction|]. destruct H as (A & H).
    cbn [krun kstep]. set (s2 := mkK (k_last_ka s) p (k_counter s) (k_reconnecting s)).
    destruct (krun timeout s2 rest) as [s3 e3] eqn:K. cbn [snd app]. intros I.
    apply (IH s2 lt q H); [|unfold s2; cbn [k_counter]; cbn [length] in B; lia|rewrite K; exact I].
    split; [exact R|]. destruct q as [|t1 q'].
    + cbn in C. subst t0. split; [exact Logic.I|]. unfold s2; cbn [k_last_pong]. lia.
    + cbn [chain] in C. destruct C as (C1 & C2 & C3). split; [exact C3|]. unfold s2; cbn [k_last_pong]. lia.
  - (* recovered *)
    destruct H as (A & H). cbn [krun kstep]. destruct (krun timeout (mkK 0 r 0 false) rest) as [s3 e3] eqn:K. cbn [snd app]. intros I.
    apply (IH (mkK 0 r 0 false) r [] H); [|cbn [k_counter]; cbn [length] in B; lia|rewrite K; exact I].
    split; [reflexivity|]. split; [exact Logic.I|]. cbn [k_last_pong]. lia.
  - contradiction.
  - (* peer ping *)
    cbn [krun kstep]. destruct (krun timeout s rest) as [s3 e3] eqn:K. cbn [snd app]. intros [E|I]; [discriminate|].
    apply (IH s lt pending H); [repeat split; auto|cbn [length] in B; lia|rewrite K; exact I].
Qed.

(* from Dial: the keepalive loop starts with no heartbeat awaited and the clock at the start time *)
Corollary answering_peer_after_dial timeout interval lat start acts : lat + interval <= timeout ->
  answering interval lat start [] acts -> N.of_nat (length acts) + 1 < 4294967296 ->
  no_recycle (snd (krun timeout (k0 start) acts)).
Proof.
  intros LT H B. eapply answering_peer_never_declared_dead; eauto.
  - split; [reflexivity|]. split; [exact Logic.I|]. cbn. lia.
  - cbn [k0 k_counter]. lia.
Qed.

(* non-vacuity: the slow peer (150 ms) with interval 100, timeout 250, before and after a recovery *)
Example slow_peer_is_answering : answering 100 150 0 [] (slow_peer_schedule 0).
Proof. cbn. repeat split; lia. Qed.
Example slow_peer_is_answering_after_recovery : answering 100 150 400 [] (KRecovered 400 :: slow_peer_schedule 400).
Proof. cbn. repeat split; lia. Qed.
