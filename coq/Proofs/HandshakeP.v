(* Proofs/HandshakeP.v — C18: the handshake codec is a bijection between the
   2^16 field tuples (four 4-bit fields) and the 2^16 byte pairs. Both
   directions are complete sweeps of the finite domain through the model's own
   bit operations and the masks of Gen/Consts.v (so a changed mask re-runs them). *)
From Coq Require Import List NArith Lia Bool.
From Coq.Strings Require Import Byte.
From OAP Require Import Base.Bytes Base.Res Base.Sweep Gen.Consts Model.Handshake.
Import ListNotations.
Local Open Scope N_scope.

Definition hs_eqb (a b : hs) : bool :=
  (hs_version a =? hs_version b) && (hs_codec a =? hs_codec b) &&
  (hs_platform a =? hs_platform b) && (hs_reserve a =? hs_reserve b).

Lemma hs_eqb_eq a b : hs_eqb a b = true -> a = b.
Proof.
  destruct a, b; unfold hs_eqb; simpl. rewrite !andb_true_iff, !N.eqb_eq.
  intros [[[-> ->] ->] ->]. reflexivity.
Qed.

Definition res_hs_is (r : res hs) (h : hs) : bool :=
  match r with Ok h' => hs_eqb h' h | _ => false end.

Lemma res_hs_is_eq r h : res_hs_is r h = true -> r = Ok h.
Proof. destruct r; simpl; try discriminate. intros H. now rewrite (hs_eqb_eq _ _ H). Qed.

(* direction 1: all 2^16 tuples *)
Definition tuple_check (v c : N) : bool :=
  forallb (fun p => forallb (fun r =>
     let h := {| hs_version := v; hs_codec := c; hs_platform := p; hs_reserve := r |} in
     res_hs_is (hs_unpack (hs_pack h)) h) (nrange 16)) (nrange 16).

Lemma tuples_sweep :
  forallb (fun v => forallb (tuple_check v) (nrange 16)) (nrange 16) = true.
Proof. vm_compute. reflexivity. Qed.

Theorem hs_unpack_pack : forall h, hs_dom h = true -> hs_unpack (hs_pack h) = Ok h.
Proof.
  intros [v c p r]. unfold hs_dom; simpl. rewrite !andb_true_iff, !N.ltb_lt.
  intros [[[Hv Hc] Hp] Hr].
  pose proof (sweep_N2 16 16 _ tuples_sweep v c Hv Hc) as H1. unfold tuple_check in H1.
  pose proof (sweep_N2 16 16 _ H1 p r Hp Hr) as H2. cbv beta zeta in H2.
  now apply res_hs_is_eq.
Qed.

(* direction 2: all 2^16 byte pairs *)
Definition pair_check (a b : byte) : bool :=
  match hs_unpack [a; b] with
  | Ok h => hs_dom h && bytes_eqb (hs_pack h) [a; b]
  | _ => false
  end.

Lemma pairs_sweep : forallb (fun a => forallb (pair_check a) all_bytes) all_bytes = true.
Proof. vm_compute. reflexivity. Qed.

Theorem hs_pack_unpack : forall a b,
  exists h, hs_unpack [a; b] = Ok h /\ hs_dom h = true /\ hs_pack h = [a; b].
Proof.
  intros a b. pose proof (sweep_byte2 _ pairs_sweep a b) as H. unfold pair_check in H.
  destruct (hs_unpack [a; b]) as [h| | |]; try discriminate.
  apply andb_true_iff in H. destruct H as [Hd He]. apply bytes_eqb_eq in He.
  exists h. auto.
Qed.

(* only inputs of exactly HandshakeLength bytes are accepted — every length *)
Theorem hs_len_gate : forall bs, N.of_nat (length bs) <> c_HandshakeLength -> hs_unpack bs = Err EHandshakeLen.
Proof.
  intros bs H. unfold hs_unpack. destruct (N.of_nat (length bs) =? c_HandshakeLength) eqn:E.
  - apply N.eqb_eq in E. contradiction.
  - reflexivity.
Qed.

Theorem hs_len_accept : forall bs, N.of_nat (length bs) = c_HandshakeLength ->
  exists h, hs_unpack bs = Ok h.
Proof.
  intros bs H. unfold c_HandshakeLength in H.
  destruct bs as [|a [|b [|c t]]]; cbn [length] in H; try lia.
  destruct (hs_pack_unpack a b) as (h & Hh & _). eauto.
Qed.

Theorem hs_never_panics : forall bs, hs_unpack bs <> Panic /\ hs_unpack bs <> OutOfFuel.
Proof.
  intros bs. destruct (N.eq_dec (N.of_nat (length bs)) c_HandshakeLength) as [E|E].
  - destruct (hs_len_accept bs E) as (h & ->). split; discriminate.
  - rewrite (hs_len_gate bs E). split; discriminate.
Qed.

(* version gate *)
Theorem get_protocol_iff : forall v, (exists p, get_protocol v = Ok p) <-> In v c_registered_versions.
Proof.
  intros v. unfold get_protocol, registered. split.
  - intros [p H]. destruct (existsb (N.eqb v) c_registered_versions) eqn:E; [|discriminate].
    apply existsb_exists in E. destruct E as (x & Hin & Hx). apply N.eqb_eq in Hx. now subst.
  - intros Hin. assert (E : existsb (N.eqb v) c_registered_versions = true).
    { apply existsb_exists. exists v. split; [assumption | apply N.eqb_refl]. }
    rewrite E. eauto.
Qed.

Theorem get_protocol_unregistered : forall v, ~ In v c_registered_versions -> get_protocol v = Err EInvalidVersion.
Proof.
  intros v H. unfold get_protocol. destruct (registered v) eqn:E; [|reflexivity].
  exfalso. apply H. unfold registered in E. apply existsb_exists in E.
  destruct E as (x & Hin & Hx). apply N.eqb_eq in Hx. now subst.
Qed.

(* the registry is exactly {1,2} and each entry reports its own version *)
Theorem registry_is_v1_v2 : c_registered_versions = [1; 2] /\ c_protocol_versions = [(1, 1); (2, 2)].
Proof. split; reflexivity. Qed.

Theorem ctx_handshake_adopts : forall c h,
  In (hs_version h) c_registered_versions ->
  ctx_handshake c h = Ok {| cx_version := hs_version h; cx_codec := hs_codec h;
                            cx_platform := hs_platform h; cx_handshaked := true |}.
Proof.
  intros c h Hin. unfold ctx_handshake. apply get_protocol_iff in Hin. destruct Hin as [p ->].
  reflexivity.
Qed.

Theorem ctx_handshake_rejects : forall c h,
  ~ In (hs_version h) c_registered_versions -> ctx_handshake c h = Err EInvalidVersion.
Proof. intros c h H. unfold ctx_handshake. now rewrite (get_protocol_unregistered _ H). Qed.

(* outside the 4-bit domain Pack does not mask: stated, not hidden *)
Example hs_pack_out_of_domain :
  hs_pack {| hs_version := 17; hs_codec := 0; hs_platform := 0; hs_reserve := 0 |}
  = hs_pack {| hs_version := 1; hs_codec := 1; hs_platform := 0; hs_reserve := 0 |}.
Proof. reflexivity. Qed.

Example hs_nonvacuous : hs_dom {| hs_version := 2; hs_codec := 1; hs_platform := 9; hs_reserve := 5 |} = true.
Proof. reflexivity. Qed.

(* ---- any registry (aliases registered by the application) ---- *)
Lemma reg_lookup_register_same r k impl : reg_lookup (reg_register r k impl) k = Some impl.
Proof. unfold reg_lookup, reg_register. cbn. now rewrite N.eqb_refl. Qed.
Lemma reg_lookup_register_other r k impl k' : k' <> k -> reg_lookup (reg_register r k impl) k' = reg_lookup r k'.
Proof. intros H. unfold reg_lookup, reg_register. cbn. destruct (k =? k') eqn:E; [apply N.eqb_eq in E; congruence|reflexivity]. Qed.

Theorem ctx_handshake_in_adopts r c h impl : reg_lookup r (hs_version h) = Some impl ->
  ctx_handshake_in r c h = Ok {| cx_version := hs_version h; cx_codec := hs_codec h; cx_platform := hs_platform h; cx_handshaked := true |}.
Proof. intros L. unfold ctx_handshake_in, get_protocol_in. rewrite L. reflexivity. Qed.
Theorem ctx_handshake_in_rejects r c h : reg_lookup r (hs_version h) = None -> ctx_handshake_in r c h = Err EInvalidVersion.
Proof. intros L. unfold ctx_handshake_in, get_protocol_in. rewrite L. reflexivity. Qed.
(* on the registry the init functions leave behind this is the model the exhaustive sweep is compared with *)
Theorem ctx_handshake_in_builtin c h : ctx_handshake_in c_protocol_versions c h = ctx_handshake c h.
Proof.
  unfold ctx_handshake_in, ctx_handshake, get_protocol_in, get_protocol, registered, reg_lookup.
  destruct registry_is_v1_v2 as [-> ->]. cbn [find existsb fst snd option_map].
  destruct (1 =? hs_version h) eqn:E1.
  - apply N.eqb_eq in E1. rewrite <- E1. reflexivity.
  - destruct (2 =? hs_version h) eqn:E2.
    + apply N.eqb_eq in E2. rewrite <- E2. reflexivity.
    + rewrite N.eqb_sym in E1. rewrite N.eqb_sym in E2. rewrite E1, E2. reflexivity.
Qed.
(* an alias: registering an implementation under a further number makes exactly that number acceptable, and the
   context adopts the number, not the implementation's own version *)
Theorem alias_adopts_its_number r k impl c h : hs_version h = k ->
  ctx_handshake_in (reg_register r k impl) c h =
  Ok {| cx_version := k; cx_codec := hs_codec h; cx_platform := hs_platform h; cx_handshaked := true |}.
Proof. intros <-. eapply ctx_handshake_in_adopts. apply reg_lookup_register_same. Qed.

