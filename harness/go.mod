module verif/harness

go 1.17

require (
	github.com/Allenxuxu/ringbuffer v0.0.11
	github.com/gorilla/websocket v1.5.0
	github.com/longportapp/openapi-protobufs/gen/go v0.4.0
	github.com/longportapp/openapi-protocol/go v0.0.0
	github.com/pkg/errors v0.9.1
	google.golang.org/protobuf v1.28.1
)

replace github.com/longportapp/openapi-protocol/go => /repo/go
