package main

// C06 (calls terminate, never crash), C14 (Close is final and safe), C16 (resources released):
// fault scenarios against the real client; the lifecycle actions each scenario forces are replayed by Model/Life.v.

import (
	"context"
	"fmt"
	"io"
	"net"
	"os"
	"strings"
	"sync/atomic"
	"syscall"
	"time"

	"github.com/gorilla/websocket"
	control "github.com/longportapp/openapi-protobufs/gen/go/control"
	protocol "github.com/longportapp/openapi-protocol/go"
	"github.com/longportapp/openapi-protocol/go/client"
)

func init() {
	props["C06"] = runC06
	props["C14"] = runC14
	props["C16"] = runC16
}

func connGoroutines() int {
	_, by := libGoroutines()
	n := 0
	for k, v := range by {
		if strings.Contains(k, "Conn).") {
			n += v
		}
	}
	return n
}

// settle waits until the number of connection goroutines is stable.
func settle() int {
	last := -1
	for i := 0; i < 40; i++ {
		n := connGoroutines()
		if n == last {
			return n
		}
		last = n
		time.Sleep(25 * time.Millisecond)
	}
	return last
}

type lifeObs struct {
	closed bool
	cb     int
	recon  int
	conns  int
	open   int
	live   int
}

func (o lifeObs) String() string {
	return fmt.Sprintf("closed=%s cb=%d recon=%d conns=%d open=%d live=%d", b01(o.closed), o.cb, o.recon, o.conns, o.open, o.live)
}

// fsession: TCP or WS peer + client with short timeouts, for fault scenarios.
type fsession struct {
	*session
	base    int // connection goroutines before the scenario
	baseAll int // all library goroutines before the scenario (-1: not measured)
}

// settleAll waits until the number of goroutines inside the library is stable.
func settleAll() int {
	last := -1
	for i := 0; i < 40; i++ {
		n, _ := libGoroutines()
		if n == last {
			return n
		}
		last = n
		time.Sleep(25 * time.Millisecond)
	}
	return last
}

// nothingLeft: after Close every goroutine of the library that belongs to this client must end (connection
// goroutines, keepalive, the recovery loop and whoever waits for it).
func (r *Run) nothingLeft(f *fsession, cs string) {
	if f.baseAll < 0 {
		return
	}
	if !waitUntil(2500*time.Millisecond, func() bool { n, _ := libGoroutines(); return n <= f.baseAll }) {
		n, _ := libGoroutines()
		r.violate(Violation{What: fmt.Sprintf("%d goroutine(s) of the library still running after Close", n-f.baseAll), Case: cs, Extra: libStacks(6000)})
	}
}

const fReq, fDial, fAuth = 300 * time.Millisecond, 400 * time.Millisecond, 300 * time.Millisecond

func openF(trans string, opts ...client.DialOption) (*fsession, error) {
	base, baseAll := settle(), settleAll()
	o := append([]client.DialOption{client.DialTimeout(fDial), client.AuthTimeout(fAuth)}, opts...)
	s, err := openSession(trans, 1, o...)
	if err != nil {
		return nil, err
	}
	return &fsession{s, base, baseAll}, nil
}

// observe: final observables; peers' connections are probed for closure by the client.
func (f *fsession) observe(closed bool) lifeObs {
	o := lifeObs{closed: closed, cb: len(f.tc.closeCallbacks()), recon: f.tc.reconCount()}
	if f.tcp != nil {
		f.tcp.mu.Lock()
		all := append([]*peerConn(nil), f.tcp.all...)
		f.tcp.mu.Unlock()
		o.conns = len(all)
		for _, pc := range all {
			if !pc.closed && !pc.peerClosed(300*time.Millisecond) {
				o.open++
			}
		}
	} else {
		f.ws.mu.Lock()
		o.conns = len(f.ws.all)
		f.ws.mu.Unlock()
		o.open = -1
	}
	o.live = settle() - f.base
	return o
}

func (f *fsession) acceptNext(d time.Duration) link {
	if f.tcp != nil {
		pc := f.tcp.accept(d)
		if pc == nil || !pc.readHandshake(time.Second) {
			return nil
		}
		return tcpLink{pc}
	}
	pc := f.ws.accept(d)
	if pc == nil {
		return nil
	}
	return wsLink{pc, 1}
}

// followNewest accepts connections until none arrives for d and returns the newest one that completed its
// handshake (a recovery may recycle the connection more than once; recycled ones never send theirs).
func (f *fsession) followNewest(d time.Duration) link {
	var nl link
	for {
		if f.tcp != nil {
			pc := f.tcp.accept(d)
			if pc == nil {
				return nl
			}
			if pc.readHandshake(500 * time.Millisecond) {
				nl = tcpLink{pc}
			}
		} else {
			pc := f.ws.accept(d)
			if pc == nil {
				return nl
			}
			nl = wsLink{pc, 1}
		}
	}
}

func (r *Run) lifeCase(name string, max int, acts string, obs lifeObs, wsNoOpen bool) {
	out := obs.String()
	req := fmt.Sprintf("lf.run %d %s", max, acts)
	if wsNoOpen { // the WebSocket peer does not probe half-open sockets: open is not compared
		req = fmt.Sprintf("lf.rnw %d %s", max, acts)
		out = fmt.Sprintf("closed=%s cb=%d recon=%d conns=%d live=%d", b01(obs.closed), obs.cb, obs.recon, obs.conns, obs.live)
	}
	r.emit(req, out, true)
	r.count("life." + name)
}

// closeTimed calls Close and reports how long it took (and whether it panicked).
func closeTimed(tc *testClient) (time.Duration, string) {
	t0 := time.Now()
	p := ""
	done := make(chan struct{})
	go func() {
		defer close(done)
		defer func() {
			if e := recover(); e != nil {
				p = fmt.Sprint(e)
			}
		}()
		tc.cli.Close(nil)
	}()
	select {
	case <-done:
	case <-time.After(3 * time.Second):
		return 3 * time.Second, "HANG"
	}
	return time.Since(t0), p
}

func (r *Run) checkClose(tc *testClient, cs string) {
	d, p := closeTimed(tc)
	if p == "HANG" || d > time.Second {
		r.violate(Violation{What: fmt.Sprintf("Close did not return promptly (%v)", d), Case: cs})
	} else if p != "" {
		r.violate(Violation{What: "Close panicked: " + p, Case: cs})
	}
}

// afterCloseQuiet: after Close returned nothing more may happen at the peer.
func (r *Run) afterCloseQuiet(f *fsession, cs string, wait time.Duration) {
	conns0 := 0
	if f.tcp != nil {
		conns0 = f.tcp.nconns()
	}
	recon0 := f.tc.reconCount()
	time.Sleep(wait)
	if f.tcp != nil && f.tcp.nconns() != conns0 {
		r.violate(Violation{What: "the client made a connection attempt after Close had returned", Case: cs})
	}
	if f.tc.reconCount() != recon0 {
		r.violate(Violation{What: "the after-reconnect callback ran after Close had returned", Case: cs})
	}
	if n := len(f.tc.closeCallbacks()); n != 1 {
		r.violate(Violation{What: fmt.Sprintf("the close callback ran %d times (must be exactly once)", n), Case: cs})
	}
	r.nothingLeft(f, cs)
}

// ---------------- C14 ----------------
func runC14(r *Run) {
	installHooks()
	hub.reset()
	r.st.Rule = "Close injected at the states the property names — idle, k requests in flight, dispatcher busy in a handler with frames queued, reader holding an undelivered frame (tcp.before-add gate), a caller about to enqueue (conn.write.before-enqueue gate), two closers of one connection (reader inside Close when the user closes), writer blocked in the socket write (stalled peer), recovery between its closed test and the dial (logger held), right after a loss with a 3 s call in flight, recovery backing off between failed attempts, recovery authenticating (peer silent; answer already queued behind a blocked handler), give-up about to fire / already fired — on TCP and WebSocket; oracles: Close returns within 1 s, exactly one close callback, no connection, frame or after-reconnect callback afterwards, no goroutine of the library left, no panic; the forced lifecycle actions are replayed by Model/Life.v and the final observables (callbacks, connections, open sockets, goroutines) compared. distinct = distinct request lines"
	for _, trans := range []string{"tcp", "ws"} {
		ws := trans == "ws"
		// idle
		if f, err := openF(trans); err == nil {
			r.checkClose(f.tc, trans+" idle")
			r.afterCloseQuiet(f, trans+" idle", 300*time.Millisecond)
			r.lifeCase(trans+".idle", 0, "UC X.0.r X.0.w X.0.d", f.observe(true), ws)
			f.close()
		}
		// k requests in flight
		if f, err := openF(trans); err == nil {
			var chans []chan doResult
			for i := 0; i < 3; i++ {
				chans = append(chans, f.tc.doAsync(uint32(30+i), nil, fReq))
				f.lk.nextRequest(time.Second)
			}
			r.checkClose(f.tc, trans+" requests in flight")
			for i, ch := range chans {
				res, ok := awaitDo(ch, fReq+2*time.Second)
				if !ok || res.panic != "" {
					r.violate(Violation{What: fmt.Sprintf("request %d in flight at Close did not return cleanly: %s", i, resultStr(res)), Case: trans})
				}
			}
			r.afterCloseQuiet(f, trans+" requests in flight", 300*time.Millisecond)
			r.lifeCase(trans+".inflight", 0, "DO DO DO UC X.0.r X.0.w X.0.d", f.observe(true), ws)
			f.close()
		}
	}
	// dispatcher busy in a handler, frames queued, then Close
	{
		busyBaseAll := settleAll()
		entered := make(chan struct{}, 1)
		release := make(chan struct{})
		s, err := openSessionPrep("tcp", 1, func(tc *testClient) {
			first := true
			tc.cli.Subscribe(50, func(p *protocol.Packet) {
				if first {
					first = false
					entered <- struct{}{}
					<-release
				}
			})
		}, client.DialTimeout(fDial))
		if err == nil {
			f := &fsession{s, settle() - 3, busyBaseAll}
			for i := 0; i < 4; i++ {
				s.lk.sendFrame(pushFrame(1, 50, []byte{byte(i)}))
			}
			<-entered
			r.checkClose(s.tc, "dispatcher busy in handler")
			close(release)
			r.afterCloseQuiet(f, "dispatcher busy in handler", 300*time.Millisecond)
			s.close()
		}
	}
	// a server CLOSE frame is still queued behind a push whose handler is busy when the user closes; the handler then
	// returns and the closed connection's dispatcher drains its queue: no new connection may follow
	for _, trans := range []string{"tcp"} {
		entered := make(chan struct{}, 1)
		release := make(chan struct{})
		base, baseAll := settle(), settleAll()
		s, err := openSessionPrep(trans, 1, func(tc *testClient) {
			first := true
			tc.cli.Subscribe(50, func(p *protocol.Packet) {
				if first {
					first = false
					entered <- struct{}{}
					<-release
				}
			})
		}, client.DialTimeout(fDial))
		if err == nil {
			f := &fsession{s, base, baseAll}
			s.lk.sendFrame(pushFrame(1, 50, []byte("busy")))
			select {
			case <-entered:
				s.lk.sendFrame(pushFrame(1, 0, pbCloseBody(1, "bye")))
				s.tc.log.waitCount("got data", 1, 200*time.Millisecond)
				time.Sleep(100 * time.Millisecond) // read and queued
				r.checkClose(s.tc, "server close frame queued behind a busy handler")
				close(release)
				r.afterCloseQuiet(f, "server close frame queued behind a busy handler, handler returns after Close", 1500*time.Millisecond)
			case <-time.After(2 * time.Second):
				close(release)
			}
			r.st.Evaluations++
			s.close()
		}
	}
	// Close while the WebSocket writer is blocked in the socket write (peer stopped reading)
	if f, err := openF("ws", client.WriteQueueSize(2), client.MinGzipSize(0)); err == nil {
		atomic.StoreInt32(&f.lk.(wsLink).pc.stopRead, 1)
		body := bigBody()
		for i := 0; i < 24; i++ {
			f.tc.doAsync(uint32(60+i%8), body, fReq)
			time.Sleep(5 * time.Millisecond)
		}
		r.checkClose(f.tc, "ws writer blocked in the socket write (stalled peer)")
		r.afterCloseQuiet(f, "ws writer blocked in the socket write", 400*time.Millisecond)
		f.close()
	}
	// reader holding an undelivered frame
	if f, err := openF("tcp"); err == nil {
		g := hub.arm("tcp.before-add", nil)
		f.lk.sendFrame(pushFrame(1, 50, []byte("held")))
		if g.waitParked(2 * time.Second) {
			r.checkClose(f.tc, "reader holding an undelivered frame")
			g.open()
			time.Sleep(100 * time.Millisecond)
			r.afterCloseQuiet(f, "reader holding an undelivered frame", 200*time.Millisecond)
			r.lifeCase("tcp.reader-holding", 0, "UC X.0.r X.0.w X.0.d", f.observe(true), false)
		}
		hub.reset()
		f.close()
	}
	// a caller about to enqueue
	for _, trans := range []string{"tcp", "ws"} {
		if f, err := openF(trans); err == nil {
			g := hub.arm("conn.write.before-enqueue", nil)
			ch := f.tc.doAsync(31, nil, fReq)
			if g.waitParked(2 * time.Second) {
				r.checkClose(f.tc, trans+" writer about to enqueue")
				g.open()
				res, ok := awaitDo(ch, fReq+2*time.Second)
				if !ok || res.panic != "" {
					r.violate(Violation{What: "a Write racing with Close panicked or hung: " + resultStr(res), Case: trans + " writer about to enqueue (conn.write.before-enqueue gate)"})
				}
				r.afterCloseQuiet(f, trans+" writer about to enqueue", 200*time.Millisecond)
			}
			hub.reset()
			f.close()
		}
	}
	// two closers of one connection: the reader (peer dropped) is inside Close - held at its log line - when the
	// user's Close closes the same connection
	for _, trans := range []string{"tcp", "ws"} {
		if f, err := openF(trans); err == nil {
			held := make(chan struct{})
			f.tc.log.setHold("close conn, err", held)
			f.lk.drop()
			if f.tc.log.waitCount("close conn, err", 1, 2*time.Second) {
				done := make(chan string, 1)
				go func() { _, p := closeTimed(f.tc); done <- p }()
				time.Sleep(100 * time.Millisecond)
				f.tc.log.clearHold("close conn, err")
				close(held)
				select {
				case p := <-done:
					if p != "" {
						r.violate(Violation{What: "Close concurrent with the reader closing the connection: " + p, Case: trans + " two closers"})
					}
				case <-time.After(4 * time.Second):
					r.violate(Violation{What: "Close concurrent with the reader closing the connection hung", Case: trans + " two closers"})
				}
				time.Sleep(100 * time.Millisecond)
				r.afterCloseQuiet(f, trans+" two closers", 200*time.Millisecond)
				// the schedule forced here, as a run of Model/CloseLock.v: the reader enters the once (R), the user closes
				// until it waits for the once (U x5), the reader finishes (R x3), the user finishes (U x3)
				left := settle() - f.base
				r.emit("cl.run 0 R U U U U U R R R U U U", fmt.Sprintf("final=%s blockedU=0 blockedR=%s", b01(left == 0), b01(left != 0)), true)
			} else {
				f.tc.log.clearHold("close conn, err")
				close(held)
			}
			r.st.Evaluations++
			f.close()
		}
	}
	// Close completes while the recovery stands between its "client closed?" test and the dial (held at the
	// "start reconnecting." log line, which lies in that window): no connection attempt may follow
	for _, trans := range []string{"tcp", "ws"} {
		if f, err := openF(trans); err == nil {
			held := make(chan struct{})
			f.tc.log.setHold("start reconnecting", held)
			peerConns := func() int {
				if f.tcp != nil {
					return f.tcp.nconns()
				}
				f.ws.mu.Lock()
				defer f.ws.mu.Unlock()
				return len(f.ws.all)
			}
			f.lk.drop()
			if f.tc.log.waitCount("start reconnecting", 1, 2*time.Second) {
				n0 := peerConns()
				r.checkClose(f.tc, trans+" recovery between its closed test and the dial")
				f.tc.log.clearHold("start reconnecting")
				close(held)
				time.Sleep(400 * time.Millisecond)
				if n := peerConns(); n != n0 {
					r.violate(Violation{What: "the client made a connection attempt after Close had returned", Case: trans + ": drop; Close while the recovery stands between its closed test and the dial (logger held at 'start reconnecting.')",
						Extra: strings.Join(f.tc.log.snapshot(), "\n")})
				}
				r.afterCloseQuiet(f, trans+" recovery between its closed test and the dial", 200*time.Millisecond)
			} else {
				f.tc.log.clearHold("start reconnecting")
				close(held)
			}
			r.st.Evaluations++
			r.count("c14.close-before-dial-window." + trans)
			f.close()
		}
	}
	// Close right after a loss while a call with a long request timeout is in flight
	for _, trans := range []string{"tcp", "ws"} {
		if f, err := openF(trans); err == nil {
			ch := f.tc.doAsync(35, nil, 3*time.Second)
			f.lk.nextRequest(time.Second)
			f.lk.drop()
			time.Sleep(100 * time.Millisecond)
			d, p := closeTimed(f.tc)
			if p == "HANG" || d > time.Second {
				r.violate(Violation{What: fmt.Sprintf("Close did not return promptly (%v): it waited for the call in flight", d.Round(100*time.Millisecond)),
					Case: trans + ": a call with RequestTimeout 3 s in flight, the peer drops the connection, Close 100 ms later", Sig: "c14-close-waits-for-call-in-flight"})
			} else if p != "" {
				r.violate(Violation{What: "Close panicked: " + p, Case: trans + " call in flight, drop, Close"})
			}
			awaitDo(ch, 4*time.Second)
			r.st.Evaluations++
			r.count("c14.close-after-loss-with-call-in-flight." + trans)
			f.close()
		}
	}
	// Close while the writer is blocked in the socket write (stalled peer)
	if f, err := openF("tcp", client.WriteQueueSize(2)); err == nil {
		body := bigBody()
		for i := 0; i < 16; i++ {
			f.tc.doAsync(uint32(60+i%8), body, fReq)
			time.Sleep(5 * time.Millisecond)
		}
		r.checkClose(f.tc, "tcp writer blocked in the socket write (stalled peer)")
		r.afterCloseQuiet(f, "tcp writer blocked in the socket write", 300*time.Millisecond)
		r.lifeCase("tcp.close-stalled-writer", 0, "DO DO UC X.0.r X.0.w X.0.d", f.observe(true), false)
		f.close()
	}
	// recovery backing off between failed attempts
	if f, err := openF("tcp"); err == nil {
		f.tcp.stopListening()
		f.lk.drop()
		if f.tc.log.waitCount("reconnect failed", 1, 3*time.Second) {
			r.checkClose(f.tc, "recovery sleeping between failed attempts")
			f.tcp.relisten()
			r.afterCloseQuiet(f, "recovery sleeping between failed attempts", 1500*time.Millisecond)
			r.lifeCase("tcp.close-during-backoff", 0, "CL RB DD.0 UC RB X.0.r X.0.w X.0.d", f.observe(true), false)
		}
		f.close()
	}
	// recovery authenticating (token getter, peer silent on the RECONNECT request)
	if f, err := openFAuth(); err == nil {
		f.lk.drop()
		l2 := f.acceptNext(3 * time.Second)
		if l2 != nil && l2.nextRequest(2*time.Second) != nil { // the RECONNECT request arrived; stay silent
			r.checkClose(f.tc, "recovery authenticating")
			r.afterCloseQuiet(f, "recovery authenticating", 1500*time.Millisecond)
			r.lifeCase("tcp.close-during-auth", 0, "CL RB DD.1 UC AD.0 RB X.0.r X.0.w X.0.d X.1.r X.1.w X.1.d", f.observe(true), false)
		}
		f.close()
	}
	// recovery authenticating, its answer already received but queued behind a push whose handler is blocked; Close;
	// the handler returns: the answer reaches the attempt after Close - no reconnect may be reported
	{
		base, baseAll := settle(), settleAll()
		armed := int32(0)
		release := make(chan struct{})
		entered := make(chan struct{}, 1)
		s := &session{tc: newTestClient(), v: 1, trans: "tcp"}
		s.tc.cli.Subscribe(50, func(p *protocol.Packet) {
			if atomic.CompareAndSwapInt32(&armed, 1, 2) {
				entered <- struct{}{}
				<-release
			}
		})
		s.tcp = newTCPPeer()
		errc := make(chan error, 1)
		go func() {
			errc <- s.tc.dial(s.tcp.url(), 1, client.DialTimeout(fDial), client.AuthTimeout(2*time.Second), client.Keepalive(time.Hour), client.KeepaliveTimeout(2*time.Hour),
				client.WithAuthTokenGetter(func() (string, error) { return "tok", nil }))
		}()
		pc := s.tcp.accept(3 * time.Second)
		if pc != nil && pc.readHandshake(time.Second) {
			if q := pc.readFrame(2 * time.Second); q != nil {
				pc.send(respFrame(1, 2, q.Rid, 0, authRespBody("s1", 60000)))
			}
			if err := <-errc; err == nil {
				s.lk = tcpLink{pc}
				f := &fsession{s, base, baseAll}
				pc.close()
				l2 := f.acceptNext(3 * time.Second)
				if l2 != nil {
					if q := l2.nextRequest(2 * time.Second); q != nil {
						atomic.StoreInt32(&armed, 1)
						one := append(pushFrame(1, 50, []byte("block")), respFrame(1, q.Cmd, q.Rid, 0, authRespBody("s2", 60000))...)
						l2.(tcpLink).pc.send(one)
						select {
						case <-entered:
							r.checkClose(f.tc, "recovery authenticating, answer queued behind a blocked handler")
							close(release)
							r.afterCloseQuiet(f, "recovery authenticating, answer queued behind a blocked handler", 600*time.Millisecond)
						case <-time.After(2 * time.Second):
							close(release)
						}
					}
				}
				r.st.Evaluations++
			}
		}
		s.close()
	}
	r.closeDuringSlowUpgrade()
	// give-up fires, then the user closes as well; and the other order
	if f, err := openF("tcp", client.MaxReconnect(1)); err == nil {
		f.tcp.stopListening()
		f.lk.drop()
		if waitUntil(4*time.Second, func() bool { return len(f.tc.closeCallbacks()) == 1 }) {
			r.checkClose(f.tc, "user Close after the client gave up")
			r.afterCloseQuiet(f, "user Close after the client gave up", 300*time.Millisecond)
			r.lifeCase("tcp.giveup-then-close", 1, "CL RB DD.0 RB UC X.0.r X.0.w X.0.d", f.observe(true), false)
		} else {
			r.violate(Violation{What: "hit-max-reconnect was not reported through the close callback", Case: "MaxReconnect(1), dial refused"})
		}
		f.close()
	}
	if f, err := openF("tcp", client.MaxReconnect(2)); err == nil {
		f.tcp.stopListening()
		f.lk.drop()
		if f.tc.log.waitCount("reconnect failed", 1, 3*time.Second) {
			r.checkClose(f.tc, "user Close just before the give-up")
			r.afterCloseQuiet(f, "user Close just before the give-up", 2200*time.Millisecond)
			r.lifeCase("tcp.close-before-giveup", 2, "CL RB DD.0 UC RB X.0.r X.0.w X.0.d", f.observe(true), false)
		}
		f.close()
	}
}

// openFAuth: session with token getter, authenticated (unexpired session).
func openFAuth() (*fsession, error) {
	base, baseAll := settle(), settleAll()
	s := &session{tc: newTestClient(), v: 1, trans: "tcp"}
	s.tcp = newTCPPeer()
	errc := make(chan error, 1)
	go func() {
		errc <- s.tc.dial(s.tcp.url(), 1, client.DialTimeout(fDial), client.AuthTimeout(fAuth), client.Keepalive(time.Hour), client.KeepaliveTimeout(2*time.Hour),
			client.WithAuthTokenGetter(func() (string, error) { return "tok", nil }))
	}()
	pc := s.tcp.accept(3 * time.Second)
	if pc == nil || !pc.readHandshake(time.Second) {
		return nil, fmt.Errorf("no connection")
	}
	f := pc.readFrame(2 * time.Second)
	if f == nil {
		return nil, fmt.Errorf("no AUTH request")
	}
	pc.send(respFrame(1, 2, f.Rid, 0, authRespBody("s1", 60000)))
	if err := <-errc; err != nil {
		return nil, err
	}
	s.lk = tcpLink{pc}
	return &fsession{s, base, baseAll}, nil
}

// ---------------- C16 ----------------
func runC16(r *Run) {
	installHooks()
	hub.reset()
	r.st.Rule = "N cycles (N = 5 and 20) of each kind — dial+close, dial+peer drop+recover, dial+server close packet, failed dial, stalled peer+close, Close during a running recovery, Close from inside the after-reconnect callback, recovery whose first attempt is refused at the session step — on TCP and WebSocket; after quiescence the number of library goroutines serving connections and the sockets still open at the peer must not grow with N (3 per open connection, none after Close); the lifecycle actions are replayed by Model/Life.v. Also cycles of a drop while the dispatcher is busy in a handler with frames queued, and Close while a recovery dial waits for a late WebSocket upgrade answer; after Close no goroutine of the library at all may be left. distinct = distinct request lines"
	ns := []int{5}
	if r.thorough() {
		ns = []int{5, 20}
	}
	for _, trans := range []string{"tcp", "ws"} {
		ws := trans == "ws"
		for _, N := range ns {
			// dial + close, N times
			base, baseAll := settle(), settleAll()
			for i := 0; i < N; i++ {
				if f, err := openF(trans); err == nil {
					f.tc.cli.Close(nil)
					f.close()
				}
			}
			if d := settle() - base; d != 0 {
				r.violate(Violation{What: fmt.Sprintf("%d connection goroutines left after %d dial+close cycles", d, N), Case: trans})
			}
			if d := settleAll() - baseAll; d != 0 {
				r.violate(Violation{What: fmt.Sprintf("%d library goroutines left after %d dial+close cycles", d, N), Case: trans, Extra: libStacks(4000)})
			}
			r.st.Evaluations++
			// N x (dial, peer drop, re-dials refused, Close while the recovery loop is running)
			if N <= 5 {
				baseAll = settleAll()
				for i := 0; i < N; i++ {
					f, err := openF(trans)
					if err != nil {
						continue
					}
					if f.tcp != nil {
						f.tcp.stopListening()
					} else {
						f.ws.srv.Listener.Close()
					}
					f.lk.drop()
					f.tc.log.waitCount("reconnect failed", 1, 3*time.Second)
					f.tc.cli.Close(nil)
					f.close()
				}
				if !waitUntil(3*time.Second, func() bool { return settleAll() <= baseAll }) {
					r.violate(Violation{What: fmt.Sprintf("%d library goroutines left after %d cycles of Close during a running recovery", settleAll()-baseAll, N),
						Case: trans + ": dial, drop, refused re-dials, Close in the back-off", Extra: libStacks(4000)})
				}
				r.st.Evaluations++
			}
			// N x (dial, peer drop, recovery, Close called from inside the after-reconnect callback): the connection the
			// recovery has just established is closed by that Close like any other
			if N <= 5 {
				baseAll = settleAll()
				leftOpen := 0
				for i := 0; i < N; i++ {
					closed := make(chan struct{})
					s0, err := openSessionPrep(trans, 1, func(tc *testClient) { // the callback is registered before dialing, as documented
						tc.cli.AfterReconnected(func() {
							func() { defer func() { recover() }(); tc.cli.Close(nil) }()
							close(closed)
						})
					}, client.DialTimeout(fDial))
					if err != nil {
						continue
					}
					f := &fsession{s0, settle(), -1}
					f.lk.drop()
					nl := f.acceptNext(3 * time.Second)
					select {
					case <-closed:
					case <-time.After(3 * time.Second):
					}
					time.Sleep(50 * time.Millisecond)
					if tl, ok := nl.(tcpLink); ok && !tl.pc.closed && !tl.pc.peerClosed(300*time.Millisecond) {
						leftOpen++
					}
					f.close()
				}
				if leftOpen > 0 {
					r.violate(Violation{What: fmt.Sprintf("%d of %d connections established by a recovery stayed open after Close was called from the after-reconnect callback", leftOpen, N), Case: trans})
				}
				if !waitUntil(3*time.Second, func() bool { return settleAll() <= baseAll }) {
					r.violate(Violation{What: fmt.Sprintf("%d library goroutines left after %d cycles of Close from inside the after-reconnect callback", settleAll()-baseAll, N),
						Case: trans + ": dial, drop, recovery, Close in the callback", Extra: libStacks(4000)})
				}
				r.st.Evaluations++
				r.count("c16.close-in-after-reconnect." + trans)
			}
			// dial + N x (peer drop + recover)
			if f, err := openF(trans); err == nil {
				acts := ""
				lk := f.lk
				okc := true
				for i := 0; i < N; i++ {
					lk.drop()
					nl := f.acceptNext(3 * time.Second)
					if nl == nil || !waitUntil(2*time.Second, func() bool { return f.tc.reconCount() >= i+1 }) {
						r.violate(Violation{What: fmt.Sprintf("no recovery after drop %d", i+1), Case: trans, Extra: strings.Join(f.tc.log.snapshot(), "\n")})
						okc = false
						break
					}
					lk = nl
					// the single-flight flag of the finished recovery is cleared just after the callback returns; a loss
					// reported before that is left to the keepalive (disabled here) - see DESIGN.md, C08 observations
					time.Sleep(30 * time.Millisecond)
					acts += fmt.Sprintf("CL RB DD.1 AD.1 FN X.%d.r X.%d.w X.%d.d ", i, i, i)
				}
				if okc {
					o := f.observe(false)
					r.lifeCase(fmt.Sprintf("%s.drop-recover.N%d", trans, N), 0, strings.TrimSpace(acts), o, ws)
					if o.live != 3 {
						r.violate(Violation{What: fmt.Sprintf("%d connection goroutines alive after %d drop+recover cycles (3 serve the one open connection)", o.live, N), Case: trans})
					}
					if !ws && o.open != 1 {
						r.violate(Violation{What: fmt.Sprintf("%d sockets still open at the peer after %d drop+recover cycles", o.open, N), Case: trans})
					}
				}
				f.tc.cli.Close(nil)
				f.close()
				if d := settle() - f.base; d != 0 {
					r.violate(Violation{What: fmt.Sprintf("%d connection goroutines left after Close", d), Case: trans + " drop+recover then Close"})
				}
			}
		}
	}
	// recovery whose first attempt dials but is refused at the session step (connection kept open by the peer), second
	// attempt succeeds: the refused attempt's connection must be released
	if f, err := openFAuth(); err == nil {
		f.lk.drop()
		l2 := f.acceptNext(3 * time.Second)
		if l2 != nil {
			if q := l2.nextRequest(2 * time.Second); q != nil {
				l2.sendFrame(respFrame(1, 3, q.Rid, 7, errBody(500, "no")))
			}
			l3 := f.acceptNext(3 * time.Second)
			if l3 != nil {
				if q := l3.nextRequest(2 * time.Second); q != nil {
					l3.sendFrame(respFrame(1, q.Cmd, q.Rid, 0, authRespBody("s2", 60000)))
				}
				waitUntil(2*time.Second, func() bool { return f.tc.reconCount() == 1 })
				o := f.observe(false)
				r.lifeCase("tcp.rejected-attempt-then-ok", 0, "CL RB DD.1 AD.0 RB DD.1 AD.1 FN X.0.r X.0.w X.0.d X.1.r X.1.w X.1.d", o, false)
				if o.open != 1 || o.live != 3 {
					r.violate(Violation{What: fmt.Sprintf("after a recovery whose first attempt was refused at the session step: %d sockets open at the peer, %d connection goroutines (expected 1 and 3)", o.open, o.live), Case: "tcp"})
				}
			}
		}
		f.tc.cli.Close(nil)
		r.nothingLeft(f, "tcp rejected attempt then ok, then Close")
		f.close()
	}
	// the connection closes while its dispatcher is inside a handler and frames are queued behind it (TCP and WebSocket)
	for _, trans := range []string{"tcp", "ws"} {
		for _, how := range []string{"user Close", "peer drop, recovery, then Close"} {
			baseAll := settleAll()
			for i := 0; i < 3; i++ {
				s, err := openSessionPrep(trans, 1, func(tc *testClient) {
					first := true
					tc.cli.Subscribe(50, func(p *protocol.Packet) {
						if first {
							first = false
							time.Sleep(250 * time.Millisecond)
						}
					})
				}, client.DialTimeout(fDial))
				if err != nil {
					continue
				}
				for k := 0; k < 3; k++ {
					s.lk.sendFrame(pushFrame(1, 50, []byte{byte(k)}))
				}
				time.Sleep(80 * time.Millisecond)
				if how == "user Close" {
					s.tc.cli.Close(nil)
				} else {
					s.lk.drop()
					waitUntil(2*time.Second, func() bool { return s.tc.reconCount() >= 1 })
					s.tc.cli.Close(nil)
				}
				s.close()
			}
			if !waitUntil(3*time.Second, func() bool { return settleAll() <= baseAll }) {
				r.violate(Violation{What: fmt.Sprintf("%d library goroutines left after 3 cycles in which the connection closed while its dispatcher was busy with frames queued", settleAll()-baseAll),
					Case: trans + ": " + how, Extra: libStacks(4000)})
			}
			r.st.Evaluations++
		}
	}
	for i := 0; i < 3; i++ { // Close while a recovery dial waits for a late upgrade answer (WebSocket)
		r.closeDuringSlowUpgrade()
	}
	// stalled peer + close cycles: the writer is blocked in the socket write when the connection is closed
	{
		base := settle()
		N := 3
		var peers []*fsession
		for i := 0; i < N; i++ {
			if f, err := openF("tcp", client.WriteQueueSize(2)); err == nil {
				body := bigBody()
				for j := 0; j < 16; j++ {
					f.tc.doAsync(uint32(60+j%8), body, fReq)
					time.Sleep(3 * time.Millisecond)
				}
				f.tc.cli.Close(nil)
				peers = append(peers, f)
			}
		}
		time.Sleep(fReq + 200*time.Millisecond)
		if d := settle() - base; d != 0 {
			r.violate(Violation{What: fmt.Sprintf("%d connection goroutines left after %d cycles of stalled peer + Close", d, N), Case: "tcp stalled peer"})
		}
		for _, f := range peers {
			o := f.observe(true)
			if o.open != 0 {
				r.violate(Violation{What: fmt.Sprintf("%d sockets still open at the peer after Close with the writer blocked in the socket write", o.open), Case: "tcp stalled peer"})
			}
			f.close()
		}
		r.st.Evaluations++
	}
	// server close packet cycles (TCP) and failed dials
	if f, err := openF("tcp"); err == nil {
		lk := f.lk
		N := 4
		for i := 0; i < N; i++ {
			lk.sendFrame(pushFrame(1, 0, pbCloseBody(1, "bye")))
			nl := f.followNewest(1200 * time.Millisecond)
			if nl == nil {
				r.violate(Violation{What: fmt.Sprintf("no recovery after server close packet %d", i+1), Case: "tcp", Extra: strings.Join(f.tc.log.snapshot(), "\n")})
				break
			}
			lk = nl
		}
		o := f.observe(false)
		r.st.Evaluations++
		if o.live != 3 || o.open != 1 {
			r.violate(Violation{What: fmt.Sprintf("after %d server-close cycles: %d connection goroutines alive, %d sockets open at the peer (expected 3 and 1)", N, o.live, o.open), Case: "tcp"})
		}
		f.tc.cli.Close(nil)
		f.close()
	}
	{
		base := settle()
		p := newTCPPeer()
		p.stopListening()
		for i := 0; i < 5; i++ {
			tc := newTestClient()
			if err := tc.dial(p.url(), 1, client.DialTimeout(200*time.Millisecond)); err == nil {
				r.violate(Violation{What: "dial to a closed port succeeded", Case: "failed dial"})
			}
		}
		r.st.Evaluations++
		if d := settle() - base; d != 0 {
			r.violate(Violation{What: fmt.Sprintf("%d connection goroutines left after 5 failed dials", d), Case: "failed dial"})
		}
	}
}

// ---------------- C06 ----------------
func (r *Run) boundedDo(f *fsession, ch chan doResult, what string) doResult {
	bound := fReq + fDial + fAuth + 1200*time.Millisecond
	res, ok := awaitDo(ch, bound)
	r.st.Evaluations++
	if !ok {
		r.violate(Violation{What: fmt.Sprintf("a request call did not return within request+dial+auth timeouts + slack (%v): %s", bound, what), Case: what, Extra: goroutineDump()[:3000]})
		return doResult{}
	}
	if res.panic != "" {
		r.violate(Violation{What: "a request call panicked: " + res.panic, Case: what})
	}
	return res
}

func runC06(r *Run) {
	installHooks()
	hub.reset()
	r.st.Rule = "peer scripts over {silence, drop after every byte k of the response frame, server close packet, garbage, refused dials, stalled peer that stops reading (write queue fills; TCP and WebSocket), WebSocket re-dial whose upgrade is never answered} x phases {auth, steady state, reconnect} x calls issued before, during and after the fault, on TCP (and WebSocket where expressible): every request call must return a response or an error within request+dial+auth timeouts + slack and never panic (watchdog, recover(), goroutine dump as replay); waiter-sweep and nil-conn regressions are scripted; selected histories are replayed by Model/Waiters.v and Model/Life.v. Also: a caller context with its own later deadline (the request timeout still bounds the call); a host that leaves connection attempts unanswered after the loss (loopback listener with backlog 0 and a full accept queue): calls made during the recovery return within the bounds. A stalled peer with the keepalive running and a write queue of 1 (the heartbeat itself finds the queue full); a WebSocket ping from the peer before a call; a request call after a refused first Dial and on a client never dialled (an error, no panic). distinct = distinct request lines"
	// silence
	for _, trans := range []string{"tcp", "ws"} {
		if f, err := openF(trans); err == nil {
			ch := f.tc.doAsync(30, nil, fReq)
			f.lk.nextRequest(time.Second)
			res := r.boundedDo(f, ch, trans+" silence")
			r.emit("wt.run S R0 W0.1 T0", resultStr(res)+" | nr=0 dup=0 unsup=0", true)
			f.close()
		}
	}
	// the caller's context has a deadline of its own, later than the request timeout: the request timeout still bounds the call
	if f, err := openF("tcp"); err == nil {
		ctx, cancel := context.WithTimeout(context.Background(), 20*time.Second)
		ch := make(chan doResult, 1)
		go func() {
			var rr doResult
			t0 := time.Now()
			func() {
				defer func() {
					if e := recover(); e != nil {
						rr.panic = fmt.Sprint(e)
					}
				}()
				rr.pkt, rr.err = f.tc.cli.Do(ctx, &client.Request{Cmd: 30}, client.RequestTimeout(fReq))
			}()
			rr.dur = time.Since(t0)
			ch <- rr
		}()
		f.lk.nextRequest(time.Second)
		r.boundedDo(f, ch, "tcp silence, caller context with a 20 s deadline and RequestTimeout(300ms)")
		cancel()
		f.close()
	}
	// drop after every byte k of the response frame
	frame := respFrame(1, 30, 1, 0, []byte("response-body"))
	step := 4
	if r.thorough() {
		step = 1
	}
	for k := 0; k < len(frame); k += step {
		if f, err := openF("tcp"); err == nil {
			ch := f.tc.doAsync(30, nil, fReq)
			if q := f.lk.nextRequest(time.Second); q != nil {
				f.lk.sendFrame(frame[:k])
				f.lk.drop()
			}
			res := r.boundedDo(f, ch, fmt.Sprintf("tcp drop after %d of %d response bytes", k, len(frame)))
			if res.pkt != nil && res.err == nil {
				r.violate(Violation{What: "a call returned a packet although the response was cut", Case: fmt.Sprintf("k=%d", k)})
			}
			r.count("c06.drop-at-byte")
			// a call issued right after the fault (possibly during the recovery)
			ch2 := f.tc.doAsync(31, nil, fReq)
			r.boundedDo(f, ch2, "tcp call right after the drop")
			f.close()
		}
	}
	// server close packet while a call is in flight (the repaired self-deadlock), then service resumes
	for _, trans := range []string{"tcp", "ws"} {
		if f, err := openF(trans); err == nil {
			ch := f.tc.doAsync(30, nil, fReq)
			f.lk.nextRequest(time.Second)
			if trans == "tcp" {
				f.lk.sendFrame(pushFrame(1, 0, pbCloseBody(1, "bye")))
			} else {
				f.lk.(wsLink).pc.c.WriteControl(websocket.CloseMessage, websocket.FormatCloseMessage(1001, "bye"), time.Now().Add(time.Second))
			}
			r.boundedDo(f, ch, trans+" server close packet, call in flight")
			nl := f.followNewest(1200 * time.Millisecond)
			if nl == nil {
				r.violate(Violation{What: "no recovery after a server close packet", Case: trans})
			} else {
				ch2 := f.tc.doAsync(32, nil, fReq)
				if q := nl.nextRequest(time.Second); q != nil {
					nl.sendFrame(respFrame(1, 32, q.Rid, 0, []byte("ok")))
				}
				if res := r.boundedDo(f, ch2, trans+" call after the close packet"); res.pkt == nil {
					r.violate(Violation{What: "after a server close packet and recovery a request is not served: " + resultStr(res), Case: trans})
				}
			}
			r.count("c06.close-packet." + trans)
			r.st.Evaluations++
			f.close()
		}
	}
	// garbage
	if f, err := openF("tcp"); err == nil {
		ch := f.tc.doAsync(30, nil, fReq)
		f.lk.nextRequest(time.Second)
		f.lk.sendFrame([]byte{0x00, 0xff, 0x13, 0x37})
		r.boundedDo(f, ch, "tcp garbage frame, call in flight")
		r.st.Evaluations++
		f.close()
	}
	// refused dials: calls before, during and after failed reconnect attempts (nil-conn regression)
	if f, err := openF("tcp"); err == nil {
		f.tcp.stopListening()
		ch0 := f.tc.doAsync(30, nil, fReq)
		f.lk.nextRequest(time.Second)
		f.lk.drop()
		r.boundedDo(f, ch0, "tcp call in flight when the connection drops and dials are refused")
		f.tc.log.waitCount("reconnect failed", 1, 3*time.Second)
		for i := 0; i < 3; i++ {
			res := r.boundedDo(f, f.tc.doAsync(31, nil, fReq), "tcp call while re-dials are refused")
			if res.pkt != nil {
				r.violate(Violation{What: "a call returned a packet with no connection", Case: "refused dials"})
			}
			time.Sleep(300 * time.Millisecond)
		}
		// the reader goroutine of the lost connection hosts the recovery (it waits in reconnecting()): not exited yet
		r.emit("lf.run 0 CL X.0.w X.0.d RB DD.0 DO RB DD.0 DO", f.observeNoProbe().String(), true)
		f.tcp.relisten()
		nl := f.acceptNext(3 * time.Second)
		if nl != nil && waitUntil(2*time.Second, func() bool { return f.tc.reconCount() >= 1 }) {
			ch3 := f.tc.doAsync(33, nil, fReq)
			if q := nl.nextRequest(time.Second); q != nil {
				nl.sendFrame(respFrame(1, 33, q.Rid, 0, []byte("back")))
			}
			if res := r.boundedDo(f, ch3, "tcp call after dials succeed again"); res.pkt == nil {
				r.violate(Violation{What: "service not re-established after refused dials: " + resultStr(res), Case: "refused dials"})
			}
		} else {
			r.violate(Violation{What: "no recovery once dials succeed again", Case: "refused dials"})
		}
		f.close()
	}
	// waiter sweep while a call waits: recovery keeps failing (RECONNECT rejected), a call is issued on the
	// re-dialled connection, the peer drops that connection on receipt
	if f, err := openFAuth(); err == nil {
		f.lk.drop()
		l2 := f.acceptNext(3 * time.Second)
		if l2 != nil {
			if q := l2.nextRequest(2 * time.Second); q != nil {
				l2.sendFrame(respFrame(1, 3, q.Rid, 7, errBody(500, "no")))
			}
			time.Sleep(300 * time.Millisecond) // the loop is backing off; the re-dialled connection is current
			ch := f.tc.doAsync(12, nil, 1500*time.Millisecond)
			if q := l2.nextRequest(time.Second); q != nil {
				l2.drop()
			}
			bound := 1500*time.Millisecond + fDial + fAuth + 1500*time.Millisecond
			res, ok := awaitDo(ch, bound)
			if !ok || res.panic != "" {
				r.violate(Violation{What: "a call waiting while the connection was recycled panicked or hung: " + resultStr(res), Case: "waiter sweep (RECONNECT rejected, call on the re-dialled connection, peer drops it)"})
			}
			if os.Getenv("VERIF_DEBUG") != "" {
				for i, l := range f.tc.log.snapshot() {
					fmt.Fprintln(os.Stderr, f.tc.log.at[i].Format("05.000"), l)
				}
				fmt.Fprintln(os.Stderr, "result", resultStr(res), res.dur)
			}
			r.emit("wt.run S R0 W0.1 X F0", resultStr(res)+" | nr=0 dup=0 unsup=0", true)
		}
		f.close()
	}
	// stalled peer (connection open, peer stops reading): the writer blocks in the socket write, the queue fills;
	// every call still returns - a response never comes, so an error - within the bound
	if f, err := openF("tcp", client.WriteQueueSize(2)); err == nil {
		body := bigBody()
		var chans []chan doResult
		for i := 0; i < 24; i++ {
			chans = append(chans, f.tc.doAsync(uint32(60+i%8), body, fReq))
			time.Sleep(5 * time.Millisecond)
		}
		full := 0
		for i, ch := range chans {
			res := r.boundedDo(f, ch, fmt.Sprintf("tcp stalled peer, 1 MiB request %d of 24, write queue of 2", i))
			if res.err != nil && strings.Contains(res.err.Error(), "queue full") {
				full++
			}
		}
		r.st.Dist["c06.stalled.queue-full-errors"] += full
		r.st.Evaluations++
		r.checkClose(f.tc, "tcp stalled peer, writer blocked in the socket write")
		f.close()
	}
	// stalled peer with the keepalive running: the heartbeat itself finds the write queue full ("keepalive failed to
	// ping"), which starts a recovery from the keepalive goroutine; calls made afterwards still return within the bound
	if f, err := openF("tcp", client.WriteQueueSize(1), client.Keepalive(100*time.Millisecond), client.KeepaliveTimeout(5*time.Second)); err == nil {
		body := bigBody()
		var chans []chan doResult
		for i := 0; i < 30 && f.tc.log.count("keepalive failed to ping") == 0; i++ {
			chans = append(chans, f.tc.doAsync(uint32(60+i%8), body, fReq))
			time.Sleep(15 * time.Millisecond)
		}
		reached := f.tc.log.waitCount("keepalive failed to ping", 1, time.Second)
		for i, ch := range chans {
			r.boundedDo(f, ch, fmt.Sprintf("tcp stalled peer with keepalive 100 ms, write queue of 1, request %d", i))
		}
		time.Sleep(150 * time.Millisecond)
		for k := 0; k < 3; k++ {
			r.boundedDo(f, f.tc.doAsync(uint32(70+k), nil, fReq), "tcp stalled peer with keepalive 100 ms: call after a heartbeat found the write queue full")
		}
		r.st.Dist[fmt.Sprintf("c06.stalled.heartbeat-queue-full.reached-%v", reached)]++
		r.st.Evaluations++
		r.checkClose(f.tc, "tcp stalled peer with keepalive, after a heartbeat found the write queue full")
		f.close()
	}
	// a WebSocket ping from the peer (answered by the transport itself), then a call
	if f, err := openF("ws"); err == nil {
		pc := f.lk.(wsLink).pc
		pc.wmu.Lock()
		pc.c.WriteControl(websocket.PingMessage, []byte("are-you-there"), time.Now().Add(time.Second))
		pc.wmu.Unlock()
		time.Sleep(100 * time.Millisecond)
		ch := f.tc.doAsync(31, nil, fReq)
		if q := f.lk.nextRequest(time.Second); q != nil {
			f.lk.sendFrame(respFrame(1, 31, q.Rid, 0, []byte("ok")))
		}
		if res := r.boundedDo(f, ch, "ws call after a ping from the peer"); res.pkt == nil {
			r.violate(Violation{What: "a call after a WebSocket ping from the peer was not served: " + resultStr(res), Case: "ws peer ping"})
		}
		f.close()
	}
	// the same on WebSocket: the peer keeps the connection open but stops reading
	if f, err := openF("ws", client.WriteQueueSize(2), client.MinGzipSize(0)); err == nil {
		atomic.StoreInt32(&f.lk.(wsLink).pc.stopRead, 1)
		body := bigBody()
		var chans []chan doResult
		for i := 0; i < 40; i++ {
			chans = append(chans, f.tc.doAsync(uint32(60+i%8), body, fReq))
			time.Sleep(5 * time.Millisecond)
		}
		for i, ch := range chans {
			r.boundedDo(f, ch, fmt.Sprintf("ws stalled peer, 1 MiB request %d of 40, write queue of 2", i))
		}
		r.checkClose(f.tc, "ws stalled peer, writer blocked in the socket write")
		f.close()
	}
	// WebSocket re-dial whose HTTP upgrade is never answered: calls before, during and after still return
	if f, err := openF("ws"); err == nil {
		atomic.StoreInt32(&f.ws.stall, 1)
		ch0 := f.tc.doAsync(30, nil, fReq)
		f.lk.nextRequest(time.Second)
		f.lk.drop()
		r.boundedDo(f, ch0, "ws call in flight, connection dropped, re-dial stalls in the upgrade")
		waitUntil(2*time.Second, func() bool { return atomic.LoadInt32(&f.ws.stalled) > 0 })
		for i := 0; i < 4; i++ {
			r.boundedDo(f, f.tc.doAsync(31, nil, fReq), fmt.Sprintf("ws call %d while the re-dial stalls in the HTTP upgrade", i))
			time.Sleep(250 * time.Millisecond)
		}
		atomic.StoreInt32(&f.ws.stall, 0)
		nl := f.followNewest(2500 * time.Millisecond)
		if nl == nil {
			r.violate(Violation{What: "no recovery after the peer answers upgrades again", Case: "ws stalled upgrade"})
		} else {
			ch3 := f.tc.doAsync(33, nil, fReq)
			if q := nl.nextRequest(time.Second); q != nil {
				nl.sendFrame(respFrame(1, 33, q.Rid, 0, []byte("back")))
			}
			if res := r.boundedDo(f, ch3, "ws call after upgrades are answered again"); res.pkt == nil {
				r.violate(Violation{What: "service not re-established after stalled upgrades: " + resultStr(res), Case: "ws stalled upgrade"})
			}
		}
		r.st.Evaluations++
		f.close()
	}
	// auth phase: the peer never answers AUTH
	{
		p := newTCPPeer()
		tc := newTestClient()
		errc := make(chan error, 1)
		t0 := time.Now()
		go func() {
			errc <- tc.dial(p.url(), 1, client.DialTimeout(fDial), client.AuthTimeout(fAuth), client.WithAuthTokenGetter(func() (string, error) { return "t", nil }))
		}()
		if pc := p.accept(2 * time.Second); pc != nil {
			pc.readHandshake(time.Second)
		}
		select {
		case err := <-errc:
			if err == nil {
				r.violate(Violation{What: "Dial succeeded although the peer never answered AUTH", Case: "auth phase silence"})
			}
			if d := time.Since(t0); d > fAuth+fDial+time.Second {
				r.violate(Violation{What: fmt.Sprintf("Dial took %v with a silent peer in the auth phase", d), Case: "auth phase silence"})
			}
		case <-time.After(fAuth + fDial + 2*time.Second):
			r.violate(Violation{What: "Dial did not return with a silent peer in the auth phase", Case: "auth phase silence"})
		}
		r.st.Evaluations++
		func() { defer func() { recover() }(); tc.cli.Close(nil) }()
		p.shutdown()
	}
	// concurrent user Close while calls are in flight
	if f, err := openF("tcp"); err == nil {
		var chans []chan doResult
		for i := 0; i < 4; i++ {
			chans = append(chans, f.tc.doAsync(uint32(40+i), nil, fReq))
		}
		go func() { defer func() { recover() }(); f.tc.cli.Close(nil) }()
		for _, ch := range chans {
			r.boundedDo(f, ch, "tcp concurrent user Close")
		}
		r.st.Evaluations++
		f.close()
	}
	r.c06UnresponsiveHost()
	r.c06NeverConnected()
}

// c06NeverConnected: the fault hits the very first dial (refused), or Dial was never called: a request call on such a
// client returns an error like on any other client without a connection - it does not panic.
func (r *Run) c06NeverConnected() {
	for _, dialFirst := range []bool{true, false} {
		tc := newTestClient()
		cs := "request call on a client that was never dialled"
		if dialFirst {
			p := newTCPPeer()
			url := p.url()
			p.shutdown() // nothing listens there any more: the dial is refused
			if err := tc.dial(url, 1, client.DialTimeout(fDial)); err == nil {
				continue
			}
			cs = "request call after the first Dial was refused"
		}
		ch := tc.doAsync(33, nil, fReq)
		res, ok := awaitDo(ch, fReq+2*time.Second)
		if !ok {
			r.violate(Violation{What: "a request call on a client without a connection did not return", Case: cs})
		} else if res.panic != "" {
			r.violate(Violation{What: "a request call on a client without a connection panicked: " + res.panic, Case: cs})
		} else if res.pkt != nil || res.err == nil {
			r.violate(Violation{What: "a request call on a client without a connection did not return an error", Case: cs})
		}
		r.st.Evaluations++
		r.count("c06.never-connected")
		func() { defer func() { recover() }(); tc.cli.Close(nil) }()
	}
}

// c06UnresponsiveHost: after the connection is lost the host no longer answers connection attempts at all (no RST, no
// SYN-ACK: a loopback listener with backlog 0 and a full accept queue). Every recovery attempt must give up after the
// dial timeout, and a request call made meanwhile must return within the configured bounds.
func (r *Run) c06UnresponsiveHost() {
	ln, err := net.Listen("tcp", "127.0.0.1:0")
	if err != nil {
		return
	}
	defer ln.Close()
	if rc, err := ln.(*net.TCPListener).SyscallConn(); err == nil {
		rc.Control(func(fd uintptr) { syscall.Listen(int(fd), 0) })
	}
	tc := newTestClient()
	errc := make(chan error, 1)
	go func() {
		errc <- tc.dial("tcp://"+ln.Addr().String(), 1, client.DialTimeout(fDial), client.Keepalive(time.Hour), client.KeepaliveTimeout(2*time.Hour))
	}()
	first, err := ln.Accept()
	if err != nil {
		return
	}
	first.SetReadDeadline(time.Now().Add(time.Second))
	io.ReadFull(first, make([]byte, 2))
	if e := <-errc; e != nil {
		first.Close()
		return
	}
	// fill the accept queue until a connect stays unanswered
	var fillers []net.Conn
	unresponsive := false
	for i := 0; i < 16 && !unresponsive; i++ {
		c, err := net.DialTimeout("tcp", ln.Addr().String(), 300*time.Millisecond)
		if err != nil {
			unresponsive = true
		} else {
			fillers = append(fillers, c)
		}
	}
	cleanup := func() {
		done := make(chan struct{})
		go func() { defer close(done); defer func() { recover() }(); tc.cli.Close(nil) }()
		select {
		case <-done:
		case <-time.After(3 * time.Second):
		}
		for _, c := range fillers {
			c.Close()
		}
	}
	r.st.Evaluations++
	if !unresponsive {
		r.count("c06.unresponsive-host.setup-failed")
		first.Close()
		cleanup()
		return
	}
	r.count("c06.unresponsive-host")
	first.Close()
	time.Sleep(500 * time.Millisecond) // the recovery is in an attempt (or between attempts)
	cs := fmt.Sprintf("tcp: drop, then the host leaves connection attempts unanswered (accept queue full, backlog 0); DialTimeout %v, RequestTimeout %v", fDial, fReq)
	for k := 0; k < 3; k++ {
		t0 := time.Now()
		ch := tc.doAsync(uint32(60+k), nil, fReq)
		res, ok := awaitDo(ch, fReq+fDial+2*time.Second)
		if !ok {
			r.violate(Violation{What: fmt.Sprintf("a request call made while the host leaves connection attempts unanswered did not return within %v", fReq+fDial+2*time.Second), Case: cs,
				Extra: strings.Join(tc.log.snapshot(), "\n")})
			break
		}
		if res.pkt != nil {
			r.violate(Violation{What: "a request call succeeded although the host is unreachable", Case: cs})
		}
		_ = t0
		time.Sleep(250 * time.Millisecond)
	}
	cleanup()
}

func (f *fsession) observeNoProbe() lifeObs {
	o := lifeObs{cb: len(f.tc.closeCallbacks()), recon: f.tc.reconCount()}
	o.conns = f.tcp.nconns()
	o.open = 0
	o.live = settle() - f.base
	return o
}

func pbCloseBody(code int, reason string) []byte {
	return pbBytes(&control.Close{Code: control.Close_Code(code), Reason: reason})
}

// bigBody: a request body of about 1 MiB that gzip cannot shrink much.
func bigBody() *control.Close {
	rng := NewRNG(99)
	b := make([]byte, 1<<20)
	for i := range b {
		b[i] = "0123456789abcdefghijklmnopqrstuvwxyzABCDEFGHIJKLMNOPQRSTUVWXYZ-_"[rng.Intn(64)]
	}
	return &control.Close{Reason: string(b)}
}

// closeDuringSlowUpgrade: Close while a recovery dial is inside the dialer (WebSocket upgrade answered late): whatever
// the dial returns afterwards must be released.
func (r *Run) closeDuringSlowUpgrade() {
	if f, err := openF("ws", client.DialTimeout(3*time.Second)); err == nil {
		atomic.StoreInt32(&f.ws.stalled, 0)
		atomic.StoreInt32(&f.ws.stall, 2)
		f.lk.drop()
		if waitUntil(3*time.Second, func() bool { return atomic.LoadInt32(&f.ws.stalled) > 0 }) {
			closed := make(chan struct{})
			go func() { defer close(closed); defer func() { recover() }(); f.tc.cli.Close(nil) }()
			time.Sleep(150 * time.Millisecond)
			atomic.StoreInt32(&f.ws.stall, 0) // the upgrade is answered now: the dial returns a connection
			select {
			case <-closed:
			case <-time.After(4 * time.Second):
				r.violate(Violation{What: "Close did not return after the pending dial had finished", Case: "ws close during a slow upgrade"})
			}
			r.afterCloseQuiet(f, "ws Close while the recovery dial waits for the upgrade answer", 500*time.Millisecond)
		}
		atomic.StoreInt32(&f.ws.stall, 0)
		r.st.Evaluations++
		f.close()
	}
}
