package main

import (
	"fmt"
	"strings"
	"sync"
	"time"

	protocol "github.com/longportapp/openapi-protocol/go"
	"github.com/longportapp/openapi-protocol/go/client"
)

// c03TCPSegments runs the real tcpConn.reading loop: a scripted peer sends a burst of push frames over a real TCP
// connection cut into writes that each end inside a frame (pauses in between, so that each write is one socket read),
// with more than one ring capacity of traffic and a last write larger than what is free - so the left-over in readBuf
// lies across the ring's end when the ring has to grow.  Direct oracle: the pushes delivered are the frames sent.
func (r *Run) c03TCPSegments(sizes []int, nframes, bodyLen int, tag string) {
	var mu sync.Mutex
	var bodies []string
	prep := func(tc *testClient) {
		tc.cli.Subscribe(50, func(p *protocol.Packet) { mu.Lock(); bodies = append(bodies, string(p.Body)); mu.Unlock() })
	}
	s, err := openSessionPrep("tcp", 1, prep, client.DialTimeout(time.Second), client.ReadQueueSize(4*nframes+16))
	if err != nil {
		r.violate(Violation{What: "scenario setup failed: " + err.Error(), Case: "c03 tcp segments"})
		return
	}
	defer s.close()
	tl, ok := s.lk.(tcpLink)
	if !ok {
		return
	}
	var stream []byte
	var want []string
	for i := 0; i < nframes; i++ {
		b := fmt.Sprintf("%04d-", i) + strings.Repeat(string(rune('a'+i%26)), bodyLen-5)
		want = append(want, b)
		stream = append(stream, pushFrame(1, 50, []byte(b))...)
	}
	pos := 0
	for k := 0; pos < len(stream); k++ {
		n := len(stream) - pos
		if k < len(sizes) && sizes[k] < n {
			n = sizes[k]
		}
		tl.pc.send(stream[pos : pos+n])
		pos += n
		time.Sleep(12 * time.Millisecond)
	}
	waitUntil(2*time.Second, func() bool { mu.Lock(); defer mu.Unlock(); return len(bodies) >= nframes })
	time.Sleep(20 * time.Millisecond)
	mu.Lock()
	got := append([]string(nil), bodies...)
	mu.Unlock()
	if strings.Join(got, ",") != strings.Join(want, ",") {
		first := 0
		for first < len(got) && first < len(want) && got[first] == want[first] {
			first++
		}
		r.violate(Violation{What: fmt.Sprintf("TCP connection: %d of %d frames delivered, first difference at packet %d", len(got), len(want), first),
			Case: fmt.Sprintf("tcp: %d push frames of %d body bytes, peer writes of %v bytes then the rest, 12 ms apart (%s)", nframes, bodyLen, sizes, tag)})
	}
	r.count("c03.tcp-segments." + tag)
}

func (r *Run) c03TCP() {
	installHooks()
	r.c03TCPSegments([]int{1500, 1500, 1500, 1500}, 10, 1000, "wrap-then-grow")
	r.c03TCPSegments([]int{1500, 1500, 1500, 1500, 3200}, 14, 1000, "wrap-then-grow-more")
	r.c03TCPSegments([]int{700, 3000, 900, 3500}, 12, 800, "mixed")
	g := r.rng
	n := 3
	if r.thorough() {
		n = 40
	}
	for i := 0; i < n; i++ {
		var sizes []int
		for k, m := 0, 3+g.Intn(5); k < m; k++ {
			sizes = append(sizes, 300+g.Intn(3700))
		}
		r.c03TCPSegments(sizes, 8+g.Intn(10), 200+g.Intn(1300), "random")
	}
}
