package main

// C12: the outbound byte stream is handshake + whole frames in acceptance order; a full queue is an error.

import (
	"bytes"
	"context"
	"fmt"
	control "github.com/longportapp/openapi-protobufs/gen/go/control"
	"net"
	"net/url"
	"os"
	"strings"
	"sync"
	"sync/atomic"
	"time"

	"github.com/gorilla/websocket"
	protocol "github.com/longportapp/openapi-protocol/go"
	"github.com/longportapp/openapi-protocol/go/client"
)

func init() { props["C12"] = runC12 }

var lastConnLog *recLogger

func dialConn(rawurl string, v uint8, q, thr int) (client.ClientConn, error) {
	u, _ := url.Parse(rawurl)
	d, ok := client.GetDialer(u.Scheme)
	if !ok {
		return nil, fmt.Errorf("no dialer for %s", u.Scheme)
	}
	o := &client.DialOptions{Timeout: 2 * time.Second, AuthTimeout: time.Second, WriteQueueSize: q, ReadQueueSize: 16, ReadBufferSize: 4096, MinGzipSize: thr}
	lastConnLog = newRecLogger()
	return d(context.Background(), lastConnLog, u, &protocol.Handshake{Version: v, Codec: protocol.CodecProtobuf, Platform: protocol.PlatformOpenapi}, o)
}

func framePK(i, size int) *PK {
	p := &PK{Type: 3, Cmd: uint32(100 + i%100), Codec: 1, Vals: map[string]string{}, Body: bytes.Repeat([]byte{byte(1 + i%250)}, size)}
	if size <= 64 && i%3 == 1 { // every third small frame is signed: plain frames follow signed ones through the header pools
		p.Verify, p.Nonce, p.Sig = true, uint64(1000+i), bytes.Repeat([]byte{byte(i)}, 16)
	}
	return p
}

// compact model notation of one frame: header bytes + rep body (+ nothing else: push without verify)
func frameIn(fr []byte, bodyLen int) string {
	if bodyLen <= 64 {
		return hx(fr)
	}
	return hx(fr[:len(fr)-bodyLen]) + "+" + hexIn(fr[len(fr)-bodyLen:])
}

func (r *Run) c12TCPSequential(v, Q, size int) {
	peer := newTCPPeer()
	defer peer.shutdown()
	conn, err := dialConn(peer.url(), uint8(v), Q, 0)
	if err != nil {
		r.violate(Violation{What: "dial failed: " + err.Error(), Case: "c12"})
		return
	}
	defer conn.Close(nil)
	pc := peer.accept(2 * time.Second)
	if pc == nil {
		return
	}
	// the peer stalls: it does not read anything yet
	M := Q + 7
	hs := []byte{byte(v) | 1<<4, 9}
	events := []string{"E." + hx(hs)}
	mq := 1
	accepted := 1
	var want []byte
	want = append(want, hs...)
	verdicts := "1"
	for i := 0; i < M; i++ {
		p := framePK(i, size)
		ref, _ := refOfPK(v, p, 0)
		fr := ref.encode()
		t0 := time.Now()
		done := make(chan error, 1)
		go func() { done <- conn.Write(p.toPacket()) }()
		var werr error
		select {
		case werr = <-done:
		case <-time.After(3 * time.Second):
			r.violate(Violation{What: fmt.Sprintf("Write blocked for more than 3 s with a stalled peer (queue size %d, write %d): a full write queue must be reported as an error", Q, i), Case: fmt.Sprintf("tcp sequential Q=%d size=%d", Q, size)})
			return
		}
		if d := time.Since(t0); d > time.Second {
			r.violate(Violation{What: fmt.Sprintf("Write took %v with a stalled peer", d), Case: fmt.Sprintf("tcp sequential Q=%d", Q)})
		}
		if werr == nil {
			if mq == Q {
				events = append(events, "W")
				mq--
			}
			events = append(events, "E."+frameIn(fr, size))
			mq++
			accepted++
			want = append(want, fr...)
			verdicts += "1"
		} else {
			if !strings.Contains(werr.Error(), "write queue full") {
				r.violate(Violation{What: "unexpected write error: " + werr.Error(), Case: "c12"})
			}
			if accepted < Q {
				r.violate(Violation{What: "write rejected as queue-full although fewer items than the queue size were ever accepted", Case: fmt.Sprintf("Q=%d accepted=%d", Q, accepted)})
			}
			events = append(events, "E."+frameIn(fr, size))
			verdicts += "0"
		}
	}
	for i := 0; i < mq; i++ {
		events = append(events, "W")
	}
	// now the peer reads everything
	got := readAll(pc, len(want), 8*time.Second)
	out := fmt.Sprintf("verdicts=%s sock=%s msgs=0:-", verdicts, hexsum(got))
	r.emit(fmt.Sprintf("wp.run %d %s", Q, strings.Join(events, " ")), out, true)
	r.count(fmt.Sprintf("c12.tcp.sequential.Q%d", Q))
	if !bytes.Equal(got, want) {
		r.violate(Violation{What: fmt.Sprintf("peer received %d bytes, expected handshake + the %d accepted frames (%d bytes) exactly once in order", len(got), accepted-1, len(want)), Case: fmt.Sprintf("tcp sequential Q=%d size=%d verdicts=%s", Q, size, verdicts)})
	}
}

func readAll(pc *peerConn, want int, d time.Duration) []byte {
	deadline := time.Now().Add(d)
	var got []byte
	tmp := make([]byte, 1<<20)
	for time.Now().Before(deadline) {
		wait := 150 * time.Millisecond
		if len(got) < want {
			wait = time.Until(deadline)
		}
		pc.c.SetReadDeadline(time.Now().Add(wait))
		n, err := pc.c.Read(tmp)
		got = append(got, tmp[:n]...)
		if err != nil {
			break
		}
	}
	return got
}

// c12TCPConcurrent: G writers, slow peer; direct oracle on the peer's stream.
func (r *Run) c12TCPConcurrent(v, G, per, Q, thr int) {
	g := r.rng
	peer := newTCPPeer()
	defer peer.shutdown()
	conn, err := dialConn(peer.url(), uint8(v), Q, thr)
	if err != nil {
		return
	}
	defer conn.Close(nil)
	pc := peer.accept(2 * time.Second)
	if pc == nil {
		return
	}
	type wres struct {
		w, i int
		fr   []byte
	}
	var mu sync.Mutex
	acceptedBy := make([][]wres, G)
	var wg sync.WaitGroup
	stop := make(chan struct{})
	var got []byte
	readerDone := make(chan struct{})
	go func() { // slow reader
		tmp := make([]byte, 64<<10)
		for {
			pc.c.SetReadDeadline(time.Now().Add(400 * time.Millisecond))
			n, err := pc.c.Read(tmp)
			got = append(got, tmp[:n]...)
			if err != nil {
				select {
				case <-stop:
					close(readerDone)
					return
				default:
				}
				continue
			}
			time.Sleep(200 * time.Microsecond)
		}
	}()
	blocked := false
	for w := 0; w < G; w++ {
		wg.Add(1)
		gg := g.Fork()
		go func(w int) {
			defer wg.Done()
			for i := 0; i < per; i++ {
				size := []int{1, 10, 300, 5000, 70000, 200000}[gg.Intn(6)]
				p := &PK{Type: 3, Cmd: uint32(100 + w), Codec: 1, Vals: map[string]string{}, Body: append([]byte(fmt.Sprintf("w%d-%d|", w, i)), gg.Bytes(size)...)}
				ref, _ := refOfPK(v, p, thr)
				t0 := time.Now()
				err := conn.Write(p.toPacket(), protocol.GzipSize(thr))
				if time.Since(t0) > 2*time.Second {
					mu.Lock()
					blocked = true
					mu.Unlock()
				}
				if err == nil {
					mu.Lock()
					acceptedBy[w] = append(acceptedBy[w], wres{w, i, ref.encode()})
					mu.Unlock()
				} else {
					time.Sleep(time.Millisecond)
				}
			}
		}(w)
	}
	wg.Wait()
	time.Sleep(600 * time.Millisecond)
	close(stop)
	<-readerDone
	r.count(fmt.Sprintf("c12.tcp.concurrent.G%d", G))
	r.st.Evaluations++
	cs := fmt.Sprintf("tcp concurrent v%d G=%d per=%d Q=%d thr=%d", v, G, per, Q, thr)
	if blocked {
		r.violate(Violation{What: "a Write call blocked for more than 2 s", Case: cs})
	}
	if len(got) < 2 || got[0] != byte(v)|1<<4 {
		r.violate(Violation{What: "the first two bytes at the peer are not the requested handshake", Case: cs})
		return
	}
	// parse whole frames; each must be exactly one accepted frame, per-writer in order
	next := make([]int, G)
	rest := got[2:]
	nframes := 0
	for len(rest) > 0 {
		f, n, verdict := refDecode(v, rest)
		if verdict != "OK" {
			r.violate(Violation{What: "peer stream is not a sequence of whole frames (torn or interleaved) after " + fmt.Sprint(nframes) + " frames", Case: cs})
			return
		}
		w := int(f.Cmd) - 100
		if w < 0 || w >= G || next[w] >= len(acceptedBy[w]) || !bytes.Equal(acceptedBy[w][next[w]].fr, rest[:n]) {
			r.violate(Violation{What: fmt.Sprintf("frame %d at the peer is not the next accepted frame of its writer (lost, duplicated, reordered or altered)", nframes), Case: cs})
			return
		}
		next[w]++
		nframes++
		rest = rest[n:]
	}
	for w := range next {
		if next[w] != len(acceptedBy[w]) {
			r.violate(Violation{What: fmt.Sprintf("writer %d: %d accepted writes but %d frames at the peer", w, len(acceptedBy[w]), next[w]), Case: cs})
		}
	}
}

// c12TCPConcurrentStalled: several writers at once against a peer that does not read: every Write returns
// (accepted or "write queue full"), nobody parks; afterwards the peer reads exactly the accepted frames.
func (r *Run) c12TCPConcurrentStalled(v, G, Q int) {
	g := r.rng
	peer := newTCPPeer()
	defer peer.shutdown()
	conn, err := dialConn(peer.url(), uint8(v), Q, 1024)
	if err != nil {
		return
	}
	defer conn.Close(nil)
	pc := peer.accept(2 * time.Second)
	if pc == nil {
		return
	}
	var mu sync.Mutex
	accepted := make([][][]byte, G)
	returned := 0
	total := 0
	for w := 0; w < G; w++ {
		gg := g.Fork()
		for i := 0; i < 6; i++ {
			total++
			go func(w, i int, body []byte) {
				defer func() { recover() }() // a parked sender wakes up with a panic when the scenario closes the conn
				p := &PK{Type: 3, Cmd: uint32(100 + w), Codec: 1, Vals: map[string]string{}, Body: append([]byte(fmt.Sprintf("w%d-%d|", w, i)), body...)}
				ref, _ := refOfPK(v, p, 1024)
				err := conn.Write(p.toPacket(), protocol.GzipSize(1024))
				mu.Lock()
				returned++
				if err == nil {
					accepted[w] = append(accepted[w], ref.encode())
				}
				mu.Unlock()
			}(w, i, gg.Bytes(1<<20))
		}
	}
	ok := waitUntil(6*time.Second, func() bool { mu.Lock(); defer mu.Unlock(); return returned == total })
	cs := fmt.Sprintf("tcp concurrent writers, stalled peer, v%d G=%d Q=%d, 1 MiB incompressible frames, gzip threshold 1024", v, G, Q)
	r.st.Evaluations++
	r.count("c12.tcp.concurrent-stalled")
	if !ok {
		mu.Lock()
		n := returned
		mu.Unlock()
		r.violate(Violation{What: fmt.Sprintf("%d of %d concurrent Write calls did not return within 6 s while the peer was stalled: a full write queue must be an error, not a blocked caller", total-n, total), Case: cs})
		return
	}
	mu.Lock()
	want := 2
	for _, a := range accepted {
		for _, f := range a {
			want += len(f)
		}
	}
	mu.Unlock()
	got := readAll(pc, want, 10*time.Second)
	if len(got) != want {
		r.violate(Violation{What: fmt.Sprintf("peer received %d bytes, expected %d (handshake + accepted frames)", len(got), want), Case: cs})
		return
	}
	seen := map[string]int{}
	rest := got[2:]
	for len(rest) > 0 {
		_, n, verdict := refDecode(v, rest)
		if verdict != "OK" {
			r.violate(Violation{What: "peer stream is not a sequence of whole frames", Case: cs})
			return
		}
		seen[string(rest[:n])]++
		rest = rest[n:]
	}
	for _, a := range accepted {
		for _, f := range a {
			if seen[string(f)] != 1 {
				r.violate(Violation{What: "an accepted frame was not transmitted exactly once", Case: cs})
				return
			}
		}
	}
}

func (r *Run) c12WS(v, Q, M int, concurrent bool) {
	peer := newWSPeer()
	defer peer.shutdown()
	conn, err := dialConn(peer.url(), uint8(v), Q, 0)
	if err != nil {
		r.violate(Violation{What: "ws dial failed: " + err.Error(), Case: "c12"})
		return
	}
	defer conn.Close(nil)
	pc := peer.accept(2 * time.Second)
	if pc == nil {
		return
	}
	if !strings.Contains("&"+pc.query+"&", fmt.Sprintf("&version=%d&", v)) {
		r.violate(Violation{What: "the WebSocket URL does not announce the protocol version", Case: pc.query})
	}
	var events []string
	verdicts := ""
	var want [][]byte
	if !concurrent {
		for i := 0; i < M; i++ {
			p := framePK(i, 10+i*37)
			ref, _ := refOfPK(v, p, 0)
			fr := ref.encode()
			err := conn.Write(p.toPacket())
			events = append(events, "E."+frameIn(fr, len(p.Body)))
			if err == nil {
				verdicts += "1"
				want = append(want, fr)
				// let the writer take it, so that the model's schedule (enqueue, then message) is the real one
				m := pc.next(2 * time.Second)
				events = append(events, "M")
				if m == nil || m.kind != websocket.BinaryMessage || !bytes.Equal(m.data, fr) {
					r.violate(Violation{What: "an accepted frame did not travel as exactly one binary message", Case: fmt.Sprintf("ws sequential frame %d", i)})
					return
				}
			} else {
				verdicts += "0"
			}
		}
		var cat []byte
		for _, w := range want {
			cat = append(cat, w...)
		}
		r.emit(fmt.Sprintf("wp.run %d %s", Q, strings.Join(events, " ")), fmt.Sprintf("verdicts=%s sock=- msgs=%d:%s", verdicts, len(want), hexsum(cat)), true)
		r.count("c12.ws.sequential")
		return
	}
	// concurrent writers: every message must be exactly one written frame, per-writer order kept
	G := 4
	var mu sync.Mutex
	firstErr := ""
	acc := make([][][]byte, G)
	var wg sync.WaitGroup
	for w := 0; w < G; w++ {
		wg.Add(1)
		go func(w int) {
			defer wg.Done()
			for i := 0; i < M; i++ {
				size := 20
				if i == 0 {
					size = 300000
				}
				p := &PK{Type: 3, Cmd: uint32(100 + w), Codec: 1, Vals: map[string]string{}, Body: append([]byte(fmt.Sprintf("w%d-%d|", w, i)), bytes.Repeat([]byte{7}, size)...)}
				ref, _ := refOfPK(v, p, 0)
				if err := conn.Write(p.toPacket()); err == nil {
					mu.Lock()
					acc[w] = append(acc[w], ref.encode())
					mu.Unlock()
				} else {
					mu.Lock()
					firstErr = err.Error()
					mu.Unlock()
					time.Sleep(time.Millisecond)
				}
			}
		}(w)
	}
	wg.Wait()
	next := make([]int, G)
	total := 0
	for _, a := range acc {
		total += len(a)
	}
	for n := 0; n < total; n++ {
		m := pc.next(2 * time.Second)
		if m == nil {
			r.violate(Violation{What: fmt.Sprintf("only %d of %d accepted frames arrived as messages", n, total), Case: "ws concurrent; a write error seen: " + firstErr + " | conn log: " + strings.Join(lastConnLog.snapshot(), " / ")})
			return
		}
		if m.kind != websocket.BinaryMessage {
			continue
		}
		f, sz, verdict := refDecode(v, m.data)
		if verdict != "OK" || sz != len(m.data) {
			r.violate(Violation{What: "a binary message is not exactly one frame (several frames concatenated, or a torn frame)", Case: fmt.Sprintf("ws concurrent message %d: %d bytes", n, len(m.data))})
			return
		}
		w := int(f.Cmd) - 100
		if w < 0 || w >= G || next[w] >= len(acc[w]) || !bytes.Equal(acc[w][next[w]], m.data) {
			r.violate(Violation{What: "a message is not the next accepted frame of its writer", Case: "ws concurrent"})
			return
		}
		next[w]++
	}
	r.st.Evaluations++
	r.count("c12.ws.concurrent")
}

func runC12(r *Run) {
	installHooks()
	r.st.Rule = "tcpConn/wsConn obtained from the registered dialers. TCP: a single writer against a stalled peer with queue sizes 1..16 and 256 KiB-1 MiB frames, and with 24-byte frames of which every third is signed (both versions) (every Write must return promptly; verdict sequence and the bytes the peer finally reads are compared with Model/WritePath.v under the lazy writer schedule consistent with the verdicts); 2-16 concurrent writers with frame sizes 1 B..200 KB, gzip thresholds, a slow reader (direct oracle: handshake first, whole frames only, each accepted write exactly once, per-writer order, no blocking). WebSocket: version in the URL, each accepted frame exactly one binary message (sequential vs model, concurrent by direct oracle). Also: dials with non-zero handshake reserve bits; TCP writer stuck in a 12 MiB frame (peer receive buffer pinned to 64 KB) with one queue slot free and 12 callers released together at the conn.write.before-enqueue hook (spin barrier): every Write returns; WebSocket: three 8 MiB (after compression) requests towards a peer that stops reading for 0.6 s and pings four times meanwhile, keepalive 200 ms: exactly one whole frame per binary message, all three arrive, no crash. distinct = distinct request lines"
	qs := []int{1, 4}
	if r.thorough() {
		qs = []int{1, 2, 3, 4, 8, 16}
	}
	for _, q := range qs {
		r.c12TCPSequential(1+q%2, q, 1<<20)
	}
	// small frames, every third one signed (nonce + signature trailer), both versions: whole frames after the handshake
	r.c12TCPSequential(1, 16, 24)
	r.c12TCPSequential(2, 16, 24)
	c18DialContexts(r) // the first two bytes are the requested handshake, reserve nibble included
	r.c12WSPingDuringBigWrite()
	gs := [][4]int{{2, 40, 16, 0}, {8, 30, 16, 1024}, {16, 20, 4, 0}}
	if r.thorough() {
		gs = append(gs, [4]int{8, 200, 16, 1024}, [4]int{4, 100, 1, 0}, [4]int{16, 100, 8, 1})
	}
	for i, c := range gs {
		r.c12TCPConcurrent(1+i%2, c[0], c[1], c[2], c[3])
	}
	r.c12TCPConcurrentStalled(1, 8, 4)
	r.c12LastSlotRace()
	r.c12WS(1, 16, 12, false)
	r.c12WS(2, 4, 12, false)
	r.c12WS(1, 256, 50, true)
}

// c18DialContexts: dial through the registered dialers with handshakes whose reserve nibble is not zero; the peer must
// read exactly the two handshake bytes and the connection's context must hold the requested version, codec, platform.
func c18DialContexts(r *Run) {
	for _, h := range []protocol.Handshake{{Version: 1, Codec: 1, Platform: 9, Reserve: 0}, {Version: 1, Codec: 2, Platform: 9, Reserve: 1},
		{Version: 2, Codec: 1, Platform: 3, Reserve: 5}, {Version: 2, Codec: 15, Platform: 15, Reserve: 15}} {
		peer := newTCPPeer()
		u, _ := url.Parse(peer.url())
		d, _ := client.GetDialer("tcp")
		hh := h
		o := &client.DialOptions{Timeout: 2 * time.Second, AuthTimeout: time.Second, WriteQueueSize: 4, ReadQueueSize: 4, ReadBufferSize: 4096}
		conn, err := d(context.Background(), newRecLogger(), u, &hh, o)
		if err != nil {
			peer.shutdown()
			continue
		}
		pc := peer.accept(2 * time.Second)
		cs := fmt.Sprintf("tcp dial with handshake version %d codec %d platform %d reserve %d", h.Version, h.Codec, h.Platform, h.Reserve)
		if pc != nil && pc.readHandshake(2*time.Second) {
			want := []byte{h.Version&15 | uint8(h.Codec)<<4, uint8(h.Platform)&15 | h.Reserve<<4}
			if !bytes.Equal(pc.hs, want) {
				r.violate(Violation{What: "the first two bytes on the connection are not the requested handshake", Case: cs, Impl: hx(pc.hs), Expect: hx(want)})
			}
		}
		ctx := conn.Context()
		if ctx.Version != h.Version || ctx.Codec != h.Codec || ctx.Platform != h.Platform {
			r.violate(Violation{What: "the dialled connection's context does not carry the requested version / codec / platform", Case: cs,
				Impl: fmt.Sprintf("%d %d %d", ctx.Version, ctx.Codec, ctx.Platform)})
		}
		conn.Close(nil)
		peer.shutdown()
		r.st.Evaluations++
	}
	r.count("dial.contexts")
}

// c12WSPingDuringBigWrite: the client's keepalive pings fire while its writer is in the middle of large data messages
// towards a peer that reads late: every binary message must still be exactly one whole frame, each accepted write
// arrives once, and the pings get through.
func (r *Run) c12WSPingDuringBigWrite() {
	s, err := openSessionPrep("ws", 1, nil, client.Keepalive(200*time.Millisecond), client.KeepaliveTimeout(20*time.Second), client.MinGzipSize(0), client.WriteQueueSize(8))
	if err != nil {
		return
	}
	defer s.close()
	pc := s.lk.(wsLink).pc
	atomic.StoreInt32(&pc.stopRead, 1)
	if tc, ok := pc.c.UnderlyingConn().(*net.TCPConn); ok {
		tc.SetReadBuffer(8192) // so that the client's writer really blocks in the socket write
	} else if os.Getenv("VH_DEBUG") != "" {
		fmt.Fprintf(os.Stderr, "underlying conn is %T\n", pc.c.UnderlyingConn())
	}
	// 10 MiB of random printable characters: the frame stays about 8 MiB after compression (the gzip threshold cannot be
	// switched off through the client options: 0 means the default)
	raw := r.rng.Fork().Bytes(10 << 20)
	for i := range raw {
		raw[i] = 33 + raw[i]%90
	}
	big := &control.Close{Reason: string(raw)}
	var chans []chan doResult
	for i := 0; i < 3; i++ {
		chans = append(chans, s.tc.doAsync(uint32(100+i), big, 6*time.Second))
		time.Sleep(20 * time.Millisecond)
	}
	// several keepalive ticks while the writer is blocked; the peer pings too: the answers are control messages that must
	// wait for (never cut into, never run beside) the data message in transmission
	for i := 0; i < 4; i++ {
		time.Sleep(150 * time.Millisecond)
		pc.wmu.Lock()
		pc.c.WriteControl(websocket.PingMessage, []byte(fmt.Sprintf("peer-ping-%d", i)), time.Now().Add(time.Second))
		pc.wmu.Unlock()
	}
	if tc, ok := pc.c.UnderlyingConn().(*net.TCPConn); ok {
		tc.SetReadBuffer(4 << 20) // drain quickly: the client gives its control messages 3 s
	}
	atomic.StoreInt32(&pc.stopRead, 0)
	tDbg := time.Now()
	frames, pings, pongs, bad := 0, 0, 0, ""
	deadline := time.Now().Add(5 * time.Second)
	for time.Now().Before(deadline) && (frames < 3 || pongs < 4) {
		if frames == 3 && time.Until(deadline) > 700*time.Millisecond {
			deadline = time.Now().Add(700 * time.Millisecond) // the answers to the peer's pings may follow the last frame
		}
		m := pc.next(time.Until(deadline))
		if m == nil || m.kind == -1 {
			break
		}
		if os.Getenv("VH_DEBUG") != "" {
			fmt.Fprintf(os.Stderr, "peer got kind %d len %d at %v\n", m.kind, len(m.data), time.Since(tDbg))
		}
		switch m.kind {
		case websocket.PingMessage:
			pings++
		case websocket.PongMessage:
			pongs++
		case websocket.BinaryMessage:
			f, n, verdict := refDecode(1, m.data)
			if verdict != "OK" || n != len(m.data) {
				bad = fmt.Sprintf("a binary message of %d bytes is not exactly one whole frame (%s)", len(m.data), verdict)
			} else if f.Type == 1 && f.Cmd >= 100 {
				frames++
			}
		}
	}
	cs := "ws: keepalive 200 ms, three 8 MiB (after compression) requests towards a peer that starts reading after 0.6 s and sends 4 pings meanwhile"
	if bad != "" {
		r.violate(Violation{What: bad, Case: cs})
	} else if frames != 3 {
		if s.tc.log.count("write timeout") > 0 {
			// the client gives every control message 3 s on the socket and recycles the connection when that passes: on a
			// machine so loaded that the 0.6 s stall became 3 s the scenario says nothing
			r.count("c12.ws.ping-during-big-write.inconclusive")
		} else {
			r.violate(Violation{What: fmt.Sprintf("%d of the 3 accepted frames arrived", frames), Case: cs})
		}
	}
	if os.Getenv("VH_DEBUG") != "" {
		fmt.Fprintln(os.Stderr, strings.Join(s.tc.log.snapshot(), "\n"))
	}
	r.st.Dist["c12.ws.ping-during-big-write.pings"] += pings
	r.st.Dist["c12.ws.ping-during-big-write.pongs-to-peer-pings"] += pongs
	r.st.Dist["c12.ws.ping-during-big-write.pings-sent"] += s.tc.log.count("send ping")
	r.st.Dist["c12.ws.ping-during-big-write.queue-full"] += s.tc.log.count("keepalive failed to ping")
	r.st.Evaluations++
}

// c12LastSlotRace: the writer is stuck in a transmission the peer does not read, the queue has exactly one free slot,
// and many callers reach the enqueue step at the same moment (conn.write.before-enqueue gate, opened for all at once).
// Every call must return at once, one with success at most... whoever loses gets the queue-full error.
func (r *Run) c12LastSlotRace() {
	rounds := 6
	if r.thorough() {
		rounds = 40
	}
	const W = 12
	for round := 0; round < rounds; round++ {
		hub.reset()
		peer := newTCPPeer()
		conn, err := dialConn(peer.url(), 1, 2, 1<<30)
		if err != nil {
			peer.shutdown()
			continue
		}
		pc := peer.accept(2 * time.Second)
		cs := fmt.Sprintf("tcp, stalled peer, WriteQueueSize 2: a 12 MiB frame in transmission, one frame queued, then %d callers released together at the enqueue step (round %d)", W, round)
		if pc != nil {
			if tc, ok := pc.c.(*net.TCPConn); ok {
				tc.SetReadBuffer(64 << 10) // no receive-buffer autotuning: the sender's buffers (at most 4 MiB) are all there is
			}
			big := &PK{Type: 3, Cmd: 100, Codec: 1, Vals: map[string]string{}, Body: make([]byte, 12<<20)}
			conn.Write(big.toPacket(), protocol.GzipSize(1<<30))
			time.Sleep(150 * time.Millisecond) // the writer has taken it and is blocked in the socket write
			conn.Write(framePK(0, 16).toPacket(), protocol.GzipSize(1<<30))
			g := hub.armAll("conn.write.before-enqueue", nil)
			var mu sync.Mutex
			returned, okN := 0, 0
			for w := 0; w < W; w++ {
				go func(w int) {
					defer func() { recover() }()
					err := conn.Write(framePK(w+2, 16).toPacket(), protocol.GzipSize(1<<30))
					mu.Lock()
					returned++
					if err == nil {
						okN++
					}
					mu.Unlock()
				}(w)
			}
			parked := 0
			for w := 0; w < W; w++ {
				if !g.waitParked(2 * time.Second) {
					break
				}
				parked++
			}
			atomic.StoreInt32(&g.spinN, int32(parked))
			g.open()
			ok := waitUntil(2*time.Second, func() bool { mu.Lock(); defer mu.Unlock(); return returned == W })
			mu.Lock()
			n, a := returned, okN
			mu.Unlock()
			if !ok {
				r.violate(Violation{What: fmt.Sprintf("%d of %d Write calls racing for the last free queue slot did not return within 2 s while the peer was stalled (%d accepted): a full write queue must be an error, not a blocked caller", W-n, W, a), Case: cs})
			}
			r.st.Dist["c12.tcp.last-slot-race.accepted"] += a
		}
		hub.reset()
		r.st.Evaluations++
		r.count("c12.tcp.last-slot-race")
		func() { defer func() { recover() }(); conn.Close(nil) }()
		peer.shutdown()
		if len(r.st.Violations) > 0 {
			break
		}
	}
}
