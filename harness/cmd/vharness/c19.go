package main

import (
	"context"
	"fmt"
	"sort"
	"strings"
	"sync"

	protocol "github.com/longportapp/openapi-protocol/go"
)

func init() { props["C19"] = runC19 }

func metaIDStr(p protocol.Packet) string {
	m := p.Metadata
	return fmt.Sprintf("%d %d %d %d %s %d %s", ptypeNum(m.Type), m.CmdCode, m.RequestId, m.StatusCode, b01(m.Verify), m.Nonce, hx(m.Signature))
}

func runC19(r *Run) {
	g := r.rng
	r.st.Rule = "histories of constructor calls (NewRequest, MustNewRequest, NewResponse, MustNewResponse, NewPush, MustNewPush) with random option lists (WithRequestId, WithStatusCode, WithVerify, in any order and multiplicity) over 1-3 contexts, every resulting packet's type/cmd/id/status/verify compared with the model; G x M goroutines on one context must produce exactly the multiset {1..GM}, each goroutine seeing increasing ids, a second context unaffected (direct oracle); with failing builds (unmarshalable body) mixed in, sequentially against the model and concurrently (ids of the successful requests pairwise distinct, increasing per goroutine); 2^31+2 successive ids of one context (thorough: 2^32-1); the same with all goroutines spreading one shared option slice with spare capacity into the constructors (ids and status codes must stay their own). distinct = distinct request lines"
	nh := 400
	if r.thorough() {
		nh = 8000
	}
	for i := 0; i < nh; i++ {
		nctx := 1 + g.Intn(3)
		ctxs := make([]*protocol.Context, nctx)
		for c := range ctxs {
			ctxs[c] = protocol.NewContext(context.Background(), protocol.ClientSide)
			ctxs[c].Codec = protocol.CodecProtobuf
		}
		n := 1 + g.Intn(30)
		var calls, outs []string
		perCtxReq := make([]uint32, nctx)
		gap := make([]bool, nctx)
		for j := 0; j < n; j++ {
			c := g.Intn(nctx)
			cmd := uint32(g.Intn(300))
			var opts []protocol.PacketOption
			var os []string
			callerRid, hasRid := uint32(0), false
			for k := g.Intn(4); k > 0; k-- {
				switch g.Intn(3) {
				case 0:
					id := uint32(g.Intn(100000))
					opts = append(opts, protocol.WithRequestId(id))
					os = append(os, fmt.Sprintf("r%d", id))
					callerRid, hasRid = id, true
				case 1:
					code := uint8(g.Intn(256))
					opts = append(opts, protocol.WithStatusCode(code))
					os = append(os, fmt.Sprintf("s%d", code))
				default:
					nonce := g.U64() >> uint(g.Intn(64))
					sig := g.Bytes(g.Intn(20))
					opts = append(opts, protocol.WithVerify(nonce, sig))
					os = append(os, fmt.Sprintf("v%d.%s", nonce, hx(sig)))
				}
			}
			ostr := "-"
			if len(os) > 0 {
				ostr = strings.Join(os, ",")
			}
			var p protocol.Packet
			var ct string
			code := uint8(g.Intn(256))
			body := []byte("x")
			isReq := false
			failed := false
			switch g.Intn(7) {
			case 6: // a request whose body cannot be marshalled: the call fails (after the id was drawn)
				_, err := protocol.NewRequest(ctxs[c], cmd, 42, opts...)
				ct, failed = "f", true
				if err == nil {
					r.violate(Violation{What: "NewRequest accepted a body that the codec cannot marshal", Case: strings.Join(calls, " ")})
				}
				gap[c] = true
			case 0:
				p, _ = protocol.NewRequest(ctxs[c], cmd, body, opts...)
				ct, isReq = "q", true
			case 1:
				p = protocol.MustNewRequest(ctxs[c], cmd, body, opts...)
				ct, isReq = "Q", true
			case 2:
				p, _ = protocol.NewResponse(ctxs[c], cmd, code, body, opts...)
				ct = fmt.Sprintf("p%d", code)
			case 3:
				p = protocol.MustNewResponse(ctxs[c], cmd, code, body, opts...)
				ct = fmt.Sprintf("P%d", code)
			case 4:
				p, _ = protocol.NewPush(ctxs[c], cmd, body, opts...)
				ct = "u"
			default:
				p = protocol.MustNewPush(ctxs[c], cmd, body, opts...)
				ct = "U"
			}
			calls = append(calls, fmt.Sprintf("%d~%s~%d~%s", c, ct, cmd, ostr))
			if failed {
				outs = append(outs, "ERR")
				continue
			}
			outs = append(outs, metaIDStr(p))
			// direct oracle: the next id in issue order (after a failed build any larger id would do)
			if isReq {
				id := p.Metadata.RequestId
				if (!gap[c] && id != perCtxReq[c]+1) || id <= perCtxReq[c] {
					r.violate(Violation{What: fmt.Sprintf("request constructor did not stamp a fresh id in issue order (got %d after %d): caller options must not override it", id, perCtxReq[c]), Case: strings.Join(calls, " ")})
				}
				perCtxReq[c], gap[c] = id, false
			} else if hasRid && p.Metadata.RequestId != callerRid || (!hasRid && p.Metadata.RequestId != 0) {
				r.violate(Violation{What: "response/push constructor did not leave the id to the caller", Case: strings.Join(calls, " ")})
			}
		}
		r.emit(fmt.Sprintf("id.hist 1 %d %s", nctx, strings.Join(calls, " ")), strings.Join(outs, " ; "), true)
		r.count(fmt.Sprintf("hist.ctx%d", nctx))
	}
	// concurrency
	for gi, gm := range [][2]int{{2, 5000}, {8, 4000}, {16, 2000}, {64, 300}, {8, 4000}, {16, 2000}} {
		G, M := gm[0], gm[1]
		withFailures := gi >= 4 // failing builds in between: the ids of the successful ones stay distinct and increasing
		if r.thorough() {
			M *= 5
		}
		ctx := protocol.NewContext(context.Background(), protocol.ClientSide)
		other := protocol.NewContext(context.Background(), protocol.ClientSide)
		ids := make([][]uint32, G)
		var wg sync.WaitGroup
		start := make(chan struct{})
		for w := 0; w < G; w++ {
			wg.Add(1)
			go func(w int) {
				defer wg.Done()
				<-start
				for i := 0; i < M; i++ {
					var p protocol.Packet
					switch i % 3 {
					case 0:
						p, _ = protocol.NewRequest(ctx, 9, nil)
					case 1:
						p = protocol.MustNewRequest(ctx, 9, nil, protocol.WithRequestId(7))
					default:
						p, _ = protocol.NewRequest(ctx, 9, nil, protocol.WithStatusCode(3))
					}
					ids[w] = append(ids[w], p.Metadata.RequestId)
					if withFailures && i%2 == w%2 {
						protocol.NewRequest(ctx, 9, 42) // cannot be marshalled: fails after its id was drawn
					}
				}
			}(w)
		}
		close(start)
		wg.Wait()
		var all []uint32
		bad := ""
		for w := range ids {
			for i := 1; i < len(ids[w]); i++ {
				if ids[w][i] <= ids[w][i-1] {
					bad = "a goroutine saw non-increasing ids"
				}
			}
			all = append(all, ids[w]...)
		}
		sort.Slice(all, func(i, j int) bool { return all[i] < all[j] })
		for i, id := range all {
			if !withFailures && id != uint32(i+1) {
				bad = fmt.Sprintf("ids handed out to %d goroutines x %d calls are not exactly {1..%d} (position %d holds %d)", G, M, G*M, i, id)
				break
			}
			if withFailures && (id == 0 || (i > 0 && id == all[i-1])) {
				bad = fmt.Sprintf("with failing builds in between, %d goroutines x %d calls: id %d was handed out twice (or is 0)", G, M, id)
				break
			}
		}
		if p, _ := protocol.NewRequest(other, 1, nil); p.Metadata.RequestId != 1 {
			bad = "an independent context was affected"
		}
		if bad != "" {
			r.violate(Violation{What: bad, Case: fmt.Sprintf("%d goroutines x %d calls", G, M)})
		}
		r.st.Dist[fmt.Sprintf("concurrent.%dx%d.failures%v", G, M, withFailures)] = G * M
	}
	// the goroutines spread one shared option slice (with spare capacity) into their calls: the constructors may read it,
	// never write to it - a stamped id or status code written into the caller's array would reach another goroutine's packet
	for round := 0; round < 3; round++ {
		const G, M = 8, 2500
		ctx := protocol.NewContext(context.Background(), protocol.ClientSide)
		shared := make([]protocol.PacketOption, 1, 8)
		shared[0] = protocol.WithVerify(1, []byte("0123456789abcdef"))
		ids := make([][]uint32, G)
		wrongStatus := make([]int, G)
		var wg sync.WaitGroup
		start := make(chan struct{})
		for w := 0; w < G; w++ {
			wg.Add(1)
			go func(w int) {
				defer wg.Done()
				<-start
				for i := 0; i < M; i++ {
					switch i % 3 {
					case 0:
						p, _ := protocol.NewRequest(ctx, 9, nil, shared...)
						ids[w] = append(ids[w], p.Metadata.RequestId)
					case 1:
						p := protocol.MustNewRequest(ctx, 9, nil, shared...)
						ids[w] = append(ids[w], p.Metadata.RequestId)
					default:
						p, _ := protocol.NewResponse(ctx, 9, uint8(10+w), nil, shared...)
						if p.Metadata.StatusCode != uint8(10+w) {
							wrongStatus[w]++
						}
					}
				}
			}(w)
		}
		close(start)
		wg.Wait()
		var all []uint32
		for w := range ids {
			all = append(all, ids[w]...)
		}
		sort.Slice(all, func(i, j int) bool { return all[i] < all[j] })
		bad := ""
		for i, id := range all {
			if id != uint32(i+1) {
				bad = fmt.Sprintf("ids handed out are not exactly {1..%d}: position %d of the sorted ids holds %d", len(all), i, id)
				break
			}
		}
		for w, n := range wrongStatus {
			if n > 0 && bad == "" {
				bad = fmt.Sprintf("%d responses built by goroutine %d carry another goroutine's status code", n, w)
			}
		}
		if len(shared) != 1 {
			bad = "the caller's option slice was changed"
		}
		if bad != "" {
			r.violate(Violation{What: bad, Case: fmt.Sprintf("%d goroutines x %d calls (NewRequest, MustNewRequest, NewResponse) on one context, all spreading one option slice of length 1 and capacity 8", G, M)})
			break
		}
		r.st.Evaluations++
		r.count("concurrent.shared-option-slice")
	}
	// a long-lived context: the ids keep counting up through the 2^31 boundary (quick: 2^31+2 draws; thorough: all 2^32-1
	// ids a context can hand out before the 32-bit counter wraps, the bound of the model's draws_distinct theorem)
	{
		ctx := protocol.NewContext(context.Background(), protocol.ClientSide)
		n := uint64(1)<<31 + 2
		if r.thorough() {
			n = uint64(1)<<32 - 4
		}
		prev, bad := uint32(0), ""
		for i := uint64(1); i <= n; i++ {
			id := ctx.NextReqId()
			if id != prev+1 {
				bad = fmt.Sprintf("draw %d on one context returned %d after %d", i, id, prev)
				break
			}
			prev = id
		}
		if bad == "" {
			for k := uint64(1); k <= 3; k++ {
				p, _ := protocol.NewRequest(ctx, 5, nil)
				if uint64(p.Metadata.RequestId) != n+k {
					bad = fmt.Sprintf("request %d after %d draws carries id %d, want %d", k, n, p.Metadata.RequestId, n+k)
					break
				}
			}
		}
		if bad != "" {
			r.violate(Violation{What: "request ids of a long-lived context do not keep increasing: " + bad, Case: fmt.Sprintf("%d successive ids of one context", n+3)})
		}
		r.st.Evaluations++
		r.st.Dist["long-lived-context.draws"] = int(n + 3)
	}
	// a second handshake on the same context (same or other registered version) does not restart the id sequence
	for _, v2 := range []uint8{1, 2, 7} {
		ctx := protocol.NewContext(context.Background(), protocol.ClientSide)
		ctx.Handshake(&protocol.Handshake{Version: 1, Codec: 1, Platform: 9})
		var ids []uint32
		for i := 0; i < 3; i++ {
			p, _ := protocol.NewRequest(ctx, 5, nil)
			ids = append(ids, p.Metadata.RequestId)
		}
		ctx.Handshake(&protocol.Handshake{Version: v2, Codec: 1, Platform: 9})
		for i := 0; i < 3; i++ {
			p, _ := protocol.NewRequest(ctx, 5, nil)
			ids = append(ids, p.Metadata.RequestId)
		}
		if fmt.Sprint(ids) != "[1 2 3 4 5 6]" {
			r.violate(Violation{What: "request ids of one context are not 1..n in issue order across a second handshake", Case: fmt.Sprintf("handshake v1, 3 requests, handshake v%d, 3 requests", v2), Impl: fmt.Sprint(ids)})
		}
		r.st.Evaluations++
	}
}
