package main

// C05 (responses matched to the right request) and C07 (a timely response is never lost):
// scripted peer, k concurrent calls, the history the script forces is replayed by Model/Waiters.v.

import (
	"encoding/json"
	"fmt"
	"strings"
	"time"

	"github.com/gorilla/websocket"
	control "github.com/longportapp/openapi-protobufs/gen/go/control"
	protocol "github.com/longportapp/openapi-protocol/go"
	"github.com/longportapp/openapi-protocol/go/client"
	"google.golang.org/protobuf/proto"
)

func init() {
	props["C05"] = runC05
	props["C07"] = runC07
}

// link abstracts the two transports for the scripted peer side.
type link interface {
	sendFrame(b []byte) error
	nextRequest(d time.Duration) *RefFrame // next data frame the client sent
	drop()
}
type tcpLink struct{ pc *peerConn }

func (l tcpLink) sendFrame(b []byte) error              { return l.pc.send(b) }
func (l tcpLink) nextRequest(d time.Duration) *RefFrame { return l.pc.readFrame(d) }
func (l tcpLink) drop()                                 { l.pc.close() }

type wsLink struct {
	pc *wsPeerConn
	v  int
}

func (l wsLink) sendFrame(b []byte) error {
	l.pc.wmu.Lock()
	defer l.pc.wmu.Unlock()
	return l.pc.c.WriteMessage(websocket.BinaryMessage, b)
}
func (l wsLink) nextRequest(d time.Duration) *RefFrame {
	deadline := time.Now().Add(d)
	for {
		m := l.pc.next(time.Until(deadline))
		if m == nil || m.kind == -1 {
			return nil
		}
		if m.kind == websocket.BinaryMessage {
			f, _, verdict := refDecode(l.v, m.data)
			if verdict != "OK" {
				return nil
			}
			return f
		}
	}
}
func (l wsLink) drop() { l.pc.c.Close() }

// session: a connected client + the peer side of its (first) connection.
type session struct {
	tc    *testClient
	lk    link
	tcp   *tcpPeer
	ws    *wsPeer
	v     int
	trans string
}

func openSession(trans string, v int, opts ...client.DialOption) (*session, error) {
	return openSessionPrep(trans, v, nil, opts...)
}

// openSessionPrep lets the scenario register handlers before dialing (the documented order).
func openSessionPrep(trans string, v int, prep func(*testClient), opts ...client.DialOption) (*session, error) {
	s := &session{tc: newTestClient(), v: v, trans: trans}
	if prep != nil {
		prep(s.tc)
	}
	opts = append([]client.DialOption{client.Keepalive(time.Hour), client.KeepaliveTimeout(2 * time.Hour)}, opts...)
	errc := make(chan error, 1)
	if trans == "tcp" {
		s.tcp = newTCPPeer()
		go func() { errc <- s.tc.dial(s.tcp.url(), uint8(v), opts...) }()
		pc := s.tcp.accept(3 * time.Second)
		if pc == nil || !pc.readHandshake(3*time.Second) {
			return nil, fmt.Errorf("peer saw no connection/handshake")
		}
		s.lk = tcpLink{pc}
	} else {
		s.ws = newWSPeer()
		go func() { errc <- s.tc.dial(s.ws.url(), uint8(v), opts...) }()
		pc := s.ws.accept(3 * time.Second)
		if pc == nil {
			return nil, fmt.Errorf("peer saw no websocket connection")
		}
		s.lk = wsLink{pc, v}
	}
	select {
	case err := <-errc:
		if err != nil {
			return nil, err
		}
	case <-time.After(3 * time.Second):
		return nil, fmt.Errorf("Dial did not return")
	}
	return s, nil
}
func (s *session) close() {
	done := make(chan struct{})
	go func() {
		defer close(done)
		defer func() { recover() }()
		s.tc.cli.Close(nil)
	}()
	select { // clean-up must not hang the suite; promptness of Close is C14's own oracle
	case <-done:
	case <-time.After(3 * time.Second):
	}
	if s.tcp != nil {
		s.tcp.shutdown()
	}
	if s.ws != nil {
		s.ws.shutdown()
	}
}

func perrEntry(body []byte) string {
	var e control.Error
	if err := proto.Unmarshal(body, &e); err != nil {
		return "perr:" + hx(body) + "=-"
	}
	return fmt.Sprintf("perr:%s=%d.%s", hx(body), e.GetCode(), hx([]byte(e.GetMsg())))
}

func (g *RNG) errorBody() []byte {
	switch g.Intn(5) {
	case 0:
		return nil
	case 1:
		return g.Bytes(1 + g.Intn(10)) // usually not a control.Error
	case 2:
		return errBody(0, "only a message")
	case 3:
		return errBody(uint64(g.Intn(100000)), "")
	}
	return errBody(uint64(400+g.Intn(200)), g.asciiStr(1+g.Intn(12)))
}

// c05Scenario: k calls outstanding, the peer sends a scripted packet list; every effect is awaited.
func (r *Run) c05Scenario(trans string, v int, k int, npk int) {
	g := r.rng
	s, err := openSession(trans, v)
	if err != nil {
		r.violate(Violation{What: "scenario setup failed: " + err.Error(), Case: trans})
		return
	}
	defer s.close()
	var events, entries []string
	chans := make([]chan doResult, k)
	ids := make([]uint32, k)
	const T = 1500 * time.Millisecond
	for i := 0; i < k; i++ {
		chans[i] = s.tc.doAsync(uint32(20+i), nil, T)
		f := s.lk.nextRequest(2 * time.Second)
		if f == nil {
			r.violate(Violation{What: "request frame did not reach the peer", Case: fmt.Sprintf("%s call %d", trans, i)})
			return
		}
		ids[i] = f.Rid
		events = append(events, "S", fmt.Sprintf("R%d", i), fmt.Sprintf("W%d.1", i))
	}
	outstanding := map[int]bool{}
	for i := range ids {
		outstanding[i] = true
	}
	results := make([]string, k)
	got := s.tc.log.count("got packet")
	for n := 0; n < npk; n++ {
		var ty int
		var cmd uint8
		var rid uint32
		var status uint8
		var body []byte
		target := -1
		switch c := g.Intn(10); {
		case c < 4 && len(outstanding) > 0: // answer an outstanding call (any order)
			for i := range outstanding {
				target = i
				if g.Bool() {
					break
				}
			}
			ty, cmd, rid = 2, uint8(20+target), ids[target]
			if g.Chance(15) {
				cmd = 2 // an AUTH-command response is routed to waiters too
			}
			if g.Chance(50) {
				status = uint8(1 + g.Intn(255))
				body = g.errorBody()
			} else {
				body = g.Bytes(g.Intn(20))
			}
		case c < 6: // duplicate / stale / unknown id
			ty, cmd, status, body = 2, uint8(20+g.Intn(k)), uint8(g.Intn(3)), g.Bytes(g.Intn(8))
			rid = []uint32{uint32(1000 + g.Intn(100)), 0, 0xffffffff, ids[g.Intn(k)]}[g.Intn(4)]
			for i := range outstanding {
				if ids[i] == rid {
					rid = 99999 // keep this branch unsolicited
				}
			}
		case c < 8: // push (no id on the wire)
			ty, cmd, body = 3, uint8(50+g.Intn(5)), g.Bytes(g.Intn(8))
		case c < 9: // a request from the peer whose id collides with an outstanding call
			ty, cmd, body = 1, uint8(60+g.Intn(5)), g.Bytes(g.Intn(8))
			if g.Chance(40) {
				cmd = uint8(2 + g.Intn(2)) // AUTH / RECONNECT as a request frame: not a response either
			}
			rid = ids[g.Intn(k)]
		default: // heartbeat response (pong)
			ty, cmd, rid, body = 2, 1, uint32(g.Intn(5)), nil
		}
		f := &RefFrame{V: v, Type: ty, Cmd: cmd, Rid: rid, Status: status, Body: body, MLenField: -1, BLenField: -1}
		if err := s.lk.sendFrame(f.encode()); err != nil {
			r.violate(Violation{What: "peer could not send", Case: trans})
			return
		}
		wireRid := rid
		if ty == 3 {
			wireRid = 0
		}
		events = append(events, fmt.Sprintf("D.%d.%d.%d.%d.%d.%s", n, ty, cmd, wireRid, status, hx(body)))
		if ty == 2 && status != 0 {
			entries = append(entries, perrEntry(body))
		}
		got++
		if !s.tc.log.waitCount("got packet", got, 2*time.Second) {
			r.violate(Violation{What: "a frame sent by the peer never reached onPacket", Case: strings.Join(events, " ")})
			return
		}
		if target >= 0 {
			events = append(events, fmt.Sprintf("F%d", target))
			res, ok := awaitDo(chans[target], T+time.Second)
			if !ok {
				results[target] = "HANG"
			} else {
				results[target] = resultStr(res)
				// direct oracle: the returned packet carries this call's id
				if res.pkt != nil && res.pkt.Metadata.RequestId != ids[target] {
					r.violate(Violation{What: "a call returned a packet with another request id", Case: strings.Join(events, " ")})
				}
				if res.pkt != nil && res.pkt.Metadata.Type != protocol.ResponsePacket {
					r.violate(Violation{What: "a call returned a packet that is not a response", Case: strings.Join(events, " ")})
				}
				if res.err != nil && strings.Contains(res.err.Error(), "timeout") {
					r.violate(Violation{What: "the matching response was delivered while the call was waiting, but the call timed out", Case: strings.Join(events, " "), Sig: "c07-lost-response"})
				}
			}
			delete(outstanding, target)
		}
	}
	for i := 0; i < k; i++ {
		if outstanding[i] {
			events = append(events, fmt.Sprintf("T%d", i))
			res, ok := awaitDo(chans[i], T+2*time.Second)
			if !ok {
				results[i] = "HANG"
				r.violate(Violation{What: "Do did not return after its timeout", Case: strings.Join(events, " ")})
			} else {
				results[i] = resultStr(res)
				if res.pkt != nil {
					r.violate(Violation{What: "a call nobody answered returned a packet (id " + fmt.Sprint(res.pkt.Metadata.RequestId) + ")", Case: strings.Join(events, " ")})
				}
			}
		}
	}
	nr := s.tc.log.count("no receiver for req")
	dup := s.tc.log.count("duplicate response of req")
	unsup := s.tc.log.count("did't support request")
	out := fmt.Sprintf("%s | nr=%d dup=%d unsup=%d", strings.Join(results, " ; "), nr, dup, unsup)
	req := "wt.run " + strings.Join(events, " ")
	if len(entries) > 0 {
		req += " " + strings.Join(entries, " ")
	}
	r.emit(req, out, true)
	r.count(fmt.Sprintf("c05.%s.v%d.k%d", trans, v, k))
}

func runC05(r *Run) {
	installHooks()
	g := r.rng
	r.st.Rule = "scripted peer over TCP and WebSocket (v1 and v2): k in 1..8 concurrent calls outstanding, then a random list of packets — answers in any order, statuses 0..255 with error bodies (valid control.Error, code 0, empty, garbage), AUTH-command responses, duplicate/stale/unknown ids, pushes, peer requests whose id collides with an outstanding call, heartbeat responses — each awaited before the next; unanswered calls time out. The history is replayed by Model/Waiters.v and every call's result and the no-receiver/duplicate/unsupported log counts are compared; direct oracle: a returned packet carries the call's own id. All 256 status codes are covered by a dedicated sweep, on connections that negotiated protobuf and on connections that negotiated the JSON codec (error body decoded accordingly). A call answered twice in one burst is followed by a call that must get its own answer. A returned packet must be a response frame. Error bodies that decode only partially and JSON bodies with unknown members are in the sweep; a stale answer arriving on a connection the keepalive has replaced must not reach a call on the new one. distinct = distinct request lines"
	n := 10
	if r.thorough() {
		n = 120
	}
	for i := 0; i < n; i++ {
		trans := []string{"tcp", "ws"}[i%2]
		v := 1 + (i/2)%2
		r.c05Scenario(trans, v, 1+g.Intn(8), 4+g.Intn(12))
	}
	// all status codes 0..255, answered in order, both transports
	for _, trans := range []string{"tcp", "ws"} {
		r.c05Statuses(trans, false)
		r.c05Statuses(trans, true) // connections that negotiated the JSON codec decode the error body as JSON
		r.c05DupBurst(trans)
	}
	r.c05StaleOnReplacedConn()
}

func (r *Run) c05Statuses(trans string, jsonCodec bool) {
	s, err := openSessionPrep(trans, 1, func(tc *testClient) { tc.jsonCodec = jsonCodec })
	if err != nil {
		r.violate(Violation{What: "scenario setup failed: " + err.Error(), Case: trans})
		return
	}
	defer s.close()
	for base := 0; base < 256; base += 8 {
		var events, entries, results []string
		var chans []chan doResult
		var ids []uint32
		for i := 0; i < 8; i++ {
			chans = append(chans, s.tc.doAsync(uint32(30), nil, 2*time.Second))
			f := s.lk.nextRequest(2 * time.Second)
			if f == nil {
				r.violate(Violation{What: "request frame did not reach the peer", Case: trans})
				return
			}
			ids = append(ids, f.Rid)
		}
		// the model numbers calls from 0 with ids from 1: replay this batch as its own history
		for i := 0; i < 8; i++ {
			events = append(events, "S", fmt.Sprintf("R%d", i), fmt.Sprintf("W%d.1", i))
		}
		for i := 7; i >= 0; i-- { // answer in reverse order
			st := uint8(base + i)
			body := errBody(uint64(1000+int(st)), fmt.Sprintf("m%d", st))
			if jsonCodec {
				body = []byte(fmt.Sprintf(`{"code":%d,"msg":"m%d"}`, 1000+int(st), st))
			}
			if st%3 == 0 {
				body = []byte{0xff, 0xfe, byte(st)}
			}
			if jsonCodec && st%7 == 2 { // a newer server may add members: they are ignored, code and message still count
				body = []byte(fmt.Sprintf(`{"code":%d,"msg":"m%d","retry_after_ms":250,"trace":{"id":"x"}}`, 1000+int(st), st))
			}
			if st%5 == 1 { // an error body whose beginning decodes and whose end does not: the fallback applies as a whole
				if jsonCodec {
					body = []byte(fmt.Sprintf(`{"code":%d,"msg":17}`, 40+int(st)))
				} else {
					full := errBody(uint64(40+int(st)), "boom-boom")
					body = full[:len(full)-2]
				}
			}
			f := &RefFrame{V: 1, Type: 2, Cmd: 30, Rid: ids[i], Status: st, Body: body, MLenField: -1, BLenField: -1}
			s.lk.sendFrame(f.encode())
			events = append(events, fmt.Sprintf("D.%d.2.30.%d.%d.%s", i, i+1, st, hx(body)), fmt.Sprintf("F%d", i))
			if st != 0 {
				if jsonCodec {
					entries = append(entries, jsonPerrEntry(body))
				} else {
					entries = append(entries, perrEntry(body))
				}
			}
		}
		for i := 0; i < 8; i++ {
			res, ok := awaitDo(chans[i], 3*time.Second)
			if !ok {
				results = append(results, "HANG")
				continue
			}
			rs := resultStr(res)
			// the implementation's ids continue across batches; the model's restart at 1: compare the rest
			if res.pkt != nil {
				if res.pkt.Metadata.RequestId != ids[i] {
					r.violate(Violation{What: "a call returned a packet with another request id", Case: fmt.Sprintf("status sweep base %d", base)})
				}
				if res.err == nil {
					rs = fmt.Sprintf("RESP %d %d %s", i+1, res.pkt.Metadata.StatusCode, hx(res.pkt.Body))
				}
			}
			st := uint8(base + i)
			if (st == 0) != (res.err == nil) {
				r.violate(Violation{What: fmt.Sprintf("status %d: success/error verdict wrong", st), Case: rs})
			}
			results = append(results, rs)
		}
		r.emit("wt.run "+strings.Join(events, " ")+" "+strings.Join(entries, " "), strings.Join(results, " ; ")+" | nr=0 dup=0 unsup=0", true)
	}
	if jsonCodec {
		r.count("c05.status-sweep-json." + trans)
	} else {
		r.count("c05.status-sweep." + trans)
	}
}

// jsonPerrEntry: what the error body means on a connection that negotiated the JSON codec.
func jsonPerrEntry(body []byte) string {
	var e control.Error
	if err := json.Unmarshal(body, &e); err != nil {
		return "perr:" + hx(body) + "=-"
	}
	return fmt.Sprintf("perr:%s=%d.%s", hx(body), e.GetCode(), hx([]byte(e.GetMsg())))
}

// c05DupBurst: the peer answers a call twice in one burst; the NEXT call must still get its own answer.
func (r *Run) c05DupBurst(trans string) {
	s, err := openSession(trans, 1)
	if err != nil {
		return
	}
	defer s.close()
	for round := 0; round < 12; round++ {
		chA := s.tc.doAsync(20, nil, time.Second)
		qa := s.lk.nextRequest(2 * time.Second)
		if qa == nil {
			return
		}
		fa := respFrame(1, 20, qa.Rid, 0, []byte(fmt.Sprintf("dup-%d", round)))
		if tl, ok := s.lk.(tcpLink); ok {
			tl.pc.send(append(append([]byte{}, fa...), fa...)) // both copies in one segment
		} else {
			s.lk.sendFrame(fa)
			s.lk.sendFrame(fa)
		}
		ra, okA := awaitDo(chA, 2*time.Second)
		if !okA || ra.pkt == nil || string(ra.pkt.Body) != fmt.Sprintf("dup-%d", round) {
			r.violate(Violation{What: "a call answered twice did not return its answer: " + resultStr(ra), Case: trans})
			return
		}
		chB := s.tc.doAsync(21, nil, time.Second)
		qb := s.lk.nextRequest(2 * time.Second)
		if qb == nil {
			return
		}
		s.lk.sendFrame(respFrame(1, 21, qb.Rid, 0, []byte(fmt.Sprintf("next-%d", round))))
		rb, okB := awaitDo(chB, 2*time.Second)
		if !okB || rb.pkt == nil || rb.pkt.Metadata.RequestId != qb.Rid || string(rb.pkt.Body) != fmt.Sprintf("next-%d", round) {
			r.violate(Violation{What: "the call after a doubly answered call did not get its own response: " + resultStr(rb),
				Case: fmt.Sprintf("%s round %d: call A (id %d) answered twice back to back, then call B (id %d) answered once", trans, round, qa.Rid, qb.Rid)})
			return
		}
		r.st.Evaluations++
	}
	r.count("c05.dup-burst." + trans)
}

// ---- C07 ----
func (r *Run) c07Scenario(trans string, k int, order string) {
	s, err := openSession(trans, 1)
	if err != nil {
		r.violate(Violation{What: "scenario setup failed: " + err.Error(), Case: trans})
		return
	}
	defer s.close()
	hub.reset()
	var gt *gate
	if order == "answer-before-caller-waits" {
		// park every caller right after its request was handed to the transport
		gt = &gate{parked: make(chan []interface{}, 64), release: make(chan struct{})}
		hub.mu.Lock()
		hub.gates["do.after-write"] = gt
		hub.mu.Unlock()
	}
	chans := make([]chan doResult, k)
	ids := make([]uint32, k)
	var events, results []string
	for i := 0; i < k; i++ {
		chans[i] = s.tc.doAsync(uint32(40+i), nil, 1200*time.Millisecond)
		f := s.lk.nextRequest(2 * time.Second)
		if f == nil {
			r.violate(Violation{What: "request frame did not reach the peer", Case: trans})
			return
		}
		ids[i] = f.Rid
		events = append(events, "S", fmt.Sprintf("R%d", i), fmt.Sprintf("W%d.1", i))
		if gt != nil && !gt.waitParked(2*time.Second) {
			r.violate(Violation{What: "caller did not reach the do.after-write hook", Case: trans})
			return
		}
	}
	got := s.tc.log.count("got packet")
	for i := k - 1; i >= 0; i-- {
		body := []byte(fmt.Sprintf("answer-%d", i))
		s.lk.sendFrame(respFrame(1, uint8(40+i), ids[i], 0, body))
		events = append(events, fmt.Sprintf("D.%d.2.%d.%d.0.%s", i, 40+i, ids[i], hx(body)))
		got++
		s.tc.log.waitCount("got packet", got, 2*time.Second)
	}
	// let handleResponse finish before the callers start waiting
	time.Sleep(30 * time.Millisecond)
	if gt != nil {
		gt.open()
	}
	for i := 0; i < k; i++ {
		events = append(events, fmt.Sprintf("F%d", i))
		res, ok := awaitDo(chans[i], 3*time.Second)
		rs := "HANG"
		if ok {
			rs = resultStr(res)
		}
		results = append(results, rs)
		if !ok || res.pkt == nil || res.pkt.Metadata.RequestId != ids[i] {
			r.violate(Violation{What: "the matching response reached the client before the deadline (" + order + ") but the call did not return it: " + rs,
				Case: strings.Join(events, " "), Sig: "c07-lost-response"})
		}
	}
	nr := s.tc.log.count("no receiver for req")
	out := fmt.Sprintf("%s | nr=%d dup=%d unsup=0", strings.Join(results, " ; "), nr, s.tc.log.count("duplicate response of req"))
	r.emit("wt.run "+strings.Join(events, " "), out, true)
	r.count("c07." + trans + "." + order)
	hub.reset()
}

// c07DefaultTimeout: a call without a timeout option keeps the documented default even after other calls
// used short timeouts; its response, arriving later than those short timeouts, must be returned.
func (r *Run) c07DefaultTimeout(trans string) {
	s, err := openSession(trans, 1)
	if err != nil {
		r.violate(Violation{What: "scenario setup failed: " + err.Error(), Case: trans})
		return
	}
	defer s.close()
	c1 := s.tc.doAsyncOpts(41, nil, client.RequestTimeout(120*time.Millisecond))
	f := s.lk.nextRequest(2 * time.Second)
	if f == nil {
		return
	}
	s.lk.sendFrame(respFrame(1, 41, f.Rid, 0, []byte("fast")))
	awaitDo(c1, 2*time.Second)
	c2 := s.tc.doAsyncOpts(42, nil) // no option: default timeout (10 s)
	f2 := s.lk.nextRequest(2 * time.Second)
	if f2 == nil {
		return
	}
	time.Sleep(450 * time.Millisecond)
	s.lk.sendFrame(respFrame(1, 42, f2.Rid, 0, []byte("slow")))
	res, ok := awaitDo(c2, 3*time.Second)
	rs := "HANG"
	if ok {
		rs = resultStr(res)
	}
	events := fmt.Sprintf("S R0 W0.1 D.0.2.41.1.0.%s F0 S R1 W1.1 D.1.2.42.2.0.%s F1", hx([]byte("fast")), hx([]byte("slow")))
	r.emit("wt.run "+events, fmt.Sprintf("RESP 1 0 %s ; %s | nr=%d dup=0 unsup=0", hx([]byte("fast")), rs, s.tc.log.count("no receiver for req")), true)
	if !ok || res.pkt == nil {
		r.violate(Violation{What: "a response that arrived 450 ms after the request, far inside the default request timeout, was not returned: " + rs,
			Case: "wt.run " + events + " (call 1 used RequestTimeout(120ms), call 2 no option)"})
	}
	r.count("c07.default-timeout." + trans)
}

// c07AfterRecovery: on a connection re-established after a drop, a response arriving 100 ms after the request is returned.
func (r *Run) c07AfterRecovery() {
	s, err := openSession("tcp", 1, client.DialTimeout(time.Second))
	if err != nil {
		r.violate(Violation{What: "scenario setup failed: " + err.Error(), Case: "tcp"})
		return
	}
	defer s.close()
	s.lk.drop()
	pc := s.tcp.accept(4 * time.Second)
	if pc == nil || !pc.readHandshake(2*time.Second) {
		r.violate(Violation{What: "client did not re-dial after the peer dropped the connection", Case: "c07 after-recovery"})
		return
	}
	if !waitUntil(3*time.Second, func() bool { return s.tc.reconCount() >= 1 }) {
		r.violate(Violation{What: "no after-reconnect callback after a successful re-dial", Case: "c07 after-recovery"})
		return
	}
	ch := s.tc.doAsync(43, nil, 2*time.Second)
	f := pc.readFrame(2 * time.Second)
	rs := "NOFRAME"
	if f != nil {
		time.Sleep(100 * time.Millisecond)
		pc.send(respFrame(1, 43, f.Rid, 0, []byte("again")))
		res, ok := awaitDo(ch, 3*time.Second)
		rs = "HANG"
		if ok {
			rs = resultStr(res)
		}
		// the re-dialled connection has its own id generator: this is its first request
		r.emit(fmt.Sprintf("wt.run S R0 W0.1 D.0.2.43.%d.0.%s F0", f.Rid, hx([]byte("again"))), rs+" | nr=0 dup=0 unsup=0", true)
	}
	if !strings.HasPrefix(rs, "RESP") {
		r.violate(Violation{What: "after a successful recovery a response arriving 100 ms after the request was not returned: " + rs, Case: "drop; re-dial; Do; answer after 100ms"})
	}
	r.count("c07.after-recovery")
}

func runC07(r *Run) {
	installHooks()
	r.st.Rule = "the three relative orders of {request handed to transport, waiter registered, response dispatched} that the code can produce are forced with the do.after-write hook: callers parked right after the write while the peer answers (response dispatched before the caller starts waiting), and the ordinary order; 1..8 concurrent callers, answers in reverse order, TCP and WebSocket; each call must return its response; history replayed by Model/Waiters.v. A response read and queued behind a push whose handler is still busy when the peer drops the connection must be returned (TCP and WebSocket). Also: answers carried in WebSocket text messages; bursts of answers behind a busy handler with a small write queue / large read queue. distinct = distinct request lines"
	ks := []int{1, 2, 5, 8}
	if r.thorough() {
		ks = []int{1, 2, 3, 4, 5, 6, 7, 8}
	}
	for _, trans := range []string{"tcp", "ws"} {
		for _, k := range ks {
			r.c07Scenario(trans, k, "answer-before-caller-waits")
			r.c07Scenario(trans, k, "ordinary")
		}
		r.c07DefaultTimeout(trans)
		r.c07QueuedThenDropped(trans)
		r.c07BurstBehindHandler(trans)
		r.c07BigReadQueue(trans)
	}
	r.c07TextMessageAnswer()
	r.c07AfterRecovery()
}

// c07QueuedThenDropped: the response was read from the live connection and queued behind a push whose handler is
// still running when the peer drops the connection: it arrived in time and must be returned.
func (r *Run) c07QueuedThenDropped(trans string) {
	entered := make(chan struct{}, 1)
	s, err := openSessionPrep(trans, 1, func(tc *testClient) {
		first := true
		tc.cli.Subscribe(50, func(p *protocol.Packet) {
			if first {
				first = false
				entered <- struct{}{}
				time.Sleep(400 * time.Millisecond)
			}
		})
	})
	if err != nil {
		return
	}
	defer s.close()
	ch := s.tc.doAsync(30, nil, 2*time.Second)
	q := s.lk.nextRequest(2 * time.Second)
	if q == nil {
		return
	}
	s.lk.sendFrame(pushFrame(1, 50, []byte("slow")))
	select {
	case <-entered:
	case <-time.After(2 * time.Second):
		return
	}
	s.lk.sendFrame(pushFrame(1, 50, []byte("second")))
	s.lk.sendFrame(respFrame(1, 30, q.Rid, 0, []byte("in-time")))
	time.Sleep(100 * time.Millisecond) // read and queued by now; the dispatcher is still inside the handler
	if wl, ok := s.lk.(wsLink); ok {
		wl.pc.c.UnderlyingConn().Close() // abrupt: no close frame
	} else {
		s.lk.drop()
	}
	res, ok := awaitDo(ch, 3*time.Second)
	cs := trans + ": push (handler busy 400 ms), push, response - all read - then the peer drops the connection"
	if !ok || res.pkt == nil || string(res.pkt.Body) != "in-time" {
		r.violate(Violation{What: "a response that was received and queued before the connection dropped was not returned: " + resultStr(res), Case: cs})
	}
	r.st.Evaluations++
	r.count("c07.queued-then-dropped." + trans)
}

// c07BurstBehindHandler: answers for 6 concurrent callers arrive in one burst while the dispatcher is inside a push
// handler; the receive queue (16 by default) is far from full whatever the WRITE queue size is: every call gets its answer.
func (r *Run) c07BurstBehindHandler(trans string) {
	entered := make(chan struct{}, 1)
	release := make(chan struct{})
	s, err := openSessionPrep(trans, 1, func(tc *testClient) {
		first := true
		tc.cli.Subscribe(50, func(p *protocol.Packet) {
			if first {
				first = false
				entered <- struct{}{}
				<-release
			}
		})
	}, client.WriteQueueSize(2))
	if err != nil {
		return
	}
	defer s.close()
	var chans []chan doResult
	var ids []uint32
	for i := 0; i < 6; i++ {
		chans = append(chans, s.tc.doAsync(uint32(30+i), nil, 2*time.Second))
		q := s.lk.nextRequest(2 * time.Second)
		if q == nil {
			close(release)
			return
		}
		ids = append(ids, q.Rid)
	}
	s.lk.sendFrame(pushFrame(1, 50, []byte("busy")))
	select {
	case <-entered:
	case <-time.After(2 * time.Second):
		close(release)
		return
	}
	for i, id := range ids {
		s.lk.sendFrame(respFrame(1, uint8(30+i), id, 0, []byte{byte(i)}))
	}
	time.Sleep(150 * time.Millisecond)
	close(release)
	lost := 0
	for _, ch := range chans {
		if res, ok := awaitDo(ch, 3*time.Second); !ok || res.pkt == nil {
			lost++
		}
	}
	if lost > 0 && s.tc.log.count("drop packet for channel full") == 0+lost {
		// drops are logged: with a read queue of 16 none is legitimate here
	}
	if lost > 0 {
		r.violate(Violation{What: fmt.Sprintf("%d of 6 calls lost their timely response although only 7 packets were pending against a receive queue of 16", lost),
			Case: trans + ": WriteQueueSize(2), 6 concurrent calls, one push whose handler blocks, then the 6 answers in a burst"})
	}
	r.st.Evaluations++
	r.count("c07.burst-behind-handler." + trans)
}

// c05StaleOnReplacedConn: the keepalive replaces a connection whose peer went silent (socket still open at the peer);
// request ids restart on the new connection; a late answer the peer still sends on the OLD connection with the id of
// a call waiting on the NEW one must not be returned to that call.
func (r *Run) c05StaleOnReplacedConn() {
	s := &session{tc: newTestClient(), v: 1, trans: "tcp"}
	s.tcp = newTCPPeer()
	defer s.close()
	stop := make(chan struct{})
	defer close(stop)
	errc := make(chan error, 1)
	go func() {
		errc <- s.tc.dial(s.tcp.url(), 1, client.Keepalive(100*time.Millisecond), client.KeepaliveTimeout(250*time.Millisecond), client.DialTimeout(time.Second))
	}()
	old := s.tcp.accept(3 * time.Second)
	if old == nil || !old.readHandshake(time.Second) || <-errc != nil {
		return
	}
	// old connection: never answer; wait for the replacement
	nw := s.tcp.accept(3 * time.Second)
	if nw == nil || !nw.readHandshake(time.Second) {
		r.violate(Violation{What: "setup: the silent connection was not replaced", Case: "c05 stale answer"})
		return
	}
	go func() { // the new connection answers heartbeats; data requests are handed to the scenario
		for {
			select {
			case <-stop:
				return
			default:
			}
			f := nw.readFrame(50 * time.Millisecond)
			if f == nil {
				if nw.closed {
					return
				}
				continue
			}
			if f.Type == 1 && f.Cmd == 1 {
				nw.send(respFrame(1, 1, f.Rid, 0, f.Body))
			} else if f.Type == 1 {
				old.send(respFrame(1, f.Cmd, f.Rid, 0, []byte("stale answer on the replaced connection")))
				time.Sleep(100 * time.Millisecond)
				nw.send(respFrame(1, f.Cmd, f.Rid, 0, []byte("fresh")))
			}
		}
	}()
	time.Sleep(50 * time.Millisecond)
	res, ok := awaitDo(s.tc.doAsync(33, nil, 2*time.Second), 3*time.Second)
	if !ok || res.pkt == nil || string(res.pkt.Body) != "fresh" {
		r.violate(Violation{What: "a call on the new connection returned something other than its own answer: " + resultStr(res),
			Case: "tcp: keepalive replaced a silent connection; the peer sends an answer with the same request id on the old connection first, then the real answer on the new one"})
	}
	r.st.Evaluations++
	r.count("c05.stale-on-replaced-conn")
}

// c07BigReadQueue: ReadQueueSize(64), default write queue: 40 answers in one burst behind a busy handler all arrive.
func (r *Run) c07BigReadQueue(trans string) {
	entered := make(chan struct{}, 1)
	release := make(chan struct{})
	s, err := openSessionPrep(trans, 1, func(tc *testClient) {
		first := true
		tc.cli.Subscribe(50, func(p *protocol.Packet) {
			if first {
				first = false
				entered <- struct{}{}
				<-release
			}
		})
	}, client.ReadQueueSize(64))
	if err != nil {
		return
	}
	defer s.close()
	const K = 14 // callers (the default write queue holds 16 requests)
	var chans []chan doResult
	var ids []uint32
	for i := 0; i < K; i++ {
		chans = append(chans, s.tc.doAsync(uint32(30+i), nil, 3*time.Second))
		q := s.lk.nextRequest(2 * time.Second)
		if q == nil {
			close(release)
			return
		}
		ids = append(ids, q.Rid)
	}
	s.lk.sendFrame(pushFrame(1, 50, []byte("busy")))
	select {
	case <-entered:
	case <-time.After(2 * time.Second):
		close(release)
		return
	}
	// 26 pushes nobody subscribed to + the 14 answers = 40 packets queued behind the handler (< 64)
	var burst []byte
	for i := 0; i < 26; i++ {
		burst = append(burst, pushFrame(1, 59, []byte{byte(i)})...)
	}
	if _, ok := s.lk.(tcpLink); ok {
		for i, id := range ids {
			burst = append(burst, respFrame(1, uint8(30+i), id, 0, []byte{byte(i)})...)
		}
		s.lk.sendFrame(burst)
	} else {
		for i := 0; i < 26; i++ {
			s.lk.sendFrame(pushFrame(1, 59, []byte{byte(i)}))
		}
		for i, id := range ids {
			s.lk.sendFrame(respFrame(1, uint8(30+i), id, 0, []byte{byte(i)}))
		}
	}
	time.Sleep(200 * time.Millisecond)
	close(release)
	lost := 0
	for _, ch := range chans {
		if res, ok := awaitDo(ch, 4*time.Second); !ok || res.pkt == nil {
			lost++
		}
	}
	if lost > 0 {
		r.violate(Violation{What: fmt.Sprintf("%d of %d calls lost their timely response although only 41 packets were pending against a receive queue of 64", lost, K),
			Case: trans + ": ReadQueueSize(64), default write queue, one blocking push, 26 pushes and 14 answers in a burst"})
	}
	r.st.Evaluations++
	r.count("c07.big-read-queue." + trans)
}

// c07TextMessageAnswer: a WebSocket peer may answer in a text message.
func (r *Run) c07TextMessageAnswer() {
	s, err := openSession("ws", 1)
	if err != nil {
		return
	}
	defer s.close()
	pc := s.lk.(wsLink).pc
	for i, kind := range []int{websocket.BinaryMessage, websocket.TextMessage, websocket.TextMessage} {
		ch := s.tc.doAsync(uint32(30+i), nil, time.Second)
		q := s.lk.nextRequest(2 * time.Second)
		if q == nil {
			return
		}
		pc.wmu.Lock()
		pc.c.WriteMessage(kind, respFrame(1, uint8(30+i), q.Rid, 0, []byte("ok")))
		pc.wmu.Unlock()
		if res, ok := awaitDo(ch, 2*time.Second); !ok || res.pkt == nil {
			r.violate(Violation{What: "a timely response carried in a WebSocket text message was not returned: " + resultStr(res), Case: fmt.Sprintf("ws answer %d as message type %d", i, kind)})
			break
		}
	}
	r.st.Evaluations++
	r.count("c07.ws.text-answer")
}
