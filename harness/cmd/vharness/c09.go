package main

import (
	"bytes"
	"fmt"
	"sort"
	"strings"

	protocol "github.com/longportapp/openapi-protocol/go"
)

func init() { props["C09"] = runC09 }

var mdLens = []int{0, 1, 2, 3, 5, 126, 127, 128, 129, 255, 256, 257, 32766, 32767, 32768}

const asciiAlpha = "abcdefghijklmnopqrstuvwxyzABCDEFGHIJKLMNOPQRSTUVWXYZ0123456789-_."

func (g *RNG) asciiStr(n int) string {
	b := make([]byte, n)
	for i := range b {
		b[i] = asciiAlpha[g.Intn(len(asciiAlpha))]
	}
	return string(b)
}

func (g *RNG) mdLen(big bool) int {
	switch g.Intn(10) {
	case 0, 1, 2:
		if big {
			return mdLens[g.Intn(len(mdLens))]
		}
		return mdLens[g.Intn(12)]
	case 3:
		return 100 + g.Intn(60)
	default:
		return g.Intn(12)
	}
}

func mapStr(m map[string]string) string {
	if len(m) == 0 {
		return "-"
	}
	ks := make([]string, 0, len(m))
	for k := range m {
		ks = append(ks, k)
	}
	sort.Strings(ks)
	parts := make([]string, len(ks))
	for i, k := range ks {
		parts[i] = hx([]byte(k)) + ":" + hx([]byte(m[k]))
	}
	return strings.Join(parts, ",")
}

// reference length-prefixed string encoder, written from the property text
func refMarshalString(s string) ([]byte, bool) {
	n := len(s)
	switch {
	case n <= 127:
		return append([]byte{byte(n)}, s...), true
	case n <= 32767:
		return append([]byte{byte(0x80 | n/256), byte(n % 256)}, s...), true
	}
	return nil, false
}

// reference block decoder: canonical, untruncated blocks only
func refUnmarshal(d []byte) (map[string]string, bool) {
	m := map[string]string{}
	get := func() (string, bool) {
		if len(d) == 0 {
			return "", false
		}
		n, w := int(d[0]), 1
		if d[0]&0x80 != 0 {
			if len(d) < 2 {
				return "", false
			}
			n, w = int(d[0]&0x7f)*256+int(d[1]), 2
			if n <= 127 {
				return "", false
			}
		}
		if len(d) < w+n {
			return "", false
		}
		s := string(d[w : w+n])
		d = d[w+n:]
		return s, true
	}
	for len(d) > 0 {
		k, ok := get()
		if !ok {
			return nil, false
		}
		v, ok := get()
		if !ok {
			return nil, false
		}
		m[strings.ToLower(k)] = v
	}
	return m, true
}

// asciiKeys reports whether every key of a (reference-decodable) block is pure ASCII;
// strings.ToLower is modelled bytewise for such keys only.
func asciiKeys(d []byte) bool {
	i := 0
	str := func() ([]byte, bool) {
		if i >= len(d) {
			return nil, false
		}
		n, w := int(d[i]), 1
		if d[i]&0x80 != 0 {
			if i+1 >= len(d) {
				return nil, false
			}
			n, w = int(d[i]&0x7f)*256+int(d[i+1]), 2
		}
		if i+w+n > len(d) {
			return nil, false
		}
		s := d[i+w : i+w+n]
		i += w + n
		return s, true
	}
	for i < len(d) {
		k, ok := str()
		if !ok {
			return true
		}
		for _, c := range k {
			if c >= 0x80 {
				return false
			}
		}
		if _, ok = str(); !ok {
			return true
		}
	}
	return true
}

func unmarshalOut(d []byte) (string, map[string]string) {
	var md protocol.Metadata
	out := ""
	func() {
		defer func() {
			if e := recover(); e != nil {
				out = "PANIC"
			}
		}()
		buf := append([]byte(nil), d...) // the caller's buffer: reused after the call
		if err := md.UnmarshalValues(buf); err != nil {
			out = "ERR " + errEnum(err)
			return
		}
		out = "OK " + mapStr(md.Values)
		for i := range buf {
			buf[i] = 0xff
		}
		if again := "OK " + mapStr(md.Values); again != out {
			out = "ALIASED: the decoded map changed when the input buffer was reused"
		}
	}()
	return out, md.Values
}

func (r *Run) c09Marshal(m map[string]string, max int) {
	md := &protocol.Metadata{Values: m}
	out := md.MarshalValues(max)
	req := fmt.Sprintf("md.mar %d %s", max, mapStr(m))
	r.emit(req, hx(out), len(m) > 0)
	r.count(fmt.Sprintf("mar.entries=%d", len(m)))
	// direct oracles ------------------------------------------------------
	// determinism: same input, same bytes
	for i := 0; i < 24; i++ {
		o2 := (&protocol.Metadata{Values: m}).MarshalValues(max)
		if !bytes.Equal(out, o2) {
			r.violate(Violation{What: "MarshalValues is not a function of (map, budget): two calls gave different bytes", Case: req,
				Impl: hx(out) + " vs " + hx(o2), Sig: "c09-nondeterministic-order"})
			break
		}
	}
	// budget
	if max >= 0 && len(out) > max {
		r.violate(Violation{What: "encoded block exceeds the budget", Case: req, Impl: hx(out)})
	}
	// whole pairs only, and canonical: the block must decode (reference decoder) to a sub-map of the lower-cased eligible input
	got, ok := refUnmarshal(out)
	if !ok {
		r.violate(Violation{What: "encoded block is not a sequence of whole canonical pairs (reference decoder rejects it)", Case: req, Impl: hx(out)})
		return
	}
	elig := map[string]string{}
	total := 0
	lowerClash := false
	for k, v := range m {
		kb, ok1 := refMarshalString(k)
		vb, ok2 := refMarshalString(v)
		if k == "" || !ok1 || !ok2 {
			continue
		}
		if _, dup := elig[strings.ToLower(k)]; dup {
			lowerClash = true
		}
		elig[strings.ToLower(k)] = v
		total += len(kb) + len(vb)
	}
	for k, v := range got {
		if ev, ok := elig[k]; !ok || (ev != v && !lowerClash) {
			r.violate(Violation{What: "encoded block contains a pair that is not an eligible input pair (truncated or altered)", Case: req, Impl: hx(out)})
			return
		}
	}
	if total <= max && !lowerClash && len(got) != len(elig) {
		r.violate(Violation{What: "every eligible pair fits the budget but the block does not round-trip to the whole map", Case: req, Impl: hx(out)})
	}
	if total <= max {
		r.count("mar.fits")
		// round trip through the implementation's own decoder
		o, vals := unmarshalOut(out)
		if !strings.HasPrefix(o, "OK") || (!lowerClash && mapStr(vals) != mapStr(elig)) {
			r.violate(Violation{What: "decode(encode(map)) != map with keys lower-cased", Case: req, Impl: o, Expect: mapStr(elig)})
		}
	} else {
		r.count("mar.cut")
	}
}

func runC09(r *Run) {
	g := r.rng
	r.st.Rule = "marshalString on every length 0..32768 and unmarshalStringLength/UnmarshalValues on every 2-byte prefix 0x0000..0xffff (exhaustive sub-sweeps); structured maps (0-6 entries, boundary key/value lengths, mixed-case ASCII keys) x budgets around every pair boundary; Set/Get; hostile decode inputs (every truncation of small blocks, truncations at and around every field boundary of large blocks, mutated prefixes, random bytes). distinct = distinct request lines; non-trivial = map non-empty / block non-empty / length above 0 Malformed blocks inside otherwise well-formed v2 frames (every type, signed or not, body plain or really compressed) through both decode entry points."
	// --- every string length (encoder side)
	for n := 0; n <= 32768; n++ {
		b, tooLong := protocol.VerifMarshalString(strings.Repeat("A", n))
		out := "TOOLONG"
		if !tooLong {
			w := 2
			if n <= 127 {
				w = 1
			}
			out = fmt.Sprintf("OK %s %d", hx(b[:w]), len(b))
		}
		// every length goes through the reference encoder below; the model is compared on all
		// lengths in the thorough tier and on the boundaries plus every 61st length in the quick tier
		if r.thorough() || n <= 300 || n%61 == 0 || (n >= 32700) || (n&(n-1)) == 0 || (n&(n+1)) == 0 {
			r.emit(fmt.Sprintf("md.mlen %d", n), out, n > 0)
		}
		rb, ok := refMarshalString(strings.Repeat("A", n))
		if ok == tooLong || (ok && !bytes.Equal(rb, b)) {
			r.violate(Violation{What: "length prefix not canonical", Case: fmt.Sprintf("md.mlen %d", n), Impl: out})
		}
	}
	r.count("mlen.all_lengths")
	// --- every 2-byte prefix (decoder side)
	for hi := 0; hi < 256; hi++ {
		for lo := 0; lo < 256; lo++ {
			d := []byte{byte(hi), byte(lo)}
			l, bits, err := protocol.VerifUnmarshalStringLength(d)
			out := fmt.Sprintf("OK %d %d", l, bits)
			if err != nil {
				out = "ERR " + errEnum(err)
			}
			r.emit("md.ulen "+hx(d), out, true)
			// full decoder on a block whose only key has this prefix, exact and one-short
			val := hi
			if hi >= 128 {
				val = (hi-128)*256 + lo
			}
			for _, n := range []int{val, val - 1} {
				if n < 0 {
					continue
				}
				if !r.thorough() && n > 300 && (hi*256+lo)%251 != 0 {
					continue
				}
				var blk []byte
				if hi < 128 {
					// 1-byte prefix: lo is the first content byte; build explicitly
					continue
				}
				blk = append(blk, byte(hi), byte(lo))
				blk = append(blk, bytes.Repeat([]byte("a"), n)...)
				blk = append(blk, 0)
				o, vals := unmarshalOut(blk)
				res := o
				if strings.HasPrefix(o, "OK") {
					kl, vl := 0, 0
					for k, v := range vals {
						kl += len(k)
						vl += len(v)
					}
					res = fmt.Sprintf("OK %d %d %d", len(vals), kl, vl)
				}
				req := fmt.Sprintf("md.unmn %d %d %d", hi, lo, n)
				r.emit(req, res, true)
				_, refOK := refUnmarshal(blk)
				if refOK != strings.HasPrefix(o, "OK") {
					r.violate(Violation{What: "decoder verdict differs from the reference (canonical, untruncated blocks only)", Case: req, Impl: res, Expect: fmt.Sprint(refOK)})
				}
			}
		}
	}
	r.count("ulen.all_prefixes")
	// 1-byte prefixes, exact and short
	for n := 0; n < 128; n++ {
		for _, have := range []int{n, n - 1, n + 1} {
			if have < 0 {
				continue
			}
			blk := append([]byte{byte(n)}, bytes.Repeat([]byte("k"), have)...)
			blk = append(blk, 1, 'v')
			o, _ := unmarshalOut(blk)
			r.emit("md.unm "+hx(blk), o, true)
			_, refOK := refUnmarshal(blk)
			if refOK != strings.HasPrefix(o, "OK") {
				r.violate(Violation{What: "decoder verdict differs from the reference (canonical, untruncated blocks only)", Case: "md.unm " + hx(blk), Impl: o})
			}
		}
	}
	// --- the probe map of the property text, every budget 0..40
	probe := map[string]string{"key1": "hello", "key2": "world", "key3": "x"}
	for max := -1; max <= 40; max++ {
		r.c09Marshal(probe, max)
	}
	// --- structured maps x budgets
	nmaps := 400
	if r.thorough() {
		nmaps = 6000
	}
	for i := 0; i < nmaps; i++ {
		n := g.Intn(7)
		big := g.Chance(4)
		m := map[string]string{}
		var cuts []int
		for j := 0; j < n; j++ {
			k := g.asciiStr(g.mdLen(big))
			if g.Chance(10) && len(m) > 0 { // key differing only in case from an existing one
				for ek := range m {
					k = strings.ToUpper(ek)
					break
				}
			}
			m[k] = g.asciiStr(g.mdLen(big))
		}
		// budgets at every pair boundary of the sorted order, +-1, and between key and value
		ks := make([]string, 0, len(m))
		for k := range m {
			ks = append(ks, k)
		}
		sort.Strings(ks)
		tot := 0
		for _, k := range ks {
			kb, ok1 := refMarshalString(k)
			vb, ok2 := refMarshalString(m[k])
			if k == "" || !ok1 || !ok2 {
				continue
			}
			cuts = append(cuts, tot+len(kb), tot+len(kb)-1)
			tot += len(kb) + len(vb)
			cuts = append(cuts, tot-1, tot, tot+1)
		}
		budgets := []int{0, 1, 12, 65535, -1, tot, g.Intn(tot + 2)}
		for c := 0; c < 3 && len(cuts) > 0; c++ {
			budgets = append(budgets, cuts[g.Intn(len(cuts))])
		}
		for _, b := range budgets {
			if b < -1 {
				continue
			}
			r.c09Marshal(m, b)
		}
		// decode side of what was encoded, and every truncation of it (small blocks)
		full := (&protocol.Metadata{Values: m}).MarshalValues(65535)
		if len(full) > 0 && len(full) < 80 {
			for cut := 0; cut <= len(full); cut++ {
				o, _ := unmarshalOut(full[:cut])
				r.emit("md.unm "+hx(full[:cut]), o, cut > 0)
				r.count("unm.trunc")
				_, refOK := refUnmarshal(full[:cut])
				if refOK != strings.HasPrefix(o, "OK") {
					r.violate(Violation{What: "decoder verdict differs from the reference on a truncated block", Case: "md.unm " + hx(full[:cut]), Impl: o})
				}
			}
		} else if len(full) > 0 {
			o, _ := unmarshalOut(full)
			r.emit("md.unm "+hx(full), o, true)
			r.count("unm.full")
			// large blocks: truncations at and around every field boundary (long strings have two-byte prefixes)
			seen := map[int]bool{}
			for _, c0 := range append(append([]int{}, cuts...), len(full)-1, len(full)-2, len(full)-3) {
				for _, c := range []int{c0 - 1, c0, c0 + 1} {
					if c <= 0 || c >= len(full) || seen[c] {
						continue
					}
					seen[c] = true
					o, _ := unmarshalOut(full[:c])
					if len(full) <= 2048 { // larger ones: reference decoder only (keeps the case file small)
						r.emit("md.unm "+hx(full[:c]), o, true)
					}
					r.count("unm.trunc-large")
					if strings.HasPrefix(o, "PANIC") {
						r.violate(Violation{What: "UnmarshalValues panicked on a truncated block", Case: fmt.Sprintf("block of %d bytes cut at %d", len(full), c)})
					}
					_, refOK := refUnmarshal(full[:c])
					if refOK != strings.HasPrefix(o, "OK") {
						r.violate(Violation{What: "decoder verdict differs from the reference on a truncated block", Case: fmt.Sprintf("block of %d bytes cut at %d", len(full), c), Impl: o})
					}
				}
			}
		}
		// Set / Get
		k := g.asciiStr(g.mdLen(true))
		v := g.asciiStr(g.mdLen(true))
		before := mapStr(m)
		cp := map[string]string{}
		for a, b := range m {
			cp[a] = b
		}
		md := &protocol.Metadata{Values: cp}
		err := md.Set(k, v)
		out := "OK " + mapStr(cp)
		if err != nil {
			out = "ERR " + errEnum(err)
			if mapStr(cp) != before {
				r.violate(Violation{What: "refused Set modified the map", Case: "md.set " + hx([]byte(k)) + " " + hx([]byte(v))})
			}
		}
		r.emit("md.set "+hx([]byte(k))+" "+hx([]byte(v))+" "+before, out, true)
		if (len(k) > 32767 || len(v) > 32767) != (err != nil) {
			r.violate(Violation{What: "Set must refuse exactly over-long keys/values", Case: fmt.Sprintf("len(k)=%d len(v)=%d", len(k), len(v)), Impl: out})
		}
		r.count("set")
		if len(ks) > 0 {
			q := ks[g.Intn(len(ks))]
			if g.Bool() {
				q = strings.ToUpper(q)
			}
			r.emit("md.get "+hx([]byte(q))+" "+before, hx([]byte((&protocol.Metadata{Values: m}).Get(q))), true)
			r.count("get")
		}
	}
	// --- hostile decode inputs
	nh := 3000
	if r.thorough() {
		nh = 60000
	}
	for i := 0; i < nh; i++ {
		var d []byte
		switch g.Intn(3) {
		case 0:
			d = g.Bytes(g.Intn(24))
		case 1: // plausible pairs with a mutated byte
			m := map[string]string{g.asciiStr(1 + g.Intn(5)): g.asciiStr(g.Intn(6)), g.asciiStr(1 + g.Intn(130)): g.asciiStr(g.Intn(140))}
			d = (&protocol.Metadata{Values: m}).MarshalValues(65535)
			if len(d) > 0 {
				d[g.Intn(len(d))] ^= byte(1 << uint(g.Intn(8)))
			}
		default: // length prefixes biased to the 0x80 boundary
			n := 1 + g.Intn(6)
			for j := 0; j < n; j++ {
				d = append(d, []byte{0x80, 0x81, 0x7f, 0x00, 0x01, 0xff, byte(g.Intn(256))}[g.Intn(7)])
			}
			d = append(d, g.Bytes(g.Intn(8))...)
		}
		o, _ := unmarshalOut(d)
		if asciiKeys(d) {
			r.emit("md.unm "+hx(d), o, len(d) > 0)
			r.count("unm.hostile." + strings.SplitN(o, " ", 2)[0])
		} else {
			r.count("unm.hostile.nonascii-key(not compared with the model)")
		}
		if o == "PANIC" {
			r.violate(Violation{What: "UnmarshalValues panicked", Case: "md.unm " + hx(d)})
		}
		_, refOK := refUnmarshal(d)
		if refOK != strings.HasPrefix(o, "OK") {
			r.violate(Violation{What: "decoder verdict differs from the reference (canonical, untruncated blocks only)", Case: "md.unm " + hx(d), Impl: o})
		}
	}
	// --- non-ASCII keys: budget/totality only (strings.ToLower is modelled for ASCII only)
	for i := 0; i < 200; i++ {
		m := map[string]string{string(g.Bytes(1 + g.Intn(6))): g.asciiStr(g.Intn(5)), "Ключ": "значение"}
		max := g.Intn(40)
		out := (&protocol.Metadata{Values: m}).MarshalValues(max)
		if len(out) > max {
			r.violate(Violation{What: "encoded block exceeds the budget (non-ASCII keys)", Case: mapStr(m)})
		}
		unmarshalOut(out)
		r.count("nonascii(not compared with the model)")
	}
	// v2 frames carry the block: streaming decode with the ring's end at positions inside the metadata block
	r.wrapSweep(13, false)
	// malformed blocks inside otherwise well-formed v2 frames - every packet type, with and without signature, body
	// plain or really compressed - through both decode entry points: the frame is rejected whatever follows the block
	good := (&protocol.Metadata{Values: map[string]string{"key": "value", "k2": "v2"}}).MarshalValues(65535)
	blocks := [][]byte{
		good[:len(good)-1],                      // last value cut short
		good[:5],                                // cut inside the first value
		{0x80, 0x03, 'k', 'e', 'y', 0x01, 'v'},  // non-canonical two-byte length
		{0x03, 'k', 'e', 'y'},                   // key without a value
		{0x03, 'k', 'e', 'y', 0x7f, 'v'},        // value length beyond the block
		append(append([]byte{}, good...), 0x81), // half a length prefix after the last pair
	}
	for bi, blk := range blocks {
		for ty := 1; ty <= 3; ty++ {
			for _, verify := range []bool{false, true} {
				for _, gz := range []bool{false, true} {
					f := &RefFrame{V: 2, Type: ty, Verify: verify, Gzip: gz, Cmd: 9, Rid: 5, Timeout: 3, Nonce: 7, Sig: []byte("0123456789abcdef"),
						Meta: blk, Body: []byte("the body after the block"), MLenField: -1, BLenField: -1}
					if ty == 3 {
						f.Rid, f.Timeout = 0, 0
					}
					if ty == 2 {
						f.Timeout, f.Status = 0, 4
					}
					if gz {
						f.Body = stdCompress([]byte("the body after the block"))
					}
					r.unpackCase(2, 1, f.encode(), fmt.Sprintf("malformed-block-%d", bi))
				}
			}
		}
	}
}
