package main

// C01 (round trip), C02 (wire format), C10 (gzip), C04 (hostile input), C03/C11 (streaming histories).

import (
	"bytes"
	"fmt"
	"os"
	"os/exec"
	"runtime"
	"strings"
	"sync"

	"github.com/Allenxuxu/ringbuffer"
	protocol "github.com/longportapp/openapi-protocol/go"
	repogzip "github.com/longportapp/openapi-protocol/go/gzip"
)

func init() {
	props["C01"] = runC01
	props["C02"] = runC02
	props["C03"] = runC03
	props["C04"] = runC04
	props["C10"] = runC10
	props["C11"] = runC11
}

// packCase: Pack on the implementation, emitted for the model, checked against the layout (direct oracle).
func (r *Run) packCase(v int, p *PK, thr int) []byte {
	pkt := p.toPacket()
	ctx := newCtx(p.Codec, uint8(v))
	out, frame := implPack(v, ctx, pkt, thr)
	req := fmt.Sprintf("fr.pack %d %d %s", v, thr, p.fields(" ", true))
	if thr != 0 && len(p.Body) >= thr {
		req += " " + gzcEntry(p.Body)
	}
	r.emit(req, out, true)
	r.count(fmt.Sprintf("pack.v%d.type%d.verify%s.%s", v, p.Type, b01(p.Verify), strings.SplitN(out, " ", 2)[0]))
	ref, verdict := refOfPK(v, p, thr)
	switch {
	case verdict != "OK":
		if out != "ERR "+verdict {
			r.violate(Violation{What: "packet cannot be represented (" + verdict + ") but the encoder did not return that error", Case: req, Impl: out})
		}
	case frame == nil:
		r.violate(Violation{What: "encoder failed on a representable packet", Case: req, Impl: out})
	default:
		want := ref.encode()
		if !bytes.Equal(want, frame) {
			r.violate(Violation{What: "encoder bytes differ from the published layout", Case: req, Impl: hexsum(frame), Expect: hexsum(want)})
		}
	}
	return frame
}

func refFieldsStr(v int, f *RefFrame, codec uint8, body []byte, vals map[string]string) string {
	p := &PK{Type: f.Type, Cmd: uint32(f.Cmd), Rid: f.Rid, Timeout: f.Timeout, Status: f.Status, Verify: f.Verify, Gzip: f.Gzip,
		Nonce: f.Nonce, Sig: f.Sig, Codec: codec, Vals: vals, Body: body}
	return p.fields(" ", false)
}

// unpackCase: UnpackBytes and streaming Unpack of one byte string; direct oracle = reference decoder.
func (r *Run) unpackCase(v int, codec uint8, frame []byte, tag string) {
	ctx := newCtx(codec, uint8(v))
	out, _ := implUnpackBytes(v, ctx, frame)
	req := fmt.Sprintf("fr.unpack %d %d %s", v, codec, hexIn(frame))
	// oracle entry for the body the layout designates, if the gzip bit is set
	rf, n, verdict := refDecode(v, frame)
	var entries string
	if verdict == "OK" && rf.Gzip {
		entries = " " + gzrEntry(rf.Body)
	}
	modelOK := !nonASCIIMeta(v, frame)
	if modelOK {
		r.emit(req+entries, out, true)
	} else {
		r.count("unpack.nonascii-metadata-key(not compared with the model)")
	}
	r.count("unpack." + tag + "." + strings.SplitN(out, " ", 3)[0] + "." + firstWordAfter(out))
	if out == "PANIC" {
		r.violate(Violation{What: "UnpackBytes panicked", Case: req})
		return
	}
	// direct oracle: verdict and fields per the layout
	if verdict != "OK" {
		if !strings.HasPrefix(out, "ERR") {
			r.violate(Violation{What: "decoder accepted a frame the layout rejects (" + verdict + ")", Case: req, Impl: out})
		}
	} else {
		body := rf.Body
		wantErr := ""
		vals := map[string]string{}
		if v == 2 {
			m, ok := refUnmarshal(rf.Meta)
			if !ok {
				wantErr = "EInvalidMetadata"
			}
			vals = m
		}
		if wantErr == "" && rf.Gzip {
			o, fin := stdRead(rf.Body)
			if fin != "E" {
				wantErr = "EGzip"
			}
			body = o
		}
		if wantErr != "" {
			if out != "ERR "+wantErr {
				r.violate(Violation{What: "decoder verdict differs from the layout-derived decoder", Case: req, Impl: out, Expect: "ERR " + wantErr})
			}
		} else {
			// one-shot decode hands over every byte after the nonce as signature (tolerated trailing bytes)
			want := refFieldsStr(v, rf, codec, body, vals)
			if rf.Verify && n < len(frame) {
				rf2 := *rf
				rf2.Sig = frame[n-16:]
				want = refFieldsStr(v, &rf2, codec, body, vals)
			}
			if out != "OK "+want && asciiKeys(rf.Meta) {
				r.violate(Violation{What: "decoded fields differ from the values the layout assigns", Case: req, Impl: out, Expect: "OK " + want})
			}
		}
	}
	// streaming decode of the same bytes on a fresh ring: must agree on complete frames
	rb := ringbuffer.New(len(frame) + 1)
	rb.Write(frame)
	sctx := newCtx(codec, uint8(v))
	so, _, _ := implUnpack(v, sctx, rb)
	if modelOK {
		r.emit(fmt.Sprintf("st.hist %d %d f0!%s u0%s", codec, v, hexIn(frame), entries), "FED ; "+so, true)
	}
	if strings.HasPrefix(so, "PANIC") {
		r.violate(Violation{What: "streaming Unpack panicked", Case: req})
	}
	if verdict == "OK" && strings.HasPrefix(out, "OK") && !rf.Verify || (verdict == "OK" && strings.HasPrefix(out, "OK") && n == len(frame)) {
		want := fmt.Sprintf("PKT %s q=%d", strings.TrimPrefix(out, "OK "), len(frame)-n)
		if so != want {
			r.violate(Violation{What: "streaming decode of a complete frame differs from one-shot decode", Case: req, Impl: so, Expect: want})
		}
	}
}

func firstWordAfter(out string) string {
	parts := strings.Fields(out)
	if len(parts) >= 2 && parts[0] == "ERR" {
		return parts[1]
	}
	return "-"
}

// specFrame draws a frame from the layout: every type nibble, flag combination, reserve bits, field extremes.
func (g *RNG) specFrame(v int, validType bool) *RefFrame {
	f := &RefFrame{V: v, Type: g.Intn(16), Verify: g.Chance(40), Gzip: false, Reserve: g.Intn(4), Cmd: uint8(ext32(g)), Rid: ext32(g),
		Timeout: uint16(ext32(g)), Status: uint8(ext32(g)), Nonce: g.U64(), Sig: g.Bytes(16), MLenField: -1, BLenField: -1}
	if validType {
		f.Type = 1 + g.Intn(3)
	}
	f.Body = g.body(g.bodyLen(false))
	if g.Chance(25) {
		f.Gzip = true
		if g.Chance(80) {
			f.Body = stdCompress(f.Body)
		}
	}
	if v == 2 {
		f.Meta = refMarshalMap(g.smallMap(), 65535)
	}
	return f
}

func runC02(r *Run) {
	g := r.rng
	r.st.Rule = "encoder: structured valid packets (3 types x verify x metadata x body-length boundaries x field extremes x thresholds) through Pack, compared byte-for-byte with the model and with an independent layout-derived encoder; decoder: frames laid out by the reference encoder for every type nibble 0-15, flag combination, reserve bits and field extreme through UnpackBytes and streaming Unpack, compared field-for-field with the model and the layout-derived decoder. Encodes and decodes are interleaved in one process so recycled header objects carry stale state. Also: v2 metadata ending exactly at, below and above the 16-bit budget through Pack (frame re-read by its own length fields); a conformant frame after a rejected one on the same context (streaming) decodes as on a fresh context. distinct = distinct request lines"
	n := 2500
	if r.thorough() {
		n = 40000
	}
	for i := 0; i < n; i++ {
		v := 1 + g.Intn(2)
		switch g.Intn(3) {
		case 0:
			p := g.validPK(v, g.Chance(3))
			if g.Chance(4) {
				p.Type = 0
			}
			r.packCase(v, p, g.threshold(len(p.Body)))
		default:
			f := g.specFrame(v, g.Chance(85))
			r.unpackCase(v, uint8(1+g.Intn(2)), f.encode(), "spec")
		}
	}
	// every type nibble x flags x reserve, both versions, small body (exhaustive over byte 0)
	for v := 1; v <= 2; v++ {
		for b0 := 0; b0 < 256; b0++ {
			f := &RefFrame{V: v, Type: b0 & 15, Verify: b0>>4&1 == 1, Gzip: false, Reserve: b0 >> 6, Cmd: 9, Rid: 0x01020304, Timeout: 0x0506,
				Status: 7, Body: []byte("hello"), Nonce: 0x1122334455667788, Sig: []byte("0123456789abcdef"), MLenField: -1, BLenField: -1}
			if b0>>5&1 == 1 {
				f.Gzip = true
				f.Body = stdCompress([]byte("hello"))
			}
			if v == 2 {
				f.Meta = refMarshalMap(map[string]string{"k": "v"}, 65535)
			}
			r.unpackCase(v, 1, f.encode(), "byte0")
		}
	}
	r.count("byte0.exhaustive")
	// the streaming decoder reads the same layout: every position of the ring's end inside the header fields
	r.wrapSweep(1200, false)
	// v2 metadata whose encoding ends exactly at, one below and one above the 16-bit budget (the pair that does not fit
	// is left out; metadata_len must describe what is really there)
	for _, vb := range []int{32760, 32761, 32762} {
		p := &PK{Type: 1, Cmd: 9, Rid: 3, Timeout: 7, Codec: 1, Body: []byte("x"),
			Vals: map[string]string{"a": strings.Repeat("p", 32767), "b": strings.Repeat("q", vb)}}
		if fr := r.packCase(2, p, 0); fr != nil {
			if _, n, verdict := refDecode(2, fr); verdict != "OK" || n != len(fr) {
				r.violate(Violation{What: "the encoder's output is not one whole frame by its own length fields", Case: fmt.Sprintf("v2 request, metadata a=32767 bytes, b=%d bytes: frame of %d bytes, layout says %d (%s)", vb, len(fr), n, verdict)})
			}
		}
		r.count("pack.metadata-budget-edge")
	}
	// a conformant frame that follows a rejected one on the same connection context decodes like on a fresh context
	for v := 1; v <= 2; v++ {
		bads := []*RefFrame{{V: v, Type: 3, Gzip: true, Cmd: 7, Body: []byte("abcd"), MLenField: -1, BLenField: -1}}
		if v == 2 {
			bads = append(bads, &RefFrame{V: 2, Type: 3, Cmd: 7, Meta: []byte{0x05, 'k'}, Body: []byte("abcd"), MLenField: -1, BLenField: -1})
		}
		for bi, bad := range bads {
			for _, good := range []*RefFrame{
				{V: v, Type: 1, Cmd: 9, Rid: 0x01020304, Timeout: 0x0506, Body: []byte("a request after the failure"), MLenField: -1, BLenField: -1},
				{V: v, Type: 2, Cmd: 9, Rid: 77, Status: 3, Verify: true, Nonce: 5, Sig: []byte("0123456789abcdef"), Body: []byte("ok"), MLenField: -1, BLenField: -1},
				{V: v, Type: 3, Cmd: 9, Body: nil, MLenField: -1, BLenField: -1}} {
				ctx := newCtx(1, uint8(v))
				rb := ringAt(4096, 0)
				rb.Write(bad.encode())
				o1, _, _ := implUnpack(v, ctx, rb)
				rb2 := ringAt(4096, 0)
				rb2.Write(good.encode())
				o2, _, _ := implUnpack(v, ctx, rb2)
				rb3 := ringAt(4096, 0)
				rb3.Write(good.encode())
				o3, _, _ := implUnpack(v, newCtx(1, uint8(v)), rb3)
				if !strings.HasPrefix(o1, "ERR") || o2 != o3 || !strings.HasPrefix(o3, "PKT") {
					r.violate(Violation{What: "a conformant frame decoded after a rejected frame on the same context differs from its decoding on a fresh context",
						Case: fmt.Sprintf("v%d streaming: rejected frame %d (%s), then %s", v, bi, hx(bad.encode()), hx(good.encode())), Impl: o1 + " ; then " + o2, Expect: o3})
				}
				r.st.Evaluations++
				r.count("unpack.after-rejected-frame")
			}
		}
	}
}

func samePK(v int, a, b *PK, orig []byte) string {
	if a.Type != b.Type {
		return "type"
	}
	if uint8(a.Cmd) != uint8(b.Cmd) {
		return "command"
	}
	if a.Type != 3 && a.Rid != b.Rid {
		return "request id"
	}
	if a.Type == 1 && a.Timeout != b.Timeout {
		return "timeout"
	}
	if a.Type == 2 && a.Status != b.Status {
		return "status"
	}
	if a.Verify != b.Verify {
		return "verify flag"
	}
	if a.Verify && (a.Nonce != b.Nonce || !bytes.Equal(a.Sig, b.Sig)) {
		return "nonce/signature"
	}
	if !bytes.Equal(orig, b.Body) {
		return "body"
	}
	if v == 2 {
		low := map[string]string{}
		for k, val := range a.Vals {
			if k == "" {
				continue
			}
			low[strings.ToLower(k)] = val
		}
		if mapStr(low) != mapStr(b.Vals) {
			return "metadata"
		}
	}
	return ""
}

// rtCase: decode(encode p) through both entry points, compared with the model's composition and with p itself.
func (r *Run) rtCase(v int, p *PK, thr int) { r.rtCaseM(v, p, thr, true) }

// rtCaseM: model=false runs the direct oracle only (bodies too large for the model runner in the quick tier).
func (r *Run) rtCaseM(v int, p *PK, thr int, model bool) {
	pkt := p.toPacket()
	ctx := newCtx(p.Codec, uint8(v))
	out, frame := implPack(v, ctx, pkt, thr)
	req := fmt.Sprintf("fr.rt %d %d %d %s", v, thr, p.Codec, p.fields(" ", true))
	compress := thr != 0 && len(p.Body) >= thr
	if compress {
		cb := stdCompress(p.Body)
		req += " " + gzcEntry(p.Body) + " gzr:" + hexIn(cb) + "=" + hexIn(p.Body) + "/E"
	} else if p.Gzip {
		req += " " + gzrEntry(p.Body)
	}
	_, verdict := refOfPK(v, p, thr)
	if frame == nil {
		if model {
			r.emit(req, out, true)
		}
		r.count("rt.encode-" + out)
		if verdict == "OK" {
			r.violate(Violation{What: "encoder failed on a packet of the valid domain", Case: req, Impl: out})
		}
		return
	}
	if verdict != "OK" {
		r.violate(Violation{What: "packet cannot be represented (" + verdict + ") but the encoder produced bytes", Case: req, Impl: out})
	}
	o1, p1 := implUnpackBytes(v, newCtx(p.Codec, uint8(v)), frame)
	rb := ringbuffer.New(64)
	rb.Write(frame)
	o2, p2, _ := implUnpack(v, newCtx(p.Codec, uint8(v)), rb)
	res := "OK " + o1 + " | "
	if p2 != nil {
		res += fmt.Sprintf("OK %s left=%d", pktOut(p2), rb.Length())
	} else {
		res += strings.Fields(o2)[0]
		if strings.HasPrefix(o2, "ERR") {
			res += " " + strings.Fields(o2)[1]
		}
	}
	if model {
		r.emit(req, res, true)
	} else {
		r.count("rt.direct-oracle-only(body too large for the model runner in this tier)")
	}
	r.count(fmt.Sprintf("rt.v%d.type%d.verify%s.gz%s.md%d", v, p.Type, b01(p.Verify), b01(compress), len(p.Vals)))
	if p.Gzip && !compress {
		return // caller-set gzip flag: outside the valid domain (DESIGN.md), model comparison only
	}
	// the streaming entry point under segmentation: a cut at a random position and one inside the trailer / last bytes
	if p1 != nil && len(frame) > 1 && len(frame) < 20000 {
		entries := ""
		if compress {
			entries = " gzr:" + hexIn(stdCompress(p.Body)) + "=" + hexIn(p.Body) + "/E"
		}
		want := []string{pktOut(p1)}
		tail := 24
		if tail > len(frame)-1 {
			tail = len(frame) - 1
		}
		c1 := 1 + r.rng.Intn(len(frame)-1)
		c2 := len(frame) - 1 - r.rng.Intn(tail)
		r.streamCase(v, p.Codec, frame, []int{c1}, 64, r.rng.Intn(64), entries, want, "rt-cut")
		r.streamCase(v, p.Codec, frame, []int{c2}, 4096, r.rng.Intn(4096), entries, want, "rt-cut-tail")
	}
	for i, q := range []*protocol.Packet{p1, p2} {
		name := []string{"one-shot", "streaming"}[i]
		if q == nil {
			r.violate(Violation{What: name + " decode of the encoder's own bytes failed", Case: req, Impl: res})
			continue
		}
		if d := samePK(v, p, pkOf(q), p.Body); d != "" {
			r.violate(Violation{What: name + " decode(encode(p)) differs from p in: " + d, Case: req, Impl: res})
		}
	}
}

func runC01(r *Run) {
	g := r.rng
	r.st.Rule = "decode(encode p) for structured packets of the valid domain (3 types x verify x metadata present/absent x body lengths 0,1,255,256,65535,65536,... x field extremes) x thresholds {0,1,len-1,len,len+1,1024} x versions {1,2} x both decode entry points; compared with the model's composition and, independently, with p (direct oracle); plus v2 metadata that fills the 65535-byte block exactly or leaves one byte, plus unrepresentable packets (unknown type, body over the limit) which must yield an error. distinct = distinct request lines"
	n := 1500
	if r.thorough() {
		n = 30000
	}
	for i := 0; i < n; i++ {
		v := 1 + g.Intn(2)
		p := g.validPK(v, g.Chance(4))
		if g.Chance(3) {
			p.Type = 0
		}
		r.rtCase(v, p, g.threshold(len(p.Body)))
	}
	// the streaming entry point on a ring whose end falls inside the frame (every header offset; body and metadata
	// offsets in steps), and frames that are both signed and compressed
	r.wrapSweep(41, false)
	// metadata that fills the 65535-byte block exactly, or leaves one byte (v2): key "a" -> 32767 bytes (2+2+32767),
	// key "b" -> 32760 / 32759 bytes
	for _, vb := range []int{32760, 32759} {
		p := &PK{Type: 1, Cmd: 9, Rid: 3, Timeout: 7, Codec: 1, Body: []byte("x"),
			Vals: map[string]string{"a": strings.Repeat("p", 32767), "b": strings.Repeat("q", vb)}}
		r.rtCase(2, p, 0)
	}
	// the same with a signature, streamed in pieces: metadata + trailer together exceed 16 bits
	for _, vb := range []int{32760, 32740} {
		f := &RefFrame{V: 2, Type: 1, Verify: true, Cmd: 9, Rid: 3, Timeout: 7, Nonce: 99, Sig: []byte("0123456789abcdef"), Body: []byte("body-after-big-metadata"),
			Meta: refMarshalMap(map[string]string{"a": strings.Repeat("p", 32767), "b": strings.Repeat("q", vb)}, 65535), MLenField: -1, BLenField: -1}
		fr := f.encode()
		o, _ := implUnpackBytes(2, newCtx(1, 2), fr)
		want := []string{strings.TrimPrefix(o, "OK ")}
		for _, cut := range []int{5000, 40000, len(fr) - 30, len(fr) - 3} {
			r.streamCase(2, 1, fr, []int{cut}, 4096, 0, "", want, "signed-full-metadata")
		}
	}
	// the 2^24 boundaries: 2^24-1 is the largest body, 2^24 must be refused (zeros, no gzip)
	for v := 1; v <= 2; v++ {
		for _, n := range []int{1<<24 - 1, 1 << 24} {
			p := &PK{Type: 3, Cmd: 5, Codec: 1, Vals: map[string]string{}, Body: make([]byte, n)}
			r.rtCaseM(v, p, 0, r.thorough() || n == 1<<24)
		}
	}
	if r.thorough() {
		for v := 1; v <= 2; v++ {
			for _, n := range []int{1<<24 - 2, 1<<24 - 1, 1 << 24, 1<<24 + 1} {
				for _, thr := range []int{0, 1024} {
					p := &PK{Type: 1 + n%3, Cmd: 5, Rid: 77, Verify: n%2 == 0, Nonce: 5, Sig: bytes.Repeat([]byte{9}, 16), Codec: 1, Vals: map[string]string{}, Body: make([]byte, n)}
					r.rtCase(v, p, thr)
				}
			}
		}
	}
	r.count("boundary.2^24")
}

// ---- C10 ----
func gzDecOut(in []byte) (string, []byte) {
	var out []byte
	res := ""
	func() {
		defer func() {
			if e := recover(); e != nil {
				res = "PANIC"
			}
		}()
		o, _, err := repogzip.Decompress(in)
		if err != nil {
			res = "ERR EGzip"
			return
		}
		out = o
		res = "OK " + hexsum(o)
	}()
	return res, out
}

func (r *Run) gzCase(in []byte, tag string) {
	res, out := gzDecOut(in)
	req := "gz.dec " + hexIn(in) + " " + gzrEntry(in)
	// the model also reports the capacity it asks for; the implementation's is measured separately (C04)
	so, fin := stdRead(in)
	capv := 0
	if fin != "H" {
		ds := -1
		if len(in) >= 4 {
			ds = int(uint32(in[len(in)-4]) | uint32(in[len(in)-3])<<8 | uint32(in[len(in)-2])<<16 | uint32(in[len(in)-1])<<24)
		}
		if ds > len(in)*1032 {
			ds = len(in) * 1032
		}
		if ds < 0 {
			ds = 0
		}
		capv = ds + 512
	}
	_ = capv
	r.emit(req, res, true)
	r.count("gz." + tag + "." + strings.Fields(res)[0])
	if res == "PANIC" {
		r.violate(Violation{What: "Decompress panicked", Case: req})
		return
	}
	// direct oracle: success only for a complete valid stream, then the full content
	if fin == "E" {
		if !strings.HasPrefix(res, "OK") || !bytes.Equal(out, so) {
			r.violate(Violation{What: "Decompress failed or returned other content on a complete, checksum-valid stream", Case: req, Impl: res, Expect: "OK " + hexsum(so)})
		}
	} else if strings.HasPrefix(res, "OK") {
		r.violate(Violation{What: "Decompress reported success for a stream the gzip reader rejects (truncated/corrupt): truncated or altered data returned as success", Case: req, Impl: res})
	}
}

func runC10(r *Run) {
	g := r.rng
	r.st.Rule = "Compress/Decompress on byte strings (empty, incompressible, compressible, up to 1 MiB; larger in thorough); every single-byte corruption (3 bit patterns) and every truncation of small valid streams incl. CRC and ISIZE trailer; understated/overstated ISIZE, multi-member streams, trailing garbage; frame-level compression rule around the threshold; N goroutines on the pooled compressors, also right after corrupt streams went through the pools and with 150-250 KB streams so that users of one pooled object would overlap. Verdict and content compared with the model instantiated by the standard library reader's own verdict. distinct = distinct request lines"
	// identity
	sizes := []int{0, 1, 2, 100, 1000, 4096, 70000, 1 << 20}
	if r.thorough() {
		sizes = append(sizes, 5<<20, 16<<20)
	}
	for _, n := range sizes {
		for k := 0; k < 3; k++ {
			in := g.body(n)
			cb, err := repogzip.Compress(in)
			if err != nil {
				r.violate(Violation{What: "Compress failed", Case: fmt.Sprintf("len %d", n)})
				continue
			}
			if !bytes.Equal(cb, stdCompress(in)) {
				r.st.Notes = append(r.st.Notes, "repo Compress output differs from stdlib default-level output")
			}
			r.gzCase(cb, "valid")
			_, out := gzDecOut(cb)
			if !bytes.Equal(out, in) {
				r.violate(Violation{What: "Decompress(Compress(x)) != x", Case: fmt.Sprintf("len %d kind %d", n, k)})
			}
		}
	}
	// corruptions and truncations of small valid streams
	nsmall := 6
	if r.thorough() {
		nsmall = 40
	}
	for s := 0; s < nsmall; s++ {
		in := g.body(g.Intn(120))
		if s == 0 {
			in = bytes.Repeat([]byte("abcdefgh"), 100) // 800 bytes, the probe of DESIGN.md
		}
		cb := stdCompress(in)
		for cut := 0; cut < len(cb); cut++ {
			r.gzCase(cb[:cut], "trunc")
		}
		for i := 0; i < len(cb); i++ {
			for _, x := range []byte{0x01, 0x80, 0xff} {
				m := append([]byte(nil), cb...)
				m[i] ^= x
				tag := "corrupt"
				if i >= len(cb)-8 {
					tag = "corrupt-trailer"
				}
				r.gzCase(m, tag)
			}
		}
		// ISIZE under/overstated
		for _, sz := range []uint32{0, 1, 10, uint32(len(in)) - 1, uint32(len(in)) + 1, 1 << 28, 0xffffffff} {
			m := append([]byte(nil), cb...)
			m[len(m)-4], m[len(m)-3], m[len(m)-2], m[len(m)-1] = byte(sz), byte(sz>>8), byte(sz>>16), byte(sz>>24)
			r.gzCase(m, "isize")
		}
		// two members, trailing garbage
		r.gzCase(append(append([]byte(nil), cb...), cb...), "multimember")
		r.gzCase(append(append([]byte(nil), cb...), 0, 1, 2, 3, 4), "trailing")
		r.gzCase(append(append([]byte(nil), cb...), stdCompress(nil)...), "multimember-empty")
	}
	// random bytes
	for i := 0; i < 300; i++ {
		d := g.Bytes(g.Intn(40))
		if g.Bool() && len(d) >= 3 {
			d[0], d[1], d[2] = 0x1f, 0x8b, 8
		}
		r.gzCase(d, "random")
	}
	// frame level: compressed exactly when thr != 0 && len >= thr; flag tells; receiver sees the original
	for i := 0; i < 400; i++ {
		v := 1 + g.Intn(2)
		p := g.validPK(v, false)
		n := len(p.Body)
		for _, thr := range []int{0, 1, n - 1, n, n + 1, 1024} {
			if thr < 0 {
				continue
			}
			frame := r.packCase(v, p, thr)
			if frame == nil {
				continue
			}
			flag := frame[0]>>5&1 == 1
			want := thr != 0 && n >= thr
			if flag != want {
				r.violate(Violation{What: "gzip flag / compression does not follow the rule (threshold non-zero and body length >= threshold)", Case: fmt.Sprintf("v%d len %d thr %d", v, n, thr)})
			}
			r.rtCase(v, p, thr)
		}
	}
	// a packet whose Gzip flag is already set (one that was received compressed and is forwarded) with a plain body at or
	// above the threshold: it is compressed like any other
	for v := 1; v <= 2; v++ {
		for _, n := range []int{1024, 1025, 5000} {
			p := &PK{Type: 2, Cmd: 7, Rid: 11, Codec: 1, Gzip: true, Vals: map[string]string{}, Body: g.body(n)}
			pkt := p.toPacket()
			_, frame := implPack(v, newCtx(1, uint8(v)), pkt, 1024)
			if frame != nil {
				o, q := implUnpackBytes(v, newCtx(1, uint8(v)), frame)
				if q == nil || !bytes.Equal(q.Body, p.Body) {
					r.violate(Violation{What: "a packet whose gzip flag was already set does not round-trip when its body reaches the threshold: the receiver does not see the original body", Case: fmt.Sprintf("v%d body %d threshold 1024", v, n), Impl: o})
				}
			}
			r.st.Evaluations++
		}
	}
	// concurrency on the pools - after the error paths have been through them (a reader or writer handed back twice,
	// or while still in use, only shows under concurrent use afterwards)
	G := 8
	per := 60
	if r.thorough() {
		G, per = 16, 400
	}
	{ // decompression only, precompressed per-worker payloads: the pooled readers are in use most of the time
		W := 16
		ins := make([][]byte, W)
		cbs := make([][]byte, W)
		for i := range ins {
			ins[i] = g.body(150000 + g.Intn(100000))
			cbs[i] = stdCompress(ins[i])
		}
		for i := 0; i < 12; i++ {
			in := g.body(200 + g.Intn(3000))
			cb := stdCompress(in)
			bad := append([]byte(nil), cb...)
			switch i % 4 {
			case 0:
				bad = bad[:len(bad)-1-g.Intn(8)] // truncated trailer
			case 1:
				bad[len(bad)-6] ^= 0x5a // CRC
			case 2:
				bad[len(bad)-2] ^= 0x11 // ISIZE
			case 3:
				bad = bad[:len(bad)/2] // cut inside the deflate stream
			}
			func() {
				defer func() { recover() }()
				repogzip.Decompress(bad)
			}()
		}
		var wg0 sync.WaitGroup
		bad0 := make(chan string, W)
		for i := 0; i < W; i++ {
			wg0.Add(1)
			go func(i int) {
				defer wg0.Done()
				defer func() {
					if e := recover(); e != nil {
						bad0 <- fmt.Sprintf("panic under concurrent Decompress: %v", e)
					}
				}()
				for k := 0; k < 40; k++ {
					out, _, err := repogzip.Decompress(cbs[i])
					if err != nil || !bytes.Equal(out, ins[i]) {
						bad0 <- fmt.Sprintf("concurrent Decompress of a valid stream failed or returned other content (err=%v)", err)
						return
					}
				}
			}(i)
		}
		wg0.Wait()
		close(bad0)
		for b := range bad0 {
			r.violate(Violation{What: b, Case: "16 goroutines x 40 Decompress of their own 150-250 KB stream, after 12 corrupt streams went through the pool"})
			break
		}
		r.st.Dist["concurrent.decompress-only"] = W * 40
	}
	var wg sync.WaitGroup
	bad := make(chan string, G)
	for w := 0; w < G; w++ {
		wg.Add(1)
		gg := g.Fork()
		go func() {
			defer wg.Done()
			defer func() {
				if e := recover(); e != nil {
					bad <- fmt.Sprintf("panic under concurrent use: %v", e)
				}
			}()
			for i := 0; i < per; i++ {
				n := gg.Intn(5000)
				if i%4 == 0 {
					n = 150000 + gg.Intn(100000) // long enough for two users of one pooled object to overlap
				}
				in := gg.body(n)
				cb, err := repogzip.Compress(in)
				if err != nil {
					bad <- "Compress error under concurrency"
					return
				}
				if !bytes.Equal(cb, stdCompress(in)) {
					bad <- "concurrent Compress differs from the sequential result"
					return
				}
				out, _, err := repogzip.Decompress(cb)
				if err != nil || !bytes.Equal(out, in) {
					bad <- "concurrent Decompress(Compress(x)) != x"
					return
				}
			}
		}()
	}
	wg.Wait()
	close(bad)
	for b := range bad {
		r.violate(Violation{What: b, Case: fmt.Sprintf("%d goroutines x %d", G, per)})
	}
	r.st.Dist["concurrent.roundtrips"] = G * per
	// the same after SetLevel (the compressor pool is rebuilt): last, because it changes process-wide state
	if err := repogzip.SetLevel(6); err == nil {
		var wg2 sync.WaitGroup
		bad2 := make(chan string, 8)
		ins := make([][]byte, 8)
		for i := range ins {
			ins[i] = g.body(150000 + g.Intn(100000))
		}
		for w := 0; w < 8; w++ {
			wg2.Add(1)
			go func(w int) {
				defer wg2.Done()
				defer func() {
					if e := recover(); e != nil {
						bad2 <- fmt.Sprintf("panic under concurrent Compress after SetLevel: %v", e)
					}
				}()
				for i := 0; i < 12; i++ {
					cb, err := repogzip.Compress(ins[w])
					if err != nil {
						bad2 <- "Compress error after SetLevel"
						return
					}
					cb = append([]byte(nil), cb...)
					out, fin := stdRead(cb)
					if fin != "E" || !bytes.Equal(out, ins[w]) {
						bad2 <- "concurrent Compress after SetLevel produced a stream that does not decompress to the input"
						return
					}
				}
			}(w)
		}
		wg2.Wait()
		close(bad2)
		for b := range bad2 {
			r.violate(Violation{What: b, Case: "SetLevel(6), then 8 goroutines x 12 Compress of their own 150-250 KB input"})
			break
		}
		r.st.Dist["concurrent.after-setlevel"] = 96
	}
}

// ---- C03 ----
// ringAt builds a ring of the given capacity whose read/write position is off (content empty).
func ringAt(capacity, off int) *ringbuffer.RingBuffer {
	rb := ringbuffer.New(capacity)
	if off > 0 && capacity > 0 {
		off %= capacity
		junk := make([]byte, off)
		rb.Write(junk)
		tmp := make([]byte, off)
		rb.Read(tmp)
		// r == w == off now unless the library reset it; Retrieve to empty keeps positions via Read
	}
	return rb
}

// streamCase: frames cut into chunks, fed through the real ring of the given geometry.
func (r *Run) streamCase(v int, codec uint8, stream []byte, cuts []int, capacity, off int, entries string, want []string, tag string) {
	rb := ringAt(capacity, off)
	ctx := newCtx(codec, uint8(v))
	var ops, outs []string
	var got []string
	var keptP []*protocol.Packet // delivered packets and their rendering at delivery time
	var keptS []string
	other := newCtx(codec, uint8(v)) // another connection of the process, packing between the chunks (shared pools)
	prev := 0
	failed := ""
	for _, c := range append(cuts, len(stream)) {
		if c <= prev {
			continue
		}
		chunk := stream[prev:c]
		prev = c
		rb.Write(chunk)
		ops = append(ops, "f0!"+hexIn(chunk), "a0")
		o, pks := implReadPackets(v, ctx, rb)
		outs = append(outs, "FED", o)
		for _, p := range pks {
			got = append(got, pktOut(p))
			keptP = append(keptP, p)
			keptS = append(keptS, pktOut(p))
		}
		// an unrelated Pack on another context between two socket reads
		implPackQuiet(v, other, uint8(len(ops)))
		if !strings.HasPrefix(o, "OK") {
			failed = o
			break
		}
	}
	for i, p := range keptP {
		if now := pktOut(p); now != keptS[i] {
			r.violate(Violation{What: "a packet already delivered by the streaming decoder changed when later bytes were fed (it aliases the receive buffer)",
				Case: fmt.Sprintf("v%d cap=%d off=%d cuts=%v packet %d: was %.80s, is now %.80s", v, capacity, off, cuts, i, keptS[i], now)})
			break
		}
	}
	req := fmt.Sprintf("st.hist %d %d %s%s", codec, v, strings.Join(ops, " "), entries)
	if len(ops) > 0 && !nonASCIIStream(v, stream) {
		r.emit(req, strings.Join(outs, " ; "), true)
		// the same run as one value of Model/Chunks.v run_chunks (the function C03's whole-run theorem is about)
		var cs []string
		for i := 0; i < len(ops); i += 2 {
			cs = append(cs, strings.TrimPrefix(ops[i], "f0!"))
		}
		end := "NEED"
		if failed != "" {
			if f := strings.Fields(failed); len(f) >= 2 && f[0] == "ERR" {
				end = f[0] + " " + f[1]
			} else if len(f) >= 1 {
				end = f[0]
			}
		}
		r.emit(fmt.Sprintf("st.chunks %d %d %s%s", codec, v, strings.Join(cs, " "), entries),
			fmt.Sprintf("%d [%s] %s q=%d", len(got), strings.Join(got, " / "), end, rb.Length()), true)
	}
	r.count("stream." + tag)
	if want == nil {
		return
	}
	geo := fmt.Sprintf(" [ring capacity %d, offset %d, cuts %v]", capacity, off, cuts)
	if failed != "" {
		r.violate(Violation{What: "streaming decoder failed on a stream of valid frames: " + failed, Case: req + geo})
		return
	}
	if strings.Join(got, " / ") != strings.Join(want, " / ") {
		r.violate(Violation{What: "packets from the chunked stream differ from decoding each frame on its own", Case: req + geo,
			Impl: strings.Join(got, " / "), Expect: strings.Join(want, " / ")})
	}
	if rb.Length() != 0 {
		r.violate(Violation{What: "bytes left in the buffer after the last complete frame", Case: req + geo})
	}
}

func (g *RNG) frameSeq(v int, codec uint8, n int, small bool) (stream []byte, want []string, entries string) {
	for i := 0; i < n; i++ {
		f := g.specFrame(v, true)
		if small {
			f.Body = g.body(g.Intn(6))
			f.Gzip = false
		}
		if f.Gzip {
			_, fin := stdRead(f.Body)
			if fin != "E" {
				f.Gzip = false
			}
		}
		fr := f.encode()
		o, _ := implUnpackBytes(v, newCtx(codec, uint8(v)), fr)
		if !strings.HasPrefix(o, "OK") {
			i--
			continue
		}
		if f.Gzip {
			entries += " " + gzrEntry(f.Body)
		}
		want = append(want, strings.TrimPrefix(o, "OK "))
		stream = append(stream, fr...)
	}
	return
}

func runC03(r *Run) {
	g := r.rng
	r.st.Rule = "back-to-back frame sequences (both versions, all types, verify/gzip/metadata mixes, body >= 256 so the three length bytes differ) x partitions (random cuts; every single cut position; 1-byte chunks; fixed chunk sizes) x ring geometries (capacity 1..64, 509, 4096; every start offset so each multi-byte field meets the wrap) through the real Unpack on the real ring buffer; an unrelated Pack on another context between every two chunks (shared header pools); packets and left-over counts compared with the model after every chunk and with per-frame one-shot decoding (direct oracle); delivered packets are re-rendered after the whole stream: they must not have changed (no aliasing of the receive buffer). ; plus the concrete ring model (Ring.v) against the ring buffer itself: random geometries reached through the public API (incl. growth), private state read by reflection, Length/Peek/Retrieve sequences compared item by item with the final r/w/isEmpty/content. distinct = distinct request lines"
	nseq := 60
	if r.thorough() {
		nseq = 1200
	}
	for s := 0; s < nseq; s++ {
		v := 1 + g.Intn(2)
		codec := uint8(1)
		small := s%3 != 0
		stream, want, entries := g.frameSeq(v, codec, 1+g.Intn(4), small)
		// random partitions x random geometry
		for k := 0; k < 6; k++ {
			var cuts []int
			nc := g.Intn(8)
			for i := 0; i < nc; i++ {
				cuts = append(cuts, g.Intn(len(stream)+1))
			}
			sortInts(cuts)
			capacity := []int{1, 2, 3, 5, 8, 13, 24, 40, 64, 509, 4096}[g.Intn(11)]
			r.streamCase(v, codec, stream, cuts, capacity, g.Intn(capacity+1), entries, want, "random")
		}
		if len(stream) <= 400 {
			// every single cut position, two geometries; 1-byte chunks
			for c := 1; c < len(stream); c++ {
				r.streamCase(v, codec, stream, []int{c}, 4096, 0, entries, want, "cut1")
			}
			all := make([]int, 0, len(stream))
			for c := 1; c < len(stream); c++ {
				all = append(all, c)
			}
			r.streamCase(v, codec, stream, all, 16, g.Intn(16), entries, want, "bytewise")
		}
	}
	r.wrapSweep(map[bool]int{true: 1, false: 7}[r.thorough()], true)
	r.ringCases(map[bool]int{true: 20000, false: 1500}[r.thorough()])
	r.c03TCP()
}

func sortInts(a []int) {
	for i := 1; i < len(a); i++ {
		for j := i; j > 0 && a[j] < a[j-1]; j-- {
			a[j], a[j-1] = a[j-1], a[j]
		}
	}
}

// ---- C04 ----
func (r *Run) hostileFrames(v int, g *RNG) [][]byte {
	var out [][]byte
	f := g.specFrame(v, true)
	base := f.encode()
	// every truncation point (bounded), every length field manipulation
	step := 1
	if len(base) > 200 {
		step = len(base) / 100
	}
	for c := 0; c < len(base); c += step {
		out = append(out, base[:c])
	}
	for _, bl := range []int{0, 1, len(f.Body) - 1, len(f.Body) + 1, 1<<24 - 1, 1 << 16} {
		if bl < 0 {
			continue
		}
		h := *f
		h.BLenField = bl
		out = append(out, h.encode())
	}
	if v == 2 {
		for _, ml := range []int{0, 1, len(f.Meta) - 1, len(f.Meta) + 1, 65535} {
			if ml < 0 {
				continue
			}
			h := *f
			h.MLenField = ml
			// keep total length constant by adjusting the body length when possible (swap bytes between the sections)
			if g.Bool() {
				h.BLenField = len(f.Body) + len(f.Meta) - ml
				if h.BLenField < 0 {
					h.BLenField = 0
				}
			}
			out = append(out, h.encode())
		}
	}
	for k := 0; k < 6; k++ {
		m := append([]byte(nil), base...)
		if len(m) > 0 {
			m[g.Intn(min(len(m), 16))] ^= byte(1 << uint(g.Intn(8)))
		}
		out = append(out, m)
	}
	out = append(out, g.Bytes(g.Intn(40)))
	return out
}

func min(a, b int) int {
	if a < b {
		return a
	}
	return b
}

func totalAlloc() uint64 {
	var m runtime.MemStats
	runtime.ReadMemStats(&m)
	return m.TotalAlloc
}

func runC04(r *Run) {
	if os.Getenv("VERIF_C04_CHILD") != "" {
		c04Child()
		return
	}
	g := r.rng
	r.st.Rule = "hostile byte strings (every truncation point of valid frames, every length field set to 0/max/actual+-1 incl. metadata/body length swaps, bit flips in the header, random bytes, hostile metadata blocks, gzip trailers under/overstating the size) through one-shot decode, streaming decode under several chunkings on wrapped rings, metadata decode, handshake decode and gzip decode: verdict class (OK/ERR/PANIC) and consumed counts compared with the model; bytes allocated per call measured against the input length (direct oracle); cases that claim huge sizes run in a child process under a memory limit. distinct = distinct request lines"
	n := 250
	if r.thorough() {
		n = 5000
	}
	for i := 0; i < n; i++ {
		v := 1 + g.Intn(2)
		for _, h := range r.hostileFrames(v, g) {
			r.unpackCase(v, 1, h, "hostile")
			// chunked streaming on a small wrapped ring
			var cuts []int
			for c := 0; c < g.Intn(4); c++ {
				cuts = append(cuts, g.Intn(len(h)+1))
			}
			sortInts(cuts)
			capacity := []int{1, 7, 16, 64, 4096}[g.Intn(5)]
			r.streamCaseGz(v, h, cuts, capacity, g.Intn(capacity+1))
			// allocation: one-shot decode must not allocate in proportion to a length field
			before := totalAlloc()
			implUnpackBytes(v, newCtx(1, uint8(v)), h)
			rbx := ringbuffer.New(len(h) + 1)
			rbx.Write(h)
			implUnpack(v, newCtx(1, uint8(v)), rbx)
			d := totalAlloc() - before
			if d > uint64(2*1032*len(h)+1<<20) {
				r.violate(Violation{What: fmt.Sprintf("decoding %d input bytes allocated %d bytes", len(h), d), Case: "fr.unpack " + fmt.Sprint(v) + " 1 " + hexIn(h)})
			}
		}
	}
	// metadata and handshake decoders on hostile input are covered by C09/C18 cases; a sample here for the verdict class
	for i := 0; i < 400; i++ {
		d := g.Bytes(g.Intn(30))
		o, _ := unmarshalOut(d)
		if asciiKeys(d) {
			r.emit("md.unm "+hx(d), o, len(d) > 0)
		}
		if o == "PANIC" {
			r.violate(Violation{What: "UnmarshalValues panicked", Case: "md.unm " + hx(d)})
		}
		var hs protocol.Handshake
		hd := g.Bytes(g.Intn(5))
		ho := "ERR EHandshakeLen"
		if err := hs.Unpack(hd); err == nil {
			ho = fmt.Sprintf("OK %d %d %d %d", hs.Version, hs.Codec, hs.Platform, hs.Reserve)
		}
		r.emit("hs.unpack "+hx(hd), ho, true)
	}
	// gzip: requested capacity vs input length, incl. hostile trailers; big claims in a child under a memory limit
	small := stdCompress([]byte("hello hello hello"))
	for _, sz := range []uint32{0, 17, 18, 1 << 16, 1 << 24, 1 << 28, 1 << 31, 0xffffffff} {
		m := append([]byte(nil), small...)
		m[len(m)-4], m[len(m)-3], m[len(m)-2], m[len(m)-1] = byte(sz), byte(sz>>8), byte(sz>>16), byte(sz>>24)
		req := "gz.dec " + hexIn(m) + " " + gzrEntry(m)
		res, ok := c04RunChild(m)
		verdict, capStr := res, ""
		if i := strings.Index(res, " cap="); i >= 0 {
			verdict, capStr = res[:i], res[i+5:]
		}
		r.emit(req, verdict, true)
		r.count("gz.alloc." + strings.Fields(res)[0])
		// no buffer growth happened iff len(out)+MinRead <= requested capacity: then cap(out) is exactly the request
		so, fin := stdRead(m)
		want := int(sz)
		if want > len(m)*1032 {
			want = len(m) * 1032
		}
		want += 512
		if ok && fin != "H" && len(so)+512 <= want {
			r.emit("gz.cap "+hexIn(m)+" "+gzrEntry(m), capStr, true)
		}
		if ok && capStr != "" {
			var c int
			fmt.Sscan(capStr, &c)
			if c > 1032*len(m)+2*512+2*len(so) {
				r.violate(Violation{What: fmt.Sprintf("gzip decode of %d input bytes pre-allocated %d bytes (size trailer %d is unvalidated input)", len(m), c, sz), Case: req, Impl: res})
			}
		}
		if !ok {
			r.violate(Violation{What: "gzip decode of a " + fmt.Sprint(len(m)) + "-byte input with size trailer " + fmt.Sprint(sz) + " exhausted memory / crashed (allocation driven by an unvalidated length field)", Case: req, Impl: res})
		}
	}
	// typed body / error extraction on arbitrary bodies
	for i := 0; i < 2000; i++ {
		body := g.Bytes(g.Intn(24))
		for _, codec := range []uint8{0, 1, 2, 3} {
			p := &protocol.Packet{Metadata: &protocol.Metadata{Type: protocol.ResponsePacket, StatusCode: uint8(1 + g.Intn(255)), Codec: protocol.CodecType(codec)}, Body: body}
			func() {
				defer func() {
					if e := recover(); e != nil {
						r.violate(Violation{What: "Packet.Err panicked", Case: fmt.Sprintf("codec %d body %s", codec, hx(body))})
					}
				}()
				if p.Err() == nil {
					r.violate(Violation{What: "non-zero status did not yield an error", Case: hx(body)})
				}
			}()
		}
		r.st.Dist["packet.err"] += 4
	}
}

// streamCaseGz: hostile stream with gzip oracle entries for whatever body the layout designates.
func (r *Run) streamCaseGz(v int, h []byte, cuts []int, capacity, off int) {
	entries := ""
	if rf, _, verdict := refDecode(v, h); verdict == "OK" && rf.Gzip {
		entries = " " + gzrEntry(rf.Body)
	}
	r.streamCase(v, 1, h, cuts, capacity, off, entries, nil, "hostile")
}

// c04RunChild decodes one gzip input in a child process under an address-space limit; the result line
// is "<verdict> cap=<cap(out)>"; ok=false when the child was killed (the runtime's fatal out-of-memory).
func c04RunChild(in []byte) (string, bool) {
	self, _ := os.Executable()
	cmd := exec.Command("/bin/sh", "-c", "ulimit -v 2097152; exec \"$0\" C04", self)
	cmd.Env = append(os.Environ(), "VERIF_C04_CHILD="+hx(in))
	out, err := cmd.Output()
	if err != nil {
		return "CRASH " + strings.TrimSpace(string(out)), false
	}
	return strings.TrimSpace(string(out)), true
}

func c04Child() {
	in := unhx(os.Getenv("VERIF_C04_CHILD"))
	out, _, err := repogzip.Decompress(in)
	res := "OK " + hexsum(out)
	if err != nil {
		res = "ERR EGzip"
	}
	fmt.Printf("%s cap=%d\n", res, cap(out))
	os.Exit(0)
}

// nonASCIIMeta: the frame's metadata block (as the layout designates it) has a key with a byte >= 0x80;
// strings.ToLower is modelled bytewise for ASCII keys only (DESIGN.md), such cases are not compared with the model.
func nonASCIIMeta(v int, frame []byte) bool {
	if v != 2 {
		return false
	}
	rf, _, verdict := refDecode(v, frame)
	if verdict != "OK" {
		// the one-shot decoder may still look at a metadata block before rejecting for the trailer
		rf2, ok := refDecodeNoTrailer(frame)
		if !ok {
			return false
		}
		return !asciiKeys(rf2)
	}
	return !asciiKeys(rf.Meta)
}

// refDecodeNoTrailer: metadata section of a v2 frame ignoring the verify trailer requirement.
func refDecodeNoTrailer(data []byte) ([]byte, bool) {
	if len(data) == 0 {
		return nil, false
	}
	ty := int(data[0] & 15)
	if ty < 1 || ty > 3 {
		return nil, false
	}
	hl := map[int]int{1: 13, 2: 12, 3: 7}[ty]
	if len(data) < hl {
		return nil, false
	}
	ml := int(data[hl-5])<<8 | int(data[hl-4])
	if len(data)-hl < ml {
		return nil, false
	}
	return data[hl : hl+ml], true
}

// nonASCIIStream: any complete frame of the stream carries a non-ASCII metadata key.
func nonASCIIStream(v int, stream []byte) bool {
	for len(stream) > 0 {
		if nonASCIIMeta(v, stream) {
			return true
		}
		_, n, verdict := refDecode(v, stream)
		if verdict != "OK" || n == 0 {
			return false
		}
		stream = stream[n:]
	}
	return false
}

// ---- C11 ----
func runC11(r *Run) {
	g := r.rng
	r.st.Rule = "histories of 5-40 operations (Pack, one-shot UnpackBytes, buffer feed, single streaming Unpack, Unpack-until-not-done; successful, failing and partial) interleaved over 1-3 connection contexts of both versions on one goroutine, each result compared with the model (whose results are the operation in isolation plus that context's own buffered bytes); deliberately awkward orders: partial request then push, response then push, failed decode then anything, compressed then uncompressed; plus N goroutines with independent contexts compared with the sequential results. Finally the same frame (gzip bodies: one member, two members, member + empty member, member + garbage, truncated, not gzip; both versions) is decoded five times, the first time after two garbage collections so that the pools are empty: all five results must be equal. distinct = distinct request lines"
	nh := 300
	if r.thorough() {
		nh = 6000
	}
	for i := 0; i < nh; i++ {
		r.histCase(g, 5+g.Intn(36))
	}
	// concurrency: independent contexts on N goroutines must each see the sequential results
	G := 8
	var wg sync.WaitGroup
	bad := make(chan Violation, G)
	for w := 0; w < G; w++ {
		wg.Add(1)
		gg := g.Fork()
		go func() {
			defer wg.Done()
			for i := 0; i < 150; i++ {
				v := 1 + gg.Intn(2)
				p := gg.validPK(v, false)
				thr := gg.threshold(len(p.Body))
				ref, verdict := refOfPK(v, p, thr)
				out, frame := implPack(v, newCtx(p.Codec, uint8(v)), p.toPacket(), thr)
				if verdict == "OK" && (frame == nil || !bytes.Equal(frame, ref.encode())) {
					bad <- Violation{What: "concurrent Pack differs from the sequential/layout result", Case: p.fields(" ", true), Impl: out}
					return
				}
				if frame != nil {
					o, q := implUnpackBytes(v, newCtx(p.Codec, uint8(v)), frame)
					if q == nil || samePK(v, p, pkOf(q), p.Body) != "" {
						bad <- Violation{What: "concurrent decode(encode(p)) != p", Case: p.fields(" ", true), Impl: o}
						return
					}
				}
			}
		}()
	}
	wg.Wait()
	close(bad)
	for b := range bad {
		r.violate(b)
	}
	r.st.Dist["concurrent.goroutines"] = G
	r.c11RepeatDecode()
}

// c11RepeatDecode: the same frame decoded several times in a row - the first time after two garbage collections, so
// that the process-wide pools are empty and fresh objects are built, then with recycled ones - gives the same result
// every time. The bodies are gzip streams on which a fresh and a recycled decompressor could disagree.
func (r *Run) c11RepeatDecode() {
	a, b := stdCompress([]byte("first member of the body")), stdCompress(bytes.Repeat([]byte("second "), 40))
	bodies := map[string][]byte{
		"one member":               a,
		"two members":              append(append([]byte(nil), a...), b...),
		"member + empty member":    append(append([]byte(nil), a...), stdCompress(nil)...),
		"member + trailing bytes":  append(append([]byte(nil), a...), 9, 9, 9),
		"truncated inside trailer": a[:len(a)-3],
		"not gzip":                 []byte("plain bytes with the gzip flag set"),
	}
	for _, v := range []int{1, 2} {
		for name, body := range bodies {
			fr := (&RefFrame{V: v, Type: 3, Gzip: true, Cmd: 50, Body: body, MLenField: -1, BLenField: -1}).encode()
			runtime.GC()
			runtime.GC()
			first, _ := implUnpackBytes(v, newCtx(1, uint8(v)), fr)
			for k := 0; k < 4; k++ {
				again, _ := implUnpackBytes(v, newCtx(1, uint8(v)), fr)
				if again != first {
					r.violate(Violation{What: "decoding the same frame twice gave different results: the first decode ran on freshly built pool objects, the later ones on recycled ones",
						Case: fmt.Sprintf("v%d push, gzip flag set, body = %s; %s", v, name, hx(fr)), Impl: "decode " + fmt.Sprint(k+2) + ": " + again, Expect: "decode 1: " + first})
					break
				}
			}
			r.st.Evaluations++
			r.count("c11.repeat-decode")
		}
	}
}

func (r *Run) histCase(g *RNG, nops int) {
	nctx := 1 + g.Intn(3)
	vers := make([]int, nctx)
	ctxs := make([]*protocol.Context, nctx)
	rbs := make([]*ringbuffer.RingBuffer, nctx)
	var vs []string
	for c := range vers {
		vers[c] = 1 + g.Intn(2)
		vs = append(vs, fmt.Sprint(vers[c]))
		ctxs[c] = newCtx(1, uint8(vers[c]))
		capacity := []int{4, 16, 64, 4096}[g.Intn(4)]
		rbs[c] = ringAt(capacity, g.Intn(capacity))
	}
	var ops, outs []string
	entries := map[string]bool{}
	pendingFeed := make([][]byte, nctx)
	nonASCII := false
	for i := 0; i < nops; i++ {
		c := g.Intn(nctx)
		v := vers[c]
		switch k := g.Intn(10); {
		case k < 3: // feed a (part of a) frame
			var chunk []byte
			if len(pendingFeed[c]) > 0 {
				n := 1 + g.Intn(len(pendingFeed[c]))
				chunk, pendingFeed[c] = pendingFeed[c][:n], pendingFeed[c][n:]
			} else {
				f := g.specFrame(v, g.Chance(90))
				if f.Gzip {
					entries[gzrEntry(f.Body)] = true
				}
				fr := f.encode()
				if g.Chance(10) && len(fr) > 0 {
					fr[g.Intn(min(len(fr), 14))] ^= byte(1 << uint(g.Intn(8)))
					if rf, _, vd := refDecode(v, fr); vd == "OK" && rf.Gzip {
						entries[gzrEntry(rf.Body)] = true
					}
				}
				nonASCII = nonASCII || nonASCIIMeta(v, fr)
				n := 1 + g.Intn(len(fr))
				chunk, pendingFeed[c] = fr[:n], fr[n:]
			}
			rbs[c].Write(chunk)
			ops = append(ops, fmt.Sprintf("f%d!%s", c, hexIn(chunk)))
			outs = append(outs, "FED")
		case k < 5:
			o, _, _ := implUnpack(v, ctxs[c], rbs[c])
			ops = append(ops, fmt.Sprintf("u%d", c))
			outs = append(outs, o)
			if strings.HasPrefix(o, "ERR") || strings.HasPrefix(o, "PANIC") {
				pendingFeed[c] = nil
			}
		case k < 6:
			o, _ := implReadPackets(v, ctxs[c], rbs[c])
			ops = append(ops, fmt.Sprintf("a%d", c))
			outs = append(outs, o)
			if !strings.HasPrefix(o, "OK") {
				pendingFeed[c] = nil
			}
		case k < 8: // one-shot decode on the same context
			f := g.specFrame(v, g.Chance(90))
			if g.Chance(50) {
				f.Type = 3 // a push: carries no id/timeout/status of its own, so stale fields show
			}
			if f.Gzip {
				entries[gzrEntry(f.Body)] = true
			}
			fr := f.encode()
			if g.Chance(10) {
				fr = fr[:g.Intn(len(fr)+1)]
				if rf, _, vd := refDecode(v, fr); vd == "OK" && rf.Gzip {
					entries[gzrEntry(rf.Body)] = true
				}
			}
			nonASCII = nonASCII || nonASCIIMeta(v, fr)
			o, _ := implUnpackBytes(v, ctxs[c], fr)
			ops = append(ops, fmt.Sprintf("b%d!%s", c, hexIn(fr)))
			outs = append(outs, o)
		default: // encode
			p := g.validPK(v, false)
			p.Codec = 1
			if g.Chance(5) {
				p.Type = 0
			}
			thr := g.threshold(len(p.Body))
			if thr != 0 && len(p.Body) >= thr {
				entries[gzcEntry(p.Body)] = true
			}
			o, _ := implPack(v, ctxs[c], p.toPacket(), thr)
			ops = append(ops, fmt.Sprintf("p%d!%d!%s", c, thr, p.fields("~", true)))
			outs = append(outs, o)
		}
	}
	var es []string
	for e := range entries {
		es = append(es, e)
	}
	sortStrings(es)
	req := fmt.Sprintf("st.hist 1 %s %s", strings.Join(vs, ","), strings.Join(ops, " "))
	if len(es) > 0 {
		req += " " + strings.Join(es, " ")
	}
	if nonASCII {
		r.count("hist.nonascii-metadata-key(not compared with the model)")
	} else {
		r.emit(req, strings.Join(outs, " ; "), true)
	}
	r.count(fmt.Sprintf("hist.ctx%d", nctx))
	for _, o := range outs {
		if strings.HasPrefix(o, "PANIC") {
			r.violate(Violation{What: "codec operation panicked inside a history", Case: req})
			break
		}
	}
}

func sortStrings(a []string) {
	for i := 1; i < len(a); i++ {
		for j := i; j > 0 && a[j] < a[j-1]; j-- {
			a[j], a[j-1] = a[j-1], a[j]
		}
	}
}

// implPackQuiet packs a small request on ctx and discards the result (exercises the shared header pools).
func implPackQuiet(v int, ctx *protocol.Context, n uint8) {
	defer func() { recover() }()
	p, err := protocol.NewPacket(ctx, protocol.RequestPacket, uint32(n), nil)
	if err != nil {
		return
	}
	if pr, err := protocol.GetProtocol(uint8(v)); err == nil {
		pr.Pack(ctx, &p)
	}
}

// wrapSweep: one signed frame per version and type (twice, back to back) through a ring of 1200 bytes at start offsets
// 0, step, 2*step, ... and at every offset that puts the physical end of the ring inside the first frame's header;
// plus, per version, a frame that is both signed and gzip-compressed. Header fields have pairwise distinct bytes.
func (r *Run) wrapSweep(step int, full bool) {
	g := r.rng
	for v := 1; v <= 2; v++ {
		for ty := 1; ty <= 3; ty++ {
			f := &RefFrame{V: v, Type: ty, Verify: true, Cmd: 0xC1, Rid: 0xA1A2A3A4, Timeout: 0xB1B2, Status: 0xD1, Nonce: 0xE1E2E3E4E5E6E7E8,
				Sig: []byte("0123456789abcdef"), Body: g.body(0x0203), MLenField: -1, BLenField: -1}
			if v == 2 {
				f.Meta = refMarshalMap(map[string]string{"key": strings.Repeat("v", 0x0105)}, 65535)
			}
			fr := f.encode()
			o, _ := implUnpackBytes(v, newCtx(1, uint8(v)), fr)
			// three copies: the third one is written over the place of the first (a delivered packet must not change)
			want := []string{strings.TrimPrefix(o, "OK "), strings.TrimPrefix(o, "OK "), strings.TrimPrefix(o, "OK ")}
			stream := append(append(append([]byte(nil), fr...), fr...), fr...)
			capacity := 1200
			// chunks no larger than a frame, so that the ring never has to grow (growing would undo the wrap)
			cuts := []int{len(fr) / 2, len(fr), len(fr) + len(fr)/3, 2 * len(fr), 2*len(fr) + len(fr)/2}
			for off := 0; off < capacity; off += step {
				r.streamCase(v, 1, stream, cuts, capacity, off, "", want, "wrap-sweep")
			}
			// the offsets that put the wrap inside the header fields, always
			for off := capacity - 20; off < capacity; off++ {
				r.streamCase(v, 1, stream, cuts, capacity, off, "", want, "wrap-header")
				if full {
					r.streamCase(v, 1, stream, nil, capacity, off, "", want, "wrap-header")
				}
			}
		}
		// a body length whose three bytes are all different and non-zero (0x030201), the ring's end at every position of the
		// header: the header arrives alone (the ring grows for the body afterwards, the header is parsed by then)
		for ty := 1; ty <= 3 && full; ty++ { // (C03 only: 197 KB bodies are slow in the model runner)
			bf := &RefFrame{V: v, Type: ty, Cmd: 0xC1, Rid: 0xA1A2A3A4, Timeout: 0xB1B2, Status: 0xD1, Body: bytes.Repeat([]byte{0x5a}, 0x030201), MLenField: -1, BLenField: -1}
			bfr := bf.encode()
			hl := len(bfr) - 0x030201
			o, _ := implUnpackBytes(v, newCtx(1, uint8(v)), bfr)
			want := []string{strings.TrimPrefix(o, "OK ")}
			for off := 64 - hl - 1; off < 64; off++ {
				if off < 0 {
					continue
				}
				r.streamCase(v, 1, bfr, []int{hl}, 64, off, "", want, "wrap-header-bigbody")
			}
		}
		// signed AND compressed: trailer and decompression both apply
		plain := []byte(strings.Repeat("signed and compressed body ", 20))
		cb := stdCompress(plain)
		gf := &RefFrame{V: v, Type: 2, Verify: true, Gzip: true, Cmd: 0x21, Rid: 77, Status: 0, Nonce: 0x0102030405060708,
			Sig: []byte("fedcba9876543210"), Body: cb, MLenField: -1, BLenField: -1}
		gfr := gf.encode()
		o, _ := implUnpackBytes(v, newCtx(1, uint8(v)), gfr)
		want := []string{strings.TrimPrefix(o, "OK ")}
		ent := " " + gzrEntry(cb)
		r.streamCase(v, 1, gfr, nil, 4096, 0, ent, want, "signed-gzip")
		r.streamCase(v, 1, gfr, []int{len(gfr) / 3, 2 * len(gfr) / 3}, 64, 5, ent, want, "signed-gzip")
	}
}
