package main

// Infrastructure for the client-layer properties: recording logger, hook gates,
// scripted in-process TCP and WebSocket peers speaking through the reference
// codec (codec.go), helpers to build frames and control bodies.

import (
	"bytes"
	"context"
	"fmt"
	"net"
	"net/http"
	"net/http/httptest"
	"os"
	"runtime"
	"runtime/pprof"
	"strings"
	"sync"
	"sync/atomic"
	"time"

	"github.com/gorilla/websocket"
	control "github.com/longportapp/openapi-protobufs/gen/go/control"
	protocol "github.com/longportapp/openapi-protocol/go"
	"github.com/longportapp/openapi-protocol/go/client"
	"github.com/longportapp/openapi-protocol/go/verifhook"
	"google.golang.org/protobuf/proto"
)

// ---------- recording logger ----------
type recLogger struct {
	mu    sync.Mutex
	lines []string
	at    []time.Time
	cond  *sync.Cond
	hold  map[string]chan struct{} // a log line containing the key blocks until the channel is closed
}

func newRecLogger() *recLogger {
	l := &recLogger{hold: map[string]chan struct{}{}}
	l.cond = sync.NewCond(&l.mu)
	return l
}
func (l *recLogger) add(s string) {
	l.mu.Lock()
	l.lines = append(l.lines, s)
	l.at = append(l.at, time.Now())
	var wait chan struct{}
	for k, ch := range l.hold {
		if strings.Contains(s, k) {
			wait = ch
		}
	}
	l.cond.Broadcast()
	l.mu.Unlock()
	if wait != nil {
		<-wait
	}
}
func (l *recLogger) setHold(key string, ch chan struct{}) {
	l.mu.Lock()
	l.hold[key] = ch
	l.mu.Unlock()
}
func (l *recLogger) clearHold(key string) {
	l.mu.Lock()
	delete(l.hold, key)
	l.mu.Unlock()
}
func (l *recLogger) SetLevel(string)                   {}
func (l *recLogger) Info(m string)                     { l.add("I " + m) }
func (l *recLogger) Error(m string)                    { l.add("E " + m) }
func (l *recLogger) Warn(m string)                     { l.add("W " + m) }
func (l *recLogger) Debug(m string)                    { l.add("D " + m) }
func (l *recLogger) Infof(m string, a ...interface{})  { l.add("I " + fmt.Sprintf(m, a...)) }
func (l *recLogger) Errorf(m string, a ...interface{}) { l.add("E " + fmt.Sprintf(m, a...)) }
func (l *recLogger) Warnf(m string, a ...interface{})  { l.add("W " + fmt.Sprintf(m, a...)) }
func (l *recLogger) Debugf(m string, a ...interface{}) { l.add("D " + fmt.Sprintf(m, a...)) }
func (l *recLogger) count(sub string) int {
	l.mu.Lock()
	defer l.mu.Unlock()
	n := 0
	for _, s := range l.lines {
		if strings.Contains(s, sub) {
			n++
		}
	}
	return n
}

// waitCount blocks until at least n lines contain sub.
func (l *recLogger) waitCount(sub string, n int, d time.Duration) bool {
	deadline := time.Now().Add(d)
	for {
		if l.count(sub) >= n {
			return true
		}
		if time.Now().After(deadline) {
			return false
		}
		time.Sleep(2 * time.Millisecond)
	}
}

// timesOf returns the times of the lines containing sub.
func (l *recLogger) timesOf(sub string) []time.Time {
	l.mu.Lock()
	defer l.mu.Unlock()
	var out []time.Time
	for i, s := range l.lines {
		if strings.Contains(s, sub) {
			out = append(out, l.at[i])
		}
	}
	return out
}
func (l *recLogger) snapshot() []string {
	l.mu.Lock()
	defer l.mu.Unlock()
	return append([]string(nil), l.lines...)
}

// ---------- hook gates ----------
type hookHub struct {
	mu     sync.Mutex
	counts map[string]int
	gates  map[string]*gate
	events []string
	times  map[string][]time.Time // arrival times per hook point
}
type gate struct {
	spinN   int32 // >0: released goroutines spin until spinN of them have woken up (or 20 ms), to leave together
	woken   int32
	parked  chan []interface{} // a goroutine arrived (its args)
	release chan struct{}
	pred    func(args []interface{}) bool
	once    bool
	used    bool
}

var hub = &hookHub{counts: map[string]int{}, gates: map[string]*gate{}}

func installHooks() {
	verifhook.Install(func(name string, args ...interface{}) {
		hub.mu.Lock()
		hub.counts[name]++
		if hub.times != nil && name == "ka.tick" {
			hub.times[name] = append(hub.times[name], time.Now())
		}
		g := hub.gates[name]
		if g != nil && (g.pred == nil || g.pred(args)) && !(g.once && g.used) {
			g.used = true
		} else {
			g = nil
		}
		hub.mu.Unlock()
		if g != nil {
			g.parked <- args
			<-g.release
			if n := atomic.LoadInt32(&g.spinN); n > 0 {
				atomic.AddInt32(&g.woken, 1)
				for t0 := time.Now(); atomic.LoadInt32(&g.woken) < n && time.Since(t0) < 20*time.Millisecond; {
				}
			}
		}
	})
}
func (h *hookHub) reset() {
	h.mu.Lock()
	for _, g := range h.gates {
		select {
		case <-g.release:
		default:
			close(g.release)
		}
	}
	h.counts = map[string]int{}
	h.gates = map[string]*gate{}
	h.times = map[string][]time.Time{}
	h.mu.Unlock()
}

// arm installs a gate at a hook point: the first goroutine that reaches it (and satisfies pred) parks.
func (h *hookHub) arm(name string, pred func([]interface{}) bool) *gate {
	g := &gate{parked: make(chan []interface{}, 64), release: make(chan struct{}), pred: pred, once: true}
	h.mu.Lock()
	h.gates[name] = g
	h.mu.Unlock()
	return g
}

// armAll: every goroutine that reaches the point parks until the gate is opened.
func (h *hookHub) armAll(name string, pred func([]interface{}) bool) *gate {
	g := &gate{parked: make(chan []interface{}, 256), release: make(chan struct{}), pred: pred}
	h.mu.Lock()
	h.gates[name] = g
	h.mu.Unlock()
	return g
}
func (h *hookHub) count(name string) int {
	h.mu.Lock()
	defer h.mu.Unlock()
	return h.counts[name]
}
func (g *gate) waitParked(d time.Duration) bool {
	select {
	case <-g.parked:
		return true
	case <-time.After(d):
		return false
	}
}
func (g *gate) open() {
	select {
	case <-g.release:
	default:
		close(g.release)
	}
}
func waitUntil(d time.Duration, f func() bool) bool {
	deadline := time.Now().Add(d)
	for {
		if f() {
			return true
		}
		if time.Now().After(deadline) {
			return false
		}
		time.Sleep(time.Millisecond)
	}
}

// ---------- frames ----------
func respFrame(v int, cmd uint8, rid uint32, status uint8, body []byte) []byte {
	f := &RefFrame{V: v, Type: 2, Cmd: cmd, Rid: rid, Status: status, Body: body, MLenField: -1, BLenField: -1}
	return f.encode()
}
func pushFrame(v int, cmd uint8, body []byte) []byte {
	f := &RefFrame{V: v, Type: 3, Cmd: cmd, Body: body, MLenField: -1, BLenField: -1}
	return f.encode()
}
func reqFrame(v int, cmd uint8, rid uint32, body []byte) []byte {
	f := &RefFrame{V: v, Type: 1, Cmd: cmd, Rid: rid, Timeout: 0, Body: body, MLenField: -1, BLenField: -1}
	return f.encode()
}
func pbBytes(m proto.Message) []byte {
	b, err := proto.Marshal(m)
	if err != nil {
		panic(err)
	}
	return b
}
func authRespBody(session string, expiresInMs int64) []byte {
	return pbBytes(&control.AuthResponse{SessionId: session, Expires: time.Now().UnixNano()/1e6 + expiresInMs})
}
func errBody(code uint64, msg string) []byte { return pbBytes(&control.Error{Code: code, Msg: msg}) }

// ---------- TCP peer ----------
type tcpPeer struct {
	ln      net.Listener
	conns   chan *peerConn
	mu      sync.Mutex
	all     []*peerConn
	refuse  bool
	stopped bool
}
type peerConn struct {
	c      net.Conn
	idx    int
	hs     []byte
	buf    []byte
	v      int
	mu     sync.Mutex
	frames []*RefFrame // every frame read so far
	raw    []byte      // every byte read after the handshake
	closed bool
}

func newTCPPeer() *tcpPeer {
	ln, err := net.Listen("tcp", "127.0.0.1:0")
	if err != nil {
		panic(err)
	}
	p := &tcpPeer{ln: ln, conns: make(chan *peerConn, 64)}
	go func() {
		for {
			c, err := ln.Accept()
			if err != nil {
				return
			}
			p.mu.Lock()
			if p.refuse {
				p.mu.Unlock()
				c.Close()
				continue
			}
			pc := &peerConn{c: c, idx: len(p.all)}
			p.all = append(p.all, pc)
			p.mu.Unlock()
			p.conns <- pc
		}
	}()
	return p
}
func (p *tcpPeer) url() string { return "tcp://" + p.ln.Addr().String() }
func (p *tcpPeer) accept(d time.Duration) *peerConn {
	select {
	case c := <-p.conns:
		return c
	case <-time.After(d):
		return nil
	}
}
func (p *tcpPeer) nconns() int {
	p.mu.Lock()
	defer p.mu.Unlock()
	return len(p.all)
}

// stopListening closes the listener: later dials are refused.
func (p *tcpPeer) stopListening() { p.ln.Close() }
func (p *tcpPeer) shutdown() {
	p.ln.Close()
	p.mu.Lock()
	for _, c := range p.all {
		c.c.Close()
	}
	p.mu.Unlock()
}

func (pc *peerConn) fill(d time.Duration) error {
	pc.c.SetReadDeadline(time.Now().Add(d))
	tmp := make([]byte, 1<<16)
	n, err := pc.c.Read(tmp)
	if n > 0 {
		pc.buf = append(pc.buf, tmp[:n]...)
	}
	return err
}

// readHandshake reads the two handshake bytes.
func (pc *peerConn) readHandshake(d time.Duration) bool {
	deadline := time.Now().Add(d)
	for len(pc.buf) < 2 {
		if err := pc.fill(time.Until(deadline)); err != nil && len(pc.buf) < 2 {
			return false
		}
	}
	pc.hs = append([]byte(nil), pc.buf[:2]...)
	pc.v = int(pc.hs[0] & 15)
	pc.buf = pc.buf[2:]
	return true
}

// readFrame returns the next whole frame (reference decoder), or nil on timeout/close.
func (pc *peerConn) readFrame(d time.Duration) *RefFrame {
	deadline := time.Now().Add(d)
	for {
		if f, n, verdict := refDecode(pc.v, pc.buf); verdict == "OK" {
			cp := *f
			cp.Body = append([]byte(nil), f.Body...)
			cp.Meta = append([]byte(nil), f.Meta...)
			pc.mu.Lock()
			pc.raw = append(pc.raw, pc.buf[:n]...)
			pc.frames = append(pc.frames, &cp)
			pc.mu.Unlock()
			pc.buf = pc.buf[n:]
			return &cp
		} else if verdict == "EUnknownPacket" {
			return nil
		}
		if time.Now().After(deadline) {
			return nil
		}
		if err := pc.fill(time.Until(deadline)); err != nil {
			if ne, ok := err.(net.Error); ok && ne.Timeout() {
				return nil
			}
			// closed: one last attempt on what is buffered
			if _, _, verdict := refDecode(pc.v, pc.buf); verdict != "OK" {
				pc.closed = true
				return nil
			}
		}
	}
}

// peerClosed reports whether the client side closed this connection: EOF / reset is seen before the connection has
// been idle for d (unread data still in flight is drained first, however much there is; 5 s at most).
func (pc *peerConn) peerClosed(d time.Duration) bool {
	tmp := make([]byte, 1<<16)
	limit := time.Now().Add(5 * time.Second)
	for time.Now().Before(limit) {
		pc.c.SetReadDeadline(time.Now().Add(d))
		n, err := pc.c.Read(tmp)
		if n > 0 {
			if len(pc.buf) < 1<<20 {
				pc.buf = append(pc.buf, tmp[:n]...)
			}
			continue
		}
		if err != nil {
			if ne, ok := err.(net.Error); ok && ne.Timeout() {
				return false
			}
			return true
		}
	}
	return false
}
func (pc *peerConn) send(b []byte) error { _, err := pc.c.Write(b); return err }
func (pc *peerConn) close()              { pc.c.Close() }

// ---------- WebSocket peer ----------
type wsPeer struct {
	srv     *httptest.Server
	conns   chan *wsPeerConn
	mu      sync.Mutex
	all     []*wsPeerConn
	stall   int32         // != 0: accept the TCP connection but never answer the HTTP upgrade
	stalled int32         // upgrades currently stalled
	stallCh chan struct{} // closed at shutdown
}
type wsPeerConn struct {
	stopRead int32      // != 0: the peer stops reading (the connection stays open)
	wmu      sync.Mutex // gorilla: one writer at a time
	c        *websocket.Conn
	query    string
	msgs     chan wsMsg
}
type wsMsg struct {
	kind int // websocket.BinaryMessage, PingMessage(9), PongMessage(10), CloseMessage(8); -1 = read error
	data []byte
}

func newWSPeer() *wsPeer {
	p := &wsPeer{conns: make(chan *wsPeerConn, 64), stallCh: make(chan struct{})}
	up := websocket.Upgrader{}
	p.srv = httptest.NewServer(http.HandlerFunc(func(w http.ResponseWriter, r *http.Request) {
		if st := atomic.LoadInt32(&p.stall); st == 2 { // delay: answer the upgrade once the flag is cleared
			atomic.AddInt32(&p.stalled, 1)
			for i := 0; i < 500 && atomic.LoadInt32(&p.stall) == 2; i++ {
				time.Sleep(10 * time.Millisecond)
			}
		} else if st != 0 {
			atomic.AddInt32(&p.stalled, 1)
			select {
			case <-p.stallCh:
			case <-r.Context().Done():
			}
			return
		}
		c, err := up.Upgrade(w, r, nil)
		if err != nil {
			return
		}
		pc := &wsPeerConn{c: c, query: r.URL.RawQuery, msgs: make(chan wsMsg, 1024)}
		c.SetPingHandler(func(d string) error { pc.msgs <- wsMsg{websocket.PingMessage, []byte(d)}; return nil })
		c.SetPongHandler(func(d string) error { pc.msgs <- wsMsg{websocket.PongMessage, []byte(d)}; return nil })
		c.SetCloseHandler(func(code int, text string) error {
			pc.msgs <- wsMsg{websocket.CloseMessage, []byte(fmt.Sprintf("%d:%s", code, text))}
			return nil
		})
		p.mu.Lock()
		p.all = append(p.all, pc)
		p.mu.Unlock()
		p.conns <- pc
		for {
			for atomic.LoadInt32(&pc.stopRead) != 0 { // stalled until the flag is cleared (or the peer shuts down)
				select {
				case <-p.stallCh:
					return
				default:
					time.Sleep(10 * time.Millisecond)
				}
			}
			t, data, err := c.ReadMessage()
			if err != nil {
				pc.msgs <- wsMsg{-1, []byte(err.Error())}
				return
			}
			pc.msgs <- wsMsg{t, data}
		}
	}))
	return p
}
func (p *wsPeer) url() string { return "ws" + strings.TrimPrefix(p.srv.URL, "http") }
func (p *wsPeer) accept(d time.Duration) *wsPeerConn {
	select {
	case c := <-p.conns:
		return c
	case <-time.After(d):
		return nil
	}
}
func (p *wsPeer) shutdown() {
	select {
	case <-p.stallCh:
	default:
		close(p.stallCh)
	}
	p.mu.Lock()
	for _, c := range p.all {
		c.c.Close()
	}
	p.mu.Unlock()
	p.srv.CloseClientConnections()
	go p.srv.Close()
}
func (pc *wsPeerConn) next(d time.Duration) *wsMsg {
	select {
	case m := <-pc.msgs:
		return &m
	case <-time.After(d):
		return nil
	}
}

// ---------- clients ----------
type testClient struct {
	cli     client.Client
	log     *recLogger
	closeCB []string
	recon   int
	mu      sync.Mutex
	// reconHold, when set, parks the after-reconnect callback (after it was counted) until the channel is closed
	reconHold chan struct{}
	jsonCodec bool // handshake with the JSON codec instead of protobuf
}

func newTestClient() *testClient {
	l := newRecLogger()
	tc := &testClient{log: l}
	tc.cli = client.New(client.WithLogger(l))
	tc.cli.OnClose(func(err error) {
		tc.mu.Lock()
		tc.closeCB = append(tc.closeCB, fmt.Sprint(err))
		tc.mu.Unlock()
	})
	tc.cli.AfterReconnected(func() {
		tc.mu.Lock()
		tc.recon++
		hold := tc.reconHold
		tc.mu.Unlock()
		if hold != nil {
			<-hold
		}
	})
	return tc
}
func (tc *testClient) setReconHold(ch chan struct{}) {
	tc.mu.Lock()
	tc.reconHold = ch
	tc.mu.Unlock()
}
func (tc *testClient) reconCount() int {
	tc.mu.Lock()
	defer tc.mu.Unlock()
	return tc.recon
}
func (tc *testClient) closeCallbacks() []string {
	tc.mu.Lock()
	defer tc.mu.Unlock()
	return append([]string(nil), tc.closeCB...)
}
func (tc *testClient) dial(url string, v uint8, opts ...client.DialOption) error {
	codec := protocol.CodecProtobuf
	if tc.jsonCodec {
		codec = protocol.CodecJSON
	}
	return tc.cli.Dial(context.Background(), url, &protocol.Handshake{Version: v, Codec: codec, Platform: protocol.PlatformOpenapi}, opts...)
}

type doResult struct {
	pkt   *protocol.Packet
	err   error
	panic string
	dur   time.Duration
}

// doAsync runs Do in its own goroutine and reports the outcome (a panic inside Do is caught here).
func (tc *testClient) doAsync(cmd uint32, body proto.Message, timeout time.Duration) chan doResult {
	ch := make(chan doResult, 1)
	go func() {
		var r doResult
		t0 := time.Now()
		func() {
			defer func() {
				if e := recover(); e != nil {
					r.panic = fmt.Sprint(e)
				}
			}()
			r.pkt, r.err = tc.cli.Do(context.Background(), &client.Request{Cmd: cmd, Body: body}, client.RequestTimeout(timeout))
		}()
		r.dur = time.Since(t0)
		ch <- r
	}()
	return ch
}

// doAsyncOpts is doAsync with the caller's own request options (none = the library default timeout).
func (tc *testClient) doAsyncOpts(cmd uint32, body proto.Message, opts ...client.RequestOption) chan doResult {
	ch := make(chan doResult, 1)
	go func() {
		var r doResult
		t0 := time.Now()
		func() {
			defer func() {
				if e := recover(); e != nil {
					r.panic = fmt.Sprint(e)
				}
			}()
			r.pkt, r.err = tc.cli.Do(context.Background(), &client.Request{Cmd: cmd, Body: body}, opts...)
		}()
		r.dur = time.Since(t0)
		ch <- r
	}()
	return ch
}

func awaitDo(ch chan doResult, d time.Duration) (doResult, bool) {
	select {
	case r := <-ch:
		return r, true
	case <-time.After(d):
		return doResult{}, false
	}
}

// resultStr: canonical description of a Do outcome.
func resultStr(r doResult) string {
	switch {
	case r.panic != "":
		return "PANIC"
	case r.err != nil:
		if e, ok := r.err.(*protocol.LBError); ok {
			return fmt.Sprintf("LBERR %d %d %s", e.Status, e.Code, hx([]byte(e.Message)))
		}
		if strings.Contains(r.err.Error(), "timeout") {
			return "TIMEOUT"
		}
		return "ERR"
	default:
		return fmt.Sprintf("RESP %d %d %s", r.pkt.Metadata.RequestId, r.pkt.Metadata.StatusCode, hx(r.pkt.Body))
	}
}

// ---------- goroutine accounting ----------
func libGoroutines() (total int, byFunc map[string]int) {
	var buf bytes.Buffer
	pprof.Lookup("goroutine").WriteTo(&buf, 2)
	byFunc = map[string]int{}
	for _, g := range strings.Split(buf.String(), "\n\n") {
		if !strings.Contains(g, "openapi-protocol/go/client.") {
			continue
		}
		total++
		for _, fn := range []string{"tcpConn).reading", "tcpConn).writing", "tcpConn).OnPacket", "wsConn).reading", "wsConn).writing", "wsConn).OnPacket", "client).keepalive", "client).reconnecting"} {
			if strings.Contains(g, fn) {
				byFunc[fn]++
				break
			}
		}
	}
	return
}

// libStacks: stacks of the goroutines that are inside the client library, at most n bytes.
func libStacks(n int) string {
	var buf bytes.Buffer
	pprof.Lookup("goroutine").WriteTo(&buf, 2)
	var out []string
	for _, g := range strings.Split(buf.String(), "\n\n") {
		if strings.Contains(g, "openapi-protocol/go/client.") {
			out = append(out, g)
		}
	}
	s := strings.Join(out, "\n\n")
	if len(s) > n {
		s = s[:n]
	}
	return s
}

func goroutineDump() string {
	buf := make([]byte, 1<<20)
	n := runtime.Stack(buf, true)
	return string(buf[:n])
}

var _ = os.Getenv
