package main

// C13: push dispatch — right handlers, exactly once, in order; only logged overflow is lost.

import (
	"context"
	"fmt"
	"strings"
	"sync"
	"time"

	"github.com/gorilla/websocket"
	protocol "github.com/longportapp/openapi-protocol/go"
	"github.com/longportapp/openapi-protocol/go/client"
)

func init() { props["C13"] = runC13 }

type hcall struct {
	h    int
	cmd  uint32
	body string
}

func (r *Run) c13Scenario(trans string, v, Q, N int, slow bool, closeWhileBusy bool) {
	g := r.rng
	var mu sync.Mutex
	var calls []hcall
	var kept []*protocol.Packet // every packet a handler was given, and what its body was at that moment
	var keptBody []string
	entered := make(chan struct{}, 1)
	release := make(chan struct{})
	first := true
	// subscriptions: cmd 50 -> h0,h1 ; 51 -> h2 ; 52 -> h3,h4,h5 ; 1,2,3 (control numbers) -> h6 ; 53 none
	subsTab := map[uint32][]int{50: {0, 1}, 51: {2}, 52: {3, 4, 5}, 1: {6}, 2: {6}, 3: {6}}
	prep := func(tc *testClient) {
		for _, cmd := range []uint32{50, 51, 52, 1, 2, 3} {
			for _, h := range subsTab[cmd] {
				h := h
				tc.cli.Subscribe(cmd, func(p *protocol.Packet) {
					mu.Lock()
					blk := slow && first
					first = false
					calls = append(calls, hcall{h, p.CMD(), hx(p.Body)})
					kept = append(kept, p)
					keptBody = append(keptBody, hx(p.Body))
					mu.Unlock()
					if blk {
						entered <- struct{}{}
						<-release
					}
				})
			}
		}
	}
	s, err := openSessionPrep(trans, v, prep, client.ReadQueueSize(Q))
	if err != nil {
		r.violate(Violation{What: "scenario setup failed: " + err.Error(), Case: trans})
		return
	}
	defer s.close()
	hub.reset()
	addHook := map[string]string{"tcp": "tcp.before-add", "ws": "ws.before-add"}[trans]
	mk := func(n int) (*RefFrame, string) {
		var f *RefFrame
		switch c := g.Intn(10); {
		case c < 6:
			f = &RefFrame{V: v, Type: 3, Cmd: uint8(50 + g.Intn(4)), Body: []byte(fmt.Sprintf("p%d", n))}
		case c < 7:
			f = &RefFrame{V: v, Type: 2, Cmd: 70, Rid: uint32(5000 + n), Body: []byte("r")} // response nobody waits for
		case c < 8:
			f = &RefFrame{V: v, Type: 2, Cmd: 1, Rid: 3, Body: nil} // heartbeat response
		case c < 9:
			f = &RefFrame{V: v, Type: 3, Cmd: uint8(1 + g.Intn(3)), Body: []byte(fmt.Sprintf("ctl%d", n))} // push-typed control command
		default:
			f = &RefFrame{V: v, Type: 1, Cmd: 60, Rid: uint32(n), Body: []byte("q")} // a request from the peer
		}
		f.MLenField, f.BLenField = -1, -1
		rid := f.Rid
		if f.Type == 3 {
			rid = 0
		}
		return f, fmt.Sprintf("R.%d.%d.%d.%d.%d.%s", n, f.Type, f.Cmd, rid, f.Status, hx(f.Body))
	}
	var events []string
	sent := 0
	if slow {
		f := &RefFrame{V: v, Type: 3, Cmd: 50, Body: []byte("first"), MLenField: -1, BLenField: -1}
		s.lk.sendFrame(f.encode())
		events = append(events, fmt.Sprintf("R.0.3.50.0.0.%s", hx(f.Body)), "K")
		sent++
		select {
		case <-entered:
		case <-time.After(2 * time.Second):
			r.violate(Violation{What: "first push never reached its handler", Case: trans})
			return
		}
		// the burst, written at once (one TCP write; separate messages on WebSocket)
		var burst []byte
		for i := 1; i <= N; i++ {
			f, ev := mk(i)
			events = append(events, ev)
			if trans == "tcp" {
				burst = append(burst, f.encode()...)
			} else {
				s.lk.sendFrame(f.encode())
			}
			sent++
		}
		if trans == "tcp" {
			s.lk.sendFrame(burst)
		}
		if !waitUntil(5*time.Second, func() bool { return hub.count(addHook) >= sent }) {
			r.violate(Violation{What: "reader did not decode all frames of the burst", Case: fmt.Sprintf("%s N=%d", trans, N)})
			return
		}
		time.Sleep(20 * time.Millisecond)
		if closeWhileBusy {
			// the connection goes away while the dispatcher is still inside the handler: the frames already
			// queued must still be delivered (the dispatcher drains its queue when it sees the close)
			s.lk.drop()
			s.tc.log.waitCount("close conn", 1, 2*time.Second)
			time.Sleep(20 * time.Millisecond)
			events = append(events, "C") // the model's dispatcher drains everything in its next (last) iteration
		}
		close(release)
		for i := 0; i <= N; i++ {
			events = append(events, "K")
		}
		want := 1 + N
		if N > Q {
			want = 1 + Q
		}
		s.tc.log.waitCount("got packet", want, 3*time.Second)
	} else {
		close(release)
		for i := 0; i < N; i++ {
			f, ev := mk(i)
			s.lk.sendFrame(f.encode())
			events = append(events, ev, "K")
			sent++
			s.tc.log.waitCount("got packet", sent, 2*time.Second)
		}
	}
	time.Sleep(40 * time.Millisecond)
	mu.Lock()
	got := append([]hcall(nil), calls...)
	mu.Unlock()
	var cs []string
	for _, c := range got {
		cs = append(cs, fmt.Sprintf("%d:%d:%s", c.h, c.cmd, c.body))
	}
	callStr := "-"
	if len(cs) > 0 {
		callStr = strings.Join(cs, ",")
	}
	drops := s.tc.log.count("drop packet for channel full")
	taken := s.tc.log.count("got packet")
	// a packet handed to a handler must not change afterwards (its body may not alias a receive buffer that is reused)
	mu.Lock()
	for i, p := range kept {
		if hx(p.Body) != keptBody[i] {
			r.violate(Violation{What: "the body of a delivered push changed after later frames were received (it aliases a reused receive buffer)",
				Case: fmt.Sprintf("%s v%d Q=%d N=%d: delivery %d was %s, is now %s", trans, v, Q, N, i, keptBody[i], hx(p.Body))})
			break
		}
	}
	mu.Unlock()
	out := fmt.Sprintf("calls=%s drops=%d taken=%d", callStr, drops, taken)
	r.emit(fmt.Sprintf("dp.run %d 50:0.1,51:2,52:3.4.5,1:6,2:6,3:6 %s", Q, strings.Join(events, " ")), out, true)
	r.count(fmt.Sprintf("c13.%s.Q%d.slow%v.close%v", trans, Q, slow, closeWhileBusy))
	// direct oracle
	for _, c := range got {
		ok := false
		for _, h := range subsTab[c.cmd] {
			if h == c.h {
				ok = true
			}
		}
		if !ok || c.cmd <= 3 {
			r.violate(Violation{What: fmt.Sprintf("handler %d was invoked for command %d (control packets never go to subscribers; handlers only get their own command)", c.h, c.cmd), Case: out})
			break
		}
	}
	if drops == 0 {
		// every push exactly once to every handler of its command, in order
		perH := map[int][]string{}
		for _, c := range got {
			perH[c.h] = append(perH[c.h], c.body)
		}
		for _, ev := range events {
			if !strings.HasPrefix(ev, "R.") {
				continue
			}
			parts := strings.Split(ev, ".")
			var ty, cmd int
			fmt.Sscan(parts[2], &ty)
			fmt.Sscan(parts[3], &cmd)
			if ty != 3 || cmd <= 3 {
				continue
			}
			for _, h := range subsTab[uint32(cmd)] {
				if len(perH[h]) == 0 || perH[h][0] != parts[6] {
					r.violate(Violation{What: fmt.Sprintf("push (cmd %d body %s) was not delivered exactly once, in order, to handler %d although nothing overflowed", cmd, parts[6], h), Case: out})
					return
				}
				perH[h] = perH[h][1:]
			}
		}
		for h, rest := range perH {
			if len(rest) > 0 {
				r.violate(Violation{What: fmt.Sprintf("handler %d received extra deliveries %v", h, rest), Case: out})
			}
		}
	}
}

// c13AcrossReconnect: pushes before a drop and after the recovery are all delivered, in order, once.
func (r *Run) c13AcrossReconnect() {
	var mu sync.Mutex
	var bodies []string
	prep := func(tc *testClient) {
		tc.cli.Subscribe(50, func(p *protocol.Packet) { mu.Lock(); bodies = append(bodies, string(p.Body)); mu.Unlock() })
	}
	s, err := openSessionPrep("tcp", 1, prep, client.DialTimeout(time.Second))
	if err != nil {
		r.violate(Violation{What: "scenario setup failed: " + err.Error(), Case: "tcp"})
		return
	}
	defer s.close()
	for i := 0; i < 3; i++ {
		s.lk.sendFrame(pushFrame(1, 50, []byte(fmt.Sprintf("a%d", i))))
	}
	s.tc.log.waitCount("got packet", 3, 2*time.Second)
	s.lk.drop()
	pc := s.tcp.accept(4 * time.Second)
	if pc == nil || !pc.readHandshake(2*time.Second) {
		r.violate(Violation{What: "client did not re-dial after the peer dropped the connection", Case: "c13 across reconnect"})
		return
	}
	waitUntil(3*time.Second, func() bool { return s.tc.reconCount() >= 1 })
	for i := 0; i < 3; i++ {
		pc.send(pushFrame(1, 50, []byte(fmt.Sprintf("b%d", i))))
	}
	waitUntil(2*time.Second, func() bool { mu.Lock(); defer mu.Unlock(); return len(bodies) >= 6 })
	time.Sleep(30 * time.Millisecond)
	mu.Lock()
	got := strings.Join(bodies, ",")
	mu.Unlock()
	if got != "a0,a1,a2,b0,b1,b2" {
		r.violate(Violation{What: "pushes before the drop and after the recovery were not each delivered once, in order: got " + got, Case: "a0 a1 a2 | drop+recover | b0 b1 b2"})
	}
	r.count("c13.across-reconnect")
}

func runC13(r *Run) {
	installHooks()
	g := r.rng
	r.st.Rule = "scripted peer over TCP and WebSocket: handlers registered before dialing (several per command, one also on the control command numbers), then either frames one by one, or a first push whose handler blocks while a burst of N frames (pushes of 4 commands, unsolicited responses, heartbeat responses, push-typed control commands, peer requests) arrives in one write, for queue sizes 1..16 so that the burst overflows; the handler-invocation sequence, the logged drops and the dispatched count are compared with Model/Dispatch.v replaying reader/dispatcher steps; direct oracle: own-command handlers only, control never delivered, exactly-once in order when nothing was dropped; plus delivery across a drop+recovery. Also: delivered packets are kept and re-rendered later (no aliasing of receive buffers); pushes in WebSocket text messages; two clients receiving 1500 numbered pushes each at the same time; a handler that calls back into the client while the loss of the connection is processed; three pushes and a drop while Dial is parked before it registers the packet callback (dial.before-onpacket gate): the pushes are still delivered (TCP and WS). distinct = distinct request lines"
	n := 10
	if r.thorough() {
		n = 150
	}
	for i := 0; i < n; i++ {
		trans := []string{"tcp", "ws"}[i%2]
		Q := []int{1, 2, 3, 5, 8, 16}[g.Intn(6)]
		slow := i%3 != 2
		N := 3 + g.Intn(24)
		r.c13Scenario(trans, 1+g.Intn(2), Q, N, slow, false)
	}
	if r.thorough() {
		// a burst larger than one TCP read buffer (1 MiB): 40 pushes of 40 KiB
		r.c13Scenario("tcp", 1, 16, 12, true, false)
	}
	// connection closed while the dispatcher is busy, 1..3 frames queued
	for _, trans := range []string{"tcp", "ws"} {
		for n := 1; n <= 3; n++ {
			r.c13Scenario(trans, 1, 8, n, true, true)
		}
	}
	r.c13AcrossReconnect()
	r.c13ReentrantHandler()
	r.c13TextMessages()
	r.c13TwoClients()
	r.c13ReadBeforeRegistration()
}

// c13TextMessages: a WebSocket peer (or gateway) may carry frames in text messages as well as binary ones.
func (r *Run) c13TextMessages() {
	var mu sync.Mutex
	var got []string
	s, err := openSessionPrep("ws", 1, func(tc *testClient) {
		tc.cli.Subscribe(50, func(p *protocol.Packet) { mu.Lock(); got = append(got, string(p.Body)); mu.Unlock() })
	})
	if err != nil {
		return
	}
	defer s.close()
	pc := s.lk.(wsLink).pc
	var want []string
	for i := 0; i < 10; i++ {
		b := fmt.Sprintf("m%d", i)
		want = append(want, b)
		kind := websocket.BinaryMessage
		if i%2 == 1 {
			kind = websocket.TextMessage
		}
		pc.wmu.Lock()
		pc.c.WriteMessage(kind, pushFrame(1, 50, []byte(b)))
		pc.wmu.Unlock()
	}
	waitUntil(2*time.Second, func() bool { mu.Lock(); defer mu.Unlock(); return len(got) >= len(want) })
	mu.Lock()
	defer mu.Unlock()
	if strings.Join(got, ",") != strings.Join(want, ",") {
		r.violate(Violation{What: "push frames carried in WebSocket text messages were not all delivered in order", Case: "ws: 10 pushes, alternating binary and text messages", Impl: strings.Join(got, ","), Expect: strings.Join(want, ",")})
	}
	r.st.Evaluations++
	r.count("c13.ws.text-messages")
}

// c13TwoClients: two clients of one process receive bursts at the same time (nothing may be shared between their
// connections); every push must reach its own client's handler, in order.
func (r *Run) c13TwoClients() {
	const N = 1500
	type side struct {
		s   *session
		mu  sync.Mutex
		got []string
	}
	var sides [2]*side
	for i := range sides {
		sd := &side{}
		tag := fmt.Sprintf("c%d", i)
		s, err := openSessionPrep("tcp", 1, func(tc *testClient) {
			tc.cli.Subscribe(50, func(p *protocol.Packet) { sd.mu.Lock(); sd.got = append(sd.got, string(p.Body)); sd.mu.Unlock() })
		}, client.ReadQueueSize(4096))
		if err != nil {
			return
		}
		_ = tag
		sd.s = s
		sides[i] = sd
	}
	defer sides[0].s.close()
	defer sides[1].s.close()
	var wg sync.WaitGroup
	for i, sd := range sides {
		wg.Add(1)
		go func(i int, sd *side) {
			defer wg.Done()
			var buf []byte
			for k := 0; k < N; k++ {
				buf = append(buf, pushFrame(1, 50, []byte(fmt.Sprintf("c%d-%05d-%s", i, k, strings.Repeat(string(rune('a'+i)), 40))))...)
				if len(buf) > 3000 {
					sd.s.lk.sendFrame(buf)
					buf = nil
				}
			}
			if len(buf) > 0 {
				sd.s.lk.sendFrame(buf)
			}
		}(i, sd)
	}
	wg.Wait()
	for i, sd := range sides {
		waitUntil(3*time.Second, func() bool { sd.mu.Lock(); defer sd.mu.Unlock(); return len(sd.got) >= N })
		sd.mu.Lock()
		bad := ""
		if len(sd.got) != N {
			bad = fmt.Sprintf("%d of %d pushes delivered", len(sd.got), N)
		} else {
			for k, b := range sd.got {
				if b != fmt.Sprintf("c%d-%05d-%s", i, k, strings.Repeat(string(rune('a'+i)), 40)) {
					bad = fmt.Sprintf("delivery %d is %q", k, b)
					break
				}
			}
		}
		drops := sd.s.tc.log.count("drop packet for channel full")
		sd.mu.Unlock()
		if bad != "" && drops == 0 {
			r.violate(Violation{What: "with two clients receiving at the same time a client did not get exactly its own pushes in order although nothing overflowed: " + bad,
				Case: fmt.Sprintf("two tcp clients, %d pushes each, sent concurrently; client %d", N, i)})
		}
	}
	r.st.Evaluations++
	r.count("c13.tcp.two-clients")
}

// c13ReentrantHandler: a push handler calls back into the client (a request) while the loss of the connection is being
// processed; the frames queued behind it still reach every handler of their command.
func (r *Run) c13ReentrantHandler() {
	var mu sync.Mutex
	got := map[int][]string{}
	var tcRef *testClient
	s, err := openSessionPrep("tcp", 1, func(tc *testClient) {
		tcRef = tc
		first := true
		tc.cli.Subscribe(50, func(p *protocol.Packet) {
			mu.Lock()
			got[1] = append(got[1], string(p.Body))
			f := first
			first = false
			mu.Unlock()
			if f {
				time.Sleep(200 * time.Millisecond) // the peer drops meanwhile
				func() {
					defer func() { recover() }()
					tcRef.cli.Do(context.Background(), &client.Request{Cmd: 33}, client.RequestTimeout(150*time.Millisecond))
				}()
			}
		})
		tc.cli.Subscribe(50, func(p *protocol.Packet) { mu.Lock(); got[2] = append(got[2], string(p.Body)); mu.Unlock() })
	}, client.DialTimeout(fDial))
	if err != nil {
		return
	}
	defer s.close()
	var burst []byte
	for i := 1; i <= 3; i++ {
		burst = append(burst, pushFrame(1, 50, []byte(fmt.Sprintf("f%d", i)))...)
	}
	s.lk.sendFrame(burst)
	time.Sleep(60 * time.Millisecond)
	s.lk.drop()
	ok := waitUntil(4*time.Second, func() bool { mu.Lock(); defer mu.Unlock(); return len(got[1]) == 3 && len(got[2]) == 3 })
	mu.Lock()
	defer mu.Unlock()
	if !ok {
		r.violate(Violation{What: fmt.Sprintf("pushes queued behind a handler that calls back into the client during a connection loss were not all delivered: handler 1 got %v, handler 2 got %v", got[1], got[2]),
			Case: "tcp: 3 pushes in one segment, two handlers, the first sleeps 200 ms and then issues a request; the peer drops after 60 ms"})
	}
	r.st.Evaluations++
	r.count("c13.tcp.reentrant-handler")
}

// c13ReadBeforeRegistration: the connection delivers pushes and is then dropped by the peer in the window between the
// dialer's return and the registration of the client's packet callback (dial.before-onpacket gate); the frames the
// reader has already queued are still owed to the handlers.
func (r *Run) c13ReadBeforeRegistration() {
	for _, trans := range []string{"tcp", "ws"} {
		hub.reset()
		g := hub.arm("dial.before-onpacket", nil)
		var mu sync.Mutex
		var got []string
		s := &session{tc: newTestClient(), v: 1, trans: trans}
		s.tc.cli.Subscribe(50, func(p *protocol.Packet) { mu.Lock(); got = append(got, string(p.Body)); mu.Unlock() })
		opts := []client.DialOption{client.DialTimeout(fDial), client.Keepalive(time.Hour), client.KeepaliveTimeout(2 * time.Hour), client.ReadQueueSize(8)}
		errc := make(chan error, 1)
		var l1 link
		if trans == "tcp" {
			s.tcp = newTCPPeer()
			go func() { errc <- s.tc.dial(s.tcp.url(), 1, opts...) }()
			if pc := s.tcp.accept(3 * time.Second); pc != nil && pc.readHandshake(2*time.Second) {
				l1 = tcpLink{pc}
			}
		} else {
			s.ws = newWSPeer()
			go func() { errc <- s.tc.dial(s.ws.url(), 1, opts...) }()
			if pc := s.ws.accept(3 * time.Second); pc != nil {
				l1 = wsLink{pc, 1}
			}
		}
		cs := trans + ": 3 pushes, then the peer drops the connection, all before Dial has registered the packet callback (keepalive 1 h)"
		if l1 != nil && g.waitParked(2*time.Second) {
			for i := 1; i <= 3; i++ {
				l1.sendFrame(pushFrame(1, 50, []byte(fmt.Sprintf("e%d", i))))
			}
			time.Sleep(50 * time.Millisecond)
			l1.drop()
			s.tc.log.waitCount("close conn, err", 1, 2*time.Second) // the reader has queued the frames and closed the connection
			g.open()
			hub.reset()
			select {
			case <-errc:
			case <-time.After(3 * time.Second):
			}
			ok := waitUntil(2*time.Second, func() bool { mu.Lock(); defer mu.Unlock(); return len(got) >= 3 })
			s.tc.log.waitCount("conn receive packet error", 1, time.Second)
			mu.Lock()
			{
				// the same history through Model/Dispatch.v, starting from a connection without a registered callback
				var cs []string
				for _, b := range got {
					cs = append(cs, "0:50:"+hx([]byte(b)))
				}
				callStr := "-"
				if len(cs) > 0 {
					callStr = strings.Join(cs, ",")
				}
				r.emit(fmt.Sprintf("dp.late 8 50:0 R.1.3.50.0.0.%s R.2.3.50.0.0.%s R.3.3.50.0.0.%s C S K K", hx([]byte("e1")), hx([]byte("e2")), hx([]byte("e3"))),
					fmt.Sprintf("calls=%s drops=%d taken=%d gone=%d", callStr, s.tc.log.count("drop packet for channel full"), s.tc.log.count("got packet"), s.tc.log.count("conn receive packet error")), true)
			}
			if !ok || strings.Join(got, ",") != "e1,e2,e3" {
				r.violate(Violation{What: "pushes read from the connection before the packet callback was registered never reached their handler although nothing overflowed", Case: cs,
					Impl: strings.Join(got, ","), Expect: "e1,e2,e3", Extra: strings.Join(s.tc.log.snapshot(), "\n")})
			}
			mu.Unlock()
		} else {
			g.open()
			hub.reset()
			select {
			case <-errc:
			case <-time.After(3 * time.Second):
			}
		}
		r.st.Evaluations++
		r.count("c13.read-before-registration." + trans)
		s.close()
	}
}
