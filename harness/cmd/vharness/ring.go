package main

import (
	"fmt"
	"reflect"
	"strings"

	"github.com/Allenxuxu/ringbuffer"
)

// ringCases ties Model/Ring.v to the third-party ring buffer itself: a ring is brought into some geometry through its
// public API (writes, partial retrievals, growth), its private state (buf, size, r, w, isEmpty) is read by reflection
// and handed to the model, then the same Write / Length / Peek / Retrieve sequence runs on both; the final size, r, w, isEmpty and content are compared.
func (r *Run) ringCases(n int) {
	g := r.rng
	for i := 0; i < n; i++ {
		size := []int{1, 2, 3, 4, 5, 7, 8, 16, 33}[g.Intn(9)]
		rb := ringbuffer.New(size)
		fast := g.Chance(20) // the read loop's fast path: NewWithData over fresh bytes, then reads only, then PeekAll
		if fast {
			rb = ringbuffer.NewWithData(g.Bytes(size))
			r.count("ring.start.withdata")
		}
		// setup: mostly "fill, retrieve a part, write again" so that wrapped and full states dominate; else a random walk
		// (which includes growth through makeSpace and complete retrievals)
		if !fast && g.Chance(70) {
			a := 1 + g.Intn(size)
			_, _ = rb.Write(g.Bytes(a))
			if a > 1 {
				rb.Retrieve(1 + g.Intn(a-1))
			}
			free := rb.Capacity() - rb.Length()
			_, _ = rb.Write(g.Bytes(g.Intn(free + 1)))
		}
		for k, steps := 0, g.Intn(4); !fast && k < steps; k++ {
			if g.Chance(60) {
				free := rb.Capacity() - rb.Length()
				m := g.Intn(free + 1)
				if g.Chance(15) {
					m = free + 1 + g.Intn(4) // growth
				}
				_, _ = rb.Write(g.Bytes(m))
			} else {
				rb.Retrieve(g.Intn(rb.Length() + 2))
			}
		}
		v := reflect.ValueOf(rb).Elem()
		buf := append([]byte(nil), v.FieldByName("buf").Bytes()...)
		sz, rr, ww, emp := int(v.FieldByName("size").Int()), int(v.FieldByName("r").Int()), int(v.FieldByName("w").Int()), v.FieldByName("isEmpty").Bool()
		var ops, outs []string
		for k, steps := 0, 1+g.Intn(8); k < steps; k++ {
			kind := g.Intn(5)
			if fast && kind == 3 {
				kind = 4
			}
			switch kind {
			case 4:
				f, e := rb.PeekAll()
				ops = append(ops, "a")
				outs = append(outs, "A "+hx(f)+"|"+hx(e))
				if fast && len(e) > 0 {
					r.violate(Violation{What: "PeekAll on a NewWithData ring that was only read from returned a second slice: the read loop's 'first, _ := PeekAll()' would lose bytes", Case: strings.Join(ops, " ")})
				}
				if len(e) > 0 {
					r.count("ring.peekall.split")
				} else {
					r.count("ring.peekall.single")
				}
			case 3:
				free := rb.Capacity() - rb.Length()
				m := g.Intn(free + 2)
				if g.Chance(20) {
					m = free + 1 + g.Intn(5) // growth through makeSpace
				}
				if m > free {
					r.count("ring.write.grow")
				} else if m > 0 {
					r.count("ring.write.fits")
				}
				d := g.Bytes(m)
				_, _ = rb.Write(d)
				ops = append(ops, "w"+hx(d))
				outs = append(outs, "W")
			case 0:
				ops = append(ops, "l")
				outs = append(outs, fmt.Sprintf("L %d", rb.Length()))
			case 1:
				m := 1 + g.Intn(rb.Length()+2)
				if g.Chance(5) {
					m = 0
				}
				f, e := rb.Peek(m)
				ops = append(ops, fmt.Sprintf("p%d", m))
				outs = append(outs, "P "+hx(f)+"|"+hx(e))
				switch {
				case len(e) > 0:
					r.count("ring.peek.split")
				case len(f) > 0:
					r.count("ring.peek.plain")
				default:
					r.count("ring.peek.empty")
				}
			default:
				m := g.Intn(rb.Length() + 2)
				rb.Retrieve(m)
				ops = append(ops, fmt.Sprintf("r%d", m))
				outs = append(outs, "R")
			}
		}
		f, e := rb.PeekAll()
		content := append(append([]byte(nil), f...), e...)
		outs = append(outs, fmt.Sprintf("S %d %d %d %s %s", v.FieldByName("size").Int(), v.FieldByName("r").Int(), v.FieldByName("w").Int(), b01(v.FieldByName("isEmpty").Bool()), hx(content)))
		switch {
		case emp:
			r.count("ring.start.empty")
		case rr == ww:
			r.count("ring.start.full")
		case rr > ww:
			r.count("ring.start.wrapped")
		default:
			r.count("ring.start.plain")
		}
		r.emit(fmt.Sprintf("rg.ops %d %s %d %d %s %s", sz, hx(buf), rr, ww, b01(emp), strings.Join(ops, " ")), strings.Join(outs, " ; "), true)
	}
}
