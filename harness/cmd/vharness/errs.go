package main

import (
	"errors"
	"strings"

	"github.com/Allenxuxu/ringbuffer"
	protocol "github.com/longportapp/openapi-protocol/go"
	v1 "github.com/longportapp/openapi-protocol/go/v1"
)

// errEnum maps a Go error to the model's small enum by identity, never by
// message text (except for wrapped gzip errors which have no sentinel: they
// are everything produced by gzip.Decompress/Compress).
func errEnum(err error) string {
	switch {
	case err == nil:
		return "nil"
	case errors.Is(err, protocol.ErrHandshakeLen):
		return "EHandshakeLen"
	case errors.Is(err, protocol.ErrInvalidProtocolVersion):
		return "EInvalidVersion"
	case errors.Is(err, v1.ErrInvalidFrame):
		return "EInvalidFrame"
	case errors.Is(err, v1.ErrUnknowPacket):
		return "EUnknownPacket"
	case errors.Is(err, v1.ErrBodyLenHitLimit):
		return "EBodyLimit"
	case errors.Is(err, protocol.ErrInvalidMetadataData):
		return "EInvalidMetadata"
	case errors.Is(err, protocol.ErrKeyLengthTooLong):
		return "EKeyTooLong"
	case errors.Is(err, protocol.ErrValueLengthTooLong):
		return "EValTooLong"
	case errors.Is(err, ringbuffer.ErrIsEmpty):
		return "ERingEmpty"
	}
	_ = strings.Contains
	return "EGzip" // the only remaining error source in the codec layer: gzip reader/writer errors
}
