package main

// C15: keepalive — ping schedule, echo, detection latency, no false positives (also after a recovery).

import (
	"fmt"
	"sort"
	"strings"
	"sync"
	"sync/atomic"
	"time"

	"github.com/gorilla/websocket"
	control "github.com/longportapp/openapi-protobufs/gen/go/control"
	protocol "github.com/longportapp/openapi-protocol/go"
	"github.com/longportapp/openapi-protocol/go/client"
	"google.golang.org/protobuf/proto"
)

func init() { props["C15"] = runC15 }

type kaEv struct {
	at   time.Time
	kind string // tick | ping | pong | recycle | recovered
	id   uint32
	hb   int64
}

// kaPeer answers heartbeats on one connection according to the behaviour until stop is closed.
type kaObs struct {
	mu  sync.Mutex
	evs []kaEv
}

func (o *kaObs) add(e kaEv) { o.mu.Lock(); o.evs = append(o.evs, e); o.mu.Unlock() }

// serveTCP: answer(n) says whether (and after which delay) the n-th heartbeat of this connection is answered.
func serveKaTCP(pc *peerConn, obs *kaObs, answer func(n int) (bool, time.Duration), stop chan struct{}) {
	n := 0
	for {
		select {
		case <-stop:
			return
		default:
		}
		f := pc.readFrame(50 * time.Millisecond)
		if f == nil {
			if pc.closed {
				return
			}
			continue
		}
		if f.Type == 1 && f.Cmd == 1 {
			var hb control.Heartbeat
			proto.Unmarshal(f.Body, &hb)
			obs.add(kaEv{at: time.Now(), kind: "ping", id: f.Rid, hb: int64(hb.GetHeartbeatId())})
			ok, d := answer(n)
			n++
			if ok {
				fr := respFrame(1, 1, f.Rid, 0, f.Body)
				if d == 0 {
					pc.send(fr)
				} else {
					go func() { time.Sleep(d); pc.send(fr) }()
				}
			}
		}
	}
}

func serveKaWS(pc *wsPeerConn, obs *kaObs, answer func(n int) (bool, time.Duration), stop chan struct{}) {
	n := 0
	for {
		select {
		case <-stop:
			return
		default:
		}
		m := pc.next(50 * time.Millisecond)
		if m == nil {
			continue
		}
		if m.kind == -1 {
			return
		}
		if m.kind == websocket.PingMessage {
			var hb control.Heartbeat
			proto.Unmarshal(m.data, &hb)
			obs.add(kaEv{at: time.Now(), kind: "ping", id: uint32(hb.GetHeartbeatId()), hb: int64(hb.GetHeartbeatId())})
			ok, d := answer(n)
			n++
			if ok {
				data := m.data
				go func() {
					time.Sleep(d)
					pc.c.WriteControl(websocket.PongMessage, data, time.Now().Add(time.Second))
				}()
			}
		}
	}
}

// c15Scenario runs one behaviour for dur and returns observations.
func (r *Run) c15Scenario(trans string, I, T time.Duration, name string, answer func(conn, n int) (bool, time.Duration), dur time.Duration, dropAt time.Duration, model bool) {
	time.Sleep(I + 60*time.Millisecond) // let the keepalive loop of the previous scenario's (closed) client exit
	hub.reset()
	obs := &kaObs{}
	stop := make(chan struct{})
	prep := func(tc *testClient) {
		tc.cli.OnPong(func(p *protocol.Packet) { obs.add(kaEv{at: time.Now(), kind: "pong", id: p.Metadata.RequestId}) })
	}
	s := &session{tc: newTestClient(), v: 1, trans: trans}
	prep(s.tc)
	opts := []client.DialOption{client.Keepalive(I), client.KeepaliveTimeout(T), client.DialTimeout(time.Second)}
	errc := make(chan error, 1)
	nconn := 0
	var connMu sync.Mutex
	var firstTCP *peerConn
	if trans == "tcp" {
		s.tcp = newTCPPeer()
		go func() { errc <- s.tc.dial(s.tcp.url(), 1, opts...) }()
		go func() {
			for {
				pc := s.tcp.accept(dur + 3*time.Second)
				if pc == nil {
					return
				}
				if !pc.readHandshake(time.Second) {
					continue
				}
				connMu.Lock()
				ci := nconn
				nconn++
				if ci == 0 {
					firstTCP = pc
				}
				connMu.Unlock()
				go serveKaTCP(pc, obs, func(n int) (bool, time.Duration) { return answer(ci, n) }, stop)
			}
		}()
	} else {
		s.ws = newWSPeer()
		go func() { errc <- s.tc.dial(s.ws.url(), 1, opts...) }()
		go func() {
			for {
				pc := s.ws.accept(dur + 3*time.Second)
				if pc == nil {
					return
				}
				connMu.Lock()
				ci := nconn
				nconn++
				connMu.Unlock()
				go serveKaWS(pc, obs, func(n int) (bool, time.Duration) { return answer(ci, n) }, stop)
			}
		}()
	}
	select {
	case err := <-errc:
		if err != nil {
			r.violate(Violation{What: "setup: dial failed: " + err.Error(), Case: name})
			return
		}
	case <-time.After(3 * time.Second):
		r.violate(Violation{What: "setup: Dial did not return", Case: name})
		return
	}
	t0 := time.Now()
	if dropAt > 0 {
		time.Sleep(dropAt)
		connMu.Lock()
		pc := firstTCP
		connMu.Unlock()
		if pc != nil {
			pc.close()
		}
		time.Sleep(dur - dropAt)
	} else {
		time.Sleep(dur)
	}
	close(stop)
	connMu.Lock()
	conns := nconn
	connMu.Unlock()
	// collect
	hub.mu.Lock()
	ticks := append([]time.Time(nil), hub.times["ka.tick"]...)
	hub.mu.Unlock()
	obs.mu.Lock()
	evs := append([]kaEv(nil), obs.evs...)
	obs.mu.Unlock()
	for _, t := range ticks {
		evs = append(evs, kaEv{at: t, kind: "tick"})
	}
	for _, t := range s.tc.log.timesOf("keepalive error") {
		evs = append(evs, kaEv{at: t, kind: "recycle"})
	}
	for _, t := range s.tc.log.timesOf("reconnect success") {
		evs = append(evs, kaEv{at: t, kind: "recovered"})
	}
	sort.SliceStable(evs, func(i, j int) bool { return evs[i].at.Before(evs[j].at) })
	// a tick right at the end of the observation window whose outcome was not observed any more is dropped
	for i := len(evs) - 1; i >= 0; i-- {
		if evs[i].kind == "ping" || evs[i].kind == "recycle" {
			break
		}
		if evs[i].kind == "tick" {
			evs = append(evs[:i], evs[i+1:]...)
			break
		}
	}
	s.close()
	ms := func(t time.Time) int64 { return t.Sub(t0).Milliseconds() }
	var in, out []string
	npings, nrecycle := 0, 0
	var lastPingID uint32
	badID := ""
	var firstUnanswered time.Time
	pongSeen := map[uint32]bool{}
	for _, e := range evs {
		if e.kind == "pong" {
			pongSeen[e.id] = true
		}
	}
	for _, e := range evs {
		switch e.kind {
		case "tick":
			m := ms(e.at)
			if m < 0 {
				m = 0
			}
			in = append(in, fmt.Sprintf("T.%d.1", m))
		case "pong":
			m := ms(e.at)
			if m < 0 {
				m = 0
			}
			in = append(in, fmt.Sprintf("P.%d", m))
		case "recovered":
			m := ms(e.at)
			if m < 0 {
				m = 0
			}
			in = append(in, fmt.Sprintf("R.%d", m))
			lastPingID = 0
		case "ping":
			npings++
			if int64(e.id) != e.hb {
				out = append(out, fmt.Sprintf("p%d!%d", e.id, e.hb))
				badID = fmt.Sprintf("heartbeat body carries id %d but the request id is %d", e.hb, e.id)
			} else {
				out = append(out, fmt.Sprintf("p%d", e.id))
			}
			if e.id != lastPingID+1 {
				badID = fmt.Sprintf("heartbeat request id %d is not fresh (previous %d)", e.id, lastPingID)
			}
			lastPingID = e.id
			if firstUnanswered.IsZero() && !pongSeen[e.id] {
				firstUnanswered = e.at
			}
		case "recycle":
			nrecycle++
			out = append(out, "r")
		}
	}
	cs := fmt.Sprintf("%s %s I=%v T=%v: %d pings, %d recycles, %d connections", trans, name, I, T, npings, nrecycle, conns)
	// the trace puts events of different goroutines (the keepalive's tick, the recovery's completion) into one order by
	// their time stamps. Two such events a few milliseconds apart have no order that the stamps could tell (the
	// stamp is taken a few statements away from the effect): such a history is not compared with the sequential model
	ambiguous := false
	for i, e := range evs {
		if e.kind != "recovered" {
			continue
		}
		// a recovery the keepalive started itself runs on the keepalive's goroutine: the ticks around it are ordered
		ownRecovery := false
		for j := i - 1; j >= 0; j-- {
			if evs[j].kind == "recycle" {
				ownRecovery = true
			}
			if evs[j].kind == "recycle" || evs[j].kind == "recovered" || evs[j].kind == "tick" {
				break
			}
		}
		if ownRecovery {
			continue
		}
		for j := i - 2; j <= i+2; j++ {
			if j >= 0 && j < len(evs) && evs[j].kind == "tick" {
				if d := evs[j].at.Sub(e.at); d > -5*time.Millisecond && d < 5*time.Millisecond {
					ambiguous = true
				}
			}
		}
	}
	if ambiguous {
		r.count("c15." + trans + "." + name + ".tick-and-recovery-within-5ms(not compared with the model)")
		r.st.Evaluations++
	} else if model && dropAt == 0 {
		r.emit(fmt.Sprintf("ka.run %d 0 %s", T.Milliseconds(), strings.Join(in, " ")), strings.Join(out, " "), true)
	} else {
		r.st.Evaluations++
	}
	r.count("c15." + trans + "." + name)
	// ---- direct oracles ----
	if badID != "" {
		r.violate(Violation{What: badID, Case: cs})
	}
	switch name {
	case "answers-always", "answers-late", "answers-always-after-drop":
		wantConns := 1
		if dropAt > 0 {
			wantConns = 2
		}
		if nrecycle != 0 || conns != wantConns {
			r.violate(Violation{What: fmt.Sprintf("a peer that answers every heartbeat was declared dead: keepalive recycled the connection %d time(s), %d connections instead of %d", nrecycle, conns, wantConns), Case: cs})
		}
		exp := int(dur / I)
		if npings < exp-2 || npings > exp+1 {
			r.violate(Violation{What: fmt.Sprintf("expected about %d heartbeats (one per interval), saw %d", exp, npings), Case: cs})
		}
	case "never-answers", "stops-after-3", "never-answers-T-equals-I":
		if nrecycle == 0 || conns < 2 {
			r.violate(Violation{What: "a peer that stopped answering was not detected / the connection was not recycled", Case: cs})
		} else if !firstUnanswered.IsZero() {
			// first recycle after the first unanswered ping
			for _, e := range evs {
				if e.kind == "recycle" && e.at.After(firstUnanswered) {
					if d := e.at.Sub(firstUnanswered); d > I+T+300*time.Millisecond {
						r.violate(Violation{What: fmt.Sprintf("dead peer detected only %v after the first unanswered heartbeat (bound: interval + timeout + slack = %v)", d, I+T+300*time.Millisecond), Case: cs})
					}
					break
				}
			}
		}
	}
}

// c15Echo: TCP — the peer's heartbeat request is answered with a response echoing id and body.
func (r *Run) c15Echo() {
	s, err := openSession("tcp", 1)
	if err != nil {
		return
	}
	defer s.close()
	for i, body := range [][]byte{nil, []byte("x"), pbBytes(&control.Heartbeat{Timestamp: 5})} {
		id := uint32(77 + i*1000)
		s.lk.sendFrame(reqFrame(1, 1, id, body))
		f := s.lk.nextRequest(2 * time.Second)
		got := "none"
		if f != nil {
			got = fmt.Sprintf("e%d:%s", f.Rid, hx(f.Body))
			if f.Type != 2 || f.Cmd != 1 {
				got = fmt.Sprintf("type%d cmd%d", f.Type, f.Cmd)
			}
		}
		r.emit(fmt.Sprintf("ka.run 1000 0 Q.%d.%s", id, hx(body)), got, true)
		if got != fmt.Sprintf("e%d:%s", id, hx(body)) {
			r.violate(Violation{What: "the peer's heartbeat request was not answered with a heartbeat response echoing its id and body: " + got, Case: fmt.Sprintf("id %d body %s", id, hx(body))})
		}
	}
	r.count("c15.tcp.echo")
}

func runC15(r *Run) {
	installHooks()
	r.st.Rule = "real keepalive loop with interval 100 ms / timeout 250 ms (and timeout = interval) over TCP and WebSocket against peers that answer always, never, stop after 3, answer 150 ms late (after the next heartbeat was sent), answer always on the connection re-established after a drop (no token getter: the non-resume path), and answer always after a keepalive-detected death followed by a recovery through full authentication (resume rejected as unauthenticated); tick times (ka.tick hook), pong times, heartbeat ids (request id and body) and recycles are replayed by Model/Keepalive.v tick by tick; direct oracles: fresh ids with matching heartbeat id, one heartbeat per interval, detection within interval+timeout+slack of the first unanswered heartbeat, no recycle for an answering peer; TCP echo of the peer's heartbeat request. Also: a peer that answers every request but no heartbeat, and one that sends heartbeat requests of its own but answers none, must be recycled; Keepalive/KeepaliveTimeout options in both orders; WebSocket keepalive with MinGzipSize(4): the ping payload is the heartbeat message itself. Schedules forced with the ka.after-check hook and logger holds: a verdict formed while the close callback's recovery is authenticating and acted on after it completed; a heartbeat write failing on a just-dropped connection and acted on after the recovery - the new connection must stay. A peer answering every heartbeat after 150 ms: on the first connection, after a recovery, and after a recovery whose session answer took longer than the timeout. Histories in which a tick and the completion of a recovery on another goroutine lie within 5 ms are not compared with the sequential model (counted). distinct = distinct request lines"
	I, T := 100*time.Millisecond, 250*time.Millisecond
	always := func(c, n int) (bool, time.Duration) { return true, 0 }
	never := func(c, n int) (bool, time.Duration) { return c > 0, 0 } // only the first connection is dead
	stop3 := func(c, n int) (bool, time.Duration) { return c > 0 || n < 3, 0 }
	late := func(c, n int) (bool, time.Duration) { return true, 150 * time.Millisecond }
	for _, trans := range []string{"tcp", "ws"} {
		r.c15Scenario(trans, I, T, "answers-always", always, 1200*time.Millisecond, 0, true)
		r.c15Scenario(trans, I, T, "never-answers", never, 1500*time.Millisecond, 0, true)
		r.c15Scenario(trans, I, T, "stops-after-3", stop3, 1800*time.Millisecond, 0, true)
		r.c15Scenario(trans, I, T, "answers-late", late, 1200*time.Millisecond, 0, true)
		r.c15Scenario(trans, I, I, "never-answers-T-equals-I", never, 1200*time.Millisecond, 0, false)
	}
	r.c15Scenario("tcp", I, T, "answers-always-after-drop", always, 1800*time.Millisecond, 350*time.Millisecond, false)
	r.c15AfterAuthRecovery()
	r.c15StaleVerdict()
	r.c15StalePingFailure()
	r.c15SlowButAnsweringAfterRecovery()
	r.c15BusyButSilent()
	r.c15HalfDeadButPinging()
	for _, l := range c20SmallGzipKeepalive("ws") { // the heartbeat body carries the id also with a tiny gzip threshold
		if strings.HasPrefix(l, "peer saw heartbeat") && l != "peer saw heartbeat: decodable=true id>0=true" {
			r.violate(Violation{What: "over WebSocket with MinGzipSize(4) the heartbeat the peer receives does not carry the heartbeat id: " + l, Case: "ws keepalive 100 ms, MinGzipSize(4)"})
			break
		}
	}
	r.st.Evaluations++
	r.c15OptionOrder()
	r.c15Echo()
}

// kaPeer: accepts connections; heartbeats answered per answer(conn, n) after latency; every other request echoed.
func kaPeer(s *session, stop chan struct{}, answer func(conn, n int) (bool, time.Duration), nconn *int32) {
	for {
		pc := s.tcp.accept(5 * time.Second)
		if pc == nil {
			return
		}
		if !pc.readHandshake(time.Second) {
			continue
		}
		ci := int(atomic.AddInt32(nconn, 1)) - 1
		go func() {
			n := 0
			for {
				select {
				case <-stop:
					return
				default:
				}
				f := pc.readFrame(50 * time.Millisecond)
				if f == nil {
					if pc.closed {
						return
					}
					continue
				}
				if f.Type != 1 {
					continue
				}
				if f.Cmd == 1 {
					ok, d := answer(ci, n)
					n++
					if ok {
						fr := respFrame(1, 1, f.Rid, 0, f.Body)
						if d == 0 {
							pc.send(fr)
						} else {
							go func() { time.Sleep(d); pc.send(fr) }()
						}
					}
					continue
				}
				pc.send(respFrame(1, f.Cmd, f.Rid, 0, f.Body))
			}
		}()
	}
}

// c15BusyButSilent: the peer answers every ordinary request but no heartbeat: it must still be declared dead within
// interval + timeout (only heartbeat answers prove liveness).
func (r *Run) c15BusyButSilent() {
	I, T := 100*time.Millisecond, 250*time.Millisecond
	time.Sleep(I + 60*time.Millisecond)
	hub.reset()
	s := &session{tc: newTestClient(), v: 1, trans: "tcp"}
	s.tcp = newTCPPeer()
	stop := make(chan struct{})
	var nconn int32
	go kaPeer(s, stop, func(c, n int) (bool, time.Duration) { return c > 0, 0 }, &nconn)
	if err := s.tc.dial(s.tcp.url(), 1, client.Keepalive(I), client.KeepaliveTimeout(T), client.DialTimeout(time.Second)); err == nil {
		t0 := time.Now()
		deadline := t0.Add(I + T + I + 400*time.Millisecond)
		for time.Now().Before(deadline) && atomic.LoadInt32(&nconn) < 2 {
			ch := s.tc.doAsync(30, nil, 200*time.Millisecond)
			awaitDo(ch, time.Second)
			time.Sleep(30 * time.Millisecond)
		}
		if atomic.LoadInt32(&nconn) < 2 {
			r.violate(Violation{What: "a peer that stopped answering heartbeats was not detected although interval + timeout passed (it kept answering ordinary requests)",
				Case: "tcp I=100ms T=250ms, a request every 30 ms, all answered; no heartbeat answered"})
		}
		r.st.Evaluations++
		r.count("c15.tcp.busy-but-silent")
	}
	close(stop)
	s.close()
}

// c15OptionOrder: the configured timeout holds whatever the order of the two options: a peer that answers every
// heartbeat after 2.5 intervals, well inside the timeout, is never declared dead.
func (r *Run) c15OptionOrder() {
	I, T, lat := 100*time.Millisecond, 450*time.Millisecond, 250*time.Millisecond
	for _, order := range []string{"interval-then-timeout", "timeout-then-interval"} {
		time.Sleep(I + 60*time.Millisecond)
		hub.reset()
		s := &session{tc: newTestClient(), v: 1, trans: "tcp"}
		s.tcp = newTCPPeer()
		stop := make(chan struct{})
		var nconn int32
		go kaPeer(s, stop, func(c, n int) (bool, time.Duration) { return true, lat }, &nconn)
		opts := []client.DialOption{client.Keepalive(I), client.KeepaliveTimeout(T), client.DialTimeout(time.Second)}
		if order == "timeout-then-interval" {
			opts = []client.DialOption{client.KeepaliveTimeout(T), client.Keepalive(I), client.DialTimeout(time.Second)}
		}
		if err := s.tc.dial(s.tcp.url(), 1, opts...); err == nil {
			time.Sleep(1500 * time.Millisecond)
			if n := atomic.LoadInt32(&nconn); n != 1 {
				r.violate(Violation{What: fmt.Sprintf("a peer that answers every heartbeat within the configured timeout was declared dead: %d connections instead of 1", n),
					Case: "tcp options " + order + ": Keepalive 100 ms, KeepaliveTimeout 450 ms, answers after 250 ms"})
			}
			r.st.Evaluations++
			r.count("c15.tcp.option-order." + order)
		}
		close(stop)
		s.close()
	}
}

// c15AfterAuthRecovery: an authenticated client, a peer that goes silent (socket open) so that the keepalive recycles
// the connection, a recovery that goes through full authentication (the session resume is rejected as unauthenticated),
// then a peer that answers every heartbeat: the new connection must never be declared dead.
func (r *Run) c15AfterAuthRecovery() {
	I, T := 100*time.Millisecond, 250*time.Millisecond
	time.Sleep(I + 60*time.Millisecond)
	hub.reset()
	s := &session{tc: newTestClient(), v: 1, trans: "tcp"}
	s.tcp = newTCPPeer()
	stop := make(chan struct{})
	var mu sync.Mutex
	nconn := 0
	go func() {
		for {
			pc := s.tcp.accept(4 * time.Second)
			if pc == nil {
				return
			}
			if !pc.readHandshake(time.Second) {
				continue
			}
			mu.Lock()
			ci := nconn
			nconn++
			mu.Unlock()
			go func() {
				n := 0
				for {
					select {
					case <-stop:
						return
					default:
					}
					f := pc.readFrame(50 * time.Millisecond)
					if f == nil {
						if pc.closed {
							return
						}
						continue
					}
					if f.Type != 1 {
						continue
					}
					switch f.Cmd {
					case 2:
						pc.send(respFrame(1, 2, f.Rid, 0, authRespBody("sess", 600000)))
					case 3:
						pc.send(respFrame(1, 3, f.Rid, 5, errBody(401, "unauthenticated")))
					case 1:
						if ci > 0 || n < 2 {
							pc.send(respFrame(1, 1, f.Rid, 0, f.Body))
						}
						n++
					}
				}
			}()
		}
	}()
	err := s.tc.dial(s.tcp.url(), 1, client.Keepalive(I), client.KeepaliveTimeout(T), client.DialTimeout(time.Second), client.AuthTimeout(time.Second),
		client.WithAuthTokenGetter(func() (string, error) { return "tok", nil }))
	if err == nil {
		time.Sleep(2200 * time.Millisecond)
		mu.Lock()
		n := nconn
		mu.Unlock()
		cs := "tcp I=100ms T=250ms: authenticated, first connection answers 2 heartbeats then goes silent, resume rejected as unauthenticated -> AUTH, later connections answer always"
		if n < 2 {
			r.violate(Violation{What: "a peer that stopped answering was not detected / the connection was not recycled", Case: cs})
		} else if n > 2 {
			r.violate(Violation{What: fmt.Sprintf("a peer that answers every heartbeat was declared dead after a recovery through authentication: %d connections instead of 2", n), Case: cs})
		}
		r.st.Evaluations++
		r.count("c15.tcp.after-auth-recovery")
	}
	close(stop)
	s.close()
}

// c15StaleVerdict: the keepalive forms its verdict ("no answer for longer than the timeout") outside the client's lock.
// Here a tick forms it while the recovery from that very silence is still authenticating on the new connection, and
// gets to act on it only after the recovery has completed (ka.after-check gate): the new connection's peer answers
// everything and must not be recycled.
func (r *Run) c15StaleVerdict() {
	I, T := 100*time.Millisecond, 250*time.Millisecond
	time.Sleep(I + 60*time.Millisecond)
	hub.reset()
	s := &session{tc: newTestClient(), v: 1, trans: "tcp"}
	s.tcp = newTCPPeer()
	stop := make(chan struct{})
	var nconn int32
	holdAuth := make(chan struct{}) // the second connection's session answer waits for this
	go func() {
		for {
			pc := s.tcp.accept(5 * time.Second)
			if pc == nil {
				return
			}
			if !pc.readHandshake(time.Second) {
				continue
			}
			ci := int(atomic.AddInt32(&nconn, 1)) - 1
			go func() {
				for {
					select {
					case <-stop:
						return
					default:
					}
					f := pc.readFrame(50 * time.Millisecond)
					if f == nil {
						if pc.closed {
							return
						}
						continue
					}
					if f.Type != 1 {
						continue
					}
					switch f.Cmd {
					case 2, 3:
						if ci == 1 {
							select {
							case <-holdAuth:
							case <-time.After(3 * time.Second):
							}
						}
						pc.send(respFrame(1, f.Cmd, f.Rid, 0, authRespBody("sess", 600000)))
					case 1:
						if ci > 0 { // the first connection never answers a heartbeat
							pc.send(respFrame(1, 1, f.Rid, 0, f.Body))
						}
					}
				}
			}()
		}
	}()
	// the peer drops connection 1 shortly before the third tick: the recovery is started by the connection's close
	// callback (a recovery started by the keepalive itself would keep the keepalive goroutine busy until it is over)
	go func() {
		time.Sleep(2*I + 60*time.Millisecond)
		s.tcp.mu.Lock()
		var first *peerConn
		if len(s.tcp.all) > 0 {
			first = s.tcp.all[0]
		}
		s.tcp.mu.Unlock()
		if first != nil {
			first.close()
		}
	}()
	g := hub.arm("ka.after-check", nil)
	err := s.tc.dial(s.tcp.url(), 1, client.Keepalive(I), client.KeepaliveTimeout(T), client.DialTimeout(time.Second), client.AuthTimeout(3*time.Second),
		client.WithAuthTokenGetter(func() (string, error) { return "tok", nil }))
	if err == nil {
		cs := "tcp I=100ms T=250ms, authenticated: connection 1 never answers a heartbeat and is dropped by the peer after 260 ms; the session answer on connection 2 is held until the tick at 300 ms has formed its verdict; that tick acts only after the recovery has completed; connection 2 answers everything"
		if g.waitParked(3 * time.Second) {
			close(holdAuth)
			waitUntil(2*time.Second, func() bool { return s.tc.reconCount() >= 1 })
			time.Sleep(30 * time.Millisecond) // the recovery has returned: bookkeeping reset, single-flight flag cleared
			g.open()
			hub.reset()
			time.Sleep(600 * time.Millisecond)
			if n := int(atomic.LoadInt32(&nconn)); n > 2 || s.tc.reconCount() > 1 {
				r.violate(Violation{What: fmt.Sprintf("a peer that answers every heartbeat was declared dead: a keepalive verdict formed on the replaced connection was acted on after the recovery had completed (%d connections instead of 2, %d reconnect callbacks)", n, s.tc.reconCount()),
					Case: cs, Extra: strings.Join(s.tc.log.snapshot(), "\n")})
			} else if n < 2 {
				r.violate(Violation{What: "a peer that stopped answering was not detected / the connection was not recycled", Case: cs})
			}
			r.count("c15.tcp.stale-verdict")
		} else {
			g.open()
			hub.reset()
			close(holdAuth)
			r.count("c15.tcp.stale-verdict.not-reached")
		}
		r.st.Evaluations++
	} else {
		close(holdAuth)
	}
	close(stop)
	s.close()
}

// c15StalePingFailure: the keepalive's other reason for a recovery - its heartbeat could not be written - is also
// established outside the client lock. Here the write fails on a connection the peer has just dropped (its close
// callback is held at its log line, so no recovery is running yet); the keepalive gets to act (held at its own log
// line) only after that callback's recovery has completed. The new connection answers everything and must stay.
func (r *Run) c15StalePingFailure() {
	I, T := 100*time.Millisecond, 250*time.Millisecond
	time.Sleep(I + 60*time.Millisecond)
	hub.reset()
	s := &session{tc: newTestClient(), v: 1, trans: "tcp"}
	s.tcp = newTCPPeer()
	stop := make(chan struct{})
	var nconn int32
	go func() {
		for {
			pc := s.tcp.accept(5 * time.Second)
			if pc == nil {
				return
			}
			if !pc.readHandshake(time.Second) {
				continue
			}
			atomic.AddInt32(&nconn, 1)
			go func() {
				for {
					select {
					case <-stop:
						return
					default:
					}
					f := pc.readFrame(50 * time.Millisecond)
					if f == nil {
						if pc.closed {
							return
						}
						continue
					}
					if f.Type == 1 && f.Cmd == 1 {
						pc.send(respFrame(1, 1, f.Rid, 0, f.Body))
					}
				}
			}()
		}
	}()
	h1, h2 := make(chan struct{}), make(chan struct{})
	s.tc.log.setHold("reconnect for conn closed", h1)
	s.tc.log.setHold("keepalive failed to ping", h2)
	release := func() {
		s.tc.log.clearHold("reconnect for conn closed")
		s.tc.log.clearHold("keepalive failed to ping")
		select {
		case <-h1:
		default:
			close(h1)
		}
		select {
		case <-h2:
		default:
			close(h2)
		}
	}
	err := s.tc.dial(s.tcp.url(), 1, client.Keepalive(I), client.KeepaliveTimeout(T), client.DialTimeout(time.Second))
	if err == nil {
		cs := "tcp I=100ms T=250ms: the peer drops connection 1; its close callback is held before it starts the recovery; the next heartbeat cannot be written; the keepalive acts on that only after the callback's recovery has completed; connection 2 answers everything"
		time.Sleep(I + 30*time.Millisecond)
		s.tcp.mu.Lock()
		first := s.tcp.all[0]
		s.tcp.mu.Unlock()
		first.close()
		if s.tc.log.waitCount("reconnect for conn closed", 1, 2*time.Second) && s.tc.log.waitCount("keepalive failed to ping", 1, 2*time.Second) {
			s.tc.log.clearHold("reconnect for conn closed")
			close(h1) // the close callback's recovery runs now
			waitUntil(2*time.Second, func() bool { return s.tc.reconCount() >= 1 })
			time.Sleep(30 * time.Millisecond)
			s.tc.log.clearHold("keepalive failed to ping")
			close(h2)
			time.Sleep(600 * time.Millisecond)
			if n := int(atomic.LoadInt32(&nconn)); n > 2 || s.tc.reconCount() > 1 {
				r.violate(Violation{What: fmt.Sprintf("a peer that answers every heartbeat had its connection recycled by the keepalive: a failed heartbeat write on the replaced connection was acted on after the recovery had completed (%d connections instead of 2, %d reconnect callbacks)", n, s.tc.reconCount()),
					Case: cs, Extra: strings.Join(s.tc.log.snapshot(), "\n")})
			}
			r.count("c15.tcp.stale-ping-failure")
		} else {
			r.count("c15.tcp.stale-ping-failure.not-reached")
		}
		r.st.Evaluations++
	}
	release()
	close(stop)
	s.close()
}

// c15SlowButAnsweringAfterRecovery: every heartbeat is answered after 150 ms - later than the next tick (100 ms), well
// inside the timeout (250 ms). On the first connection such a peer is left alone (first run); the same peer behind a
// connection that a recovery has established must be left alone too (second run: connection 1 is silent).
func (r *Run) c15SlowButAnsweringAfterRecovery() {
	I, T := 100*time.Millisecond, 250*time.Millisecond
	for mode := 0; mode < 3; mode++ {
		firstSilent := mode >= 1
		slowRecovery := mode == 2 // authenticated; the session answer on a re-dialled connection takes 350 ms (longer than the timeout)
		time.Sleep(I + 60*time.Millisecond)
		hub.reset()
		s := &session{tc: newTestClient(), v: 1, trans: "tcp"}
		s.tcp = newTCPPeer()
		stop := make(chan struct{})
		var nconn int32
		go func() {
			for {
				pc := s.tcp.accept(5 * time.Second)
				if pc == nil {
					return
				}
				if !pc.readHandshake(time.Second) {
					continue
				}
				ci := int(atomic.AddInt32(&nconn, 1)) - 1
				go func() {
					for {
						select {
						case <-stop:
							return
						default:
						}
						f := pc.readFrame(50 * time.Millisecond)
						if f == nil {
							if pc.closed {
								return
							}
							continue
						}
						if f.Type == 1 && f.Cmd == 1 && !(firstSilent && ci == 0) {
							fr := respFrame(1, 1, f.Rid, 0, f.Body)
							time.AfterFunc(150*time.Millisecond, func() { pc.send(fr) })
						}
						if f.Type == 1 && (f.Cmd == 2 || f.Cmd == 3) {
							fr := respFrame(1, f.Cmd, f.Rid, 0, authRespBody("sess", 600000))
							if ci > 0 {
								time.AfterFunc(350*time.Millisecond, func() { pc.send(fr) })
							} else {
								pc.send(fr)
							}
						}
					}
				}()
			}
		}()
		dopts := []client.DialOption{client.Keepalive(I), client.KeepaliveTimeout(T), client.DialTimeout(time.Second), client.AuthTimeout(2 * time.Second)}
		if slowRecovery {
			dopts = append(dopts, client.WithAuthTokenGetter(func() (string, error) { return "tok", nil }))
		}
		err := s.tc.dial(s.tcp.url(), 1, dopts...)
		if err == nil {
			time.Sleep(1800 * time.Millisecond)
			if slowRecovery {
				time.Sleep(500 * time.Millisecond)
			}
			n := int(atomic.LoadInt32(&nconn))
			want := 1
			cs := "tcp I=100ms T=250ms: every heartbeat answered after 150 ms"
			if firstSilent {
				want = 2
				cs = "tcp I=100ms T=250ms: connection 1 never answers; every later connection answers every heartbeat after 150 ms"
			}
			if slowRecovery {
				cs += "; authenticated, the session answer of a recovery takes 350 ms"
			}
			if n > want {
				r.violate(Violation{What: fmt.Sprintf("a peer that answers every heartbeat within the keepalive timeout was declared dead: %d connections instead of %d in 1.8 s", n, want), Case: cs,
					Extra: strings.Join(s.tc.log.snapshot(), "\n")})
			} else if n < want {
				r.violate(Violation{What: "a peer that stopped answering was not detected / the connection was not recycled", Case: cs})
			}
			r.st.Evaluations++
			r.count(fmt.Sprintf("c15.tcp.slow-but-answering.first-silent-%v.slow-recovery-%v", firstSilent, slowRecovery))
		}
		close(stop)
		s.close()
	}
}

// c15HalfDeadButPinging: the peer never answers the client's heartbeats but keeps sending its own (which the client
// acknowledges): only answers prove liveness, the connection must be recycled within interval + timeout.
func (r *Run) c15HalfDeadButPinging() {
	I, T := 100*time.Millisecond, 250*time.Millisecond
	time.Sleep(I + 60*time.Millisecond)
	hub.reset()
	s := &session{tc: newTestClient(), v: 1, trans: "tcp"}
	s.tcp = newTCPPeer()
	stop := make(chan struct{})
	var nconn int32
	go func() {
		for {
			pc := s.tcp.accept(5 * time.Second)
			if pc == nil {
				return
			}
			if !pc.readHandshake(time.Second) {
				continue
			}
			ci := atomic.AddInt32(&nconn, 1) - 1
			go func() { // reads (and on later connections answers) what the client sends
				for {
					select {
					case <-stop:
						return
					default:
					}
					f := pc.readFrame(50 * time.Millisecond)
					if f == nil {
						if pc.closed {
							return
						}
						continue
					}
					if ci > 0 && f.Type == 1 && f.Cmd == 1 {
						pc.send(respFrame(1, 1, f.Rid, 0, f.Body))
					}
				}
			}()
			if ci == 0 {
				go func() { // the half-dead peer's own heartbeats, every 20 ms
					for i := 0; ; i++ {
						select {
						case <-stop:
							return
						default:
						}
						if pc.send(reqFrame(1, 1, uint32(500000+i), pbBytes(&control.Heartbeat{Timestamp: int64(i)}))) != nil {
							return
						}
						time.Sleep(20 * time.Millisecond)
					}
				}()
			}
		}
	}()
	if err := s.tc.dial(s.tcp.url(), 1, client.Keepalive(I), client.KeepaliveTimeout(T), client.DialTimeout(time.Second)); err == nil {
		if !waitUntil(I+T+I+500*time.Millisecond, func() bool { return atomic.LoadInt32(&nconn) >= 2 }) {
			r.violate(Violation{What: "a peer that stopped answering heartbeats was not detected although interval + timeout passed (it kept sending heartbeats of its own)",
				Case: "tcp I=100ms T=250ms, the peer sends a heartbeat request every 20 ms and answers none"})
		}
		r.st.Evaluations++
		r.count("c15.tcp.half-dead-but-pinging")
	}
	close(stop)
	s.close()
}
