package main

import (
	"context"
	"fmt"

	protocol "github.com/longportapp/openapi-protocol/go"
	_ "github.com/longportapp/openapi-protocol/go/v1"
	_ "github.com/longportapp/openapi-protocol/go/v2"
)

func init() { props["C18"] = runC18 }

func hsUnpackOut(data []byte) (string, *protocol.Handshake) {
	var h protocol.Handshake
	out := ""
	func() {
		defer func() {
			if e := recover(); e != nil {
				out = "PANIC"
			}
		}()
		if err := h.Unpack(data); err != nil {
			out = "ERR " + errEnum(err)
			return
		}
		out = fmt.Sprintf("OK %d %d %d %d", h.Version, h.Codec, h.Platform, h.Reserve)
	}()
	return out, &h
}

func runC18(r *Run) {
	r.st.Rule = "exhaustive: all 2^16 field tuples through Handshake.Pack, all 2^16 byte pairs and lengths 0..6 through Handshake.Unpack, all 256 versions through GetProtocol and Context.Handshake (v1 and v2 imported as the client does); every case is distinct; non-trivial = every case (the domain is enumerated, not sampled) Last: one implementation registered under further numbers through Register - the context adopts the handshake's number."
	r.st.Exhaustive = true
	// direction 1: every 4-bit tuple
	for v := 0; v < 16; v++ {
		for c := 0; c < 16; c++ {
			for p := 0; p < 16; p++ {
				for rs := 0; rs < 16; rs++ {
					h := protocol.Handshake{Version: uint8(v), Codec: protocol.CodecType(c), Platform: protocol.PlatformType(p), Reserve: uint8(rs)}
					bs := h.Pack()
					req := fmt.Sprintf("hs.pack %d %d %d %d", v, c, p, rs)
					r.emit(req, hx(bs), true)
					r.count("pack")
					// direct oracle: decode(encode h) = h
					out, h2 := hsUnpackOut(bs)
					if len(bs) != 2 || *h2 != h {
						r.violate(Violation{What: "decode(encode(h)) != h", Case: req, Impl: out})
					}
				}
			}
		}
	}
	// direction 2: every byte pair
	for a := 0; a < 256; a++ {
		for b := 0; b < 256; b++ {
			data := []byte{byte(a), byte(b)}
			out, h := hsUnpackOut(data)
			req := "hs.unpack " + hx(data)
			r.emit(req, out, true)
			r.count("unpack2")
			bs := h.Pack()
			if out[:2] != "OK" || len(bs) != 2 || bs[0] != data[0] || bs[1] != data[1] ||
				h.Version > 15 || h.Codec > 15 || h.Platform > 15 || h.Reserve > 15 {
				r.violate(Violation{What: "encode(decode(bytes)) != bytes or field outside 4 bits", Case: req, Impl: out})
			}
		}
	}
	// lengths other than two
	for _, n := range []int{0, 1, 3, 4, 5, 6, 255, 256, 65536} {
		data := r.rng.Bytes(n)
		out, _ := hsUnpackOut(data)
		req := "hs.unpack " + hx(data)
		r.emit(req, out, true)
		r.count("unpack_len")
		if out != "ERR EHandshakeLen" {
			r.violate(Violation{What: fmt.Sprintf("input of %d bytes not rejected with ErrHandshakeLen", n), Case: req, Impl: out})
		}
	}
	// version gate
	for v := 0; v < 256; v++ {
		p, err := protocol.GetProtocol(uint8(v))
		out := ""
		if err != nil {
			out = "ERR " + errEnum(err)
		} else {
			out = fmt.Sprintf("OK %d", p.Version())
		}
		req := fmt.Sprintf("hs.get %d", v)
		r.emit(req, out, true)
		r.count("get")
		want := "ERR EInvalidVersion"
		if v == 1 || v == 2 {
			want = fmt.Sprintf("OK %d", v)
		}
		if out != want {
			r.violate(Violation{What: "version gate: only v1 and v2 are registered", Case: req, Impl: out, Expect: want})
		}
		for _, t := range [][3]int{{1, 9, 0}, {2, 3, 15}, {15, 15, 15}, {0, 0, 0}} {
			ctx := protocol.NewContext(context.Background(), protocol.ClientSide)
			h := &protocol.Handshake{Version: uint8(v), Codec: protocol.CodecType(t[0]), Platform: protocol.PlatformType(t[1]), Reserve: uint8(t[2])}
			err := ctx.Handshake(h)
			req := fmt.Sprintf("hs.ctx %d %d %d %d", v, t[0], t[1], t[2])
			if err != nil {
				out = "ERR " + errEnum(err)
				if ctx.Handshaked || ctx.Version != 0 || ctx.Codec != 0 || ctx.Platform != 0 {
					r.violate(Violation{What: "rejected handshake modified the context", Case: req})
				}
			} else {
				out = fmt.Sprintf("OK %d %d %d %s", ctx.Version, ctx.Codec, ctx.Platform, b01(ctx.Handshaked))
			}
			r.emit(req, out, true)
			r.count("ctx")
			want := "ERR EInvalidVersion"
			if v == 1 || v == 2 {
				want = fmt.Sprintf("OK %d %d %d 1", v, t[0], t[1])
			}
			if out != want {
				r.violate(Violation{What: "Context.Handshake adopts version/codec/platform iff registered", Case: req, Impl: out, Expect: want})
			}
		}
	}
	// a context that has already adopted a handshake gets another one: same rule (adopt iff registered; a rejected one
	// changes nothing), whatever it adopted before
	for v1 := 1; v1 <= 2; v1++ {
		for v2 := 0; v2 < 256; v2++ {
			if !r.thorough() && v2 > 8 && v2%17 != 0 {
				continue
			}
			for _, same := range []bool{true, false} {
				ctx := protocol.NewContext(context.Background(), protocol.ClientSide)
				ctx.Handshake(&protocol.Handshake{Version: uint8(v1), Codec: 1, Platform: 9})
				h2 := &protocol.Handshake{Version: uint8(v2), Codec: 1, Platform: 9}
				if !same {
					h2.Codec, h2.Platform = 2, 3
				}
				err := ctx.Handshake(h2)
				got := fmt.Sprintf("%v %d %d %d", err == nil, ctx.Version, ctx.Codec, ctx.Platform)
				want := fmt.Sprintf("false %d 1 9", v1)
				if v2 == 1 || v2 == 2 {
					want = fmt.Sprintf("true %d %d %d", v2, h2.Codec, h2.Platform)
				}
				if got != want {
					r.violate(Violation{What: "second handshake on a context: accepted iff the version is registered, adopted iff accepted", Case: fmt.Sprintf("first v%d, then v%d codec %d platform %d", v1, v2, h2.Codec, h2.Platform), Impl: got, Expect: want})
				}
				r.st.Evaluations++
			}
		}
	}
	r.count("ctx.second-handshake")
	// last (the registry is process-wide and has no removal): one implementation registered under further numbers,
	// as an application may do through the exported Register. A handshake for such a number is a handshake for a
	// registered version: it is accepted and the context adopts the handshake's version, not the implementation's own.
	for _, alias := range []int{3, 9, 200} {
		impl, err := protocol.GetProtocol(uint8(1 + alias%2))
		if err != nil {
			continue
		}
		protocol.Register(uint8(alias), impl)
		ctx := protocol.NewContext(context.Background(), protocol.ClientSide)
		err = ctx.Handshake(&protocol.Handshake{Version: uint8(alias), Codec: 2, Platform: 5})
		got := fmt.Sprintf("%v %d %d %d %v", err == nil, ctx.Version, ctx.Codec, ctx.Platform, ctx.Handshaked)
		want := fmt.Sprintf("true %d 2 5 true", alias)
		if got != want {
			r.violate(Violation{What: "a handshake for a version registered as an alias of another implementation: accepted, and the context adopts the handshake's version",
				Case: fmt.Sprintf("Register(%d, implementation of v%d); Context.Handshake{Version:%d Codec:2 Platform:5}", alias, 1+alias%2, alias), Impl: got, Expect: want})
		}
		if p, err := protocol.GetProtocol(uint8(alias)); err != nil || p != impl {
			r.violate(Violation{What: "lookup of a version registered as an alias fails or returns another implementation", Case: fmt.Sprintf("Register(%d, ...)", alias)})
		}
		r.st.Evaluations++
		r.count("ctx.alias-registration")
	}
	// the context of a connection obtained from the TCP dialer carries exactly the requested fields
	c18DialContexts(r)
}
