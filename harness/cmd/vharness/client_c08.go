package main

// C08: connection recovery re-establishes an authenticated session — per-attempt outcome scripts.

import (
	"fmt"
	"net"
	"strings"
	"sync"
	"time"

	control "github.com/longportapp/openapi-protobufs/gen/go/control"
	"github.com/longportapp/openapi-protocol/go/client"
	"google.golang.org/protobuf/proto"
)

func init() { props["C08"] = runC08 }

type att struct {
	dialOK  bool
	answers []string // k<sid> | u | o | d | s
}

// relisten reopens the peer's listener on the same address.
func (p *tcpPeer) relisten() bool {
	addr := p.ln.Addr().String()
	for i := 0; i < 50; i++ {
		ln, err := net.Listen("tcp", addr)
		if err == nil {
			p.ln = ln
			go func() {
				for {
					c, err := ln.Accept()
					if err != nil {
						return
					}
					p.mu.Lock()
					pc := &peerConn{c: c, idx: len(p.all)}
					p.all = append(p.all, pc)
					p.mu.Unlock()
					p.conns <- pc
				}
			}()
			return true
		}
		time.Sleep(10 * time.Millisecond)
	}
	return false
}

type c08Result struct {
	req, out string
	viols    []Violation
	label    string
}

func c08Scenario(getter bool, maxRe int, unexpired bool, atts []att, garbageLoss bool) (res c08Result) {
	addv := func(what, cs string) { res.viols = append(res.viols, Violation{What: what, Case: cs}) }
	peer := newTCPPeer()
	defer peer.shutdown()
	tc := newTestClient()
	expIn := int64(60000)
	if !unexpired {
		expIn = -5000
	}
	opts := []client.DialOption{client.DialTimeout(500 * time.Millisecond), client.AuthTimeout(400 * time.Millisecond), client.Keepalive(time.Hour), client.KeepaliveTimeout(2 * time.Hour)}
	if maxRe > 0 {
		opts = append(opts, client.MaxReconnect(maxRe))
	}
	if getter {
		opts = append(opts, client.WithAuthTokenGetter(func() (string, error) { return "token", nil }))
	}
	// model line
	var as []string
	for _, a := range atts {
		ans := "-"
		if len(a.answers) > 0 {
			ans = strings.Join(a.answers, ".")
		}
		as = append(as, fmt.Sprintf("d%sx%st1:%s", b01(a.dialOK), b01(!unexpired), ans))
	}
	sess := "-"
	if getter {
		sess = "7"
	}
	res.req = fmt.Sprintf("rc.run %d %s %s 0 %s", maxRe, b01(getter), sess, strings.Join(as, " "))
	res.label = fmt.Sprintf("getter%s.max%d.unexpired%s.n%d", b01(getter), maxRe, b01(unexpired), len(atts))
	cs := res.req
	errc := make(chan error, 1)
	go func() { errc <- tc.dial(peer.url(), 1, opts...) }()
	pc0 := peer.accept(3 * time.Second)
	if pc0 == nil || !pc0.readHandshake(2*time.Second) {
		addv("setup: no first connection", cs)
		return
	}
	if getter {
		f := pc0.readFrame(2 * time.Second)
		if f == nil || f.Cmd != 2 {
			addv("setup: no AUTH request on the first connection", cs)
			return
		}
		pc0.send(respFrame(1, 2, f.Rid, 0, authRespBody("7", expIn)))
	}
	select {
	case err := <-errc:
		if err != nil {
			addv("setup: Dial failed: "+err.Error(), cs)
			return
		}
	case <-time.After(3 * time.Second):
		addv("setup: Dial did not return", cs)
		return
	}
	defer func() {
		defer func() { recover() }()
		tc.cli.Close(nil)
	}()
	var events []string
	conns := []*peerConn{pc0}
	listening := true
	setListen := func(want bool) {
		if want && !listening {
			listening = peer.relisten()
		} else if !want && listening {
			peer.stopListening()
			listening = false
		}
	}
	if len(atts) > 0 {
		setListen(atts[0].dialOK)
	}
	failed := tc.log.count("reconnect failed")
	if garbageLoss {
		pc0.send([]byte{0x00}) // an undecodable frame (type nibble 0); the peer keeps the connection open
	} else {
		pc0.close() // the loss
	}
	result := "trying"
	for i, a := range atts {
		okBefore := tc.log.count("reconnect success")
		if maxRe > 0 && i >= maxRe {
			break // the model gives up before this attempt
		}
		if a.dialOK {
			pc := peer.accept(3 * time.Second)
			if pc == nil || !pc.readHandshake(2*time.Second) {
				addv(fmt.Sprintf("attempt %d: the client did not re-dial", i), cs)
				return
			}
			events = append(events, "D1")
			conns = append(conns, pc)
			gen := len(conns)
			ans := append([]string(nil), a.answers...)
			checkedOld := false
			for {
				f := pc.readFrame(600 * time.Millisecond)
				if f == nil {
					break
				}
				if !checkedOld {
					// the client is already talking on the new connection: every older one must be closed by now
					checkedOld = true
					for oi, oc := range conns[:len(conns)-1] {
						if !oc.closed && !oc.peerClosed(400*time.Millisecond) {
							addv(fmt.Sprintf("connection %d is still open while the client already sends on connection %d (never two connections at once)", oi+1, gen), cs)
						}
						oc.closed = true
					}
				}
				switch f.Cmd {
				case 3:
					var rr control.ReconnectRequest
					proto.Unmarshal(f.Body, &rr)
					events = append(events, fmt.Sprintf("R%d:%s", gen, rr.SessionId))
				case 2:
					events = append(events, fmt.Sprintf("A%d", gen))
				default:
					events = append(events, fmt.Sprintf("?%d", f.Cmd))
				}
				if len(ans) == 0 {
					break
				}
				an := ans[0]
				ans = ans[1:]
				stop := false
				switch an[0] {
				case 'k':
					pc.send(respFrame(1, f.Cmd, f.Rid, 0, authRespBody(an[1:], expIn)))
				case 'u':
					pc.send(respFrame(1, f.Cmd, f.Rid, 5, errBody(401, "unauthenticated")))
				case 'o':
					pc.send(respFrame(1, f.Cmd, f.Rid, 7, errBody(500, "internal")))
					stop = true
				case 'd':
					pc.close()
					stop = true
				default: // silence
					stop = true
				}
				if stop {
					break
				}
			}
		} else {
			events = append(events, "D0")
		}
		// how did the attempt end?
		ended := waitUntil(4*time.Second, func() bool {
			return tc.log.count("reconnect failed") > failed || tc.log.count("reconnect success") > okBefore
		})
		if !ended {
			addv(fmt.Sprintf("attempt %d neither failed nor succeeded within 4 s", i), cs)
			return
		}
		if tc.log.count("reconnect success") > okBefore {
			events = append(events, "OK")
			result = "recovered"
			break
		}
		failed = tc.log.count("reconnect failed")
		events = append(events, "Z")
		if i+1 < len(atts) {
			setListen(atts[i+1].dialOK)
		}
	}
	if result != "recovered" && maxRe > 0 && len(atts) >= maxRe {
		// the budget is spent: exactly one close callback with the hit-max error, then silence
		if waitUntil(3*time.Second, func() bool { return len(tc.closeCallbacks()) > 0 }) {
			events = append(events, "GU")
			result = "gaveup"
		}
	}
	res.out = strings.Join(events, " ") + " | " + result
	// ---- direct oracles ----
	switch result {
	case "recovered":
		if !waitUntil(time.Second, func() bool { return tc.reconCount() == 1 }) {
			addv(fmt.Sprintf("after-reconnect callback ran %d times after one successful recovery", tc.reconCount()), cs)
		}
		// serves again, on the newest connection only; older connections are closed
		last := conns[len(conns)-1]
		ch := tc.doAsync(77, nil, time.Second)
		f := last.readFrame(time.Second)
		if f == nil {
			addv("after recovery a request did not reach the peer on the new connection", cs)
		} else {
			last.send(respFrame(1, 77, f.Rid, 0, []byte("served")))
			if r, ok := awaitDo(ch, 2*time.Second); !ok || r.pkt == nil {
				addv("after recovery the client does not serve requests", cs)
			}
		}
		for i, c := range conns[:len(conns)-1] {
			if !c.peerClosed(300 * time.Millisecond) {
				addv(fmt.Sprintf("replaced connection %d is still open after the recovery (never two connections at once)", i+1), cs)
			}
			c.mu.Lock()
			extra := len(c.buf)
			c.mu.Unlock()
			_ = extra
		}
		if len(tc.closeCallbacks()) != 0 {
			addv("close callback ran although the recovery succeeded", cs)
		}
	case "gaveup":
		cbs := tc.closeCallbacks()
		if len(cbs) != 1 || !strings.Contains(cbs[0], "hit max reconnect") {
			addv(fmt.Sprintf("giving up must report the hit-max-reconnect error through the close callback exactly once, got %v", cbs), cs)
		}
		if tc.reconCount() != 0 {
			addv("after-reconnect callback ran without a successful recovery", cs)
		}
		n := peer.nconns()
		time.Sleep(1300 * time.Millisecond)
		if peer.nconns() != n {
			addv("the client dialled again after giving up", cs)
		}
	default:
		if tc.reconCount() != 0 {
			addv("after-reconnect callback ran without a successful recovery", cs)
		}
		if maxRe > 0 && len(atts) >= maxRe {
			addv("the attempt budget is spent but the client did not report hit-max-reconnect", cs)
		}
	}
	return
}

func runC08(r *Run) {
	installHooks()
	r.st.Rule = "per-attempt outcome scripts against the real client over TCP: loss by peer drop, then sequences over {dial refused, RECONNECT/AUTH answered ok, unauthenticated, other error status, dropped before answer, silence}, session unexpired/expired, with/without token getter, MaxReconnect 0..3; observed dials, frames per connection (with the presented session id), back-offs and the two callbacks are compared with Model/Recovery.v; direct oracles: after-reconnect exactly once after a success, the client serves a request again, replaced connections are closed, give-up reported once with the hit-max error and no dial afterwards. Scenarios run in parallel. Then, sequentially, with the keepalive an hour away, on TCP and WebSocket: the new connection of a successful recovery is dropped while the after-reconnect callback is still running; a re-dialled connection (and the first connection, inside Dial) is dropped before the client has registered its close callback (dial.before-onclose gate) - service must be re-established each time; the forced lifecycle actions are replayed by Model/Life.v. A session that runs out while the recovery is retrying: the attempt after the expiry authenticates afresh. distinct = distinct request lines"
	type sc struct {
		getter    bool
		max       int
		unexpired bool
		atts      []att
		garbage   bool
	}
	A := func(ok bool, ans ...string) att { return att{ok, ans} }
	scs := []sc{
		{true, 0, true, []att{A(true, "k9")}, false},                             // resume
		{true, 0, true, []att{A(true, "k9")}, true},                              // loss by an undecodable frame, peer keeps the old connection open
		{true, 0, false, []att{A(true, "k9")}, false},                            // expired: AUTH
		{true, 0, true, []att{A(true, "u", "k9")}, false},                        // unauthenticated -> AUTH on the same connection
		{true, 0, true, []att{A(false), A(true, "k9")}, false},                   // refused, then resume
		{true, 3, true, []att{A(true, "o"), A(true, "d"), A(true, "k9")}, false}, // error status, dropped, success within budget
		{true, 2, true, []att{A(false), A(true, "s")}, false},                    // budget spent: give up
		{false, 0, true, []att{A(true)}, false},                                  // no auth at all
		{false, 2, true, []att{A(false), A(false)}, false},                       // give up without auth
		{true, 1, true, []att{A(true, "u", "o")}, false},                         // fallback fails, budget 1: give up
		{true, 0, true, []att{A(true, "u", "o"), A(true, "k9")}, false},          // fallback fails, the next attempt still authenticates
		{true, 0, true, []att{A(true, "s"), A(true, "k11")}, false},              // silence then success
	}
	if r.thorough() {
		for _, g := range []bool{true, false} {
			for _, un := range []bool{true, false} {
				for mx := 0; mx <= 3; mx++ {
					for _, first := range []att{A(false), A(true, "d"), A(true, "u", "k5"), A(true, "o"), A(true, "s"), A(true, "k5")} {
						scs = append(scs, sc{g, mx, un, []att{first, A(true, "k6")}, mx%2 == 1})
						scs = append(scs, sc{g, mx, un, []att{first, first, A(true, "k6")}, false})
					}
				}
			}
		}
	}
	results := make([]c08Result, len(scs))
	sem := make(chan struct{}, 8)
	var wg sync.WaitGroup
	for i, s := range scs {
		wg.Add(1)
		go func(i int, s sc) {
			defer wg.Done()
			sem <- struct{}{}
			defer func() { <-sem }()
			results[i] = c08Scenario(s.getter, s.max, s.unexpired, s.atts, s.garbage)
		}(i, s)
	}
	wg.Wait()
	for _, res := range results {
		if res.out != "" {
			r.emit(res.req, res.out, true)
		}
		r.count("c08." + res.label)
		for _, v := range res.viols {
			r.violate(v)
		}
	}
	// a loss of the NEW connection while the finished recovery is still inside the after-reconnect callback (the
	// single-flight flag is set): it must not be forgotten - with the keepalive far away nothing else would notice
	for _, trans := range []string{"tcp", "ws"} {
		f, err := openF(trans)
		if err != nil {
			continue
		}
		hold := make(chan struct{})
		f.tc.setReconHold(hold)
		f.lk.drop()
		l2 := f.acceptNext(3 * time.Second)
		if l2 != nil && waitUntil(2*time.Second, func() bool { return f.tc.reconCount() == 1 }) {
			l2.drop() // the callback is parked; the client's reader notices the loss now
			time.Sleep(150 * time.Millisecond)
			f.tc.setReconHold(nil)
			close(hold)
			l3 := f.followNewest(1500 * time.Millisecond)
			cs := trans + ": drop, recovery succeeds, new connection dropped while the after-reconnect callback runs (keepalive 1 h)"
			if l3 == nil {
				r.violate(Violation{What: "a loss of the connection was never recovered: the new connection died while the after-reconnect callback of the recovery that created it was running", Case: cs,
					Extra: strings.Join(f.tc.log.snapshot(), "\n")})
			} else {
				ch := f.tc.doAsync(33, nil, fReq)
				if q := l3.nextRequest(time.Second); q != nil {
					l3.sendFrame(respFrame(1, 33, q.Rid, 0, []byte("back")))
				}
				if res, ok := awaitDo(ch, 2*time.Second); !ok || res.pkt == nil {
					r.violate(Violation{What: "service not re-established after a loss during the after-reconnect callback: " + resultStr(res), Case: cs})
				}
				o := f.observe(false)
				if trans == "tcp" {
					r.emit("lf.run 0 CL RB DD.1 AD.1 X.0.r X.0.w X.0.d CL FN RB DD.1 AD.1 FN X.1.r X.1.w X.1.d", o.String(), true)
				}
				if o.recon != 2 {
					r.violate(Violation{What: fmt.Sprintf("after-reconnect callback ran %d times for two successful recoveries", o.recon), Case: cs})
				}
			}
		} else {
			f.tc.setReconHold(nil)
			close(hold)
		}
		r.count("c08.loss-while-finishing." + trans)
		r.st.Evaluations++
		f.close()
	}
	// the session resume is answered later than the DIAL timeout but well inside the AUTH timeout: it counts
	{
		s := &session{tc: newTestClient(), v: 1, trans: "tcp"}
		s.tcp = newTCPPeer()
		errc := make(chan error, 1)
		go func() {
			errc <- s.tc.dial(s.tcp.url(), 1, client.DialTimeout(300*time.Millisecond), client.AuthTimeout(3*time.Second), client.Keepalive(time.Hour), client.KeepaliveTimeout(2*time.Hour),
				client.MaxReconnect(2), client.WithAuthTokenGetter(func() (string, error) { return "tok", nil }))
		}()
		pc := s.tcp.accept(3 * time.Second)
		if pc != nil && pc.readHandshake(time.Second) {
			if q := pc.readFrame(2 * time.Second); q != nil {
				pc.send(respFrame(1, 2, q.Rid, 0, authRespBody("s1", 600000)))
			}
			if err := <-errc; err == nil {
				pc.close()
				p2 := s.tcp.accept(3 * time.Second)
				if p2 != nil && p2.readHandshake(time.Second) {
					if q := p2.readFrame(2 * time.Second); q != nil {
						time.Sleep(700 * time.Millisecond)
						p2.send(respFrame(1, q.Cmd, q.Rid, 0, authRespBody("s1", 600000)))
					}
					ok := waitUntil(1500*time.Millisecond, func() bool { return s.tc.reconCount() == 1 })
					if !ok || s.tcp.nconns() != 2 || len(s.tc.closeCallbacks()) != 0 {
						r.violate(Violation{What: fmt.Sprintf("a session resume answered after 700 ms (dial timeout 300 ms, auth timeout 3 s) did not complete the recovery: %d connections, %d reconnect callbacks, close callbacks %v", s.tcp.nconns(), s.tc.reconCount(), s.tc.closeCallbacks()),
							Case: "tcp: drop, RECONNECT answered ok after 700 ms, MaxReconnect 2"})
					}
				}
				r.st.Evaluations++
				r.count("c08.slow-resume-answer")
			}
		}
		s.close()
	}
	// a connection that dies between the dialer's return and the registration of the client's close callback
	// (dial.before-onclose gate): the loss must still reach the recovery
	for _, trans := range []string{"tcp", "ws"} {
		hub.reset()
		f, err := openF(trans)
		if err != nil {
			continue
		}
		g := hub.arm("dial.before-onclose", nil)
		f.lk.drop()
		l2 := f.acceptNext(3 * time.Second)
		cs := trans + ": drop; the re-dialled connection is dropped by the peer before the client has registered its close callback on it (keepalive 1 h)"
		if l2 != nil && g.waitParked(2*time.Second) {
			n0 := f.tc.log.count("close conn, err")
			l2.drop()
			f.tc.log.waitCount("close conn, err", n0+1, 2*time.Second) // the new connection's reader has closed it
			g.open()
			hub.reset()
			l3 := f.followNewest(1500 * time.Millisecond)
			if l3 == nil {
				r.violate(Violation{What: "a loss of the connection was never recovered: the connection died before the client had registered its close callback on it", Case: cs,
					Extra: strings.Join(f.tc.log.snapshot(), "\n")})
			} else {
				ch := f.tc.doAsync(34, nil, fReq)
				if q := l3.nextRequest(time.Second); q != nil {
					l3.sendFrame(respFrame(1, 34, q.Rid, 0, []byte("back")))
				}
				if res, ok := awaitDo(ch, 2*time.Second); !ok || res.pkt == nil {
					r.violate(Violation{What: "service not re-established after a connection died before the close callback was registered: " + resultStr(res), Case: cs})
				}
				if trans == "tcp" {
					r.emit("lf.run 0 CL RB DD.1 CL AD.1 FN X.0.r X.0.w X.0.d RB DD.1 AD.1 FN X.1.r X.1.w X.1.d", f.observe(false).String(), true)
				}
			}
		} else {
			g.open()
			hub.reset()
		}
		r.count("c08.dies-before-onclose." + trans)
		r.st.Evaluations++
		f.close()
	}
	// the same window in the first Dial
	{
		hub.reset()
		g := hub.arm("dial.before-onclose", nil)
		s := &session{tc: newTestClient(), v: 1, trans: "tcp"}
		s.tcp = newTCPPeer()
		f := &fsession{s, settle(), -1}
		errc := make(chan error, 1)
		go func() {
			errc <- s.tc.dial(s.tcp.url(), 1, client.DialTimeout(fDial), client.Keepalive(time.Hour), client.KeepaliveTimeout(2*time.Hour))
		}()
		l1 := f.acceptNext(3 * time.Second)
		cs := "tcp: the first connection is dropped by the peer before Dial has registered the close callback (keepalive 1 h)"
		if l1 != nil && g.waitParked(2*time.Second) {
			l1.drop()
			s.tc.log.waitCount("close conn, err", 1, 2*time.Second)
			g.open()
			hub.reset()
			<-errc
			l2 := f.followNewest(1500 * time.Millisecond)
			if l2 == nil {
				r.violate(Violation{What: "a loss of the connection was never recovered: the first connection died before Dial had registered the close callback", Case: cs,
					Extra: strings.Join(s.tc.log.snapshot(), "\n")})
			} else {
				s.lk = l2
				r.emit("lf.run 0 CL RB DD.1 AD.1 FN X.0.r X.0.w X.0.d", f.observe(false).String(), true)
			}
		} else {
			g.open()
			hub.reset()
		}
		r.count("c08.dies-before-onclose.first-dial")
		r.st.Evaluations++
		s.close()
	}
	r.c08ExpiryInsideRecovery()
}

// c08ExpiryInsideRecovery: the stored session is still valid when the connection is lost and runs out while the
// recovery is retrying (the peer rejects the resume with an ordinary error status, one attempt per second). Whether the
// session is presented is decided per attempt: the attempts made after the expiry authenticate with a fresh token.
func (r *Run) c08ExpiryInsideRecovery() {
	s := &session{tc: newTestClient(), v: 1, trans: "tcp"}
	s.tcp = newTCPPeer()
	stop := make(chan struct{})
	var mu sync.Mutex
	var cmds []string // per connection after the first: which session command arrived
	go func() {
		ci := -1
		for {
			pc := s.tcp.accept(6 * time.Second)
			if pc == nil {
				return
			}
			if !pc.readHandshake(time.Second) {
				continue
			}
			ci++
			my := ci
			go func() {
				for {
					select {
					case <-stop:
						return
					default:
					}
					f := pc.readFrame(50 * time.Millisecond)
					if f == nil {
						if pc.closed {
							return
						}
						continue
					}
					if f.Type != 1 {
						continue
					}
					switch f.Cmd {
					case 2:
						if my > 0 {
							mu.Lock()
							cmds = append(cmds, "AUTH")
							mu.Unlock()
						}
						life := int64(600000)
						if my == 0 {
							life = 10000 + 1500 // by the client's rule (10 s early) the session is good for 1.5 s
						}
						pc.send(respFrame(1, 2, f.Rid, 0, authRespBody("sess", life)))
					case 3:
						mu.Lock()
						cmds = append(cmds, "RECONNECT")
						mu.Unlock()
						pc.send(respFrame(1, 3, f.Rid, 7, errBody(500, "try again")))
					}
				}
			}()
		}
	}()
	n := 0
	err := s.tc.dial(s.tcp.url(), 1, client.Keepalive(time.Hour), client.KeepaliveTimeout(2*time.Hour), client.DialTimeout(fDial), client.AuthTimeout(time.Second),
		client.WithAuthTokenGetter(func() (string, error) { n++; return fmt.Sprintf("tok%d", n), nil }), client.MaxReconnect(6))
	if err == nil {
		s.tcp.mu.Lock()
		first := s.tcp.all[0]
		s.tcp.mu.Unlock()
		first.close()
		waitUntil(5*time.Second, func() bool { return s.tc.reconCount() >= 1 || len(s.tc.closeCallbacks()) > 0 })
		mu.Lock()
		got := strings.Join(cmds, " ")
		mu.Unlock()
		cs := "tcp: session good for 1.5 s (client rule), drop at once; RECONNECT is answered with status 7 (one attempt per second), AUTH is accepted; MaxReconnect 6"
		// attempts at about 0 s and 1 s present the session, the attempt at about 2 s finds it expired and authenticates
		if s.tc.reconCount() != 1 || !strings.HasSuffix(got, "AUTH") || strings.Count(got, "RECONNECT") > 3 {
			r.violate(Violation{What: "a session that ran out while the recovery was retrying was still presented instead of a fresh authentication: session commands seen on the re-dialled connections: " + got +
				fmt.Sprintf("; %d reconnect callbacks, close callbacks %v", s.tc.reconCount(), s.tc.closeCallbacks()), Case: cs})
		}
		r.st.Notes = append(r.st.Notes, "expiry inside a recovery: "+got)
		r.st.Evaluations++
		r.count("c08.expiry-inside-recovery")
	}
	close(stop)
	s.close()
}
