package main

// Shared helpers for the codec-layer properties (C01-C04, C10, C11): packet
// generator, canonical printers, gzip oracle entries computed with the standard
// library, and a reference frame encoder/decoder written from the published
// layout only (it shares no code with the repository's codec).

import (
	"bytes"
	stdgzip "compress/gzip"
	"context"
	"encoding/binary"
	"fmt"
	"io"
	"sort"
	"strings"

	"github.com/Allenxuxu/ringbuffer"
	protocol "github.com/longportapp/openapi-protocol/go"
	_ "github.com/longportapp/openapi-protocol/go/v1"
	_ "github.com/longportapp/openapi-protocol/go/v2"
)

// PK is a packet in plain fields.
type PK struct {
	Type    int // 0 none/unknown, 1 request, 2 response, 3 push
	Cmd     uint32
	Rid     uint32
	Timeout uint16
	Status  uint8
	Verify  bool
	Gzip    bool
	Nonce   uint64
	Sig     []byte
	Codec   uint8
	Vals    map[string]string
	Body    []byte
}

func ptypeOf(t int) protocol.PacketType {
	switch t {
	case 1:
		return protocol.RequestPacket
	case 2:
		return protocol.ResponsePacket
	case 3:
		return protocol.PushPacket
	}
	return protocol.PacketType("")
}

func ptypeNum(t protocol.PacketType) int {
	switch t {
	case protocol.RequestPacket:
		return 1
	case protocol.ResponsePacket:
		return 2
	case protocol.PushPacket:
		return 3
	}
	return 0
}

func (p *PK) toPacket() *protocol.Packet {
	vals := map[string]string{}
	for k, v := range p.Vals {
		vals[k] = v
	}
	body := append([]byte(nil), p.Body...)
	return &protocol.Packet{Metadata: &protocol.Metadata{
		Nonce: p.Nonce, RequestId: p.Rid, CmdCode: p.Cmd, Verify: p.Verify, Gzip: p.Gzip, Timeout: p.Timeout,
		Codec: protocol.CodecType(p.Codec), StatusCode: p.Status, Type: ptypeOf(p.Type),
		Signature: append([]byte(nil), p.Sig...), Values: vals}, Body: body}
}

func pkOf(p *protocol.Packet) *PK {
	m := p.Metadata
	return &PK{Type: ptypeNum(m.Type), Cmd: m.CmdCode, Rid: m.RequestId, Timeout: m.Timeout, Status: m.StatusCode,
		Verify: m.Verify, Gzip: m.Gzip, Nonce: m.Nonce, Sig: m.Signature, Codec: uint8(m.Codec), Vals: m.Values, Body: p.Body}
}

// hexsum mirrors Run.hexsum: long byte strings are summarised.
func hexsum(b []byte) string {
	if len(b) <= 8192 {
		return hx(b)
	}
	var s1, s2 uint64
	for _, c := range b {
		s1 += uint64(c)
		s2 += s1
	}
	return fmt.Sprintf("big:%d:%s:%s:%d:%d", len(b), hx(b[:48]), hx(b[len(b)-48:]), s1, s2)
}

// hexIn: compact input notation the model's unhexx understands.
func hexIn(b []byte) string {
	if len(b) > 64 {
		same := true
		for _, c := range b {
			if c != b[0] {
				same = false
				break
			}
		}
		if same {
			return fmt.Sprintf("rep:%02x:%d", b[0], len(b))
		}
	}
	return hx(b)
}

func (p *PK) fields(sep string, in bool) string {
	body := hexsum(p.Body)
	if in {
		body = hexIn(p.Body)
	}
	return strings.Join([]string{fmt.Sprint(p.Type), fmt.Sprint(p.Cmd), fmt.Sprint(p.Rid), fmt.Sprint(p.Timeout),
		fmt.Sprint(p.Status), b01(p.Verify), b01(p.Gzip), fmt.Sprint(p.Nonce), hx(p.Sig), fmt.Sprint(p.Codec),
		mapStr(p.Vals), body}, sep)
}

func pktOut(p *protocol.Packet) string { return pkOf(p).fields(" ", false) }

// ---- gzip through the standard library only (oracle entries) ----
func stdCompress(in []byte) []byte {
	var buf bytes.Buffer
	w := stdgzip.NewWriter(&buf)
	w.Write(in)
	w.Close()
	return buf.Bytes()
}

// stdRead: what the standard library's reader yields: header error, or bytes + EOF/error.
func stdRead(in []byte) (out []byte, fin string) {
	r, err := stdgzip.NewReader(bytes.NewReader(in))
	if err != nil {
		return nil, "H"
	}
	out, err = io.ReadAll(r)
	if err != nil {
		return out, "X"
	}
	return out, "E"
}

func gzcEntry(in []byte) string { return "gzc:" + hexIn(in) + "=" + hexIn(stdCompress(in)) }
func gzrEntry(in []byte) string {
	out, fin := stdRead(in)
	return "gzr:" + hexIn(in) + "=" + hexIn(out) + "/" + fin
}

// ---- the implementation under test ----
func newCtx(codec uint8, version uint8) *protocol.Context {
	c := protocol.NewContext(context.Background(), protocol.ClientSide)
	c.Codec = protocol.CodecType(codec)
	c.Version = version
	return c
}

func implPack(v int, ctx *protocol.Context, p *protocol.Packet, thr int) (out string, frame []byte) {
	defer func() {
		if e := recover(); e != nil {
			out, frame = "PANIC", nil
		}
	}()
	pr, _ := protocol.GetProtocol(uint8(v))
	data, err := pr.Pack(ctx, p, protocol.GzipSize(thr))
	if err != nil {
		return "ERR " + errEnum(err), nil
	}
	return "OK " + hexsum(data) + " " + b01(p.Metadata.Gzip), data
}

func implUnpackBytes(v int, ctx *protocol.Context, bs []byte) (out string, pk *protocol.Packet) {
	defer func() {
		if e := recover(); e != nil {
			out, pk = "PANIC", nil
		}
	}()
	pr, _ := protocol.GetProtocol(uint8(v))
	p, err := pr.UnpackBytes(ctx, bs)
	if err != nil {
		return "ERR " + errEnum(err), nil
	}
	return "OK " + pktOut(p), p
}

// implUnpack: one streaming Unpack call.
func implUnpack(v int, ctx *protocol.Context, rb *ringbuffer.RingBuffer) (out string, pk *protocol.Packet, done bool) {
	defer func() {
		if e := recover(); e != nil {
			out, pk, done = fmt.Sprintf("PANIC q=%d", rb.Length()), nil, false
		}
	}()
	pr, _ := protocol.GetProtocol(uint8(v))
	p, d, err := pr.Unpack(ctx, rb)
	if err != nil {
		return fmt.Sprintf("ERR %s q=%d", errEnum(err), rb.Length()), nil, false
	}
	if !d {
		return fmt.Sprintf("NEED q=%d", rb.Length()), nil, false
	}
	return fmt.Sprintf("PKT %s q=%d", pktOut(p), rb.Length()), p, true
}

// implReadPackets mirrors tcpConn.readPacket: Unpack until not done.
func implReadPackets(v int, ctx *protocol.Context, rb *ringbuffer.RingBuffer) (out string, pks []*protocol.Packet) {
	var parts []string
	for i := 0; i < 1<<20; i++ {
		o, p, done := implUnpack(v, ctx, rb)
		if strings.HasPrefix(o, "PANIC") {
			return fmt.Sprintf("PANIC q=%d", rb.Length()), pks
		}
		if strings.HasPrefix(o, "ERR") {
			return o, pks
		}
		if !done {
			break
		}
		pks = append(pks, p)
		parts = append(parts, pktOut(p))
	}
	return fmt.Sprintf("OK %d [%s] q=%d", len(pks), strings.Join(parts, " / "), rb.Length()), pks
}

// ---- reference codec, from the published layout ----
// byte 0 = type:4 | verify:1<<4 | gzip:1<<5 | reserve:2<<6 ; cmd:8 ; request_id:32 (req/resp) ;
// timeout:16 (req) | status:8 (resp) ; [v2 metadata_len:16] ; body_len:24 ; [v2 metadata] ; body ; nonce:64 ; signature:128
type RefFrame struct {
	V       int
	Type    int
	Verify  bool
	Gzip    bool
	Reserve int
	Cmd     uint8
	Rid     uint32
	Timeout uint16
	Status  uint8
	Meta    []byte
	Body    []byte // as on the wire
	Nonce   uint64
	Sig     []byte // 16 bytes
	// override the length fields (hostile frames); -1 = actual
	MLenField, BLenField int
}

func (f *RefFrame) encode() []byte {
	b0 := byte(f.Type&15) | byte(f.Reserve&3)<<6
	if f.Verify {
		b0 |= 1 << 4
	}
	if f.Gzip {
		b0 |= 1 << 5
	}
	out := []byte{b0, f.Cmd}
	if f.Type == 1 || f.Type == 2 {
		out = binary.BigEndian.AppendUint32(out, f.Rid)
	}
	if f.Type == 1 {
		out = binary.BigEndian.AppendUint16(out, f.Timeout)
	}
	if f.Type == 2 {
		out = append(out, f.Status)
	}
	if f.V == 2 {
		ml := len(f.Meta)
		if f.MLenField >= 0 {
			ml = f.MLenField
		}
		out = binary.BigEndian.AppendUint16(out, uint16(ml))
	}
	bl := len(f.Body)
	if f.BLenField >= 0 {
		bl = f.BLenField
	}
	out = append(out, byte(bl>>16), byte(bl>>8), byte(bl))
	if f.V == 2 {
		out = append(out, f.Meta...)
	}
	out = append(out, f.Body...)
	if f.Verify {
		out = binary.BigEndian.AppendUint64(out, f.Nonce)
		sig := make([]byte, 16)
		copy(sig, f.Sig)
		out = append(out, sig...)
	}
	return out
}

// refDecode: decode the first frame of data per the layout; ok=false if the layout rejects it
// (unknown type, truncated). Returns the decoded fields and the number of bytes of the frame.
func refDecode(v int, data []byte) (f *RefFrame, n int, verdict string) {
	if len(data) == 0 {
		return nil, 0, "EInvalidFrame"
	}
	f = &RefFrame{V: v, MLenField: -1, BLenField: -1}
	b0 := data[0]
	f.Type = int(b0 & 15)
	f.Verify = b0>>4&1 == 1
	f.Gzip = b0>>5&1 == 1
	f.Reserve = int(b0 >> 6)
	if f.Type < 1 || f.Type > 3 {
		return nil, 0, "EUnknownPacket"
	}
	hl := map[int]int{1: 11, 2: 10, 3: 5}[f.Type]
	if v == 2 {
		hl += 2
	}
	if len(data) < hl {
		return nil, 0, "EInvalidFrame"
	}
	f.Cmd = data[1]
	i := 2
	if f.Type != 3 {
		f.Rid = binary.BigEndian.Uint32(data[i:])
		i += 4
	}
	if f.Type == 1 {
		f.Timeout = binary.BigEndian.Uint16(data[i:])
		i += 2
	}
	if f.Type == 2 {
		f.Status = data[i]
		i++
	}
	ml := 0
	if v == 2 {
		ml = int(binary.BigEndian.Uint16(data[i:]))
		i += 2
	}
	bl := int(data[i])<<16 | int(data[i+1])<<8 | int(data[i+2])
	i += 3
	need := ml + bl
	if f.Verify {
		need += 24
	}
	if len(data)-i < need {
		return nil, 0, "EInvalidFrame"
	}
	f.Meta = data[i : i+ml]
	f.Body = data[i+ml : i+ml+bl]
	i += ml + bl
	if f.Verify {
		f.Nonce = binary.BigEndian.Uint64(data[i:])
		f.Sig = data[i+8 : i+24]
		i += 24
	}
	return f, i, "OK"
}

// refOfPK: the frame the layout prescribes for packet p under threshold thr.
func refOfPK(v int, p *PK, thr int) (*RefFrame, string) {
	if p.Type < 1 || p.Type > 3 {
		return nil, "EUnknownPacket"
	}
	body := p.Body
	gz := p.Gzip
	if thr != 0 && len(body) >= thr {
		body = stdCompress(body)
		gz = true
	}
	if len(body) > 1<<24-1 {
		return nil, "EBodyLimit"
	}
	f := &RefFrame{V: v, Type: p.Type, Verify: p.Verify, Gzip: gz, Cmd: uint8(p.Cmd), Rid: p.Rid, Timeout: p.Timeout,
		Status: p.Status, Body: body, Nonce: p.Nonce, Sig: p.Sig, MLenField: -1, BLenField: -1}
	if v == 2 {
		f.Meta = refMarshalMap(p.Vals, 65535)
	}
	return f, "OK"
}

// refMarshalMap: sorted keys, whole pairs, stop at the first pair that does not fit.
func refMarshalMap(m map[string]string, max int) []byte {
	ks := make([]string, 0, len(m))
	for k := range m {
		ks = append(ks, k)
	}
	sort.Strings(ks)
	var out []byte
	for _, k := range ks {
		kb, ok1 := refMarshalString(k)
		vb, ok2 := refMarshalString(m[k])
		if k == "" || !ok1 || !ok2 {
			continue
		}
		if len(out)+len(kb)+len(vb) > max {
			break
		}
		out = append(out, kb...)
		out = append(out, vb...)
	}
	return out
}

// ---- generators ----
var bodyLens = []int{0, 1, 2, 11, 127, 128, 255, 256, 257, 1023, 1024, 1025, 4095, 65535, 65536}

func (g *RNG) body(n int) []byte {
	switch g.Intn(4) {
	case 0:
		return make([]byte, n)
	case 1:
		return g.Bytes(n)
	case 2:
		return bytes.Repeat([]byte{byte(g.Intn(256))}, n)
	default:
		s := []byte("the quick brown fox jumps over the lazy dog. ")
		b := make([]byte, n)
		for i := range b {
			b[i] = s[(i+g.Intn(2))%len(s)]
		}
		return b
	}
}

func (g *RNG) bodyLen(big bool) int {
	switch g.Intn(10) {
	case 0, 1, 2:
		n := bodyLens[g.Intn(len(bodyLens))]
		if !big && n > 4095 {
			n = 300 + g.Intn(900)
		}
		return n
	case 3:
		return g.Intn(3000)
	default:
		return g.Intn(40)
	}
}

func ext32(g *RNG) uint32 {
	switch g.Intn(6) {
	case 0:
		return 0
	case 1:
		return 1
	case 2:
		return 0xffffffff
	case 3:
		return 0xfffffffe
	case 4:
		return uint32(g.Intn(70000))
	}
	return uint32(g.U64())
}

func (g *RNG) smallMap() map[string]string {
	m := map[string]string{}
	n := 0
	if g.Chance(60) {
		n = 1 + g.Intn(4)
	}
	for j := 0; j < n; j++ {
		k := g.asciiStr(1 + g.Intn(8))
		if g.Chance(5) {
			k = g.asciiStr(mdLens[g.Intn(12)])
		}
		m[strings.ToLower(k)] = g.asciiStr(g.mdLen(false))
	}
	return m
}

// validPK draws a packet from the domain C01 names.
func (g *RNG) validPK(v int, big bool) *PK {
	p := &PK{Type: 1 + g.Intn(3), Cmd: uint32(g.Intn(256)), Codec: uint8(1 + g.Intn(2))}
	if g.Chance(15) {
		p.Cmd = []uint32{0, 1, 255, 254}[g.Intn(4)]
	}
	p.Rid = ext32(g)
	p.Timeout = uint16(ext32(g))
	p.Status = uint8(ext32(g))
	if g.Chance(40) {
		p.Verify = true
		p.Nonce = g.U64()
		if g.Chance(20) {
			p.Nonce = []uint64{0, 1, 1<<64 - 1, 1 << 63}[g.Intn(4)]
		}
		p.Sig = g.Bytes(16)
	}
	if v == 2 {
		p.Vals = g.smallMap()
	} else {
		p.Vals = map[string]string{}
	}
	p.Body = g.body(g.bodyLen(big))
	return p
}

func (g *RNG) threshold(n int) int {
	switch g.Intn(8) {
	case 0, 1, 2:
		return 0
	case 3:
		return 1
	case 4:
		return n
	case 5:
		return n + 1
	case 6:
		if n > 0 {
			return n - 1
		}
		return 1024
	}
	return 1024
}
