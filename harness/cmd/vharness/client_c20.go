package main

// C20: the same peer script over TCP and over WebSocket; surfaced packets vs Model/WsBridge.v, application traces diffed.

import (
	"fmt"
	"regexp"
	"strings"
	"sync"
	"time"

	"github.com/gorilla/websocket"
	control "github.com/longportapp/openapi-protobufs/gen/go/control"
	protocol "github.com/longportapp/openapi-protocol/go"
	"github.com/longportapp/openapi-protocol/go/client"
	"google.golang.org/protobuf/proto"
)

func init() { props["C20"] = runC20 }

var gotPacketRe = regexp.MustCompile(`got packet, type: (\w*), cmd: (\d+), req_id: (\d+), status_code: (\d+)`)

type c20Out struct {
	surfaced []string // type:cmd:rid|*:status
	app      []string // application-level trace
	script   []string // model items
	hbs      []string // hb oracle entries
	ok       bool
}

// peer side of one connection, both transports
type xconn struct {
	trans string
	tcp   *peerConn
	ws    *wsPeerConn
}

func (x *xconn) sendData(b []byte) {
	if x.trans == "tcp" {
		x.tcp.send(b)
	} else {
		x.ws.c.WriteMessage(websocket.BinaryMessage, b)
	}
}
func (x *xconn) nextData(d time.Duration) *RefFrame {
	if x.trans == "tcp" {
		deadline := time.Now().Add(d)
		for time.Now().Before(deadline) {
			f := x.tcp.readFrame(time.Until(deadline))
			if f == nil || !(f.Type == 1 && f.Cmd == 1) { // skip the client's own heartbeats
				return f
			}
		}
		return nil
	}
	return wsLink{x.ws, 1}.nextRequest(d)
}
func (x *xconn) ping(rid uint32, body []byte) {
	if x.trans == "tcp" {
		x.tcp.send(reqFrame(1, 1, rid, body))
	} else {
		x.ws.c.WriteControl(websocket.PingMessage, body, time.Now().Add(time.Second))
	}
}

// nextClientPing waits for the client's own heartbeat: returns (request id, body).
func (x *xconn) nextClientPing(d time.Duration) (uint32, []byte, bool) {
	deadline := time.Now().Add(d)
	if x.trans == "tcp" {
		for time.Now().Before(deadline) {
			f := x.tcp.readFrame(time.Until(deadline))
			if f == nil {
				return 0, nil, false
			}
			if f.Type == 1 && f.Cmd == 1 {
				return f.Rid, f.Body, true
			}
		}
		return 0, nil, false
	}
	for time.Now().Before(deadline) {
		m := x.ws.next(time.Until(deadline))
		if m == nil || m.kind == -1 {
			return 0, nil, false
		}
		if m.kind == websocket.PingMessage {
			var hb control.Heartbeat
			proto.Unmarshal(m.data, &hb)
			return uint32(hb.GetHeartbeatId()), m.data, true
		}
	}
	return 0, nil, false
}
func (x *xconn) pong(rid uint32, body []byte) {
	if x.trans == "tcp" {
		x.tcp.send(respFrame(1, 1, rid, 0, body))
	} else {
		x.ws.c.WriteControl(websocket.PongMessage, body, time.Now().Add(time.Second))
	}
}
func (x *xconn) closeFrame(code int, reason string) []byte {
	body := pbBytes(&control.Close{Code: control.Close_Code(code), Reason: reason})
	if x.trans == "tcp" {
		x.tcp.send(pushFrame(1, 0, body))
	} else {
		x.ws.c.WriteControl(websocket.CloseMessage, websocket.FormatCloseMessage(code, reason), time.Now().Add(time.Second))
	}
	return body
}
func (x *xconn) drop() {
	if x.trans == "tcp" {
		x.tcp.close()
	} else {
		x.ws.c.UnderlyingConn().Close()
	}
}

func c20Run(trans string) (o c20Out) {
	var mu sync.Mutex
	add := func(s string) { mu.Lock(); o.app = append(o.app, s); mu.Unlock() }
	firstSlow := true
	entered := make(chan struct{}, 1)
	release := make(chan struct{})
	tc := newTestClient()
	tc.cli.Subscribe(50, func(p *protocol.Packet) { add("push50:" + string(p.Body)) })
	tc.cli.Subscribe(51, func(p *protocol.Packet) {
		mu.Lock()
		blk := firstSlow
		firstSlow = false
		mu.Unlock()
		add("push51:" + string(p.Body))
		if blk {
			entered <- struct{}{}
			<-release
		}
	})
	tc.cli.OnPing(func(p *protocol.Packet) { add("onping:" + string(p.Body)) })
	tc.cli.OnPong(func(p *protocol.Packet) {
		var hb control.Heartbeat
		proto.Unmarshal(p.Body, &hb)
		add(fmt.Sprintf("onpong:rid=hb:%v", int64(p.Metadata.RequestId) == int64(hb.GetHeartbeatId())))
	})
	var tcpP *tcpPeer
	var wsP *wsPeer
	accept := func() *xconn {
		if trans == "tcp" {
			pc := tcpP.accept(4 * time.Second)
			if pc == nil || !pc.readHandshake(2*time.Second) {
				return nil
			}
			return &xconn{trans: trans, tcp: pc}
		}
		pc := wsP.accept(4 * time.Second)
		if pc == nil {
			return nil
		}
		return &xconn{trans: trans, ws: pc}
	}
	opts := []client.DialOption{client.Keepalive(400 * time.Millisecond), client.KeepaliveTimeout(10 * time.Second), client.DialTimeout(time.Second)}
	errc := make(chan error, 1)
	url := ""
	if trans == "tcp" {
		tcpP = newTCPPeer()
		defer tcpP.shutdown()
		url = tcpP.url()
	} else {
		wsP = newWSPeer()
		defer wsP.shutdown()
		url = wsP.url()
	}
	go func() { errc <- tc.dial(url, 1, opts...) }()
	x := accept()
	if x == nil || <-errc != nil {
		return
	}
	defer func() {
		defer func() { recover() }()
		tc.cli.Close(nil)
	}()
	item := func(s string) { o.script = append(o.script, s) }
	waitGot := func(n int) { tc.log.waitCount("got packet", n, 2*time.Second) }
	got := 0
	// A. two requests: success, then an error status
	for i, st := range []uint8{0, 7} {
		ch := tc.doAsync(uint32(30+i), nil, 2*time.Second)
		f := x.nextData(2 * time.Second)
		if f == nil {
			return
		}
		body := []byte("a")
		if st != 0 {
			body = errBody(409, "conflict")
		}
		x.sendData(respFrame(1, uint8(30+i), f.Rid, st, body))
		item(fmt.Sprintf("r.%d.%d.%d.%s", 30+i, f.Rid, st, hx(body)))
		r, _ := awaitDo(ch, 3*time.Second)
		rs := resultStr(r)
		if strings.HasPrefix(rs, "RESP") { // mask the id
			rs = fmt.Sprintf("RESP %d %s", r.pkt.Metadata.StatusCode, hx(r.pkt.Body))
		}
		add("do:" + rs)
		got++
		waitGot(got)
	}
	// B. pushes
	for i := 0; i < 2; i++ {
		b := []byte(fmt.Sprintf("b%d", i))
		x.sendData(pushFrame(1, 50, b))
		item(fmt.Sprintf("u.50.%s", hx(b)))
		got++
		waitGot(got)
	}
	// C. the peer's heartbeat
	x.ping(9, []byte("pingbody"))
	item("i.9." + hx([]byte("pingbody")))
	got++
	waitGot(got)
	if trans == "tcp" { // TCP echoes it as a heartbeat response: consume
		x.nextData(time.Second)
	} else {
		x.ws.next(time.Second) // the pong control frame
	}
	// D. the client's own heartbeat, answered
	rid, hbBody, ok := x.nextClientPing(2 * time.Second)
	if !ok {
		add("no client heartbeat")
		return
	}
	x.pong(rid, hbBody)
	var hb control.Heartbeat
	proto.Unmarshal(hbBody, &hb)
	item(fmt.Sprintf("o.%d.%s", hb.GetHeartbeatId(), hx(hbBody)))
	o.hbs = append(o.hbs, fmt.Sprintf("hb:%s=%d", hx(hbBody), hb.GetHeartbeatId()))
	got++
	waitGot(got)
	// E. a burst while the handler is busy, then an abrupt drop
	x.sendData(pushFrame(1, 51, []byte("p1")))
	item("u.51." + hx([]byte("p1")))
	select {
	case <-entered:
	case <-time.After(2 * time.Second):
		return
	}
	x.sendData(pushFrame(1, 51, []byte("p2")))
	x.sendData(pushFrame(1, 51, []byte("p3")))
	item("u.51." + hx([]byte("p2")))
	item("u.51." + hx([]byte("p3")))
	hook := map[string]string{"tcp": "tcp.before-add", "ws": "ws.before-add"}[trans]
	base := hub.count(hook)
	waitUntil(2*time.Second, func() bool { return hub.count(hook) >= base })
	time.Sleep(60 * time.Millisecond)
	x.drop()
	tc.log.waitCount("close conn", 1, 2*time.Second)
	time.Sleep(30 * time.Millisecond)
	close(release)
	got += 3
	waitGot(got)
	x2 := accept()
	if x2 == nil {
		add("no recovery after the drop")
		return
	}
	if waitUntil(3*time.Second, func() bool { return tc.reconCount() >= 1 }) {
		add("recovered")
	}
	// the old connection's dispatcher reports the close once it is released, which recycles the connection
	// once more on both transports: continue on the newest one
	acceptShort := func() *xconn {
		if trans == "tcp" {
			pc := tcpP.accept(500 * time.Millisecond)
			if pc == nil || !pc.readHandshake(time.Second) {
				return nil
			}
			return &xconn{trans: trans, tcp: pc}
		}
		pc := wsP.accept(500 * time.Millisecond)
		if pc == nil {
			return nil
		}
		return &xconn{trans: trans, ws: pc}
	}
	for {
		nx := acceptShort()
		if nx == nil {
			break
		}
		x2 = nx
	}
	// F. serves again on the new connection
	ch := tc.doAsync(33, nil, 2*time.Second)
	if f := x2.nextData(2 * time.Second); f != nil {
		x2.sendData(respFrame(1, 33, f.Rid, 0, []byte("again")))
		item(fmt.Sprintf("r.33.%d.0.%s", f.Rid, hx([]byte("again"))))
		r, _ := awaitDo(ch, 3*time.Second)
		rs := resultStr(r)
		if strings.HasPrefix(rs, "RESP") {
			rs = fmt.Sprintf("RESP %d %s", r.pkt.Metadata.StatusCode, hx(r.pkt.Body))
		}
		add("do:" + rs)
	}
	got++
	waitGot(got)
	// G. peer-initiated close with code and reason
	body := x2.closeFrame(1001, "bye")
	item("c." + hx(body))
	if tc.log.waitCount("close by server, code: ", 1, 2*time.Second) {
		for _, l := range tc.log.snapshot() {
			if i := strings.Index(l, "close by server, code: "); i >= 0 {
				add(l[i:])
			}
		}
	} else {
		add("close packet not surfaced")
	}
	// (how many recoveries follow a close packet is timing dependent on both transports: not part of the trace)
	// surfaced packets, as the client logged them
	names := map[string]string{"request": "1", "response": "2", "push": "3", "": "0"}
	for _, l := range tc.log.snapshot() {
		if m := gotPacketRe.FindStringSubmatch(l); m != nil {
			rid := m[3]
			if m[1] == "request" {
				rid = "*"
			}
			o.surfaced = append(o.surfaced, fmt.Sprintf("%s:%s:%s:%s", names[m[1]], m[2], rid, m[4]))
		}
	}
	o.ok = true
	return
}

func runC20(r *Run) {
	installHooks()
	hub.reset()
	r.st.Rule = "one peer script — two requests (success, error status), pushes, the peer's heartbeat with a body, the client's own heartbeat answered, a push burst while a handler is busy followed by an abrupt drop, service on the re-established connection, peer-initiated close with code and reason — run over TCP and over WebSocket; the packets surfaced to the client core (as it logs them) are compared with Model/WsBridge.v's TCP and WebSocket adapters, and the two application-level traces (Do results, pushes delivered, ping/pong callbacks, recovery) are diffed with each other (direct oracle); two further scripts are diffed between the transports only: a pong whose body is not a heartbeat message, and the keepalive with a gzip threshold below the heartbeat's size (what the peer sees, what OnPong gets). Further scripts diffed between the transports: quiet period after a pong with a short keepalive timeout, response with the largest body, a heartbeat queued behind a busy handler when the peer goes away for good (OnPing on both or neither). distinct = distinct request lines"
	reps := 1
	if r.thorough() {
		reps = 5
	}
	for i := 0; i < reps; i++ {
		t := c20Run("tcp")
		w := c20Run("ws")
		if !t.ok || !w.ok {
			r.violate(Violation{What: "the common script could not be completed on " + map[bool]string{true: "websocket", false: "tcp"}[t.ok] + ": " + strings.Join(append(t.app, w.app...), " | "), Case: "c20 script"})
			continue
		}
		// the model prints body too; the client's log line has no body: compare the projection without it
		proj := func(items []string) string { return strings.Join(items, " ") }
		r.emit("wb.tcp "+proj(t.script), strings.Join(t.surfaced, " "), true)
		r.emit("wb.ws "+proj(w.script)+" "+strings.Join(w.hbs, " "), strings.Join(w.surfaced, " "), true)
		ta, wa := strings.Join(t.app, " | "), strings.Join(w.app, " | ")
		r.st.Notes = append(r.st.Notes, "tcp app trace: "+ta, "ws  app trace: "+wa)
		if ta != wa {
			r.violate(Violation{What: "application-level traces differ between TCP and WebSocket for the same peer script", Case: "tcp: " + ta, Impl: "ws:  " + wa})
		}
		r.count("c20.script")
	}
	// two small scripts compared between the transports only (no model line): a pong whose body is not a heartbeat
	// message, and the keepalive with a gzip threshold below the heartbeat's size
	for _, sc := range []struct {
		name string
		f    func(string) []string
	}{{"pong with an opaque body", c20OpaquePong}, {"keepalive with MinGzipSize(4)", c20SmallGzipKeepalive},
		{"quiet period after a pong, short keepalive timeout", c20QuietAfterPong}, {"largest response body", c20LargestBody},
		{"heartbeat queued behind a busy handler, then the peer goes away", c20QueuedPingPeerGone}} {
		t, w := strings.Join(sc.f("tcp"), " | "), strings.Join(sc.f("ws"), " | ")
		r.st.Notes = append(r.st.Notes, sc.name+" tcp: "+t, sc.name+" ws:  "+w)
		if t != w {
			r.violate(Violation{What: "application-level traces differ between TCP and WebSocket for the same peer script (" + sc.name + ")", Case: "tcp: " + t, Impl: "ws:  " + w})
		}
		r.st.Evaluations++
		r.count("c20." + strings.Fields(sc.name)[0])
	}
}

// c20Open: client + first peer connection for the small scripts.
func c20Open(trans string, trace func(string), opts ...client.DialOption) (*testClient, *xconn, func()) {
	return c20OpenPrep(trans, trace, nil, opts...)
}

var c20PeerDown func() // takes the peer of the latest c20OpenPrep away (listener and connections)

func c20OpenPrep(trans string, trace func(string), prep func(*testClient), opts ...client.DialOption) (*testClient, *xconn, func()) {
	tc := newTestClient()
	if prep != nil {
		prep(tc)
	}
	tc.cli.OnPong(func(p *protocol.Packet) {
		var hb control.Heartbeat
		err := proto.Unmarshal(p.Body, &hb)
		trace(fmt.Sprintf("onpong:decodable=%v:rid=hb:%v", err == nil, int64(p.Metadata.RequestId) == int64(hb.GetHeartbeatId())))
	})
	var x *xconn
	var cleanup func()
	errc := make(chan error, 1)
	if trans == "tcp" {
		p := newTCPPeer()
		go func() { errc <- tc.dial(p.url(), 1, opts...) }()
		pc := p.accept(3 * time.Second)
		if pc == nil || !pc.readHandshake(2*time.Second) {
			p.shutdown()
			return nil, nil, nil
		}
		x = &xconn{trans: trans, tcp: pc}
		cleanup = p.shutdown
	} else {
		p := newWSPeer()
		go func() { errc <- tc.dial(p.url(), 1, opts...) }()
		pc := p.accept(3 * time.Second)
		if pc == nil {
			p.shutdown()
			return nil, nil, nil
		}
		x = &xconn{trans: trans, ws: pc}
		cleanup = p.shutdown
	}
	if <-errc != nil {
		cleanup()
		return nil, nil, nil
	}
	c20PeerDown = cleanup
	return tc, x, func() {
		func() { defer func() { recover() }(); tc.cli.Close(nil) }()
		cleanup()
	}
}

func c20OpaquePong(trans string) []string {
	var mu sync.Mutex
	var tr []string
	trace := func(s string) { mu.Lock(); tr = append(tr, s); mu.Unlock() }
	tc, x, done := c20Open(trans, trace, client.Keepalive(time.Hour), client.KeepaliveTimeout(2*time.Hour), client.DialTimeout(time.Second))
	if tc == nil {
		return []string{"setup failed"}
	}
	defer done()
	x.pong(7, pbBytes(&control.Heartbeat{Timestamp: 1}))
	time.Sleep(100 * time.Millisecond)
	x.pong(8, []byte{0xff, 0xff, 0xff}) // not a protobuf message
	time.Sleep(100 * time.Millisecond)
	ch := tc.doAsync(30, nil, time.Second)
	if f := x.nextData(time.Second); f != nil {
		x.sendData(respFrame(1, 30, f.Rid, 0, []byte("ok")))
	}
	res, _ := awaitDo(ch, 2*time.Second)
	mu.Lock()
	defer mu.Unlock()
	n := 0
	for _, s := range tr {
		if strings.HasPrefix(s, "onpong") {
			n++
		}
	}
	return []string{fmt.Sprintf("pongs surfaced=%d", n), "do:" + strings.Fields(resultStr(res))[0]}
}

func c20SmallGzipKeepalive(trans string) []string {
	var mu sync.Mutex
	var tr []string
	trace := func(s string) { mu.Lock(); tr = append(tr, s); mu.Unlock() }
	tc, x, done := c20Open(trans, trace, client.Keepalive(100*time.Millisecond), client.KeepaliveTimeout(5*time.Second), client.DialTimeout(time.Second), client.MinGzipSize(4))
	if tc == nil {
		return []string{"setup failed"}
	}
	defer done()
	var out []string
	for i := 0; i < 3; i++ {
		ok := false
		var payload []byte
		var rid uint32
		if trans == "tcp" {
			deadline := time.Now().Add(2 * time.Second)
			for time.Now().Before(deadline) {
				f := x.tcp.readFrame(time.Until(deadline))
				if f == nil {
					break
				}
				if f.Type == 1 && f.Cmd == 1 {
					payload, rid, ok = f.Body, f.Rid, true
					if f.Gzip {
						if plain, fin := stdRead(f.Body); fin == "E" {
							payload = plain
						}
					}
					x.tcp.send((&RefFrame{V: 1, Type: 2, Cmd: 1, Rid: f.Rid, Gzip: f.Gzip, Body: f.Body, MLenField: -1, BLenField: -1}).encode())
					break
				}
			}
		} else {
			deadline := time.Now().Add(2 * time.Second)
			for time.Now().Before(deadline) {
				m := x.ws.next(time.Until(deadline))
				if m == nil || m.kind == -1 {
					break
				}
				if m.kind == websocket.PingMessage {
					payload, ok = m.data, true
					x.ws.wmu.Lock()
					x.ws.c.WriteControl(websocket.PongMessage, m.data, time.Now().Add(time.Second))
					x.ws.wmu.Unlock()
					break
				}
			}
		}
		if !ok {
			out = append(out, "no heartbeat")
			break
		}
		var hb control.Heartbeat
		err := proto.Unmarshal(payload, &hb)
		_ = rid
		out = append(out, fmt.Sprintf("peer saw heartbeat: decodable=%v id>0=%v", err == nil, hb.GetHeartbeatId() > 0))
	}
	time.Sleep(150 * time.Millisecond)
	mu.Lock()
	defer mu.Unlock()
	for i, s := range tr {
		if i < 3 {
			out = append(out, s)
		}
	}
	return out
}

// c20QuietAfterPong: KeepaliveTimeout short, Keepalive far away: a pong, then silence longer than the timeout, then a
// request - the connection must survive on both transports.
func c20QuietAfterPong(trans string) []string {
	var mu sync.Mutex
	var tr []string
	trace := func(s string) { mu.Lock(); tr = append(tr, s); mu.Unlock() }
	tc, x, done := c20Open(trans, trace, client.Keepalive(time.Hour), client.KeepaliveTimeout(300*time.Millisecond), client.DialTimeout(time.Second))
	if tc == nil {
		return []string{"setup failed"}
	}
	defer done()
	out := []string{}
	do := func(cmd uint8) {
		ch := tc.doAsync(uint32(cmd), nil, time.Second)
		if f := x.nextData(time.Second); f != nil {
			x.sendData(respFrame(1, cmd, f.Rid, 0, []byte("ok")))
		}
		res, _ := awaitDo(ch, 2*time.Second)
		out = append(out, "do:"+strings.Fields(resultStr(res))[0])
	}
	do(30)
	x.pong(7, pbBytes(&control.Heartbeat{Timestamp: 1, HeartbeatId: func() *int32 { v := int32(7); return &v }()}))
	time.Sleep(900 * time.Millisecond)
	do(31)
	out = append(out, fmt.Sprintf("reconnects=%d", tc.reconCount()))
	return out
}

// c20LargestBody: a response whose body has the largest length the 24-bit field allows.
func c20LargestBody(trans string) []string {
	var mu sync.Mutex
	trace := func(s string) { mu.Lock(); mu.Unlock() }
	tc, x, done := c20Open(trans, trace, client.Keepalive(time.Hour), client.KeepaliveTimeout(2*time.Hour), client.DialTimeout(time.Second))
	if tc == nil {
		return []string{"setup failed"}
	}
	defer done()
	out := []string{}
	for _, n := range []int{16, 1<<24 - 1, 16} {
		ch := tc.doAsync(30, nil, 5*time.Second)
		f := x.nextData(2 * time.Second)
		if f == nil {
			out = append(out, "request not seen")
			break
		}
		x.sendData(respFrame(1, 30, f.Rid, 0, make([]byte, n)))
		res, _ := awaitDo(ch, 8*time.Second)
		if res.pkt != nil {
			out = append(out, fmt.Sprintf("do:RESP len=%d", len(res.pkt.Body)))
		} else {
			out = append(out, "do:"+strings.Fields(resultStr(res))[0])
		}
	}
	out = append(out, fmt.Sprintf("reconnects=%d", tc.reconCount()))
	return out
}

// c20QueuedPingPeerGone: the peer's heartbeat waits behind a busy push handler; meanwhile the peer goes away for good
// (connection dropped, nothing listening any more). What the application is told must not depend on the transport.
func c20QueuedPingPeerGone(trans string) []string {
	var mu sync.Mutex
	var tr []string
	trace := func(s string) { mu.Lock(); tr = append(tr, s); mu.Unlock() }
	tc, x, done := c20OpenPrep(trans, trace, func(tc *testClient) {
		tc.cli.Subscribe(50, func(p *protocol.Packet) {
			trace("push:" + string(p.Body))
			time.Sleep(300 * time.Millisecond)
		})
		tc.cli.OnPing(func(p *protocol.Packet) { trace("onping:" + string(p.Body)) })
	}, client.Keepalive(time.Hour), client.KeepaliveTimeout(2*time.Hour), client.DialTimeout(300*time.Millisecond))
	if tc == nil {
		return []string{"setup failed"}
	}
	defer done()
	down := c20PeerDown
	x.sendData(pushFrame(1, 50, []byte("p1")))
	time.Sleep(40 * time.Millisecond)
	x.ping(7, []byte("beat"))
	time.Sleep(60 * time.Millisecond)
	down()
	time.Sleep(900 * time.Millisecond)
	mu.Lock()
	defer mu.Unlock()
	return append([]string{}, tr...)
}
