// vharness runs the real implementation (built from /repo's working tree with
// -tags verif) on generated cases and writes, per case, the request line the
// model understands and the implementation's canonical output.
package main

import (
	"bufio"
	"encoding/hex"
	"encoding/json"
	"flag"
	"fmt"
	"os"
	"sort"
	"strings"
	"time"
)

type Violation struct {
	What   string      `json:"what"`
	Case   string      `json:"case"`
	Impl   string      `json:"impl,omitempty"`
	Expect string      `json:"expect,omitempty"`
	Sig    string      `json:"sig,omitempty"` // signature matched against KNOWN_FINDINGS.json
	Extra  interface{} `json:"extra,omitempty"`
}

type Stats struct {
	Property    string         `json:"property"`
	Tier        string         `json:"tier"`
	Seed        uint64         `json:"seed"`
	Evaluations int            `json:"evaluations"`
	Distinct    int            `json:"distinct_nontrivial"`
	Rule        string         `json:"rule"`
	Exhaustive  bool           `json:"exhaustive"`
	Samples     []string       `json:"samples"`
	Dist        map[string]int `json:"distribution"`
	Violations  []Violation    `json:"violations"`
	Notes       []string       `json:"notes,omitempty"`
}

type Run struct {
	w        *bufio.Writer
	st       *Stats
	rng      *RNG
	tier     string
	distinct map[string]struct{}
	sampleN  int
}

func (r *Run) thorough() bool { return r.tier == "thorough" }

// emit writes one correspondence case. nontrivial cases are counted once per
// distinct request line.
func (r *Run) emit(req, out string, nontrivial bool) {
	fmt.Fprintf(r.w, "%s => %s\n", req, out)
	r.st.Evaluations++
	if nontrivial {
		key := req
		if len(key) > 200 {
			key = fmt.Sprintf("%s#%d#%x", key[:64], len(key), fnv(key))
		}
		if _, ok := r.distinct[key]; !ok {
			r.distinct[key] = struct{}{}
		}
	}
	if r.sampleN < 6 && (r.st.Evaluations%97 == 1) {
		s := req + " => " + out
		if len(s) > 300 {
			s = s[:300] + "..."
		}
		r.st.Samples = append(r.st.Samples, s)
		r.sampleN++
	}
}

func (r *Run) count(k string) { r.st.Dist[k]++ }

func (r *Run) violate(v Violation) {
	if len(v.Case) > 4000 {
		v.Case = v.Case[:4000] + "...(truncated)"
	}
	if len(r.st.Violations) < 50 {
		r.st.Violations = append(r.st.Violations, v)
	}
}

func fnv(s string) uint64 {
	h := uint64(14695981039346656037)
	for i := 0; i < len(s); i++ {
		h ^= uint64(s[i])
		h *= 1099511628211
	}
	return h
}

func hx(b []byte) string {
	if len(b) == 0 {
		return "-"
	}
	return hex.EncodeToString(b)
}

func unhx(s string) []byte {
	if s == "-" {
		return nil
	}
	b, err := hex.DecodeString(s)
	if err != nil {
		panic(err)
	}
	return b
}

func b01(b bool) string {
	if b {
		return "1"
	}
	return "0"
}

var props = map[string]func(*Run){}

var clientProps = map[string]bool{"C05": true, "C06": true, "C07": true, "C08": true, "C12": true, "C13": true, "C14": true,
	"C15": true, "C16": true, "C17": true, "C20": true}

func main() {
	tier := flag.String("tier", "quick", "quick|thorough")
	seed := flag.Uint64("seed", 1, "PRNG seed")
	out := flag.String("out", "", "case file")
	stats := flag.String("stats", "", "stats json")
	replay := flag.String("replay", "", "replay file (property specific)")
	watchdog := flag.Int("watchdog", 0, "suite watchdog in seconds (0 = default per tier for client properties)")
	flag.Parse()
	if flag.NArg() < 1 {
		fmt.Fprintln(os.Stderr, "usage: vharness [flags] <property>")
		os.Exit(2)
	}
	prop := flag.Arg(0)
	f, ok := props[strings.ToUpper(prop)]
	if !ok {
		fmt.Fprintln(os.Stderr, "unknown property", prop)
		os.Exit(2)
	}
	_ = replay
	var w *bufio.Writer
	if *out == "" {
		w = bufio.NewWriter(os.Stdout)
	} else {
		fh, err := os.Create(*out)
		if err != nil {
			panic(err)
		}
		defer fh.Close()
		w = bufio.NewWriterSize(fh, 1<<20)
	}
	r := &Run{w: w, tier: *tier, rng: NewRNG(*seed), distinct: map[string]struct{}{},
		st: &Stats{Property: strings.ToUpper(prop), Tier: *tier, Seed: *seed, Dist: map[string]int{}, Violations: []Violation{}, Samples: []string{}}}
	// client scenario suites run under a suite watchdog: a hang (a call, a Close or a recovery that never
	// returns - possibly inside the harness' own clean-up, e.g. Close waiting for a lock a stuck dial holds) is
	// reported with the library goroutines' stacks instead of waiting for the caller's timeout
	limit := time.Duration(*watchdog) * time.Second
	if *watchdog == 0 && clientProps[strings.ToUpper(prop)] {
		limit = 480 * time.Second
		if *tier == "thorough" {
			limit = 3000 * time.Second
		}
	}
	if limit == 0 {
		f(r)
	} else {
		done := make(chan struct{})
		go func() { f(r); close(done) }()
		select {
		case <-done:
		case <-time.After(limit):
			r.violate(Violation{What: fmt.Sprintf("the scenario suite did not finish within %v: a library call never returned", limit),
				Case: "suite watchdog; stacks of goroutines inside the client library attached", Extra: libStacks(12000)})
		}
	}
	w.Flush()
	r.st.Distinct = len(r.distinct)
	if *stats != "" {
		// stable key order for diffs
		keys := make([]string, 0, len(r.st.Dist))
		for k := range r.st.Dist {
			keys = append(keys, k)
		}
		sort.Strings(keys)
		b, _ := json.MarshalIndent(r.st, "", " ")
		if err := os.WriteFile(*stats, b, 0o644); err != nil {
			panic(err)
		}
	}
}
