package main

// C17 (no data races): scenario suites run in a binary built with the race detector; bin/check reads the detector's
// reports and counts those whose two access stacks are both inside the library.

import (
	"bufio"
	"bytes"
	"context"
	"fmt"
	"github.com/Allenxuxu/ringbuffer"
	"io"
	"sync"
	"sync/atomic"
	"time"

	control "github.com/longportapp/openapi-protobufs/gen/go/control"
	protocol "github.com/longportapp/openapi-protocol/go"
	"github.com/longportapp/openapi-protocol/go/client"
)

func init() { props["C17"] = runC17 }

// servePeer answers everything a client sends on one connection until it closes.
func servePeer(l link, v int, stop *int32) {
	for atomic.LoadInt32(stop) == 0 {
		f := l.nextRequest(150 * time.Millisecond)
		if f == nil {
			if tl, ok := l.(tcpLink); ok && tl.pc.closed {
				return
			}
			continue
		}
		if f.Type != 1 {
			continue
		}
		switch f.Cmd {
		case 2, 3:
			l.sendFrame(respFrame(v, f.Cmd, f.Rid, 0, authRespBody("sess", 600000)))
		default: // echo: the body as it came over the wire, with its gzip flag
			e := &RefFrame{V: v, Type: 2, Cmd: f.Cmd, Rid: f.Rid, Gzip: f.Gzip, Body: f.Body, MLenField: -1, BLenField: -1}
			l.sendFrame(e.encode())
		}
	}
}

type autoPeer struct {
	f    *fsession
	stop int32
	mu   sync.Mutex
	cur  link
	wg   sync.WaitGroup
}

func (a *autoPeer) current() link {
	a.mu.Lock()
	defer a.mu.Unlock()
	return a.cur
}

// run serves the session's first connection and every later one.
func (a *autoPeer) run(first link) {
	a.mu.Lock()
	a.cur = first
	a.mu.Unlock()
	a.wg.Add(2)
	go func() { defer a.wg.Done(); servePeer(first, 1, &a.stop) }()
	go func() {
		defer a.wg.Done()
		for atomic.LoadInt32(&a.stop) == 0 {
			l := a.f.acceptNext(100 * time.Millisecond)
			if l == nil {
				continue
			}
			a.mu.Lock()
			a.cur = l
			a.mu.Unlock()
			a.wg.Add(1)
			go func() { defer a.wg.Done(); servePeer(l, 1, &a.stop) }()
		}
	}()
}
func (a *autoPeer) halt() {
	atomic.StoreInt32(&a.stop, 1)
	a.wg.Wait()
}

func c17Dial(trans string, prep func(*testClient), opts ...client.DialOption) (*fsession, *autoPeer, error) {
	s := &session{tc: newTestClient(), v: 1, trans: trans}
	if prep != nil {
		prep(s.tc)
	}
	f := &fsession{s, 0, -1}
	a := &autoPeer{f: f}
	errc := make(chan error, 1)
	var url string
	if trans == "tcp" {
		s.tcp = newTCPPeer()
		url = s.tcp.url()
	} else {
		s.ws = newWSPeer()
		url = s.ws.url()
	}
	go func() { errc <- s.tc.dial(url, 1, opts...) }()
	first := f.acceptNext(3 * time.Second)
	if first == nil {
		return nil, nil, context.DeadlineExceeded
	}
	s.lk = first
	a.run(first)
	select {
	case err := <-errc:
		if err != nil {
			a.halt()
			return nil, nil, err
		}
	case <-time.After(4 * time.Second):
		a.halt()
		return nil, nil, context.DeadlineExceeded
	}
	return f, a, nil
}

// c17Mix: concurrent Do, AuthInfo, incoming responses / pushes / pings, keepalive ticks, loss + recovery, server close
// packet, Close - all at once.
func (r *Run) c17Mix(trans string) {
	var pushes int32
	f, a, err := c17Dial(trans, func(tc *testClient) {
		tc.cli.Subscribe(50, func(p *protocol.Packet) { atomic.AddInt32(&pushes, 1) })
		tc.cli.OnPing(func(p *protocol.Packet) {})
		tc.cli.OnPong(func(p *protocol.Packet) {})
	}, client.Keepalive(30*time.Millisecond), client.KeepaliveTimeout(3*time.Second), client.DialTimeout(fDial), client.AuthTimeout(time.Second),
		client.WithAuthTokenGetter(func() (string, error) { return "tok", nil }))
	if err != nil {
		r.count("c17.mix.dial-failed." + trans)
		return
	}
	D := 900 * time.Millisecond
	if r.thorough() {
		D = 3 * time.Second
	}
	end := time.Now().Add(D)
	var wg sync.WaitGroup
	var calls int32
	for i := 0; i < 8; i++ {
		wg.Add(1)
		go func(i int) {
			defer wg.Done()
			defer func() { recover() }()
			for time.Now().Before(end.Add(150 * time.Millisecond)) {
				f.tc.cli.Do(context.Background(), &client.Request{Cmd: uint32(60 + i), Body: &control.Close{Reason: "x"}}, client.RequestTimeout(200*time.Millisecond))
				atomic.AddInt32(&calls, 1)
			}
		}(i)
	}
	for i := 0; i < 2; i++ {
		wg.Add(1)
		go func() {
			defer wg.Done()
			for time.Now().Before(end) {
				if ai := f.tc.cli.AuthInfo(); ai != nil {
					_ = ai.GetSessionId()
					_ = ai.GetExpires()
				}
				time.Sleep(200 * time.Microsecond)
			}
		}()
	}
	wg.Add(1)
	go func() { // incoming pushes and server heartbeats
		defer wg.Done()
		n := uint32(0)
		for time.Now().Before(end) {
			if l := a.current(); l != nil {
				l.sendFrame(pushFrame(1, 50, []byte("tick")))
				n++
				if n%7 == 0 {
					l.sendFrame(reqFrame(1, 1, 900000+n, pbBytes(&control.Heartbeat{Timestamp: int64(n)})))
				}
			}
			time.Sleep(2 * time.Millisecond)
		}
	}()
	time.Sleep(D / 4)
	a.current().drop() // loss + recovery (RECONNECT answered by the auto peer)
	time.Sleep(D / 4)
	if trans == "tcp" {
		a.current().sendFrame(pushFrame(1, 0, pbCloseBody(1, "bye")))
	} else {
		a.current().drop()
	}
	time.Sleep(D / 4)
	time.Sleep(time.Until(end))
	func() { defer func() { recover() }(); f.tc.cli.Close(nil) }() // Close while the callers are still calling
	wg.Wait()
	a.halt()
	f.close()
	r.st.Dist["c17.mix."+trans+".calls"] += int(atomic.LoadInt32(&calls))
	r.st.Dist["c17.mix."+trans+".pushes"] += int(atomic.LoadInt32(&pushes))
	r.st.Dist["c17.mix."+trans+".recoveries"] += f.tc.reconCount()
	r.st.Evaluations++
}

// c17SplitFrames: one client receives frames split across socket reads while another connection of the process packs
// requests (the codec's shared pools are exercised from both sides).
func (r *Run) c17SplitFrames() {
	var got int32
	fa, aa, err := c17Dial("tcp", func(tc *testClient) {
		tc.cli.Subscribe(51, func(p *protocol.Packet) {
			if string(p.Body) == "split-frame-body" {
				atomic.AddInt32(&got, 1)
			}
		})
	}, client.Keepalive(time.Hour), client.KeepaliveTimeout(2*time.Hour))
	if err != nil {
		return
	}
	fb, ab, err := c17Dial("tcp", nil, client.Keepalive(time.Hour), client.KeepaliveTimeout(2*time.Hour))
	if err != nil {
		aa.halt()
		fa.close()
		return
	}
	stop := int32(0)
	var wg sync.WaitGroup
	for i := 0; i < 8; i++ {
		wg.Add(1)
		go func(i int) {
			defer wg.Done()
			for atomic.LoadInt32(&stop) == 0 {
				fb.tc.cli.Do(context.Background(), &client.Request{Cmd: uint32(70 + i), Body: &control.Close{Reason: "abcdefgh"}}, client.RequestTimeout(300*time.Millisecond))
			}
		}(i)
	}
	N := 60
	frame := pushFrame(1, 51, []byte("split-frame-body"))
	for i := 0; i < N; i++ {
		cut := 1 + i%(len(frame)-1)
		aa.current().sendFrame(frame[:cut])
		time.Sleep(time.Millisecond)
		aa.current().sendFrame(frame[cut:])
	}
	waitUntil(2*time.Second, func() bool { return atomic.LoadInt32(&got) == int32(N) })
	atomic.StoreInt32(&stop, 1)
	wg.Wait()
	if g := atomic.LoadInt32(&got); int(g) != N {
		r.violate(Violation{What: "frames split across socket reads did not all arrive intact while another connection was packing requests", Case: "60 pushes, every cut position", Impl: itoa(int(g)) + " of 60"})
	}
	r.st.Evaluations++
	aa.halt()
	ab.halt()
	fa.close()
	fb.close()
}

// c17WsOverflow: bursts of callers that overflow the WebSocket write queue.
func (r *Run) c17WsOverflow() {
	f, a, err := c17Dial("ws", nil, client.Keepalive(time.Hour), client.KeepaliveTimeout(2*time.Hour))
	if err != nil {
		return
	}
	body := &control.Close{Reason: string(make([]byte, 0, 0)) + "0123456789012345678901234567890123456789012345678901234567890123456789"}
	rounds := 6
	if r.thorough() {
		rounds = 20
	}
	for k := 0; k < rounds; k++ {
		var wg sync.WaitGroup
		start := make(chan struct{})
		for i := 0; i < 64; i++ {
			wg.Add(1)
			go func(i int) {
				defer wg.Done()
				defer func() { recover() }()
				<-start
				f.tc.cli.Do(context.Background(), &client.Request{Cmd: uint32(80 + i%16), Body: body}, client.RequestTimeout(300*time.Millisecond))
			}(i)
		}
		close(start)
		wg.Wait()
	}
	r.st.Evaluations++
	a.halt()
	f.close()
}

// c17GzipBodies: concurrent callers whose bodies are above the gzip threshold (the pooled compressors are shared by
// all callers and by the reader side).
func (r *Run) c17GzipBodies() {
	f, a, err := c17Dial("tcp", nil, client.Keepalive(time.Hour), client.KeepaliveTimeout(2*time.Hour))
	if err != nil {
		return
	}
	rounds := 25
	if r.thorough() {
		rounds = 120
	}
	var wg sync.WaitGroup
	var bad int32
	for i := 0; i < 8; i++ {
		wg.Add(1)
		go func(i int) {
			defer wg.Done()
			defer func() { recover() }()
			g := NewRNG(uint64(1000 + i))
			for k := 0; k < rounds; k++ {
				b := make([]byte, 2500+g.Intn(600))
				for j := range b {
					b[j] = "abcdefghijklmnopqrstuvwxyz0123456789"[g.Intn(36)]
				}
				res, err := f.tc.cli.Do(context.Background(), &client.Request{Cmd: uint32(90 + i), Body: &control.Close{Reason: string(b)}}, client.RequestTimeout(500*time.Millisecond))
				if err == nil && res != nil {
					var back control.Close
					if res.Unmarshal(&back) != nil || back.Reason != string(b) {
						atomic.AddInt32(&bad, 1)
					}
				}
			}
		}(i)
	}
	wg.Wait()
	if n := atomic.LoadInt32(&bad); n > 0 {
		r.violate(Violation{What: fmt.Sprintf("%d echoed gzip-sized bodies came back altered under concurrent callers", n), Case: "tcp, 8 callers, bodies of 2.5-3 KB (above the gzip threshold), echo peer"})
	}
	r.st.Evaluations++
	a.halt()
	f.close()
}

// c17CodecPoolsAfterErrors: the codec's shared header pools after its error paths have been through them (an object
// handed back twice only shows when two users get it at the same time): frames that fail to decode in every phase,
// both versions, both entry points; then 8 goroutines pack and decode concurrently on their own contexts.
func (r *Run) c17CodecPoolsAfterErrors() {
	g := r.rng.Fork()
	for v := 1; v <= 2; v++ {
		for i := 0; i < 150; i++ {
			f := &RefFrame{V: v, Type: 1 + i%3, Cmd: 9, Rid: uint32(i), Body: []byte("body"), MLenField: -1, BLenField: -1}
			switch i % 4 {
			case 0:
				f.Type = 7 + i%8 // unknown packet type
			case 1:
				if v == 2 {
					f.Meta = []byte{0x85, 0x01, 0x02} // truncated metadata block
				} else {
					f.Gzip = true // body is not a gzip stream
				}
			case 2:
				f.Gzip = true
			case 3:
				f.Verify = true
				f.Sig = []byte("0123456789abcdef")
			}
			fr := f.encode()
			if i%4 == 3 {
				fr = fr[:len(fr)-5] // trailer cut short
			}
			implUnpackBytes(v, newCtx(1, uint8(v)), fr)
			rb := ringbuffer.New(256)
			rb.Write(fr)
			implUnpack(v, newCtx(1, uint8(v)), rb)
		}
	}
	var wg sync.WaitGroup
	var bad int32
	for w := 0; w < 8; w++ {
		wg.Add(1)
		gg := g.Fork()
		go func(w int) {
			defer wg.Done()
			defer func() {
				if e := recover(); e != nil {
					atomic.AddInt32(&bad, 1)
				}
			}()
			for i := 0; i < 400; i++ {
				v := 1 + i%2
				p := gg.validPK(v, false)
				if len(p.Body) > 2000 {
					p.Body = p.Body[:2000]
				}
				ctx := newCtx(p.Codec, uint8(v))
				out, frame := implPack(v, ctx, p.toPacket(), 0)
				if frame == nil {
					_ = out
					continue
				}
				o, q := implUnpackBytes(v, newCtx(p.Codec, uint8(v)), frame)
				if q == nil || samePK(v, p, pkOf(q), p.Body) != "" {
					_ = o
					atomic.AddInt32(&bad, 1)
				}
			}
		}(w)
	}
	wg.Wait()
	if n := atomic.LoadInt32(&bad); n > 0 {
		r.violate(Violation{What: fmt.Sprintf("%d concurrent pack/decode round trips went wrong after failing decodes had been through the codec's pools", n), Case: "8 goroutines x 400 round trips, both versions"})
	}
	r.st.Evaluations++
}

// c17SharedOptionSlice: callers on several goroutines spread one option slice (length 1, capacity 8) into the packet
// constructors, which may read it and must not write to it.
func (r *Run) c17SharedOptionSlice() {
	ctx := protocol.NewContext(context.Background(), protocol.ClientSide)
	shared := make([]protocol.PacketOption, 1, 8)
	shared[0] = protocol.WithVerify(1, []byte("0123456789abcdef"))
	var wg sync.WaitGroup
	for w := 0; w < 8; w++ {
		wg.Add(1)
		go func(w int) {
			defer wg.Done()
			for i := 0; i < 600; i++ {
				switch i % 4 {
				case 0:
					protocol.NewRequest(ctx, 9, nil, shared...)
				case 1:
					protocol.MustNewRequest(ctx, 9, nil, shared...)
				case 2:
					protocol.NewResponse(ctx, 9, uint8(w), nil, shared...)
				default:
					protocol.MustNewResponse(ctx, 9, uint8(w), nil, shared...)
				}
			}
		}(w)
	}
	wg.Wait()
	r.st.Evaluations++
	r.count("c17.codec.shared-option-slice")
}

// c17KeptPackets: the application keeps what it was given. The push handler tags each packet (Metadata.Set) and hands
// it to a worker goroutine that reads body, signature and metadata a little later, while the connection keeps receiving
// frames of other sizes. A received packet shares nothing with the connection's buffers or with another packet.
func (r *Run) c17KeptPackets() {
	for v := 1; v <= 2; v++ {
		type kept struct {
			p        *protocol.Packet
			seq      int
			sig, bod string
		}
		ch := make(chan kept, 1024)
		var bad atomic.Value
		var seq int32
		s, err := openSessionPrep("tcp", v, func(tc *testClient) {
			tc.cli.Subscribe(50, func(p *protocol.Packet) {
				n := int(atomic.AddInt32(&seq, 1))
				if p.Metadata.Get("seq") != "" {
					bad.Store("a freshly received packet already carries the tag of another packet: " + p.Metadata.Get("seq"))
				}
				if p.Metadata.Values != nil { // a v1 frame has no metadata block and its packet no map: Set would panic (observation in DESIGN.md)
					p.Metadata.Set("seq", itoa(n))
				}
				defer func() { recover() }() // a delivery after the scenario has closed the channel
				select {
				case ch <- kept{p, n, hx(p.Metadata.Signature), hx(p.Body)}:
				default:
				}
			})
		})
		if err != nil {
			continue
		}
		var wg sync.WaitGroup
		wg.Add(1)
		go func() {
			defer wg.Done()
			for k := range ch {
				time.Sleep(3 * time.Millisecond)
				if got := k.p.Metadata.Get("seq"); got != itoa(k.seq) && k.p.Metadata.Values != nil {
					bad.Store("the tag set on packet " + itoa(k.seq) + " reads " + got + " a moment later")
				}
				if hx(k.p.Metadata.Signature) != k.sig || hx(k.p.Body) != k.bod {
					bad.Store("signature or body of packet " + itoa(k.seq) + " changed after it was delivered")
				}
			}
		}()
		n := 150
		for i := 0; i < n; i++ {
			f := &RefFrame{V: v, Type: 3, Verify: true, Cmd: 50, Nonce: uint64(i + 1), Sig: bytes.Repeat([]byte{byte(0x40 + i%50)}, 16),
				Body: bytes.Repeat([]byte{byte('a' + i%26)}, 1+(i*37)%400), MLenField: -1, BLenField: -1}
			if v == 2 && i%3 == 0 {
				f.Meta = refMarshalMap(map[string]string{"k": "v" + itoa(i)}, 65535)
			}
			s.lk.sendFrame(f.encode())
			time.Sleep(time.Millisecond)
		}
		waitUntil(2*time.Second, func() bool { return int(atomic.LoadInt32(&seq)) >= n })
		time.Sleep(20 * time.Millisecond)
		s.close()
		close(ch)
		wg.Wait()
		if b := bad.Load(); b != nil {
			r.violate(Violation{What: "a received packet is not the application's own: " + b.(string), Case: fmt.Sprintf("tcp v%d: %d signed pushes of varying sizes, every third with metadata (v2); handler tags and forwards each to a worker", v, n)})
		}
		r.st.Evaluations++
		r.count(fmt.Sprintf("c17.kept-packets.v%d", v))
	}
}

func itoa(n int) string {
	if n == 0 {
		return "0"
	}
	s := ""
	for n > 0 {
		s = string(rune('0'+n%10)) + s
		n /= 10
	}
	return s
}

func (r *Run) sub() *Run {
	return &Run{w: bufio.NewWriter(io.Discard), tier: r.tier, rng: r.rng.Fork(), distinct: map[string]struct{}{},
		st: &Stats{Dist: map[string]int{}, Violations: []Violation{}, Samples: []string{}}}
}

func runC17(r *Run) {
	installHooks()
	hub.reset()
	r.st.Rule = "binary built with -race: (1) mixed scenario on TCP and WebSocket - 8 callers of Do, 2 of AuthInfo, incoming responses, pushes and server heartbeats, keepalive ticks every 30 ms, connection loss + recovery (RECONNECT), server close packet, Close while callers are calling; (2) frames split across socket reads on one connection while 8 callers pack requests on another (shared codec pools); (3) bursts of 64 callers overflowing the WebSocket write queue; 8 callers with 2.5-3 KB bodies (gzip path, pooled compressors); 8 callers of the packet constructors spreading one shared option slice with spare capacity; received packets (signed, with and without metadata, both versions) tagged by the handler and read by a worker goroutine while further frames arrive; (4) the scenario suites of the other client properties run once more under the detector (quick: C05, C14, C15; thorough: all). A report counts when both access stacks are inside the library."
	for _, trans := range []string{"tcp", "ws"} {
		r.c17Mix(trans)
	}
	r.c17SplitFrames()
	r.c17WsOverflow()
	r.c17GzipBodies()
	r.c17CodecPoolsAfterErrors()
	r.c17SharedOptionSlice()
	r.c17KeptPackets()
	suites := map[string]func(*Run){"C05": runC05, "C14": runC14, "C15": runC15}
	order := []string{"C05", "C14", "C15"}
	if r.thorough() {
		for _, k := range []string{"C06", "C07", "C08", "C12", "C13", "C16", "C20"} {
			suites[k] = props[k]
			order = append(order, k)
		}
	}
	for _, k := range order {
		s := r.sub()
		suites[k](s)
		s.w.Flush()
		r.st.Dist["c17.suite."+k+".evaluations"] = s.st.Evaluations
		r.st.Evaluations += s.st.Evaluations
		hub.reset()
	}
}
