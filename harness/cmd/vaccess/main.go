// vaccess: access / lock inventory of the client package (C17).
// For every access to a field of a struct declared in the package (and to the single-writer / single-reader state
// of a gorilla websocket connection) it records: read or write, through sync/atomic or not, whether it belongs to the
// construction / set-up phase, and the locks held there - lexically in the function plus, by a fixpoint over the
// package's call graph, at every call site of the function.  Goroutines that exist once per object (table
// singleInstance below, each with its justification) hold a pseudo-lock for their whole life.
// Output: Gen/Access.v (sites as Coq data) and a JSON listing for people.
package main

import (
	"encoding/json"
	"fmt"
	"go/ast"
	"go/importer"
	"go/parser"
	"go/token"
	"go/types"
	"os"
	"path/filepath"
	"sort"
	"strings"
)

type Mode int // 1 = read mode, 2 = write mode

type LockSet map[string]Mode // nil = top (unknown yet: every lock)

func (a LockSet) clone() LockSet {
	b := LockSet{}
	for k, v := range a {
		b[k] = v
	}
	return b
}
func meet(a, b LockSet, aTop, bTop bool) (LockSet, bool) {
	if aTop {
		return b.clone(), bTop
	}
	if bTop {
		return a.clone(), false
	}
	r := LockSet{}
	for k, v := range a {
		if w, ok := b[k]; ok {
			if w < v {
				v = w
			}
			r[k] = v
		}
	}
	return r, false
}
func union(a, b LockSet) LockSet {
	r := a.clone()
	for k, v := range b {
		if r[k] < v {
			r[k] = v
		}
	}
	return r
}

type Site struct {
	ID     int             `json:"id"`
	Loc    string          `json:"loc"`
	Write  bool            `json:"write"`
	Atomic bool            `json:"atomic"`
	Init   bool            `json:"init"`
	Locks  map[string]Mode `json:"locks"`
	Func   string          `json:"func"`
	Pos    string          `json:"pos"`
	local  LockSet
	fn     *Fn
}

type CallSite struct {
	caller *Fn
	held   LockSet
}

type Fn struct {
	name    string
	recv    string // struct name of the receiver ("" for functions)
	body    *ast.BlockStmt
	root    bool // callable from outside / as a callback: no locks known at entry
	goLocks LockSet
	isGo    bool
	calls   []CallSite // call sites of this function
	entry   LockSet
	top     bool
	setup   bool
	closure bool
	goSites []LockSet
	option  bool  // returns an ...Option: its closures run while the object is being configured
	spawns  bool  // contains a go statement or calls something unknown / spawning (fixpoint)
	callees []*Fn // static callees (for spawns)
	unknown bool  // calls a function value or a method outside the package through an interface
}

// goroutines that exist once per object; the pseudo-lock is only credited to locations of that object's struct
var singleInstance = map[string]string{
	"(*client).Dial -> keepalive":         "client: Dial is called once per client (documented: New, register handlers, Dial)",
	"(*client).recoverLossIf -> lit":      "client: single-flight - doReconnectting is tested and set under the client lock before the goroutine starts and cleared only after it has ended (waitCh), so successive recovery goroutines are ordered through that lock",
	"(*tcpConn).communicating -> reading": "tcpConn: communicating() is called once, by the dialer that created the connection",
	"(*tcpConn).communicating -> writing": "tcpConn: as above",
	"(*tcpConn).OnPacket -> lit":          "tcpConn: started inside onPacketOnce.Do",
	"(*wsConn).communicating -> reading":  "wsConn: communicating() is called once, by the dialer that created the connection",
	"(*wsConn).communicating -> writing":  "wsConn: as above",
	"(*wsConn).OnPacket -> lit":           "wsConn: started inside onPacketOnce.Do",
}

// documented set-up phase: handlers are registered, and Dial initialises the client, before anything is shared
// (New, the handler setters; option closures; RegisterDialer, called from package init functions).
// Dial itself is NOT one of them: only its accesses before the first call that can start a goroutine are
// (see spawning / prefixInit) - the race detector showed an access late in Dial racing with a recovery.
var setupFuncs = map[string]bool{"New": true, "(*client).Subscribe": true, "(*client).OnClose": true,
	"(*client).AfterReconnected": true, "(*client).OnPing": true, "(*client).OnPong": true, "RegisterDialer": true}

// functions whose accesses before their first goroutine-starting call belong to the set-up phase
var prefixSetup = map[string]bool{"(*client).Dial": true}

// gorilla/websocket: one concurrent reader and one concurrent writer; Close and WriteControl may be called concurrently
var wsWriter = map[string]bool{"WriteMessage": true, "NextWriter": true, "WriteJSON": true, "WritePreparedMessage": true, "SetWriteDeadline": true, "EnableWriteCompression": true, "SetCompressionLevel": true}
var wsReader = map[string]bool{"ReadMessage": true, "NextReader": true, "ReadJSON": true, "SetReadDeadline": true, "SetReadLimit": true, "SetPingHandler": true, "SetPongHandler": true, "SetCloseHandler": true}

type analyzer struct {
	fset    *token.FileSet
	info    *types.Info
	pkg     *types.Package
	fns     map[types.Object]*Fn // declared funcs and closure variables
	lits    map[*ast.FuncLit]*Fn
	sites   []*Site
	structs map[string]bool
	notes   []string
	record  bool
}

func main() {
	if len(os.Args) < 3 {
		fmt.Fprintln(os.Stderr, "usage: vaccess <package dir> <out.v> [out.json]")
		os.Exit(2)
	}
	dir := os.Args[1]
	fset := token.NewFileSet()
	pkgs, err := parser.ParseDir(fset, dir, func(fi os.FileInfo) bool {
		return !strings.HasSuffix(fi.Name(), "_test.go") && !strings.Contains(fi.Name(), "_verif")
	}, parser.ParseComments)
	if err != nil {
		fatal(err)
	}
	var files []*ast.File
	var pname string
	for name, p := range pkgs {
		pname = name
		var names []string
		for fn := range p.Files {
			names = append(names, fn)
		}
		sort.Strings(names)
		for _, fn := range names {
			files = append(files, p.Files[fn])
		}
	}
	os.Chdir(dir) // the source importer resolves module imports relative to the working directory
	conf := types.Config{Importer: importer.ForCompiler(fset, "source", nil), Error: func(err error) { fmt.Fprintln(os.Stderr, "typecheck:", err) }}
	info := &types.Info{Uses: map[*ast.Ident]types.Object{}, Defs: map[*ast.Ident]types.Object{}, Selections: map[*ast.SelectorExpr]*types.Selection{}, Types: map[ast.Expr]types.TypeAndValue{}}
	pkg, err := conf.Check(pname, fset, files, info)
	if err != nil {
		fatal(err)
	}
	if len(os.Args) > 4 {
		writeChans(os.Args[4], chanOps(fset, files, info))
	}
	a := &analyzer{fset: fset, info: info, pkg: pkg, fns: map[types.Object]*Fn{}, lits: map[*ast.FuncLit]*Fn{}, structs: map[string]bool{}}
	for _, n := range pkg.Scope().Names() {
		if tn, ok := pkg.Scope().Lookup(n).(*types.TypeName); ok {
			if _, ok := tn.Type().Underlying().(*types.Struct); ok {
				a.structs[n] = true
			}
		}
	}
	// declared functions
	for _, f := range files {
		for _, d := range f.Decls {
			fd, ok := d.(*ast.FuncDecl)
			if !ok || fd.Body == nil {
				continue
			}
			obj := info.Defs[fd.Name]
			fn := &Fn{name: fd.Name.Name, body: fd.Body, top: true}
			if fd.Recv != nil && len(fd.Recv.List) == 1 {
				fn.recv = recvName(fd.Recv.List[0].Type)
				fn.name = "(*" + fn.recv + ")." + fd.Name.Name
			}
			if ast.IsExported(fd.Name.Name) || fd.Name.Name == "init" || fd.Name.Name == "main" {
				fn.root = true
			}
			fn.setup = setupFuncs[fn.name] || fd.Name.Name == "init"
			if fd.Type.Results != nil && len(fd.Type.Results.List) == 1 {
				if id, ok := fd.Type.Results.List[0].Type.(*ast.Ident); ok && strings.HasSuffix(id.Name, "Option") {
					fn.option = true
				}
			}
			a.fns[obj] = fn
		}
	}
	// walk bodies (collect sites with local lock sets, call sites, closures)
	var order []*Fn
	for _, f := range files {
		for _, d := range f.Decls {
			if fd, ok := d.(*ast.FuncDecl); ok && fd.Body != nil {
				order = append(order, a.fns[info.Defs[fd.Name]])
			}
		}
	}
	// pass 1: call graph, closures, which functions can start goroutines
	for i := 0; i < len(order); i++ { // closures are appended while walking
		fn := order[i]
		w := &walker{a: a, fn: fn, queue: &order, locals: map[types.Object]bool{}}
		w.collectLocals(fn.body)
		w.block(fn.body.List, LockSet{})
	}
	for changed := true; changed; {
		changed = false
		for _, fn := range order {
			if fn.spawns {
				continue
			}
			sp := fn.unknown
			for _, c := range fn.callees {
				sp = sp || c.spawns
			}
			if sp {
				fn.spawns, changed = true, true
			}
		}
	}
	// pass 2: the same walk again, now recording sites (prefix set-up needs the spawn information)
	a.sites = nil
	a.notes = nil
	for _, fn := range order {
		fn.calls = nil
		fn.goSites = nil
		fn.isGo = false
	}
	a.record = true
	for i := 0; i < len(order); i++ {
		fn := order[i]
		w := &walker{a: a, fn: fn, queue: &order, locals: map[types.Object]bool{}, prefix: prefixSetup[fn.name]}
		w.collectLocals(fn.body)
		w.block(fn.body.List, LockSet{})
	}
	for _, fn := range order {
		if !fn.isGo {
			continue
		}
		// confined only when started from exactly one place and never called directly or handed out
		if len(fn.goSites) == 1 && len(fn.calls) == 0 && !fn.root {
			fn.goLocks = fn.goSites[0]
		} else {
			fn.goLocks = LockSet{}
			a.notes = append(a.notes, "goroutine body also reachable otherwise, no confinement credited: "+fn.name)
		}
	}
	for _, fn := range order { // a closure nobody calls directly is handed out (returned / stored): callable from anywhere
		if fn.closure && !fn.isGo && len(fn.calls) == 0 {
			fn.root = true
		}
	}
	// entry locks: fixpoint
	for _, fn := range order {
		if fn.root {
			fn.entry, fn.top = LockSet{}, false
		}
		if fn.isGo {
			fn.entry, fn.top = fn.goLocks.clone(), false
		}
	}
	for changed := true; changed; {
		changed = false
		for _, fn := range order {
			if fn.root || fn.isGo {
				continue
			}
			cur, top := LockSet(nil), true
			for _, cs := range fn.calls {
				if cs.caller.top {
					continue
				}
				at := union(cs.held, cs.caller.entry)
				cur, top = meet(cur, at, top, false)
			}
			if top != fn.top || !sameSet(cur, fn.entry) {
				fn.entry, fn.top = cur, top
				changed = true
			}
		}
	}
	// final lock sets
	var out []*Site
	for _, s := range a.sites {
		if s.fn.top {
			a.notes = append(a.notes, "unreachable (no call site found): "+s.fn.name+" "+s.Pos)
			continue
		}
		all := union(s.local, s.fn.entry)
		s.Locks = map[string]Mode{}
		locStruct := strings.SplitN(s.Loc, ".", 2)[0]
		for k, v := range all {
			if strings.HasPrefix(k, "go:") { // pseudo-lock of a goroutine: only for locations of its own object
				if strings.SplitN(k, ":", 3)[1] != locStruct {
					continue
				}
			}
			s.Locks[k] = v
		}
		s.ID = len(out)
		out = append(out, s)
	}
	writeCoq(os.Args[2], out, a.notes)
	if len(os.Args) > 3 {
		b, _ := json.MarshalIndent(map[string]interface{}{"sites": out, "notes": a.notes, "single_instance": singleInstance}, "", " ")
		os.WriteFile(os.Args[3], b, 0o644)
	}
	fmt.Printf("vaccess: %d sites, %d functions\n", len(out), len(order))
}

func fatal(err error) {
	fmt.Fprintln(os.Stderr, "vaccess:", err)
	os.Exit(1)
}

func sameSet(a, b LockSet) bool {
	if len(a) != len(b) {
		return false
	}
	for k, v := range a {
		if b[k] != v {
			return false
		}
	}
	return true
}

func recvName(e ast.Expr) string {
	switch t := e.(type) {
	case *ast.StarExpr:
		return recvName(t.X)
	case *ast.Ident:
		return t.Name
	case *ast.IndexExpr:
		return recvName(t.X)
	}
	return "?"
}

// ---------------------------------------------------------------- walking
type walker struct {
	a      *analyzer
	fn     *Fn
	queue  *[]*Fn
	locals map[types.Object]bool // local variables initialised by a composite literal / new: object under construction
	litN   int
	prefix bool // still in the set-up prefix of a prefixSetup function
}

func (w *walker) collectLocals(body *ast.BlockStmt) {
	ast.Inspect(body, func(n ast.Node) bool {
		as, ok := n.(*ast.AssignStmt)
		if !ok || as.Tok != token.DEFINE {
			return true
		}
		for i, lhs := range as.Lhs {
			id, ok := lhs.(*ast.Ident)
			if !ok || i >= len(as.Rhs) {
				continue
			}
			if isConstruction(as.Rhs[i]) {
				if obj := w.a.info.Defs[id]; obj != nil {
					w.locals[obj] = true
				}
			}
		}
		return true
	})
}

func isConstruction(e ast.Expr) bool {
	switch t := e.(type) {
	case *ast.UnaryExpr:
		if t.Op == token.AND {
			_, ok := t.X.(*ast.CompositeLit)
			return ok
		}
	case *ast.CompositeLit:
		return true
	case *ast.CallExpr:
		if id, ok := t.Fun.(*ast.Ident); ok && id.Name == "new" {
			return true
		}
	}
	return false
}

func terminates(stmts []ast.Stmt) bool {
	if len(stmts) == 0 {
		return false
	}
	switch t := stmts[len(stmts)-1].(type) {
	case *ast.ReturnStmt:
		return true
	case *ast.BranchStmt:
		return t.Tok == token.CONTINUE || t.Tok == token.BREAK || t.Tok == token.GOTO
	case *ast.ExprStmt:
		if c, ok := t.X.(*ast.CallExpr); ok {
			if id, ok := c.Fun.(*ast.Ident); ok && id.Name == "panic" {
				return true
			}
		}
	case *ast.BlockStmt:
		return terminates(t.List)
	}
	return false
}

// block walks statements in order and returns the lock set after them.
func (w *walker) block(stmts []ast.Stmt, held LockSet) LockSet {
	held = held.clone()
	for _, st := range stmts {
		held = w.stmt(st, held)
	}
	return held
}

func (w *walker) branches(held LockSet, bodies [][]ast.Stmt, fallthroughPossible bool) LockSet {
	var res LockSet
	top := true
	for _, b := range bodies {
		after := w.block(b, held)
		if !terminates(b) {
			res, top = meet(res, after, top, false)
		}
	}
	if fallthroughPossible {
		res, top = meet(res, held, top, false)
	}
	if top {
		return held.clone()
	}
	return res
}

func (w *walker) stmt(st ast.Stmt, held LockSet) LockSet {
	switch s := st.(type) {
	case nil:
		return held
	case *ast.ExprStmt:
		if lock, mode, acquire, ok := w.lockOp(s.X); ok {
			held = held.clone()
			if acquire {
				held[lock] = mode
			} else {
				delete(held, lock)
			}
			return held
		}
		w.expr(s.X, held, false)
	case *ast.AssignStmt:
		for _, r := range s.Rhs {
			w.expr(r, held, false)
		}
		for _, l := range s.Lhs {
			w.expr(l, held, true)
		}
		// closure bound to a local variable
		if len(s.Lhs) == len(s.Rhs) {
			for i := range s.Lhs {
				if lit, ok := s.Rhs[i].(*ast.FuncLit); ok {
					if id, ok := s.Lhs[i].(*ast.Ident); ok {
						obj := w.a.info.Defs[id]
						if obj == nil {
							obj = w.a.info.Uses[id]
						}
						if fn := w.a.lits[lit]; fn != nil && obj != nil {
							fn.root = false
							w.a.fns[obj] = fn
						}
					}
				}
			}
		}
	case *ast.IncDecStmt:
		w.expr(s.X, held, true)
	case *ast.DeclStmt:
		if gd, ok := s.Decl.(*ast.GenDecl); ok {
			for _, sp := range gd.Specs {
				if vs, ok := sp.(*ast.ValueSpec); ok {
					for _, v := range vs.Values {
						w.expr(v, held, false)
					}
				}
			}
		}
	case *ast.GoStmt:
		w.goStmt(s, held)
	case *ast.DeferStmt:
		if _, _, _, ok := w.lockOp(s.Call); ok {
			return held // deferred unlock: held to the end of the function
		}
		if lit, ok := s.Call.Fun.(*ast.FuncLit); ok {
			for _, arg := range s.Call.Args {
				w.expr(arg, held, false)
			}
			w.block(lit.Body.List, LockSet{}) // runs at function exit: the function's own locks may be gone
		} else {
			w.callExpr(s.Call, LockSet{})
		}
	case *ast.ReturnStmt:
		for _, r := range s.Results {
			w.expr(r, held, false)
		}
	case *ast.BlockStmt:
		return w.block(s.List, held)
	case *ast.IfStmt:
		held = w.stmt(s.Init, held)
		w.expr(s.Cond, held, false)
		bodies := [][]ast.Stmt{s.Body.List}
		ft := true
		if s.Else != nil {
			ft = false
			switch e := s.Else.(type) {
			case *ast.BlockStmt:
				bodies = append(bodies, e.List)
			default:
				bodies = append(bodies, []ast.Stmt{e})
			}
		}
		return w.branches(held, bodies, ft)
	case *ast.ForStmt:
		held = w.stmt(s.Init, held)
		if s.Cond != nil {
			w.expr(s.Cond, held, false)
		}
		w.block(s.Body.List, held)
		w.stmt(s.Post, held)
	case *ast.RangeStmt:
		w.expr(s.X, held, false)
		if s.Key != nil {
			w.expr(s.Key, held, s.Tok == token.ASSIGN)
		}
		if s.Value != nil {
			w.expr(s.Value, held, s.Tok == token.ASSIGN)
		}
		w.block(s.Body.List, held)
	case *ast.SwitchStmt:
		held = w.stmt(s.Init, held)
		if s.Tag != nil {
			w.expr(s.Tag, held, false)
		}
		return w.caseBodies(s.Body, held)
	case *ast.TypeSwitchStmt:
		held = w.stmt(s.Init, held)
		w.stmt(s.Assign, held)
		return w.caseBodies(s.Body, held)
	case *ast.SelectStmt:
		var bodies [][]ast.Stmt
		for _, c := range s.Body.List {
			cc := c.(*ast.CommClause)
			if cc.Comm != nil {
				w.stmt(cc.Comm, held)
			}
			bodies = append(bodies, cc.Body)
		}
		return w.branches(held, bodies, false)
	case *ast.SendStmt:
		w.expr(s.Chan, held, false)
		w.expr(s.Value, held, false)
	case *ast.LabeledStmt:
		return w.stmt(s.Stmt, held)
	case *ast.BranchStmt, *ast.EmptyStmt:
	default:
		w.a.notes = append(w.a.notes, fmt.Sprintf("statement kind not handled: %T at %s", st, w.pos(st.Pos())))
	}
	return held
}

func (w *walker) caseBodies(body *ast.BlockStmt, held LockSet) LockSet {
	var bodies [][]ast.Stmt
	hasDefault := false
	for _, c := range body.List {
		cc := c.(*ast.CaseClause)
		if cc.List == nil {
			hasDefault = true
		}
		for _, e := range cc.List {
			w.expr(e, held, false)
		}
		bodies = append(bodies, cc.Body)
	}
	return w.branches(held, bodies, !hasDefault)
}

func (w *walker) pos(p token.Pos) string {
	ps := w.a.fset.Position(p)
	return fmt.Sprintf("%s:%d", filepath.Base(ps.Filename), ps.Line)
}

// lockOp recognises X.Lock / RLock / Unlock / RUnlock on sync.Mutex / sync.RWMutex reachable from a package struct.
func (w *walker) lockOp(e ast.Expr) (lock string, mode Mode, acquire, ok bool) {
	call, isCall := e.(*ast.CallExpr)
	if !isCall {
		return
	}
	sel, isSel := call.Fun.(*ast.SelectorExpr)
	if !isSel {
		return
	}
	selection := w.a.info.Selections[sel]
	if selection == nil {
		return
	}
	f, isFunc := selection.Obj().(*types.Func)
	if !isFunc || f.Pkg() == nil || f.Pkg().Path() != "sync" {
		return
	}
	switch f.Name() {
	case "Lock":
		mode, acquire = 2, true
	case "RLock":
		mode, acquire = 1, true
	case "Unlock", "RUnlock":
	default:
		return
	}
	// which lock: field path from the package struct
	if inner, isInner := sel.X.(*ast.SelectorExpr); isInner {
		if s2 := w.a.info.Selections[inner]; s2 != nil && s2.Kind() == types.FieldVal {
			lock = w.fieldOwner(s2) + "." + s2.Obj().Name()
			return lock, mode, acquire, true
		}
	}
	// promoted through an embedded field: c.Lock()
	if len(selection.Index()) > 1 {
		st := structOf(selection.Recv())
		if st != nil {
			lock = typeName(selection.Recv()) + "." + st.Field(selection.Index()[0]).Name()
			return lock, mode, acquire, true
		}
	}
	if id, isId := sel.X.(*ast.Ident); isId { // package-level or local mutex variable
		return "var." + id.Name, mode, acquire, true
	}
	return
}

func structOf(t types.Type) *types.Struct {
	if p, ok := t.(*types.Pointer); ok {
		t = p.Elem()
	}
	s, _ := t.Underlying().(*types.Struct)
	return s
}
func typeName(t types.Type) string {
	if p, ok := t.(*types.Pointer); ok {
		t = p.Elem()
	}
	if n, ok := t.(*types.Named); ok {
		return n.Obj().Name()
	}
	return t.String()
}

// fieldOwner: name of the struct that declares the selected field (following embedding).
func (w *walker) fieldOwner(s *types.Selection) string {
	t := s.Recv()
	idx := s.Index()
	for i := 0; i < len(idx)-1; i++ {
		st := structOf(t)
		if st == nil {
			break
		}
		t = st.Field(idx[i]).Type()
	}
	return typeName(t)
}

func syncSafe(t types.Type) bool {
	s := t.String()
	for _, p := range []string{"sync.Mutex", "sync.RWMutex", "sync.Once", "sync.WaitGroup", "sync.Pool", "sync.Map", "sync/atomic."} {
		if strings.Contains(s, p) {
			return true
		}
	}
	return false
}

func (w *walker) site(loc string, write, atomic, init bool, held LockSet, p token.Pos) {
	w.a.sites = append(w.a.sites, &Site{Loc: loc, Write: write, Atomic: atomic, Init: init || w.fn.setup || w.prefix, local: held.clone(), fn: w.fn, Func: w.fn.name, Pos: w.pos(p)})
}

func (w *walker) baseIsLocalConstruction(e ast.Expr) bool {
	for {
		switch t := e.(type) {
		case *ast.SelectorExpr:
			e = t.X
		case *ast.IndexExpr:
			e = t.X
		case *ast.StarExpr:
			e = t.X
		case *ast.ParenExpr:
			e = t.X
		case *ast.Ident:
			obj := w.a.info.Uses[t]
			return obj != nil && w.locals[obj]
		default:
			return false
		}
	}
}

// expr records the accesses in e; write = e is assigned to.
func (w *walker) expr(e ast.Expr, held LockSet, write bool) {
	switch t := e.(type) {
	case nil:
	case *ast.SelectorExpr:
		if s := w.a.info.Selections[t]; s != nil && s.Kind() == types.FieldVal {
			owner := w.fieldOwner(s)
			if w.a.structs[owner] && !syncSafe(s.Obj().Type()) {
				w.site(owner+"."+s.Obj().Name(), write, false, w.baseIsLocalConstruction(t.X), held, t.Sel.Pos())
			}
		} else if s == nil { // package-level variable of this or another package
			if v, ok := w.a.info.Uses[t.Sel].(*types.Var); ok && !v.IsField() && v.Pkg() != nil && v.Parent() == v.Pkg().Scope() && !syncSafe(v.Type()) {
				w.site(v.Pkg().Name()+"."+v.Name(), write, false, false, held, t.Sel.Pos())
			}
		} else if s.Kind() == types.MethodVal {
			if f, ok := s.Obj().(*types.Func); ok { // method value used as a callback
				w.reference(f, s)
			}
		}
		w.expr(t.X, held, false)
	case *ast.Ident:
		if v, ok := w.a.info.Uses[t].(*types.Var); ok && !v.IsField() && v.Pkg() == w.a.pkg && v.Parent() == w.a.pkg.Scope() && !syncSafe(v.Type()) {
			w.site(w.a.pkg.Name()+"."+v.Name(), write, false, false, held, t.Pos())
		}
		if f, ok := w.a.info.Uses[t].(*types.Func); ok {
			if fn := w.a.fns[f]; fn != nil { // function used as a value
				fn.root = true
			}
		}
	case *ast.IndexExpr:
		w.expr(t.X, held, write) // m[k] = v writes the map; a[i] = v writes the slice's memory (conservative)
		w.expr(t.Index, held, false)
	case *ast.StarExpr:
		w.expr(t.X, held, false)
	case *ast.ParenExpr:
		w.expr(t.X, held, write)
	case *ast.UnaryExpr:
		if t.Op == token.AND {
			w.expr(t.X, held, true) // address taken: whoever gets it may write
			return
		}
		w.expr(t.X, held, false)
	case *ast.BinaryExpr:
		w.expr(t.X, held, false)
		w.expr(t.Y, held, false)
	case *ast.CallExpr:
		w.callExpr(t, held)
	case *ast.CompositeLit:
		for _, el := range t.Elts {
			if kv, ok := el.(*ast.KeyValueExpr); ok {
				w.expr(kv.Value, held, false)
			} else {
				w.expr(el, held, false)
			}
		}
	case *ast.FuncLit:
		// a closure that is neither called on the spot nor started as a goroutine: a callback, no locks known
		fn := w.closure(t, "callback")
		fn.root = true
	case *ast.SliceExpr:
		w.expr(t.X, held, false)
		w.expr(t.Low, held, false)
		w.expr(t.High, held, false)
		w.expr(t.Max, held, false)
	case *ast.TypeAssertExpr:
		w.expr(t.X, held, false)
	case *ast.KeyValueExpr:
		w.expr(t.Value, held, false)
	case *ast.BasicLit, *ast.ArrayType, *ast.MapType, *ast.ChanType, *ast.FuncType, *ast.InterfaceType, *ast.StructType, *ast.Ellipsis:
	default:
		w.a.notes = append(w.a.notes, fmt.Sprintf("expression kind not handled: %T at %s", e, w.pos(e.Pos())))
	}
}

func (w *walker) reference(f *types.Func, s *types.Selection) {
	if fn := w.a.fns[f]; fn != nil {
		fn.root = true
		return
	}
	// interface method value: every implementation
	for _, fn := range w.a.implementations(f.Name()) {
		fn.root = true
	}
}

func (a *analyzer) implementations(method string) []*Fn {
	var r []*Fn
	for obj, fn := range a.fns {
		if f, ok := obj.(*types.Func); ok && f.Name() == method && fn.recv != "" {
			r = append(r, fn)
		}
	}
	return r
}

func (w *walker) closure(lit *ast.FuncLit, kind string) *Fn {
	if fn := w.a.lits[lit]; fn != nil {
		return fn
	}
	w.litN++
	fn := &Fn{name: fmt.Sprintf("%s.%s%d", w.fn.name, kind, w.litN), recv: w.fn.recv, body: lit.Body, top: true,
		setup: (w.fn.setup || w.fn.option) && kind != "go", closure: true}
	if kind == "go" {
		w.fn.spawns = true
	}
	w.a.lits[lit] = fn
	*w.queue = append(*w.queue, fn)
	return fn
}

func (w *walker) goStmt(s *ast.GoStmt, held LockSet) {
	w.prefix = false
	w.fn.spawns = true
	for _, arg := range s.Call.Args {
		w.expr(arg, held, false)
	}
	callee := "lit"
	var target []*Fn
	switch f := s.Call.Fun.(type) {
	case *ast.FuncLit:
		target = []*Fn{w.closure(f, "go")}
	case *ast.SelectorExpr:
		callee = f.Sel.Name
		w.expr(f.X, held, false)
		if sel := w.a.info.Selections[f]; sel != nil {
			if fo, ok := sel.Obj().(*types.Func); ok {
				if fn := w.a.fns[fo]; fn != nil {
					target = []*Fn{fn}
				} else {
					target = w.a.implementations(fo.Name())
				}
			}
		}
	case *ast.Ident:
		callee = f.Name
		if fo, ok := w.a.info.Uses[f].(*types.Func); ok {
			if fn := w.a.fns[fo]; fn != nil {
				target = []*Fn{fn}
			}
		}
	}
	key := w.fn.name + " -> " + callee
	// strip closure suffixes of the enclosing function name for the table lookup: "(*tcpConn).OnPacket.callback1" -> "(*tcpConn).OnPacket"
	base := w.fn.name
	if i := strings.Index(base[strings.Index(base, ")")+1:], "."); i >= 0 {
		rest := base[strings.Index(base, ")")+1:]
		if j := strings.Index(rest[1:], "."); j >= 0 {
			base = base[:strings.Index(base, ")")+1] + rest[:j+1]
		}
		_ = i
	}
	key = base + " -> " + callee
	locks := LockSet{}
	if _, ok := singleInstance[key]; ok {
		locks["go:"+w.fn.recv+":"+key] = 2
	} else {
		w.a.notes = append(w.a.notes, "goroutine without single-instance entry: "+key+" at "+w.pos(s.Pos()))
	}
	for _, fn := range target {
		fn.goSites = append(fn.goSites, locks)
		fn.isGo = true
	}
}

func (w *walker) callExpr(c *ast.CallExpr, held LockSet) {
	// sync/atomic on a field
	if sel, ok := c.Fun.(*ast.SelectorExpr); ok {
		if id, ok := sel.X.(*ast.Ident); ok {
			if pn, ok := w.a.info.Uses[id].(*types.PkgName); ok && pn.Imported().Path() == "sync/atomic" {
				for i, arg := range c.Args {
					if u, ok := arg.(*ast.UnaryExpr); ok && i == 0 && u.Op == token.AND {
						if fs, ok := u.X.(*ast.SelectorExpr); ok {
							if s := w.a.info.Selections[fs]; s != nil && s.Kind() == types.FieldVal && w.a.structs[w.fieldOwner(s)] {
								w.a.sites = append(w.a.sites, &Site{Loc: w.fieldOwner(s) + "." + s.Obj().Name(), Write: !strings.HasPrefix(sel.Sel.Name, "Load"), Atomic: true,
									Init: w.fn.setup || w.prefix, local: held.clone(), fn: w.fn, Func: w.fn.name, Pos: w.pos(fs.Pos())})
								w.expr(fs.X, held, false)
								continue
							}
						}
					}
					w.expr(arg, held, false)
				}
				return
			}
		}
	}
	// builtins that write their first argument
	if id, ok := c.Fun.(*ast.Ident); ok {
		if _, isBuiltin := w.a.info.Uses[id].(*types.Builtin); isBuiltin {
			for i, arg := range c.Args {
				w.expr(arg, held, i == 0 && (id.Name == "delete" || id.Name == "close" && false || id.Name == "copy"))
			}
			return
		}
	}
	for _, arg := range c.Args {
		if lit, ok := arg.(*ast.FuncLit); ok {
			// sync.Once.Do(func) runs the closure synchronously in the caller
			if sel, ok := c.Fun.(*ast.SelectorExpr); ok && sel.Sel.Name == "Do" {
				if s := w.a.info.Selections[sel]; s != nil {
					if f, ok := s.Obj().(*types.Func); ok && f.Pkg() != nil && f.Pkg().Path() == "sync" {
						w.block(lit.Body.List, held)
						continue
					}
				}
			}
		}
		w.expr(arg, held, false)
	}
	switch f := c.Fun.(type) {
	case *ast.FuncLit: // called on the spot
		w.block(f.Body.List, held)
	case *ast.Ident:
		obj := w.a.info.Uses[f]
		if fn := w.a.fns[obj]; fn != nil {
			w.called(fn, held)
		} else if v, ok := obj.(*types.Var); ok && v != nil {
			if _, isSig := v.Type().Underlying().(*types.Signature); isSig && !strings.HasSuffix(typeName(v.Type()), "Option") {
				w.calledUnknown() // a function value (applying an ...Option only runs the set-up closures analysed above)
			}
		}
	case *ast.SelectorExpr:
		sel := w.a.info.Selections[f]
		if sel == nil { // qualified identifier pkg.F
			w.expr(f, held, false)
			return
		}
		if sel.Kind() == types.FieldVal { // call of a func-typed field (callback stored in a struct)
			w.expr(f, held, false)
			w.calledUnknown()
			return
		}
		w.expr(f.X, held, false)
		fo, _ := sel.Obj().(*types.Func)
		if fo == nil {
			return
		}
		if fn := w.a.fns[fo]; fn != nil {
			w.called(fn, held)
		} else if _, isIface := sel.Recv().Underlying().(*types.Interface); isIface {
			impls := w.a.implementations(fo.Name())
			for _, fn := range impls {
				w.called(fn, held)
			}
			if len(impls) == 0 && fo.Pkg() == w.a.pkg {
				w.calledUnknown()
			}
		} else if _, isSig := sel.Recv().Underlying().(*types.Signature); isSig && fo.Pkg() == w.a.pkg {
			w.calledUnknown() // method on a func type of this package (DialConnFunc.Dial calls the function value)
		}
		// single-reader / single-writer state of a gorilla connection held in a field
		if fo.Pkg() != nil && strings.HasSuffix(fo.Pkg().Path(), "gorilla/websocket") && typeName(sel.Recv()) == "Conn" {
			if inner, ok := f.X.(*ast.SelectorExpr); ok {
				if s2 := w.a.info.Selections[inner]; s2 != nil && s2.Kind() == types.FieldVal {
					base := w.fieldOwner(s2) + "." + s2.Obj().Name()
					ini := w.baseIsLocalConstruction(inner.X)
					if wsWriter[fo.Name()] {
						w.site(base+"#writer", true, false, ini, held, f.Sel.Pos())
					}
					if wsReader[fo.Name()] {
						w.site(base+"#reader", true, false, ini, held, f.Sel.Pos())
					}
				}
			}
		}
	default:
		w.expr(c.Fun, held, false)
	}
}

func (w *walker) called(fn *Fn, held LockSet) {
	fn.calls = append(fn.calls, CallSite{w.fn, held.clone()})
	w.fn.callees = append(w.fn.callees, fn)
	if fn.spawns {
		w.prefix = false
	}
}

func (w *walker) calledUnknown() {
	w.fn.unknown = true
	w.prefix = false
}

// ---------------------------------------------------------------- output
func writeCoq(path string, sites []*Site, notes []string) {
	locs, locks := map[string]int{}, map[string]int{}
	var locNames, lockNames []string
	for _, s := range sites {
		if _, ok := locs[s.Loc]; !ok {
			locs[s.Loc] = len(locNames)
			locNames = append(locNames, s.Loc)
		}
		var ks []string
		for k := range s.Locks {
			ks = append(ks, k)
		}
		sort.Strings(ks)
		for _, k := range ks {
			if _, ok := locks[k]; !ok {
				locks[k] = len(lockNames)
				lockNames = append(lockNames, k)
			}
		}
	}
	var b strings.Builder
	b.WriteString("(* GENERATED by harness/cmd/vaccess from /repo/go/client - do not edit. *)\nFrom Coq Require Import List String.\nFrom OAP Require Import Model.Races.\nImport ListNotations.\nLocal Open Scope string_scope.\n\n")
	b.WriteString("Definition loc_names : list string := [\n")
	for i, n := range locNames {
		fmt.Fprintf(&b, "  %q%s\n", n, sep(i, len(locNames)))
	}
	b.WriteString("].\nDefinition lock_names : list string := [\n")
	for i, n := range lockNames {
		fmt.Fprintf(&b, "  %q%s\n", n, sep(i, len(lockNames)))
	}
	b.WriteString("].\nDefinition site_pos : list string := [\n")
	for i, s := range sites {
		fmt.Fprintf(&b, "  %q%s\n", fmt.Sprintf("%s %s %s", s.Pos, s.Func, s.Loc), sep(i, len(sites)))
	}
	b.WriteString("].\nDefinition inventory : list site := [\n")
	for i, s := range sites {
		var ks []string
		for k := range s.Locks {
			ks = append(ks, k)
		}
		sort.Strings(ks)
		var ls []string
		for _, k := range ks {
			m := "MR"
			if s.Locks[k] == 2 {
				m = "MW"
			}
			ls = append(ls, fmt.Sprintf("(%d, %s)", locks[k], m))
		}
		fmt.Fprintf(&b, "  mkSite %d %d %v %v %v [%s]%s\n", s.ID, locs[s.Loc], s.Write, s.Atomic, s.Init, strings.Join(ls, "; "), sep(i, len(sites)))
	}
	b.WriteString("].\n")
	for _, n := range notes {
		fmt.Fprintf(&b, "(* note: %s *)\n", strings.ReplaceAll(strings.ReplaceAll(n, "*)", "* )"), "(*", "( *"))
	}
	if err := os.WriteFile(path, []byte(b.String()), 0o644); err != nil {
		fatal(err)
	}
}

func sep(i, n int) string {
	if i == n-1 {
		return ""
	}
	return ";"
}

// ---------------------------------------------------------------- channel operations (Gen/Chans.v)
// Every send and receive of the package with the form it is written in: a plain (blocking) operation, a case of a
// select that has a default clause (never blocks), or a case of a select without default (blocks until one of the
// listed alternatives is ready). The models take "Write never blocks", "the reader never blocks on a full queue",
// "an idle dispatcher / writer wakes up when the connection closes" from here.
type ChanOp struct {
	Func string
	Chan string
	Send bool
	Form string   // CFPlain | CFSelectDefault | CFSelectOthers
	Alts []string // the other communications of the same select
	Pos  string
}

func chanName(info *types.Info, e ast.Expr) string {
	switch x := e.(type) {
	case *ast.SelectorExpr:
		if sel, ok := info.Selections[x]; ok {
			t := sel.Recv()
			if p, ok := t.(*types.Pointer); ok {
				t = p.Elem()
			}
			if n, ok := t.(*types.Named); ok {
				return n.Obj().Name() + "." + x.Sel.Name
			}
		}
		return types.ExprString(e)
	case *ast.CallExpr:
		return types.ExprString(x.Fun) + "()"
	case *ast.ParenExpr:
		return chanName(info, x.X)
	}
	return types.ExprString(e)
}

// commOf returns (channel, isSend, ok) of a statement that is a channel communication.
func commOf(info *types.Info, st ast.Stmt) (string, bool, bool) {
	switch x := st.(type) {
	case *ast.SendStmt:
		return chanName(info, x.Chan), true, true
	case *ast.ExprStmt:
		if u, ok := x.X.(*ast.UnaryExpr); ok && u.Op == token.ARROW {
			return chanName(info, u.X), false, true
		}
	case *ast.AssignStmt:
		if len(x.Rhs) == 1 {
			if u, ok := x.Rhs[0].(*ast.UnaryExpr); ok && u.Op == token.ARROW {
				return chanName(info, u.X), false, true
			}
		}
	}
	return "", false, false
}

func chanOps(fset *token.FileSet, files []*ast.File, info *types.Info) []ChanOp {
	var ops []ChanOp
	for _, f := range files {
		for _, d := range f.Decls {
			fd, ok := d.(*ast.FuncDecl)
			if !ok || fd.Body == nil {
				continue
			}
			fname := fd.Name.Name
			if fd.Recv != nil && len(fd.Recv.List) == 1 {
				fname = "(" + recvName(fd.Recv.List[0].Type) + ")." + fd.Name.Name
			}
			inSelect := map[ast.Stmt]bool{}
			ast.Inspect(fd.Body, func(n ast.Node) bool {
				sel, ok := n.(*ast.SelectStmt)
				if !ok {
					return true
				}
				hasDefault := false
				var comms []ast.Stmt
				for _, c := range sel.Body.List {
					cc := c.(*ast.CommClause)
					if cc.Comm == nil {
						hasDefault = true
					} else {
						comms = append(comms, cc.Comm)
						inSelect[cc.Comm] = true
					}
				}
				for i, c := range comms {
					ch, send, ok := commOf(info, c)
					if !ok {
						continue
					}
					var alts []string
					for j, o := range comms {
						if j != i {
							if och, _, ok := commOf(info, o); ok {
								alts = append(alts, och)
							}
						}
					}
					form := "CFSelectOthers"
					if hasDefault {
						form = "CFSelectDefault"
					}
					p := fset.Position(c.Pos())
					ops = append(ops, ChanOp{fname, ch, send, form, alts, fmt.Sprintf("%s:%d", filepath.Base(p.Filename), p.Line)})
				}
				return true
			})
			// everything else: a send statement or a receive expression anywhere (statement, assignment, call argument, ...)
			inComm := map[ast.Node]bool{}
			for st := range inSelect {
				inComm[st] = true
				switch x := st.(type) {
				case *ast.ExprStmt:
					inComm[x.X] = true
				case *ast.AssignStmt:
					if len(x.Rhs) == 1 {
						inComm[x.Rhs[0]] = true
					}
				}
			}
			ast.Inspect(fd.Body, func(n ast.Node) bool {
				if n == nil || inComm[n] {
					return true
				}
				switch x := n.(type) {
				case *ast.SendStmt:
					p := fset.Position(x.Pos())
					ops = append(ops, ChanOp{fname, chanName(info, x.Chan), true, "CFPlain", nil, fmt.Sprintf("%s:%d", filepath.Base(p.Filename), p.Line)})
				case *ast.UnaryExpr:
					if x.Op == token.ARROW {
						p := fset.Position(x.Pos())
						ops = append(ops, ChanOp{fname, chanName(info, x.X), false, "CFPlain", nil, fmt.Sprintf("%s:%d", filepath.Base(p.Filename), p.Line)})
					}
				case *ast.RangeStmt:
					if t, ok := info.Types[x.X]; ok {
						if _, isChan := t.Type.Underlying().(*types.Chan); isChan {
							p := fset.Position(x.Pos())
							ops = append(ops, ChanOp{fname, chanName(info, x.X), false, "CFPlain", nil, fmt.Sprintf("%s:%d", filepath.Base(p.Filename), p.Line)})
						}
					}
				}
				return true
			})
		}
	}
	sort.SliceStable(ops, func(i, j int) bool {
		if ops[i].Func != ops[j].Func {
			return ops[i].Func < ops[j].Func
		}
		return ops[i].Pos < ops[j].Pos
	})
	return ops
}

func writeChans(path string, ops []ChanOp) {
	var b strings.Builder
	b.WriteString("(* GENERATED by harness/cmd/vaccess from /repo/go/client - do not edit. *)\nFrom Coq Require Import List String Bool.\nFrom OAP Require Import Model.ChanForms.\nImport ListNotations.\nLocal Open Scope string_scope.\n\n")
	b.WriteString("Definition chan_ops : list chanop := [\n")
	for i, o := range ops {
		var alts []string
		for _, a := range o.Alts {
			alts = append(alts, fmt.Sprintf("%q", a))
		}
		fmt.Fprintf(&b, "  mkChanOp %q %q %v %s [%s]%s   (* %s *)\n", o.Func, o.Chan, o.Send, o.Form, strings.Join(alts, "; "), sep(i, len(ops)), o.Pos)
	}
	b.WriteString("].\n")
	old, _ := os.ReadFile(path)
	if string(old) != b.String() {
		if err := os.WriteFile(path, []byte(b.String()), 0o644); err != nil {
			fatal(err)
		}
	}
}
