"""Per-property configuration and evidence assembly."""
import os
import oap

KERNEL = ("Coq 8.16.1 kernel (Debian build, OCaml 4.13.1) incl. its vm_compute machine; no native_compute; "
          "full .vo build (no -vos/-vok)")
EXTRACTION = ("Coq extraction with ExtrOcamlBasic only (Extract Inductive bool/option/unit/list/prod/sumbool/sumor; "
              "no Extract Constant of ours), ocamlopt 4.13.1, ocaml/vmodel.ml (I/O only); cross-checked each run by "
              "vm_compute evaluation of a case sample inside Coq")
TRANSLATOR = "harness/cmd/vextract (Go): prints constants evaluated by the Go compiler into coq/Gen/Consts.v on every run"
HARNESS = ("harness/cmd/vharness (Go, built against /repo's working tree with -tags verif): generators, canonical "
           "printers, error-identity mapping, direct oracles")

NOT_APPLICABLE = {}

PROPS = {
    "C09": {
        "design_ref": "DESIGN.md section 6 (C09)",
        "projection": "marshalled bytes / decoded maps / Set,Get results",
        "mismatch_is_input": True,
        "level_text": "Canonical prefix (all lengths), decoder accepts exactly canonical untruncated blocks, totality, budget, whole-pairs/longest-fitting-prefix, round-trip with lower-cased keys, Set guards and determinism (independence from map iteration order) are Coq theorems over all byte strings / maps / budgets; the tie is a differential run incl. two exhaustive sub-sweeps (every string length 0..32768, every 2-byte prefix) plus an independent reference codec as direct oracle.",
        "level_note": "Trusted: kernel, translator (prefix constants come from the Go compiler), extraction, harness. Go map = strictly sorted association list; strings.ToLower modelled bytewise for pure-ASCII keys only (non-ASCII keys: budget/totality checked on the implementation, not compared with the model).",
        "assumptions": [
            "Go map[string]string is modelled as a strictly key-sorted association list; sort.Strings order = bytewise lexicographic order",
            "strings.ToLower = bytewise A-Z -> a-z on pure-ASCII keys (keys with bytes >= 0x80 are outside the compared domain)",
            "Go int is unbounded Z (64-bit platform)",
        ],
        "modelled": "go/metadata.go unmarshalStringLength, getString closure, UnmarshalValues, marshalString, MarshalValues, Set, Get",
    },
    "C18": {
        "design_ref": "DESIGN.md section 6 (C18)",
        "projection": "all",
        "mismatch_is_input": True,
        "assumptions": [
            "Go uint8 arithmetic is N modulo 256; | << >> & are N.lor/N.shiftl/N.shiftr/N.land",
            "the registry is read after the init functions of v1 and v2 ran (as in any program importing the client)",
        ],
        "level_text": "All clauses are Coq theorems over the whole finite domain (both directions of the bijection are complete 2^16 sweeps inside the kernel plus the all-lengths gate and the version gate); the model is tied to the code by an exhaustive differential run of the same 2^16+2^16 inputs, all lengths 0..6/255/256/65536 and all 256 versions, so for this property the tie is complete rather than sampled.",
        "level_note": "Trusted: Coq kernel + vm_compute, the constant translator, extraction/ocamlopt, the Go harness printers. Assumes Go uint8 semantics = N mod 256.",
        "modelled": "go/protocol.go Handshake.Pack/Unpack, GetProtocol; go/context.go Context.Handshake (hand-written Gallina mirror; tie = exhaustive differential run)",
    },
}


def coqchk(prop):
    rc, out, dt = oap.sh("coqchk -silent -o -Q . OAP OAP.Properties.%s" % prop, cwd=oap.COQ, timeout=3000)
    axioms = []
    grab = False
    for l in out.splitlines():
        if l.strip().startswith("* Axioms"):
            grab = True
            continue
        if grab:
            if l.strip().startswith("*"):
                grab = False
            elif l.strip():
                axioms.append(l.strip())
    return {"ok": rc == 0, "s": round(dt, 1), "axioms": axioms, "out": out[-3000:]}


def evidence(prop, cfg, tier, seed, wall, proof, stats, corr, viols, known_hits, problems, build):
    tb = [KERNEL,
          "Print Assumptions for every theorem of Properties/%s.v on this run: %s" % (
              prop, ("axioms: " + ", ".join(proof["assumptions"])) if proof["assumptions"]
              else "%d x 'Closed under the global context' (no axioms)" % proof.get("closed_count", 0)),
          TRANSLATOR, EXTRACTION, HARNESS,
          "modelled, not verified: " + cfg.get("modelled", "")]
    if proof.get("coqchk"):
        tb.append("coqchk -silent -o: %s; axioms reported: %s" % (
            "ok" if proof["coqchk"]["ok"] else "FAILED", ", ".join(proof["coqchk"]["axioms"]) or "none"))
    cov = {
        "obligations": proof["obligations"],
        "discharged": proof["discharged"],
        "checker_cmd": "make -f Makefile.coq -j16 (coqc 8.16.1, full .vo) && coqc -Q . OAP Properties/%s.v" % prop
                       + (" && coqchk -silent -o OAP.Properties.%s" % prop if proof.get("coqchk") else ""),
        "trusted_base": tb,
        "theorems": proof["theorems"],
        "evaluations": (stats or {}).get("evaluations", 0),
        "distinct_nontrivial": (stats or {}).get("distinct_nontrivial", 0),
        "rule": (stats or {}).get("rule", ""),
        "samples": (stats or {}).get("samples", []) or ["(no cases: harness did not run)"],
        "exhaustive": bool((stats or {}).get("exhaustive", False)),
        "input_distribution": (stats or {}).get("distribution", {}),
        "correspondence": {"cases_compared_model_vs_impl": corr.get("evaluations", 0),
                           "mismatches": len(corr.get("mismatches", [])),
                           "vm_compute_sample": corr.get("vm_sample")},
        "direct_oracle_violations": len(viols),
        "known_findings_seen": sorted(known_hits.keys()),
        "no_longer_checks": problems,
        "build_seconds": {k: v.get("s") for k, v in build["stages"].items()},
    }
    if (stats or {}).get("notes"):
        cov["notes"] = stats["notes"]
    return {
        "property_id": prop,
        "tier": tier,
        "seed": seed,
        "level": "proof",
        "coverage": cov,
        "assumptions": cfg.get("assumptions", []),
        "wall_s": round(wall, 1),
        "violations": len(viols) + (1 if problems and not viols else 0),
    }
